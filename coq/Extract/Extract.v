(* Extraction of the executable models to OCaml.  Only ExtrOcamlBasic's directives are used
   (bool, option, list, prod, unit, sumbool); nat, N, Z, positive, byte stay Coq datatypes.
   Run from /verif/ocaml/gen (coqc writes model.ml/model.mli into the current directory). *)
Require Extraction.
Require ExtrOcamlBasic.
From RPCX Require Select.RoundRobin Select.SWRR.
From RPCX Require Wire.Bytes Wire.Header Wire.Codec Wire.CodecSpec.
From RPCX Require Select.Simple Select.Jump Select.DoubleJump.
From RPCX Require XClient.Breaker.
From RPCX Require Client.ClientSM.
From RPCX Require XClient.FailMode XClient.Multi XClient.Discovery XClient.Backup XClient.Metadata.
From RPCX Require Server.Dispatch.
From RPCX Require Server.Gate.
From RPCX Require Pool.Pool.
From RPCX Require Server.Ingress Server.Gateway Server.StockPlugins.
From RPCX Require Server.Shutdown.
From RPCX Require Wire.Shared.
From RPCX Require E2E.Path.
Extraction Language OCaml.
Extraction "model.ml"
  RoundRobin.rr_new RoundRobin.rr_run
  SWRR.wrr_new SWRR.wrr_run
  Header.SetVersion Header.SetMessageType Header.SetHeartbeat Header.SetOneway Header.SetCompressType
  Header.SetMessageStatusType Header.SetSerializeType Header.SetSeq
  Header.Version Header.MessageType Header.IsHeartbeat Header.IsOneway Header.CompressType
  Header.MessageStatusType Header.SerializeType Header.Seq
  Codec.encode_pooled Codec.encode_stream Codec.encode_len Codec.decode Codec.decode_all Codec.fresh_obj
  CodecSpec.meta_lookup
  Simple.rnd_select Simple.create_geo Simple.geo_select
  Jump.jump Jump.hash_string DoubleJump.ch_new DoubleJump.ch_update DoubleJump.ch_select
  Breaker.b_run Breaker.b_init Breaker.xb_run
  ClientSM.run ClientSM.init ClientSM.new_call
  FailMode.xcall Backup.xcall_backup
  Multi.broadcast Multi.fork Multi.inform
  Discovery.drun Discovery.drain Discovery.filter_servers
  Metadata.filter_raw Metadata.weight_raw Metadata.keep_raw
  Dispatch.crun Dispatch.cinit Gate.grun Gate.ginit
  Pool.find_get Pool.find_put Pool.class_size Pool.last_class
  Ingress.serve
  StockPlugins.whitelist_admits StockPlugins.blacklist_admits StockPlugins.rate_run
  Gateway.http_to_req Gateway.gateway_front Gateway.jsonrpc_front Gateway.parse_query Gateway.atoi
  Shutdown.step Shutdown.init Shutdown.run Shutdown.writes Shutdown.is_open
  Shared.wrun
  Path.client_req Path.server_res Path.handler_view Path.caller_view.
