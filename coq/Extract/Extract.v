(* Extraction of the executable models to OCaml.  Only ExtrOcamlBasic's directives are used
   (bool, option, list, prod, unit, sumbool); nat, N, Z, positive, byte stay Coq datatypes.
   Run from /verif/ocaml/gen (coqc writes model.ml/model.mli into the current directory). *)
Require Extraction.
Require ExtrOcamlBasic.
From RPCX Require Select.RoundRobin Select.SWRR.
Extraction Language OCaml.
Extraction "model.ml"
  RoundRobin.rr_new RoundRobin.rr_run
  SWRR.wrr_new SWRR.wrr_run.
