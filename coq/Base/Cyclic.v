(* Cyclic cursors over a list: the shape shared by round-robin selection and by the
   weighted selector's ring (container/ring with a cursor).  Definitions + lemmas. *)
From Coq Require Import List Arith Lia Permutation.
Import ListNotations.

Section Cyclic.
Context {A : Type}.

(* the t-th selection from cursor value c over list l (length n > 0) *)
Definition cyc_nth (d : A) (l : list A) (c : nat) : A := nth (c mod length l) l d.

Definition window (d : A) (l : list A) (c len : nat) : list A :=
  map (cyc_nth d l) (seq c len).

Definition rot (k : nat) (l : list A) : list A := skipn k l ++ firstn k l.

Lemma rot_length k (l : list A) : length (rot k l) = length l.
Proof.
  unfold rot. rewrite app_length, skipn_length, firstn_length. lia.
Qed.

Lemma rot_perm k (l : list A) : Permutation (rot k l) l.
Proof.
  unfold rot. rewrite Permutation_app_comm. rewrite firstn_skipn. reflexivity.
Qed.

Lemma nth_skipn_ d k (l : list A) i : nth i (skipn k l) d = nth (k + i) l d.
Proof.
  revert l. induction k as [|k IH]; intros l; [reflexivity|].
  destruct l as [|x l]; [destruct i; reflexivity|]. simpl. apply IH.
Qed.

Lemma nth_firstn_ d k (l : list A) i : i < k -> nth i (firstn k l) d = nth i l d.
Proof.
  revert l i. induction k as [|k IH]; intros l i Hi; [lia|].
  destruct l as [|x l]; [reflexivity|]. destruct i as [|i]; [reflexivity|].
  simpl. apply IH. lia.
Qed.

Lemma nth_rot d k (l : list A) i :
  k <= length l -> i < length l ->
  nth i (rot k l) d = nth ((k + i) mod length l) l d.
Proof.
  intros Hk Hi. unfold rot.
  destruct (Nat.lt_ge_cases i (length l - k)) as [H|H].
  - rewrite app_nth1 by (rewrite skipn_length; lia).
    rewrite nth_skipn_. rewrite Nat.mod_small by lia. reflexivity.
  - rewrite app_nth2 by (rewrite skipn_length; lia).
    rewrite skipn_length.
    rewrite nth_firstn_ by lia.
    f_equal.
    replace (k + i) with ((i - (length l - k)) + 1 * length l) by lia.
    rewrite Nat.mod_add by lia. rewrite Nat.mod_small by lia. reflexivity.
Qed.

(* A window of length n over a list of length n is a rotation of the list *)
Lemma window_rot d (l : list A) c :
  length l <> 0 ->
  window d l c (length l) = rot (c mod length l) l.
Proof.
  intros Hn.
  assert (Hc : c mod length l < length l) by (apply Nat.mod_upper_bound; exact Hn).
  apply nth_ext with (d := d) (d' := d).
  - unfold window. rewrite map_length, seq_length, rot_length. reflexivity.
  - unfold window. rewrite map_length, seq_length. intros i Hi.
    rewrite nth_rot by lia.
    rewrite nth_indep with (d' := cyc_nth d l 0) by (rewrite map_length, seq_length; lia).
    rewrite map_nth. rewrite seq_nth by lia. unfold cyc_nth.
    f_equal. rewrite Nat.add_mod_idemp_l by exact Hn. reflexivity.
Qed.

Lemma window_congr d (l : list A) k : forall a b,
  length l <> 0 -> a mod length l = b mod length l -> window d l a k = window d l b k.
Proof.
  induction k as [|k IH]; intros a b Hn Hab; [reflexivity|].
  unfold window in *. cbn [seq map]. f_equal.
  - unfold cyc_nth. rewrite Hab. reflexivity.
  - apply IH; [exact Hn|].
    replace (S a) with (a + 1) by lia. replace (S b) with (b + 1) by lia.
    rewrite <- Nat.add_mod_idemp_l by exact Hn. rewrite Hab.
    rewrite Nat.add_mod_idemp_l by exact Hn. reflexivity.
Qed.

Lemma window_perm d (l : list A) c :
  length l <> 0 -> Permutation (window d l c (length l)) l.
Proof.
  intros Hn. rewrite window_rot by exact Hn. apply rot_perm.
Qed.

End Cyclic.
