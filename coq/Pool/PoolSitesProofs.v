(* Obligations on the paths regenerated from server/server.go (Pool/PoolSitesGen.v), and their tie to the hand model
   of Pool.v. *)
From Coq Require Import List Arith Bool String.
From RPCX Require Import Pool.Pool Pool.PoolProofs Pool.PoolSites Pool.PoolSitesGen.
Import ListNotations.

(* every syntactic path of handleRequest and handleRequestForFunction keeps the discipline *)
Theorem every_path_is_disciplined : forallb (fun p => disciplined 0 0 (snd p)) handler_paths = true.
Proof. vm_compute. reflexivity. Qed.

(* a disciplined path is well-bracketed in the sense of Pool.v *)
Lemma disciplined_bracketed : forall ops a r, disciplined a r ops = true -> bracketed a r (skeleton ops) = true.
Proof.
  induction ops as [|op ops IH]; intros a r H; [reflexivity|].
  destruct op; cbn [disciplined skeleton bracketed] in *;
    try (apply andb_true_iff in H; destruct H as [H1 H2]; rewrite ?H1; cbn [andb]; apply IH; exact H2).
Qed.

Theorem every_path_is_bracketed : forall name ops, In (name, ops) handler_paths -> bracketed 0 0 (skeleton ops) = true.
Proof.
  intros name ops Hin. apply disciplined_bracketed.
  pose proof every_path_is_disciplined as H. rewrite forallb_forall in H. exact (H (name, ops) Hin).
Qed.

(* the hand model of handleRequest's pool operations (Pool.handle_ops, for every outcome of the six conditions it
   depends on) is the skeleton of one of the regenerated paths: the model describes what the code does now *)
Theorem hand_model_is_a_generated_path :
  forallb (fun f => existsb (fun p => hops_eqb (handle_ops f) (skeleton (snd p))) handler_paths) all_flags = true.
Proof. vm_compute. reflexivity. Qed.

Lemma hops_eqb_eq : forall a b, hops_eqb a b = true -> a = b.
Proof.
  induction a as [|x a IH]; destruct b as [|y b]; cbn [hops_eqb]; intro H; try discriminate; [reflexivity|].
  apply andb_true_iff in H. destruct H as [H1 H2]. destruct x, y; try discriminate; f_equal; apply IH; exact H2.
Qed.

Lemma all_flags_complete : forall f, In f all_flags.
Proof. intros [[] [] [] [] [] []]; vm_compute; tauto. Qed.

Theorem handle_ops_is_generated : forall f, exists name ops, In (name, ops) handler_paths /\ handle_ops f = skeleton ops.
Proof.
  intro f. pose proof hand_model_is_a_generated_path as H. rewrite forallb_forall in H.
  specialize (H f (all_flags_complete f)). apply existsb_exists in H. destruct H as [[name ops] [Hin Heq]].
  exists name, ops. split; [exact Hin | apply hops_eqb_eq; exact Heq].
Qed.
