(* What the request handlers of server/server.go do with the argument and the reply object they take from
   reflectTypePools, one operation list per control-flow path (the lists themselves are regenerated from the source
   on every run: Pool/PoolSitesGen.v).  Definitions only. *)
From Coq Require Import List Arith Bool.
From RPCX Require Import Pool.Pool.
Import ListNotations.

Inductive gop := GGetArg | GGetReply | GPutArg | GPutReply | GUseArg | GUseReply.

(* the discipline on one path: an object is used and returned only while it is held, and returned at most once
   (0 = not taken yet, 1 = held, 2 = returned).  Not returning an object (an early error return) is allowed: the
   pool then allocates a new one. *)
Fixpoint disciplined (arg reply : nat) (ops : list gop) : bool :=
  match ops with
  | [] => true
  | GGetArg :: r => Nat.eqb arg 0 && disciplined 1 reply r
  | GGetReply :: r => Nat.eqb reply 0 && disciplined arg 1 r
  | GUseArg :: r => Nat.eqb arg 1 && disciplined arg reply r
  | GUseReply :: r => Nat.eqb reply 1 && disciplined arg reply r
  | GPutArg :: r => Nat.eqb arg 1 && disciplined 2 reply r
  | GPutReply :: r => Nat.eqb reply 1 && disciplined arg 2 r
  end.

(* forgetting the uses gives the get / put skeleton of Pool.v *)
Fixpoint skeleton (ops : list gop) : list hop :=
  match ops with
  | [] => []
  | GGetArg :: r => HGetArg :: skeleton r
  | GGetReply :: r => HGetReply :: skeleton r
  | GPutArg :: r => HPutArg :: skeleton r
  | GPutReply :: r => HPutReply :: skeleton r
  | _ :: r => skeleton r
  end.

Definition hop_eqb (a b : hop) : bool :=
  match a, b with
  | HGetArg, HGetArg | HGetReply, HGetReply | HPutArg, HPutArg | HPutReply, HPutReply => true
  | _, _ => false
  end.
Fixpoint hops_eqb (a b : list hop) : bool :=
  match a, b with
  | [], [] => true
  | x :: a', y :: b' => hop_eqb x y && hops_eqb a' b'
  | _, _ => false
  end.

Definition all_flags : list hflags :=
  flat_map (fun a => flat_map (fun b => flat_map (fun c => flat_map (fun d => flat_map (fun e =>
    map (fun f => mkHF a b c d e f) [true; false]) [true; false]) [true; false]) [true; false]) [true; false]) [true; false].
