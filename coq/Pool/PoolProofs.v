From Coq Require Import List NArith ZArith Arith Bool Lia Permutation ZifyN ZifyNat ZifyBool.
From RPCX Require Import Pool.Pool.
Import ListNotations.

(* ================= (1) size classes ================= *)
Open Scope N_scope.

Lemma least_class_spec fuel : forall i cur size, 0 < cur ->
  let r := least_class fuel i cur size in
  i <= r /\ (size <= cur * 2 ^ (r - i) \/ r = i + N.of_nat fuel) /\
  (forall j, i <= j < r -> cur * 2 ^ (j - i) < size).
Proof.
  induction fuel as [|f IH]; intros i cur size Hc; cbn [least_class].
  - split; [lia|]. split; [right; lia|]. intros j Hj. lia.
  - destruct (N.leb_spec size cur) as [H|H].
    + split; [lia|]. split; [left; rewrite N.sub_diag; cbn; lia|]. intros j Hj. lia.
    + destruct (IH (i + 1) (2 * cur) size ltac:(lia)) as (H1 & H2 & H3). cbv zeta in *.
      set (r := least_class f (i + 1) (2 * cur) size) in *.
      split; [lia|]. split.
      * destruct H2 as [H2|H2]; [left|right; lia].
        replace (r - i) with (N.succ (r - (i + 1))) by lia. rewrite N.pow_succ_r by lia. lia.
      * intros j Hj. destruct (N.eq_dec j i) as [->|Hne]; [rewrite N.sub_diag; cbn; lia|].
        specialize (H3 j ltac:(lia)).
        replace (j - i) with (N.succ (j - (i + 1))) by lia. rewrite N.pow_succ_r by lia. lia.
Qed.

Lemma greatest_class_spec fuel : forall i cur cap, 0 < cur -> cur <= cap ->
  let r := greatest_class fuel i cur cap in
  i <= r /\ cur * 2 ^ (r - i) <= cap.
Proof.
  induction fuel as [|f IH]; intros i cur cap Hc Hle; cbn [greatest_class].
  - split; [lia|]. rewrite N.sub_diag. cbn. lia.
  - destruct (N.leb_spec (2 * cur) cap) as [H|H].
    + destruct (IH (i + 1) (2 * cur) cap ltac:(lia) H) as (H1 & H2). cbv zeta in *.
      set (r := greatest_class f (i + 1) (2 * cur) cap) in *.
      split; [lia|]. replace (r - i) with (N.succ (r - (i + 1))) by lia. rewrite N.pow_succ_r by lia. lia.
    + split; [lia|]. rewrite N.sub_diag. cbn. lia.
Qed.

Lemma pow_bound (pmin x : N) : 0 < pmin -> x < 2 ^ 64 -> x <= pmin * 2 ^ 64.
Proof. intros. nia. Qed.

(* a request routed to class i fits in the buffers of class i *)
Theorem get_fits pmin pmax size i :
  0 < pmin -> pmin <= pmax -> pmax < 2 ^ 64 ->
  find_get pmin pmax size = Some i -> size <= class_size pmin pmax i.
Proof.
  intros Hmin Hle Hbig. unfold find_get, class_size.
  destruct (N.ltb_spec pmax size) as [|Hs]; [discriminate|].
  destruct (least_class_spec FUEL 0 pmin size Hmin) as (_ & H2 & _). cbv zeta in H2.
  set (k := least_class FUEL 0 pmin size) in *.
  destruct (N.ltb_spec (last_class pmin pmax) k) as [|Hk]; [discriminate|].
  intros H. injection H as <-.
  rewrite N.sub_0_r in H2.
  destruct H2 as [H2|H2].
  - apply N.min_glb; [exact H2|exact Hs].
  - rewrite H2. apply N.min_glb; [|exact Hs]. rewrite N.add_0_l.
    change (N.of_nat FUEL) with 64. apply pow_bound; [exact Hmin|lia].
Qed.

(* a buffer accepted into class i is at least as large as the buffers class i allocates *)
Theorem put_is_big_enough pmin pmax cap i :
  0 < pmin -> pmin <= pmax ->
  find_put pmin pmax cap = Some i -> class_size pmin pmax i <= cap.
Proof.
  intros Hmin Hle. unfold find_put, class_size.
  destruct (N.ltb_spec pmax cap) as [|Hc]; [discriminate|].
  destruct (N.ltb_spec cap pmin) as [|Hc2]; [discriminate|].
  destruct (N.ltb_spec (last_class pmin pmax) (greatest_class FUEL 0 pmin cap)) as [|Hk]; [discriminate|].
  intros H. injection H as <-.
  destruct (greatest_class_spec FUEL 0 pmin cap Hmin Hc2) as (_ & H2). cbv zeta in H2.
  rewrite N.sub_0_r in H2. apply N.le_trans with (pmin * 2 ^ greatest_class FUEL 0 pmin cap); [apply N.le_min_l|exact H2].
Qed.

(* hence: whatever buffer class i holds (freshly allocated: exactly class_size; put back: at least
   class_size), re-slicing it to a size routed to class i is legal and yields exactly that length *)
Corollary get_returns_requested_length pmin pmax size i bufcap :
  0 < pmin -> pmin <= pmax -> pmax < 2 ^ 64 ->
  find_get pmin pmax size = Some i -> class_size pmin pmax i <= bufcap -> size <= bufcap.
Proof. intros H1 H2 H3 Hg Hb. pose proof (get_fits pmin pmax size i H1 H2 H3 Hg). lia. Qed.

Close Scope N_scope.

(* ================= (2) exclusive ownership ================= *)
Definition all_ids (s : pstate) : list nat := p_free s ++ map fst (p_owned s).

Lemma NoDup_app_swap {A} (a b : list A) : NoDup (a ++ b) -> NoDup (b ++ a).
Proof. intros H. eapply Permutation_NoDup; [apply Permutation_app_comm|exact H]. Qed.

Lemma NoDup_app_r {A} (a b : list A) : NoDup (a ++ b) -> NoDup b.
Proof. induction a as [|x a IH]; cbn; intros H; [exact H|]. inversion H; auto. Qed.

Definition PInv (s : pstate) : Prop :=
  NoDup (all_ids s) /\ forall o, In o (all_ids s) -> o < p_next s.

Lemma remove_nth_perm {A} (l : list A) k x : nth_error l k = Some x -> Permutation l (x :: remove_nth k l).
Proof.
  revert k. induction l as [|y l IH]; intros [|k] H; cbn in *; try discriminate.
  - injection H as ->. reflexivity.
  - rewrite (IH k H) at 1. apply perm_swap.
Qed.

Lemma remove_pair_perm o w l : In (o, w) l -> Permutation l ((o, w) :: remove_pair o w l).
Proof.
  induction l as [|[o' w'] l IH]; intros H; [destruct H|]. cbn.
  destruct (Nat.eqb_spec o o') as [->|Ho], (Nat.eqb_spec w w') as [->|Hw]; cbn; try reflexivity;
    (destruct H as [H|H]; [injection H; intros; congruence|]);
    rewrite (IH H) at 1; apply perm_swap.
Qed.

Lemma pstep_inv s op : PInv s -> op_ok s op -> PInv (pstep s op).
Proof.
  intros [Hnd Hlt] Hok. unfold PInv, all_ids in *. destruct op as [w [k|]|w o]; cbn [pstep].
  - destruct (nth_error (p_free s) k) as [o|] eqn:E; cbn [p_free p_owned p_next map fst].
    + pose proof (remove_nth_perm _ _ _ E) as Hp.
      assert (HP : Permutation (p_free s ++ map fst (p_owned s)) (remove_nth k (p_free s) ++ o :: map fst (p_owned s))).
      { rewrite Hp at 1. cbn. apply Permutation_middle. }
      split; [eapply Permutation_NoDup; eauto|].
      intros x Hx. apply Hlt. eapply Permutation_in; [apply Permutation_sym, HP|exact Hx].
    + split.
      * apply NoDup_app_swap. cbn. constructor; [|apply NoDup_app_swap; exact Hnd].
        intros Hin. apply in_app_iff in Hin. specialize (Hlt (p_next s)).
        rewrite in_app_iff in Hlt. specialize (Hlt ltac:(tauto)). lia.
      * intros x Hx. apply in_app_iff in Hx. cbn in Hx.
        destruct Hx as [Hx|[<-|Hx]]; [|lia|]; (assert (x < p_next s) by (apply Hlt; apply in_app_iff; tauto); lia).
  - cbn [p_free p_owned p_next map fst]. split.
    + apply NoDup_app_swap. cbn. constructor; [|apply NoDup_app_swap; exact Hnd].
      intros Hin. apply in_app_iff in Hin. specialize (Hlt (p_next s)).
      rewrite in_app_iff in Hlt. specialize (Hlt ltac:(tauto)). lia.
    + intros x Hx. apply in_app_iff in Hx. cbn in Hx.
      destruct Hx as [Hx|[<-|Hx]]; [|lia|]; (assert (x < p_next s) by (apply Hlt; apply in_app_iff; tauto); lia).
  - cbn in Hok. cbn [p_free p_owned p_next].
    pose proof (remove_pair_perm o w (p_owned s) Hok) as Hp.
    assert (HP : Permutation (p_free s ++ map fst (p_owned s)) ((o :: p_free s) ++ map fst (remove_pair o w (p_owned s)))).
    { rewrite (Permutation_map fst Hp) at 1. cbn. symmetry. apply Permutation_middle. }
    split; [eapply Permutation_NoDup; eauto|].
    intros x Hx. apply Hlt. eapply Permutation_in; [apply Permutation_sym, HP|exact Hx].
Qed.

(* For every history of Gets and Puts that respects the discipline, and every choice the pool makes:
   no object is ever held by two owners, nor held by someone while it sits in the pool. *)
Theorem exclusive_ownership ops : forall s, PInv s -> prun_ok s ops -> PInv (prun s ops).
Proof.
  induction ops as [|op r IH]; intros s Hi Hok; [exact Hi|].
  cbn in Hok. destruct Hok as [H1 H2]. cbn [prun fold_left]. apply IH; [apply pstep_inv; assumption|exact H2].
Qed.

Lemma pinv_init : PInv p_init.
Proof. split; [constructor|intros o []]. Qed.

(* an object is held by at most one owner *)
Theorem single_owner ops o w1 w2 i j :
  prun_ok p_init ops ->
  nth_error (p_owned (prun p_init ops)) i = Some (o, w1) ->
  nth_error (p_owned (prun p_init ops)) j = Some (o, w2) -> i = j.
Proof.
  intros Hok H1 H2.
  destruct (exclusive_ownership ops p_init pinv_init Hok) as [Hnd _].
  unfold all_ids in Hnd. apply NoDup_app_r in Hnd.
  assert (E1 : nth_error (map fst (p_owned (prun p_init ops))) i = Some o) by (rewrite nth_error_map, H1; reflexivity).
  assert (E2 : nth_error (map fst (p_owned (prun p_init ops))) j = Some o) by (rewrite nth_error_map, H2; reflexivity).
  rewrite NoDup_nth_error in Hnd. apply Hnd; [|congruence].
  apply nth_error_Some. rewrite E1. discriminate.
Qed.

(* ================= (3) handleRequest keeps the discipline on every path ================= *)
Theorem handle_request_is_bracketed : forall f, bracketed 0 0 (handle_ops f) = true.
Proof. intros [[] [] [] [] [] []]; reflexivity. Qed.
