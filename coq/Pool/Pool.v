(* Models for C20.
   (1) util.LimitedPool: size classes, findPool / findPutPool in exact integer arithmetic (the Go code
       uses float64 Log2; the correspondence check compares the two exhaustively per configuration).
   (2) a generic pool with ownership: Get hands out a fresh object or any object that was put
       (sync.Pool: the choice is an oracle), Put returns it.
   (3) the Get/Put discipline of server.handleRequest on the pooled argument / reply objects.
   Definitions only. *)
From Coq Require Import List NArith Arith Bool.
Import ListNotations.

(* ---------- (1) size classes ---------- *)
Open Scope N_scope.

(* least i (from i0, with cur = min * 2^i0) such that size <= min * 2^i; fuel bounds the search *)
Fixpoint least_class (fuel : nat) (i cur size : N) : N :=
  match fuel with
  | O => i
  | S f => if size <=? cur then i else least_class f (i + 1) (2 * cur) size
  end.

(* greatest i (from i0, with cur = min * 2^i0 <= cap) such that min * 2^i <= cap *)
Fixpoint greatest_class (fuel : nat) (i cur cap : N) : N :=
  match fuel with
  | O => i
  | S f => if 2 * cur <=? cap then greatest_class f (i + 1) (2 * cur) cap else i
  end.

Definition FUEL : nat := 64.

(* index of the last pool: the first K with min * 2^K >= max (NewLimitedPool's loop) *)
Definition last_class (pmin pmax : N) : N := least_class FUEL 0 pmin pmax.

(* findPool(size): nil when size > max; ceil(log2(size/min)) clipped at 0; nil beyond the last pool *)
Definition find_get (pmin pmax size : N) : option N :=
  if pmax <? size then None
  else let i := least_class FUEL 0 pmin size in
       if last_class pmin pmax <? i then None else Some i.

(* findPutPool(cap): nil when cap > max or cap < min; floor(log2(cap/min)); nil beyond the last pool *)
Definition find_put (pmin pmax cap : N) : option N :=
  if pmax <? cap then None
  else if cap <? pmin then None
  else let i := greatest_class FUEL 0 pmin cap in
       if last_class pmin pmax <? i then None else Some i.

(* the size of the buffers class i allocates: min*2^i, the last class allocates max *)
Definition class_size (pmin pmax i : N) : N := N.min (pmin * 2 ^ i) pmax.

Close Scope N_scope.

(* ---------- (2) pool with ownership ---------- *)
Record pstate := mkP {
  p_free : list nat;               (* objects sitting in the pool (a bag) *)
  p_owned : list (nat * nat);      (* (object, owner): handed out and not yet returned *)
  p_next : nat }.                  (* next fresh object id *)

Definition p_init : pstate := mkP [] [] 0.

Inductive pop :=
  | PGet (owner : nat) (choice : option nat)   (* None: New(); Some k: the k-th pooled object *)
  | PPut (owner : nat) (obj : nat).

Fixpoint remove_nth {A} (k : nat) (l : list A) : list A :=
  match l, k with
  | [], _ => []
  | _ :: r, O => r
  | x :: r, S k' => x :: remove_nth k' r
  end.

Fixpoint remove_pair (o w : nat) (l : list (nat * nat)) : list (nat * nat) :=
  match l with
  | [] => []
  | (o', w') :: r => if Nat.eqb o o' && Nat.eqb w w' then r else (o', w') :: remove_pair o w r
  end.

Definition pstep (s : pstate) (op : pop) : pstate :=
  match op with
  | PGet w None => mkP (p_free s) ((p_next s, w) :: p_owned s) (S (p_next s))
  | PGet w (Some k) =>
    match nth_error (p_free s) k with
    | Some o => mkP (remove_nth k (p_free s)) ((o, w) :: p_owned s) (p_next s)
    | None => mkP (p_free s) ((p_next s, w) :: p_owned s) (S (p_next s))
    end
  | PPut w o => mkP (o :: p_free s) (remove_pair o w (p_owned s)) (p_next s)
  end.

(* the discipline: an owner puts back only what it holds *)
Definition op_ok (s : pstate) (op : pop) : Prop :=
  match op with
  | PGet _ _ => True
  | PPut w o => In (o, w) (p_owned s)
  end.

Fixpoint prun_ok (s : pstate) (ops : list pop) : Prop :=
  match ops with
  | [] => True
  | op :: r => op_ok s op /\ prun_ok (pstep s op) r
  end.

Definition prun (s : pstate) (ops : list pop) : pstate := fold_left pstep ops s.

(* ---------- (3) handleRequest's use of the pooled argument and reply objects ---------- *)
Record hflags := mkHF {
  hf_codec : bool;      (* codec found *)
  hf_decode : bool;     (* arguments decoded *)
  hf_precall : bool;    (* PreCall plugins passed *)
  hf_err : bool;        (* the call (or PostCall) failed *)
  hf_reply_nil : bool;  (* PostCall returned a nil reply *)
  hf_oneway : bool }.

Inductive hop := HGetArg | HGetReply | HPutArg | HPutReply.

Definition handle_ops (f : hflags) : list hop :=
  [HGetArg] ++
  if negb (hf_codec f) then [] else
  if negb (hf_decode f) then [] else
  [HGetReply] ++
  if negb (hf_precall f) then [HPutReply] else
  [HPutArg] ++
  if hf_err f then (if hf_reply_nil f then [] else [HPutReply])
  else if negb (hf_oneway f) then [HPutReply]
  else if hf_reply_nil f then [] else [HPutReply].

(* well-bracketed: an object is put only after it was got, and at most once *)
Fixpoint bracketed (arg reply : nat) (ops : list hop) : bool :=
  (* arg / reply: 0 = not held, 1 = held, 2 = returned *)
  match ops with
  | [] => true
  | HGetArg :: r => Nat.eqb arg 0 && bracketed 1 reply r
  | HGetReply :: r => Nat.eqb reply 0 && bracketed arg 1 r
  | HPutArg :: r => Nat.eqb arg 1 && bracketed 2 reply r
  | HPutReply :: r => Nat.eqb reply 1 && bracketed arg 2 r
  end.
