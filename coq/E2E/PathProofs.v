(* Proofs about the end-to-end data path (E2E/Path.v): arguments, replies and metadata arrive unchanged,
   and compression is invisible. *)
From Coq Require Import List NArith Arith Bool Lia.
From RPCX Require Import Wire.Bytes Wire.BytesProofs Wire.Header Wire.Codec Wire.CodecSpec Wire.CodecRoundTrip
  Wire.StreamProofs Wire.EncodeProofs E2E.Path.
Import ListNotations.
Open Scope N_scope.

(* ---------- header facts ---------- *)
Lemma hdr_ok_upd i v h : (0 < i)%nat -> hdr_ok h -> hdr_ok (upd i v h).
Proof.
  intros Hi [Hl Hm]. split; [now rewrite upd_length|].
  unfold byte_at in *. rewrite nth_upd_other by lia. exact Hm.
Qed.

Lemma byte3_upd2 v h : byte_at (upd 2 v h) 3 = byte_at h 3.
Proof. unfold byte_at. apply nth_upd_other. lia. Qed.

Lemma ser_upd2 v h : SerializeType (upd 2 v h) = SerializeType h.
Proof. unfold SerializeType. now rewrite byte3_upd2. Qed.

Lemma hdr_ok_SetMessageType h v : hdr_ok h -> hdr_ok (SetMessageType h v).
Proof. apply hdr_ok_upd. lia. Qed.
Lemma hdr_ok_SetCompressType h v : hdr_ok h -> hdr_ok (SetCompressType h v).
Proof. apply hdr_ok_upd. lia. Qed.
Lemma hdr_ok_SetSerializeType h v : hdr_ok h -> hdr_ok (SetSerializeType h v).
Proof. apply hdr_ok_upd. lia. Qed.
Lemma hdr_ok_SetOneway h b : hdr_ok h -> hdr_ok (SetOneway h b).
Proof. unfold SetOneway. destruct b; apply hdr_ok_upd; lia. Qed.

Lemma ser_SetMessageType h v : SerializeType (SetMessageType h v) = SerializeType h.
Proof. apply ser_upd2. Qed.
Lemma ser_SetCompressType h v : SerializeType (SetCompressType h v) = SerializeType h.
Proof. apply ser_upd2. Qed.

(* the header client.send builds before the compress flag, as four bytes followed by the sequence number *)
Definition b2_of (ow : bool) : N := if ow then 32 else 0.

Lemma client_hdr_shape seq (ow : bool) :
  (if ow then SetOneway (SetSeq (SetMessageType new_header 0) seq) true
   else SetSeq (SetMessageType new_header 0) seq) = [magic; 0; b2_of ow; 0] ++ put64 seq.
Proof. destruct ow; reflexivity. Qed.

Lemma put64_length s : length (put64 s) = 8%nat.
Proof. reflexivity. Qed.

Lemma small_ser ser : ser < 16 ->
  N.shiftr (N.land (N.lor (N.ldiff 0 240) (shl8 (b8 ser) 4)) 240) 4 = ser.
Proof.
  intros H.
  assert (E : ser = 0 \/ ser = 1 \/ ser = 2 \/ ser = 3 \/ ser = 4 \/ ser = 5 \/ ser = 6 \/ ser = 7 \/
              ser = 8 \/ ser = 9 \/ ser = 10 \/ ser = 11 \/ ser = 12 \/ ser = 13 \/ ser = 14 \/ ser = 15) by lia.
  repeat (destruct E as [->|E]; [reflexivity|]). subst. reflexivity.
Qed.

Section Proofs.
Variable env : comp_env.
Variable maxlen : N.
Variable value : Type.
Variable cenc : N -> value -> option bytes.
Variable cdec : N -> bytes -> option value.
Variable vzero : value.
(* the codecs round-trip (premise about the serialization libraries) *)
Hypothesis codec_rt : forall s v b, cenc s v = Some b -> b <> [] -> cdec s b = Some v.
(* only the zero value has an empty encoding (protobuf message of default values, empty byte slice) *)
Hypothesis empty_is_zero : forall s v, cenc s v = Some [] -> v = vzero.

Notation client_req := (client_req value cenc).
Notation server_res := (server_res value cenc).
Notation handler_view := (handler_view value cdec).
Notation caller_view := (caller_view value cdec vzero).

(* a message the wire codec can carry: sizes below 4 GiB (and the configured maximum), and, if its
   compress flag is set, a registered compressor that inverts *)
Definition sendable (m : message) : Prop :=
  msg_ok env m /\ comp_ok env m /\ encode_len env m < 16 + U32 /\ (maxlen = 0 \/ encode_len env m <= 16 + maxlen).

Lemma client_req_facts k req : k_ser value k < 16 -> client_req k = Some req ->
  hdr_ok (m_hdr req) /\ SerializeType (m_hdr req) = k_ser value k /\ m_meta req = k_meta value k /\
  m_path req = k_path value k /\ m_meth req = k_meth value k /\
  cenc (k_ser value k) (k_args value k) = Some (m_payload req).
Proof.
  intros Hser H. unfold Path.client_req in H.
  destruct (cenc (k_ser value k) (k_args value k)) as [data|] eqn:Ec; [|discriminate].
  rewrite client_hdr_shape in H.
  set (h1 := [magic; 0; b2_of (k_oneway value k); 0] ++ put64 (k_seq value k)) in *.
  assert (Hh1 : hdr_ok h1) by (split; reflexivity).
  assert (Hs2 : SerializeType (SetSerializeType h1 (k_ser value k)) = k_ser value k).
  { unfold SerializeType, SetSerializeType, byte_at. rewrite nth_upd_same by (unfold h1; simpl; lia).
    unfold h1. cbn [app nth]. now apply small_ser. }
  destruct ((threshold <? lenN data) && negb (k_ct value k =? 0)); injection H as <-; cbn [m_hdr m_meta m_path m_meth m_payload].
  - split; [apply hdr_ok_SetCompressType, hdr_ok_SetSerializeType, Hh1|].
    split; [rewrite ser_SetCompressType; exact Hs2|]. repeat split; reflexivity.
  - split; [apply hdr_ok_SetSerializeType, Hh1|].
    split; [exact Hs2|]. repeat split; reflexivity.
Qed.

Lemma server_res_facts req reply rm res : hdr_ok (m_hdr req) -> server_res req reply rm = Some res ->
  hdr_ok (m_hdr res) /\ SerializeType (m_hdr res) = SerializeType (m_hdr req) /\ m_meta res = rm /\
  m_path res = m_path req /\ m_meth res = m_meth req /\
  cenc (SerializeType (m_hdr req)) reply = Some (m_payload res).
Proof.
  intros Hh H. unfold Path.server_res in H.
  destruct (cenc (SerializeType (m_hdr req)) reply) as [data|] eqn:Ec; [|discriminate].
  destruct ((threshold <? lenN data) && negb (CompressType (m_hdr req) =? 0)); injection H as <-;
    cbn [m_hdr m_meta m_path m_meth m_payload].
  - split; [apply hdr_ok_SetCompressType, hdr_ok_SetMessageType, hdr_ok_SetCompressType, Hh|].
    split; [now rewrite ser_SetCompressType, ser_SetMessageType, ser_SetCompressType|]. repeat split; reflexivity.
  - split; [apply hdr_ok_SetMessageType, hdr_ok_SetCompressType, Hh|].
    split; [now rewrite ser_SetMessageType, ser_SetCompressType|]. repeat split; reflexivity.
Qed.

(* the handler sees the caller's arguments and metadata *)
Theorem handler_sees_what_was_sent k req : k_ser value k < 16 -> client_req k = Some req ->
  m_payload req <> [] ->
  handler_view req = (Some (k_args value k), k_meta value k).
Proof.
  intros Hser H Hne. destruct (client_req_facts k req Hser H) as (_ & Hs & Hm & _ & _ & He).
  unfold Path.handler_view. rewrite Hs, Hm. f_equal. now apply codec_rt.
Qed.

(* the caller sees the handler's reply and response metadata *)
Theorem caller_sees_what_was_replied req reply rm res : hdr_ok (m_hdr req) ->
  server_res req reply rm = Some res ->
  caller_view res = (Some reply, rm).
Proof.
  intros Hh H. destruct (server_res_facts req reply rm res Hh H) as (_ & Hs & Hm & _ & _ & He).
  unfold Path.caller_view. rewrite Hm. f_equal.
  destruct (m_payload res) as [|x xs] eqn:Ep.
  - f_equal. symmetry. eapply empty_is_zero. exact He.
  - rewrite Hs. apply codec_rt; [exact He|discriminate].
Qed.

(* the wire: what is decoded from the encoded frame is the message *)
Lemma wire m old garbage rest : hdr_ok (m_hdr m) -> sendable m -> lenN garbage = encode_len env m ->
  out_msg (fst (decode env maxlen old (encode_pooled env garbage m ++ rest))) = Ok m /\
  snd (decode env maxlen old (encode_pooled env garbage m ++ rest)) = rest.
Proof.
  intros Hh (Hm & Hc & Hl & Hx) Hg. apply roundtrip_pooled; assumption.
Qed.

(* end to end: client -> wire -> handler -> wire -> caller *)
Theorem end_to_end : forall k req,
  k_ser value k < 16 -> client_req k = Some req -> sendable req -> m_payload req <> [] ->
  forall old1 g1 rest1, lenN g1 = encode_len env req ->
  exists req',
    out_msg (fst (decode env maxlen old1 (encode_pooled env g1 req ++ rest1))) = Ok req' /\
    handler_view req' = (Some (k_args value k), k_meta value k) /\
    forall reply rm res, server_res req' reply rm = Some res -> sendable res ->
    forall old2 g2 rest2, lenN g2 = encode_len env res ->
    exists res',
      out_msg (fst (decode env maxlen old2 (encode_pooled env g2 res ++ rest2))) = Ok res' /\
      Seq (m_hdr res') = Seq (m_hdr res) /\
      caller_view res' = (Some reply, rm).
Proof.
  intros k req Hser Hreq Hs Hne old1 g1 rest1 Hg1.
  destruct (client_req_facts k req Hser Hreq) as (Hh & _).
  exists req. split; [apply (wire req old1 g1 rest1 Hh Hs Hg1)|].
  split; [now apply handler_sees_what_was_sent|].
  intros reply rm res Hres Hsr old2 g2 rest2 Hg2.
  destruct (server_res_facts req reply rm res Hh Hres) as (Hh2 & _).
  exists res. split; [apply (wire res old2 g2 rest2 Hh2 Hsr Hg2)|]. split; [reflexivity|].
  now apply caller_sees_what_was_replied with (req := req).
Qed.

(* compression is invisible: whatever compress type the client is configured with, the handler's and the
   caller's views are the same *)
Theorem compression_invisible : forall ser seq path meth meta (args : value) ow ct1 ct2 req1 req2,
  ser < 16 ->
  client_req (mkCall value ser ct1 seq path meth meta args ow) = Some req1 ->
  client_req (mkCall value ser ct2 seq path meth meta args ow) = Some req2 ->
  m_payload req1 <> [] ->
  handler_view req1 = handler_view req2 /\
  forall reply rm res1 res2,
    server_res req1 reply rm = Some res1 -> server_res req2 reply rm = Some res2 ->
    caller_view res1 = caller_view res2.
Proof.
  intros ser seq path meth meta args ow ct1 ct2 req1 req2 Hser H1 H2 Hne.
  set (k1 := mkCall value ser ct1 seq path meth meta args ow) in *.
  set (k2 := mkCall value ser ct2 seq path meth meta args ow) in *.
  assert (Hs1 : k_ser value k1 < 16) by exact Hser.
  assert (Hs2 : k_ser value k2 < 16) by exact Hser.
  pose proof (client_req_facts _ _ Hs1 H1) as (Hh1 & _ & _ & _ & _ & E1).
  pose proof (client_req_facts _ _ Hs2 H2) as (Hh2 & _ & _ & _ & _ & E2).
  unfold k1, k2 in E1, E2. cbn [k_ser k_args] in E1, E2.
  assert (Hp : m_payload req2 = m_payload req1) by congruence.
  split.
  - rewrite (handler_sees_what_was_sent _ _ Hs1 H1 Hne).
    rewrite (handler_sees_what_was_sent _ _ Hs2 H2) by (now rewrite Hp). reflexivity.
  - intros reply rm res1 res2 R1 R2.
    rewrite (caller_sees_what_was_replied _ _ _ _ Hh1 R1).
    rewrite (caller_sees_what_was_replied _ _ _ _ Hh2 R2). reflexivity.
Qed.

End Proofs.
