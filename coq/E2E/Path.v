(* The end-to-end data path of one call (client/client.go send and input; server/server.go
   handleRequest and sendResponse; protocol/message.go Clone): how arguments, replies and metadata are
   turned into messages and back.  The serialization codecs (share.Codecs) are Section variables over an
   abstract type of values; compression is the comp_env of the wire codec.  Definitions only. *)
From Coq Require Import List NArith Arith Bool.
From RPCX Require Import Wire.Bytes Wire.Header Wire.Codec.
Import ListNotations.
Open Scope N_scope.

(* protocol.NewMessage(): magic number, everything else zero *)
Definition new_header : header := magic :: repeat 0 11.

(* payloads larger than this are compressed when a compress type is configured / requested *)
Definition threshold : N := 1024.

Section Path.
Variable value : Type.
Variable cenc : N -> value -> option bytes.   (* codec.Encode, by serialize type *)
Variable cdec : N -> bytes -> option value.   (* codec.Decode into a zero-valued object *)
Variable vzero : value.                       (* the zero value of the reply type *)

Record call := mkCall {
  k_ser : N;            (* client option SerializeType *)
  k_ct : N;             (* client option CompressType *)
  k_seq : N;
  k_path : bytes; k_meth : bytes;
  k_meta : list (bytes * bytes);   (* share.ReqMetaDataKey of the caller's context *)
  k_args : value;
  k_oneway : bool }.

(* client.send: the request message (None: the arguments cannot be encoded) *)
Definition client_req (k : call) : option message :=
  match cenc (k_ser k) (k_args k) with
  | None => None
  | Some data =>
      let h0 := SetSeq (SetMessageType new_header 0) (k_seq k) in
      let h1 := if k_oneway k then SetOneway h0 true else h0 in
      let h2 := SetSerializeType h1 (k_ser k) in
      let h3 := if (threshold <? lenN data) && negb (k_ct k =? 0) then SetCompressType h2 (k_ct k) else h2 in
      Some (mkMsg h3 (k_path k) (k_meth k) (k_meta k) data)
  end.

(* what the handler is given: the decoded arguments and the request metadata *)
Definition handler_view (req : message) : option value * list (bytes * bytes) :=
  (cdec (SerializeType (m_hdr req)) (m_payload req), m_meta req).

(* handleRequest + sendResponse: res := req.Clone() (compress type cleared, metadata not copied),
   type Response, payload := codec.Encode(reply), metadata := the handler's response metadata,
   compress type := the request's when the payload is larger than the threshold *)
Definition server_res (req : message) (reply : value) (resmeta : list (bytes * bytes)) : option message :=
  match cenc (SerializeType (m_hdr req)) reply with
  | None => None
  | Some data =>
      let h0 := SetMessageType (SetCompressType (m_hdr req) 0) 1 in
      let h1 := if (threshold <? lenN data) && negb (CompressType (m_hdr req) =? 0)
                then SetCompressType h0 (CompressType (m_hdr req)) else h0 in
      Some (mkMsg h1 (m_path req) (m_meth req) resmeta data)
  end.

(* client input: what the caller's Reply and response metadata become.  An empty payload resets the
   Reply to its zero value; otherwise the payload is decoded (None: the call fails with the codec's error) *)
Definition caller_view (res : message) : option value * list (bytes * bytes) :=
  ((match m_payload res with
    | [] => Some vzero
    | _ => cdec (SerializeType (m_hdr res)) (m_payload res)
    end), m_meta res).

End Path.
