(* Any number of callers sharing one connection: the server decodes exactly the requests that were
   sent, so every handler sees its own caller's arguments and metadata (E2E/Path.v composed with the
   shared-connection model Wire/Shared.v over the write sites regenerated from the source). *)
From Coq Require Import List NArith Arith Bool Lia.
From RPCX Require Import Wire.Bytes Wire.Header Wire.Codec Wire.CodecSpec Wire.CodecRoundTrip Wire.EncodeProofs
  Wire.Shared Wire.SharedProofs Wire.SharedGen Wire.SharedGenProofs E2E.Path E2E.PathProofs.
Import ListNotations.

Section Concurrent.
Variable env : comp_env.
Variable maxlen : N.
Variable value : Type.
Variable cenc : N -> value -> option bytes.
Variable cdec : N -> bytes -> option value.
Variable vzero : value.
Hypothesis codec_rt : forall s v b, cenc s v = Some b -> b <> [] -> cdec s b = Some v.
Hypothesis empty_is_zero : forall s v, cenc s v = Some [] -> v = vzero.

Variable calls : nat -> call value.      (* the call issued by caller t *)
Variable reqs : nat -> message.
Hypothesis reqs_built : forall t, client_req value cenc (calls t) = Some (reqs t).
Hypothesis sers : forall t, (k_ser value (calls t) < 16)%N.
Hypothesis nonempty : forall t, m_payload (reqs t) <> [].
Hypothesis frames_ok : forall t, frame_ok env maxlen (reqs t).
Variable site : nat -> nat.

Theorem concurrent_callers_are_served_their_own_arguments sched old fuel :
  (length (wlog (wrun env reqs (progs site) sched)) <= fuel)%nat ->
  decode_all fuel env maxlen old (stream (wrun env reqs (progs site) sched)) =
    (map reqs (wlog (wrun env reqs (progs site) sched)), None) /\
  forall t, handler_view value cdec (reqs t) = (Some (k_args value (calls t)), k_meta value (calls t)).
Proof.
  intros Hf. split.
  - now apply (sites_stream_decodes env maxlen reqs frames_ok site).
  - intros t. apply (handler_sees_what_was_sent maxlen value cenc cdec vzero codec_rt empty_is_zero); auto.
Qed.

End Concurrent.
