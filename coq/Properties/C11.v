(* C11 — Selectors return only live, eligible servers and never crash.
   Statements only; every proof is `exact <lemma>`.  "Never crashes" is by construction of the
   total models plus the correspondence check (a panic of the real selector is an oracle failure);
   the theorems state membership in the most recent set and emptiness exactly when nothing is
   eligible, for every strategy and every history of updates. *)
From Coq Require Import List ZArith Arith Bool Permutation.
From RPCX Require Import Base.Cyclic Select.RoundRobin Select.RoundRobinProofs Select.SWRR Select.SWRRProofs
  Select.Simple Select.SimpleProofs Select.Jump Select.DoubleJump Select.DoubleJumpProofs Select.ConsistentHashProofs.
Import ListNotations.
Close Scope Z_scope.
Open Scope nat_scope.

(* random *)
Theorem C11_random_member : forall ss i o, rnd_select ss i = Some o -> In o ss.
Proof. exact rnd_select_member. Qed.
Theorem C11_random_empty_iff : forall ss i, rnd_select ss i = None <-> ss = [].
Proof. exact rnd_select_empty_iff. Qed.

(* round-robin: the state after any history holds the last published list (C12), selection is from it *)
Theorem C11_round_robin_member : forall s r, fst (rr_select s) = Some r -> In r (rr_servers s).
Proof. exact rr_select_mem. Qed.
Theorem C11_round_robin_empty : forall s, rr_servers s = [] -> fst (rr_select s) = None.
Proof. exact rr_select_empty. Qed.

(* weighted: the ring holds server i exactly weight_i times (weights as createWeighted clamps them),
   so only servers of positive weight are ever selected and each of them is; a ring is built iff the
   total weight is positive *)
Theorem C11_weighted_ring : forall ws : list Z,
  Forall (fun w => 0 <= w)%Z ws -> (0 < sumZ ws)%Z ->
  length (swrr_ring ws) = Z.to_nat (sumZ ws) /\
  Forall (fun x => x < length ws) (swrr_ring ws) /\
  forall i, i < length ws -> cnt (swrr_ring ws) i = nth i ws 0%Z.
Proof. exact swrr_ring_count. Qed.

(* closest *)
Theorem C11_closest_member : forall ss pick o,
  geo_select (create_geo ss) pick = Some o ->
  exists g, In g ss /\ g_id g = o /\ geo_eligible g = true.
Proof. exact geo_select_member. Qed.
Theorem C11_closest_empty_iff : forall ss pick,
  (forall g, In g ss -> geo_eligible g = true -> exists d, g_dist g = Some d /\ (d <= max_float_bits)%Z) ->
  (geo_select (create_geo ss) pick = None <-> create_geo ss = []).
Proof. exact geo_select_empty_iff. Qed.

(* consistent hash: the selector invariant (doublejump's arrays and free list agree, the selector's
   list is the member set) holds after construction and after every update; under it selection is a
   member of the last published set and is empty exactly when that set is *)
Theorem C11_hash_new : forall keys,
  SelInv (ch_new keys) /\ (forall o, In o (ch_servers (ch_new keys)) <-> In o keys).
Proof. exact ch_new_inv. Qed.
Theorem C11_hash_update : forall s keys, SelInv s ->
  SelInv (ch_update s keys) /\ (forall o, In o (ch_servers (ch_update s keys)) <-> In o keys).
Proof. exact ch_update_inv. Qed.
Theorem C11_hash_member : forall s key o, SelInv s -> ch_small s ->
  ch_select s key = Some o -> In o (ch_servers s).
Proof. exact ch_select_member. Qed.
Theorem C11_hash_empty_iff : forall s key, SelInv s -> (ch_select s key = None <-> ch_servers s = []).
Proof. exact ch_select_empty_iff. Qed.

(* non-vacuity: a selector that went through add / remove / re-add (a reused free slot) *)
Example C11_nonvacuous :
  let s := ch_update (ch_update (ch_new [3; 1; 2]) [1; 3]) [1; 3; 7] in
  la (ch_h s) = [Some 1; Some 7; Some 3] /\ ca (ch_h s) = [1; 3; 7] /\ ch_servers s = [1; 3; 7] /\
  ch_select s 12345%Z = Some 7.
Proof. vm_compute. repeat split. Qed.

Print Assumptions C11_random_member.
Print Assumptions C11_round_robin_member.
Print Assumptions C11_weighted_ring.
Print Assumptions C11_closest_member.
Print Assumptions C11_closest_empty_iff.
Print Assumptions C11_hash_new.
Print Assumptions C11_hash_update.
Print Assumptions C11_hash_member.
Print Assumptions C11_hash_empty_iff.
