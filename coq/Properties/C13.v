(* C13 — Consistent-hash routing is stable, reproducible and monotone.
   Statements only; every proof is `exact <lemma>`. *)
From Coq Require Import List ZArith Arith Bool Permutation.
From RPCX Require Import Select.Jump Select.JumpProofs Select.DoubleJump Select.DoubleJumpProofs
  Select.ConsistentHashProofs.
Import ListNotations.
Close Scope Z_scope.
Open Scope nat_scope.

(* the bit-exact jump hash (IEEE-754 binary64 via Flocq): the next jump never moves backwards, so
   growing the bucket count by one leaves a key where it was or moves it to the new bucket *)
Theorem C13_jump_in_range : forall key n, (1 <= n <= 2^31)%Z -> (0 <= jump key n < n)%Z.
Proof. exact jump_range. Qed.
Theorem C13_jump_monotone : forall key n, (1 <= n)%Z -> (n + 1 <= 2^31)%Z ->
  jump key (n + 1) = jump key n \/ jump key (n + 1) = n.
Proof. exact jump_mono. Qed.

(* (i) selection does not change the state (ch_select returns no state), and an update that
   re-announces the same set leaves every key where it was *)
Theorem C13_same_set_update_is_noop : forall s keys key, SelInv s ->
  (forall o, In o keys <-> In o (ch_servers s)) ->
  ch_select (ch_update s keys) key = ch_select s key.
Proof. exact ch_update_same_set. Qed.

(* (ii) two selectors constructed from the same server set - whatever order the Go map handed the
   keys out in - are equal, hence agree on every key *)
Theorem C13_construction_independent_of_map_order : forall k1 k2,
  Permutation k1 k2 -> ch_new k1 = ch_new k2.
Proof. exact ch_new_perm. Qed.

(* (iii) when servers are only added, a key keeps its server or moves to one of the new servers -
   from any reachable state (also after earlier removals left holes) *)
Theorem C13_additions_are_monotone : forall s keys key, SelInv s ->
  (forall o, In o (ch_servers s) -> In o keys) ->
  small (S (length (la (ch_h s)) + length keys)) -> small (S (length (ca (ch_h s)) + length keys)) ->
  ch_servers s <> [] ->
  ch_select (ch_update s keys) key = ch_select s key \/
  exists x, ch_select (ch_update s keys) key = Some x /\ In x keys /\ ~ In x (ch_servers s).
Proof. exact ch_update_additions_monotone. Qed.

Theorem C13_single_add_monotone : forall h x key,
  Inv h -> ~ In x (ca h) -> small (S (length (la h))) -> small (S (length (ca h))) ->
  dj_get (dj_add h x) key = dj_get h key \/ dj_get (dj_add h x) key = Some x.
Proof. exact add_monotone. Qed.

(* non-vacuity: the premises hold of a constructed selector (the executable jump model is
   cross-checked against the real jump.Hash on every run by the correspondence check) *)
Example C13_nonvacuous : SelInv (ch_new [4; 2; 9]) /\ ch_servers (ch_new [4; 2; 9]) = [2; 4; 9].
Proof. split; [apply ch_new_inv|reflexivity]. Qed.

Print Assumptions C13_jump_in_range.
Print Assumptions C13_jump_monotone.
Print Assumptions C13_same_set_update_is_noop.
Print Assumptions C13_construction_independent_of_map_order.
Print Assumptions C13_additions_are_monotone.
Print Assumptions C13_single_add_monotone.
