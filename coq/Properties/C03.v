(* C03 — Replies reach exactly the call that asked, in any arrival order.
   Statements only; every proof is `exact <lemma>`.  The machine is Client/ClientSM.v: one event per
   critical section of client.go; a schedule is an arbitrary event list (disabled events are no-ops). *)
From Coq Require Import List NArith Arith Bool.
From RPCX Require Import Client.ClientSM Client.ClientProofs.
From RPCX Require Client.Pending Client.PendingSeq Client.PendingGenProofs.
Import ListNotations.

(* For every set of calls (Go, Call, SendRaw, heartbeats are ordinary calls), every schedule - hence
   every arrival order, duplicates, unknown sequence numbers and pushes included: whenever a call was
   completed by a response frame f, f carries that call's own sequence number, f is not a
   server-initiated message, and the call's result is the interpretation of f (its reply payload, or
   the service error with f's error text). *)
Theorem C03_completed_by_own_response : forall cs chan sched c x f r,
  wf_init cs -> nth_error (calls (run (init cs chan) sched)) c = Some x ->
  In (ByResp f, r) (c_signals x) ->
  c_seq x = Some (f_seq f) /\ f_servermsg f = false /\ r = interp f x.
Proof. exact routed_to_own_seq. Qed.

(* a frame with an unknown or already-completed sequence number, and a server-initiated message
   whatever its sequence number (also one equal to a pending call's), changes no call and no entry *)
Theorem C03_strays_and_pushes_are_inert : forall st f,
  f_servermsg f = true \/ plookup (f_seq f) (pending st) = None ->
  calls (step st (ERecv f)) = calls st /\ pending (step st (ERecv f)) = pending st.
Proof. exact stray_frames_are_inert. Qed.

(* server-initiated messages are handed to the registered channel in arrival order; nothing else is *)
Theorem C03_pushes_in_order : forall st e, pushes (step st e) = pushes st ++ pushed st e.
Proof. exact pushes_in_order. Qed.

(* the invariant behind it holds in every reachable state *)
Theorem C03_invariant : forall sched st,
  Inv (pending st) (calls st) -> Inv (pending (run st sched)) (calls (run st sched)).
Proof. exact run_inv. Qed.

(* non-vacuity: three calls, responses in the order 2,0,1 with a duplicate and a push carrying seq 1 *)
Definition fr (id : nat) (s : N) (push : bool) (pl : nat) : frame := mkFrame id s push false false 0 pl true true.
Example C03_nonvacuous :
  let cs := [new_call KGo false 0; new_call KCall false 0; new_call KGo false 0] in
  let st := run (init cs true)
      [EReg 0; EReg 1; EReg 2; EWriteOk 0; EWriteOk 1; EWriteOk 2;
       ERecv (fr 10 2 false 72); ERecv (fr 11 1 true 99); ERecv (fr 12 0 false 70); ERecv (fr 13 2 false 55);
       ERecv (fr 14 1 false 71)] in
  map (fun x => map snd (c_signals x)) (calls st) = [[ROk 70]; [ROk 71]; [ROk 72]] /\ pushes st = [11].
Proof. vm_compute. split; reflexivity. Qed.

(* The sequence numbers themselves, at the granularity of single statements and about the code as it is now (the paths
   of send, call, input and Close regenerated from client/client.go on every run, tools/gopending2v): send reads its
   number from client.seq and advances the counter within the critical section that registers the call under it, and
   nothing else writes the counter.  Hence, under ANY interleaving of any number of goroutines running these paths
   (SendRaw, which registers under a caller-chosen number, apart): no table entry is ever overwritten - a registered
   call keeps its own number until somebody takes it out - and every number in the table is below the counter, so
   a number is never handed out while a call is registered under it. *)
Theorem C03_a_registered_call_keeps_its_number_to_itself : forall progs sched,
  (forall t, PendingGenProofs.runs_of PendingGenProofs.strict_paths (progs t)) ->
  let w := PendingSeq.run2 sched (PendingSeq.start2 progs) in
  PendingSeq.clob w = false /\
  (forall key c, Pending.lookup (Pending.pend (PendingSeq.base w)) key = Some c -> key < PendingSeq.ctr w).
Proof.
  intros progs sched Hp.
  exact (conj (proj1 (PendingGenProofs.client_goroutines_never_overwrite progs sched Hp))
              (proj2 (proj2 (proj2 (PendingGenProofs.client_goroutines_never_overwrite progs sched Hp))))).
Qed.

Print Assumptions C03_completed_by_own_response.
Print Assumptions C03_strays_and_pushes_are_inert.
Print Assumptions C03_pushes_in_order.
Print Assumptions C03_invariant.
Print Assumptions C03_a_registered_call_keeps_its_number_to_itself.
