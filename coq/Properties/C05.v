(* C05 — Every call completes exactly once, whatever fails and whenever.
   Statements only; every proof is `exact <lemma>`. *)
From Coq Require Import List NArith Arith Bool.
From RPCX Require Import Client.ClientSM Client.ClientProofs Client.ClientLive Client.ClientOutcome.
From RPCX Require Client.Pending Client.PendingGen Client.PendingProofs Client.PendingGenProofs.
Import ListNotations.

(* (i) at most once: for every set of calls and EVERY schedule of registrations, encode failures,
   writes, write failures, one-way completions, cancellations, received frames, reader termination
   and Close - every interleaving at the granularity of the client's critical sections - no call is
   ever signalled twice. *)
Theorem C05_never_signalled_twice : forall cs chan sched c x,
  wf_init cs -> nth_error (calls (run (init cs chan) sched)) c = Some x -> length (c_signals x) <= 1.
Proof. exact at_most_once. Qed.

(* (ii) never left hanging: once the connection is lost or the client closed, and no write of a
   started call is still outstanding, every started call has been completed - exactly once.
   Premise collided = false: no SendRaw used a caller-chosen sequence number equal to an in-flight one. *)
Theorem C05_no_call_left_hanging : forall cs chan sched,
  wf_init cs ->
  let st := run (init cs chan) sched in
  gone st = true -> collided st = false -> quiescent st ->
  forall c x, nth_error (calls st) c = Some x -> c_spc x <> SNew -> length (c_signals x) = 1.
Proof. exact no_call_left_hanging. Qed.

(* (iii) once the connection is lost or the client closed, a new call fails at once with the
   shutdown error and does not touch the pending map *)
Theorem C05_rejected_promptly : forall st c x,
  gone st = true -> nth_error (calls st) c = Some x -> c_kind x <> KRaw -> c_spc x = SNew ->
  pending (step st (EReg c)) = pending st /\
  exists x', nth_error (calls (step st (EReg c))) c = Some x' /\
             c_signals x' = c_signals x ++ [(Rejected, RShutdown)] /\ c_spc x' = SDone.
Proof. exact rejected_promptly. Qed.

(* the invariants hold in every reachable state *)
Theorem C05_invariants_reachable : forall sched st, Live st -> Live (run st sched).
Proof. exact run_live. Qed.

(* non-vacuity, and the two schedules on which the unrepaired client signalled twice:
   reader termination followed by Close; Close followed by a failing encode *)
Example C05_nonvacuous :
  let cs := [new_call KGo false 0; new_call KGo false 0] in
  map (fun x => map snd (c_signals x))
      (calls (run (init cs false) [EReg 0; EWriteOk 0; EReg 1; EReadErr true; EClose; EEncFail 1; EWriteFail 0]))
  = [[RConnErr]; [RConnErr]].
Proof. vm_compute. reflexivity. Qed.

(* (iv) the same, at the granularity of single statements, about the code as it is now.  Every control-flow path of
   send, SendRaw, call, input and Close is regenerated from client/client.go on every run (tools/gopending2v ->
   Client/PendingGen.v) as a list of operations on client.mutex, client.pending, the *Call variables and the
   shutdown / closing flags; every one of them obeys the discipline of Client/Pending.v: a call is written to or
   completed only by the function it was handed to, before that function registers it, or by the path that looked it
   up AND removed it from the table within one critical section - and then once. *)
Theorem C05_the_client_paths_obey_the_discipline :
  forallb (Pending.scheck false Pending.ainit) PendingGenProofs.all_paths = true /\
  forallb (Pending.scheck true Pending.ainit) PendingGenProofs.strict_paths = true.
Proof. exact (conj PendingGenProofs.all_paths_are_disciplined PendingGenProofs.strict_paths_are_strict). Qed.

(* ... so that any number of goroutines, each running any sequence of these paths (each range loop any number of
   times through any of its bodies), interleaved statement by statement in ANY order, never complete a call twice,
   never touch a nil call, never touch a call that sits in the table and never touch a call another goroutine has
   touched since it left the table (bad = false), and no call's completion count exceeds one. *)
Theorem C05_no_call_completes_twice_under_any_interleaving : forall progs sched,
  (forall t, PendingGenProofs.runs_of PendingGenProofs.all_paths (progs t)) ->
  Pending.bad (Pending.run sched (Pending.start progs)) = false /\
  forall c, Pending.dones (Pending.run sched (Pending.start progs)) c <= 1.
Proof. exact PendingGenProofs.client_goroutines_are_safe. Qed.

(* ... and, SendRaw apart (it registers without looking at the flags and relies on the write to the closed connection
   failing), whenever the mutex is free a client that is closing or shut down has an empty table: no call can be
   registered behind the back of the reader's final sweep or of Close. *)
Theorem C05_no_call_is_left_in_the_table_of_a_client_that_shut_down : forall progs sched,
  (forall t, PendingGenProofs.runs_of PendingGenProofs.strict_paths (progs t)) ->
  let w := Pending.run sched (Pending.start progs) in
  Pending.lock w = None -> Pending.shut w || Pending.closing w = true -> Pending.pend w = [].
Proof. exact PendingGenProofs.client_goroutines_strand_no_call. Qed.

(* (v) the outcome: in every reachable state every completion of every call carries the result that fits what
   completed it - a response: its interpretation; the caller's own context: the context's error; the loss of the
   connection: a connection error (the shutdown error when the client itself is closing); Close: shutdown; a refused
   write: the write error; arguments that cannot be encoded: the encode error; a rejection: shutdown; the one-way
   completion: the one-way result.  No failure is ever reported as something else. *)
Theorem C05_outcomes_fit_their_cause : forall cs chan sched c x cz r,
  wf_init cs -> nth_error (calls (run (init cs chan) sched)) c = Some x -> In (cz, r) (c_signals x) ->
  match cz with
  | ByResp _ => True
  | ByCtx => r = RCtx
  | ByConn => r = RConnErr \/ r = RShutdown
  | ByClose => r = RShutdown
  | ByWrite => r = RWriteErr
  | ByEncode => r = REncErr
  | Rejected => r = RShutdown
  | ByOneway => r = ROneway
  end.
Proof. exact outcomes_fit_their_cause. Qed.

(* ... so a call reported successful with a reply was answered by a response carrying its own sequence number whose
   interpretation is that reply; *)
Theorem C05_success_has_its_own_answer : forall cs chan sched c x cz p,
  wf_init cs -> nth_error (calls (run (init cs chan) sched)) c = Some x -> In (cz, ROk p) (c_signals x) ->
  exists f, cz = ByResp f /\ c_seq x = Some (f_seq f) /\ f_servermsg f = false /\ interp f x = ROk p.
Proof. exact success_has_its_own_answer. Qed.

(* ... and the success of a call without reply comes from the one-way path alone, which does something only for a call
   whose own frame the transport has accepted (a failed encode or a refused write is never reported as success). *)
Theorem C05_oneway_success_only_after_the_write : forall cs chan sched c,
  wf_init cs ->
  (forall x cz, nth_error (calls (run (init cs chan) sched)) c = Some x -> In (cz, ROneway) (c_signals x) -> cz = ByOneway) /\
  (step (run (init cs chan) sched) (EOneway c) <> run (init cs chan) sched -> In c (wire_out (run (init cs chan) sched))).
Proof.
  intros cs chan sched c Hw. split.
  - intros x cz. exact (oneway_completion_is_the_oneway_path cs chan sched c x cz Hw).
  - exact (oneway_completes_only_what_was_written cs chan sched c Hw).
Qed.

(* ... stated over whole histories: as long as nobody uses SendRaw (whose callers choose their own sequence numbers - the
   one-way path completes whatever stands under its number, see a_reused_number_inherits_the_oneway_result), in every
   reachable state a call that was given the one-way result is a call whose own frame the transport accepted. *)
Theorem C05_oneway_success_was_written : forall cs chan sched c x r,
  wf_init cs -> Forall (fun x => c_kind x <> KRaw) cs ->
  nth_error (calls (run (init cs chan) sched)) c = Some x -> In (ByOneway, r) (c_signals x) ->
  In c (wire_out (run (init cs chan) sched)).
Proof. exact oneway_success_was_written. Qed.

Example C05_outcome_nonvacuous :
  let cs := [new_call KGo true 0; new_call KGo true 0; new_call KCall false 0] in
  map (fun x => c_signals x)
      (calls (run (init cs false) [EReg 0; EWriteOk 0; EOneway 0; EReg 1; EWriteFail 1; EOneway 1; EReg 2; EEncFail 2]))
  = [[(ByOneway, ROneway)]; [(ByWrite, RWriteErr)]; [(ByEncode, REncErr)]].
Proof. vm_compute. reflexivity. Qed.

Print Assumptions C05_never_signalled_twice.
Print Assumptions C05_no_call_left_hanging.
Print Assumptions C05_rejected_promptly.
Print Assumptions C05_invariants_reachable.
Print Assumptions C05_the_client_paths_obey_the_discipline.
Print Assumptions C05_no_call_completes_twice_under_any_interleaving.
Print Assumptions C05_no_call_is_left_in_the_table_of_a_client_that_shut_down.
Print Assumptions C05_outcomes_fit_their_cause.
Print Assumptions C05_success_has_its_own_answer.
Print Assumptions C05_oneway_success_only_after_the_write.
Print Assumptions C05_oneway_success_was_written.
