(* C05 — Every call completes exactly once, whatever fails and whenever.
   Statements only; every proof is `exact <lemma>`. *)
From Coq Require Import List NArith Arith Bool.
From RPCX Require Import Client.ClientSM Client.ClientProofs Client.ClientLive.
Import ListNotations.

(* (i) at most once: for every set of calls and EVERY schedule of registrations, encode failures,
   writes, write failures, one-way completions, cancellations, received frames, reader termination
   and Close - every interleaving at the granularity of the client's critical sections - no call is
   ever signalled twice. *)
Theorem C05_never_signalled_twice : forall cs chan sched c x,
  wf_init cs -> nth_error (calls (run (init cs chan) sched)) c = Some x -> length (c_signals x) <= 1.
Proof. exact at_most_once. Qed.

(* (ii) never left hanging: once the connection is lost or the client closed, and no write of a
   started call is still outstanding, every started call has been completed - exactly once.
   Premise collided = false: no SendRaw used a caller-chosen sequence number equal to an in-flight one. *)
Theorem C05_no_call_left_hanging : forall cs chan sched,
  wf_init cs ->
  let st := run (init cs chan) sched in
  gone st = true -> collided st = false -> quiescent st ->
  forall c x, nth_error (calls st) c = Some x -> c_spc x <> SNew -> length (c_signals x) = 1.
Proof. exact no_call_left_hanging. Qed.

(* (iii) once the connection is lost or the client closed, a new call fails at once with the
   shutdown error and does not touch the pending map *)
Theorem C05_rejected_promptly : forall st c x,
  gone st = true -> nth_error (calls st) c = Some x -> c_kind x <> KRaw -> c_spc x = SNew ->
  pending (step st (EReg c)) = pending st /\
  exists x', nth_error (calls (step st (EReg c))) c = Some x' /\
             c_signals x' = c_signals x ++ [(Rejected, RShutdown)] /\ c_spc x' = SDone.
Proof. exact rejected_promptly. Qed.

(* the invariants hold in every reachable state *)
Theorem C05_invariants_reachable : forall sched st, Live st -> Live (run st sched).
Proof. exact run_live. Qed.

(* non-vacuity, and the two schedules on which the unrepaired client signalled twice:
   reader termination followed by Close; Close followed by a failing encode *)
Example C05_nonvacuous :
  let cs := [new_call KGo false 0; new_call KGo false 0] in
  map (fun x => map snd (c_signals x))
      (calls (run (init cs false) [EReg 0; EWriteOk 0; EReg 1; EReadErr true; EClose; EEncFail 1; EWriteFail 0]))
  = [[RConnErr]; [RConnErr]].
Proof. vm_compute. reflexivity. Qed.

Print Assumptions C05_never_signalled_twice.
Print Assumptions C05_no_call_left_hanging.
Print Assumptions C05_rejected_promptly.
Print Assumptions C05_invariants_reachable.
