(* C09 — Arguments, replies and metadata arrive unchanged (codec / compression / transport / concurrency).
   Statements only; every proof is `exact <lemma>`.
   Premises about externals: the serialization codecs round-trip ([cenc]/[cdec], for every serialize type),
   only the zero value has an empty encoding, and the registered compressor inverts (inside [sendable] /
   [frame_ok]: comp_ok).  The transport carries the bytes of the frames (C08); every supported stream
   transport is a net.Conn and is exercised by the correspondence check. *)
From Coq Require Import List NArith Arith Bool.
From RPCX Require Pool.PoolSites Pool.PoolSitesGen Pool.PoolSitesProofs.
From RPCX Require Import Wire.Bytes Wire.Header Wire.Codec Wire.CodecSpec Wire.CodecRoundTrip Wire.StreamProofs
  Wire.EncodeProofs Wire.Shared Wire.SharedGen Wire.SharedGenProofs E2E.Path E2E.PathProofs E2E.Concurrent.
Import ListNotations.
Open Scope N_scope.

(* One call, end to end, for every codec, every compress setting of the client (hence of the server,
   which answers with the request's), every payload size and every pooled-buffer / decoder-object
   history on both sides: the handler is given the caller's arguments and metadata; the caller is given
   the handler's reply and response metadata; the response carries the request's sequence number. *)
Theorem C09_end_to_end : forall env maxlen value cenc cdec vzero,
  (forall s v b, cenc s v = Some b -> b <> [] -> cdec s b = Some v) ->
  (forall s v, cenc s v = Some [] -> v = vzero) ->
  forall k req,
  k_ser value k < 16 -> client_req value cenc k = Some req -> sendable env maxlen req -> m_payload req <> [] ->
  forall old1 g1 rest1, lenN g1 = encode_len env req ->
  exists req',
    out_msg (fst (decode env maxlen old1 (encode_pooled env g1 req ++ rest1))) = Ok req' /\
    handler_view value cdec req' = (Some (k_args value k), k_meta value k) /\
    forall reply rm res, server_res value cenc req' reply rm = Some res -> sendable env maxlen res ->
    forall old2 g2 rest2, lenN g2 = encode_len env res ->
    exists res',
      out_msg (fst (decode env maxlen old2 (encode_pooled env g2 res ++ rest2))) = Ok res' /\
      Seq (m_hdr res') = Seq (m_hdr res) /\
      caller_view value cdec vzero res' = (Some reply, rm).
Proof. exact end_to_end. Qed.

(* Compression is invisible to handlers and callers. *)
Theorem C09_compression_is_invisible : forall (maxlen : N) value cenc cdec vzero,
  (forall s v b, cenc s v = Some b -> b <> [] -> cdec s b = Some v) ->
  (forall s v, cenc s v = Some [] -> v = vzero) ->
  forall ser seq path meth meta (args : value) ow ct1 ct2 req1 req2,
  ser < 16 ->
  client_req value cenc (mkCall value ser ct1 seq path meth meta args ow) = Some req1 ->
  client_req value cenc (mkCall value ser ct2 seq path meth meta args ow) = Some req2 ->
  m_payload req1 <> [] ->
  handler_view value cdec req1 = handler_view value cdec req2 /\
  forall reply rm res1 res2,
    server_res value cenc req1 reply rm = Some res1 -> server_res value cenc req2 reply rm = Some res2 ->
    caller_view value cdec vzero res1 = caller_view value cdec vzero res2.
Proof. exact compression_invisible. Qed.

(* Under concurrent use of one connection, for every schedule of the writers: the server decodes exactly
   the requests sent, and every handler is given its own caller's arguments and metadata. *)
Theorem C09_concurrent_callers : forall env maxlen value cenc cdec vzero,
  (forall s v b, cenc s v = Some b -> b <> [] -> cdec s b = Some v) ->
  (forall s v, cenc s v = Some [] -> v = vzero) ->
  forall (calls : nat -> call value) (reqs : nat -> message),
  (forall t, client_req value cenc (calls t) = Some (reqs t)) ->
  (forall t, k_ser value (calls t) < 16) ->
  (forall t, m_payload (reqs t) <> []) ->
  (forall t, frame_ok env maxlen (reqs t)) ->
  forall site sched old fuel,
  (length (wlog (wrun env reqs (progs site) sched)) <= fuel)%nat ->
  decode_all fuel env maxlen old (stream (wrun env reqs (progs site) sched)) =
    (map reqs (wlog (wrun env reqs (progs site) sched)), None) /\
  forall t, handler_view value cdec (reqs t) = (Some (k_args value (calls t)), k_meta value (calls t)).
Proof. exact concurrent_callers_are_served_their_own_arguments. Qed.

(* non-vacuity: an identity codec on byte strings, a "compressor" that prefixes a byte; a 1030-byte
   argument crosses the threshold and is compressed on the wire, yet the views are unchanged *)
Definition ex_cenc (s : N) (v : bytes) : option bytes := Some v.
Definition ex_cdec (s : N) (b : bytes) : option bytes := Some b.
Definition ex_comp : compressor :=
  {| c_zip := fun b => Some (99 :: b); c_unzip := fun b => match b with 99 :: r => Some r | _ => None end |}.
Definition ex_env : comp_env := fun ct => if ct =? 1 then Some ex_comp else None.
Definition ex_call : call bytes := mkCall bytes 0 1 7 [65] [66] [([107], [118])] (repeat 5 1030) false.
Example C09_nonvacuous :
  exists req, client_req bytes ex_cenc ex_call = Some req /\
    CompressType (m_hdr req) = 1 /\
    lenN (payload_on_wire ex_env req) = 1031 /\
    handler_view bytes ex_cdec req = (Some (repeat 5 1030), [([107], [118])]).
Proof. eexists. split; [reflexivity|]. vm_compute. repeat split; reflexivity. Qed.

(* Under concurrent use the decoded arguments of one request are not overwritten by another: on every control-flow
   path of the two request handlers (regenerated from server/server.go on every run, tools/gopools2v) the pooled
   argument and reply objects are used only while the request holds them and are returned to their pool at most once
   (C20 states what that buys: no object is handed to two requests). *)
Theorem C09_pooled_arguments_have_one_owner :
  forallb (fun p => RPCX.Pool.PoolSites.disciplined 0 0 (snd p)) RPCX.Pool.PoolSitesGen.handler_paths = true.
Proof. exact RPCX.Pool.PoolSitesProofs.every_path_is_disciplined. Qed.

Print Assumptions C09_end_to_end.
Print Assumptions C09_compression_is_invisible.
Print Assumptions C09_concurrent_callers.
Print Assumptions C09_pooled_arguments_have_one_owner.
