(* C12 — Round-robin is exact and weighted round-robin is exactly proportional.
   This file holds statements only; every proof is `exact <lemma>`. *)
From Coq Require Import List ZArith Arith Permutation.
From RPCX Require Import Base.Cyclic Select.RoundRobin Select.RoundRobinProofs Select.SWRR Select.SWRRProofs Select.SWRREqual
  Wire.Bytes XClient.Metadata XClient.MetadataProofs.
Import ListNotations.
Close Scope Z_scope.
Open Scope nat_scope.

(* Between updates, any n consecutive selections - from any cursor value - are a permutation of
   the n servers (each exactly once when the server names are distinct). *)
Theorem C12_round_robin_exact : forall s : rr_state,
  length (rr_servers s) <> 0 ->
  Permutation (fst (rr_selects (length (rr_servers s)) s)) (map Some (rr_servers s)).
Proof. exact rr_window_perm. Qed.

(* ... in the state reached by any history of updates and selections the server list is the last
   published one, so the statement above applies to it. *)
Theorem C12_round_robin_after_any_history : forall ops s,
  rr_servers (fst (rr_run s ops)) =
    fold_left (fun ss o => match o with RRUpdate ss' => ss' | RRSelect => ss end) ops (rr_servers s).
Proof. exact rr_run_servers. Qed.

(* The ring built by smooth weighted round-robin contains server i exactly w_i times. *)
Theorem C12_weighted_ring_counts : forall ws : list Z,
  Forall (fun w => 0 <= w)%Z ws -> (0 < sumZ ws)%Z ->
  length (swrr_ring ws) = Z.to_nat (sumZ ws) /\
  Forall (fun x => x < length ws) (swrr_ring ws) /\
  forall i, i < length ws -> cnt (swrr_ring ws) i = nth i ws 0%Z.
Proof. exact swrr_ring_count. Qed.

(* Every window of W = sum of weights consecutive selections, from any cursor position,
   picks server i exactly weight_i times (weights as createWeighted reads them). *)
Theorem C12_weighted_window_proportional : forall (parsed : list (option Z)) (cur : nat),
  let ws := map clamp_weight parsed in
  (0 < sumZ ws)%Z ->
  let s := {| wrr_n := length ws; wrr_ring := swrr_ring ws; wrr_cur := cur |} in
  forall i, i < length ws ->
  Z.of_nat (count_occ onat_eq_dec (fst (wrr_selects (Z.to_nat (sumZ ws)) s)) (Some i)) = nth i ws 0%Z.
Proof. exact wrr_window_counts. Qed.

(* An update replaces the whole state by a freshly built one: a changed weight is honoured from
   the next selection on. *)
(* with equal weights the weighted selector behaves as plain round-robin: for n servers of the same positive
   weight w, from any cursor, selection k picks server (cursor + k) mod n - so every n consecutive selections pick
   every server exactly once *)
Theorem C12_equal_weights_is_round_robin : forall n w cur k, 1 <= n -> (0 < w)%Z ->
  let s := {| wrr_n := n; wrr_ring := swrr_ring (repeat w n); wrr_cur := cur |} in
  fst (wrr_selects k s) = map (fun t => Some ((cur + t) mod n)) (seq 0 k).
Proof. exact equal_weights_round_robin. Qed.

Theorem C12_update_is_fresh_build : forall s p, wrr_step s (WUpdate p) = (wrr_new p, []).
Proof. reflexivity. Qed.

(* non-vacuity: a concrete non-trivial weight vector meets the premises, and the ring is the
   familiar smooth sequence *)
(* the weight of a server, from the raw metadata string a registry publishes for it (createWeighted with
   url.ParseQuery and strconv.Atoi as modelled in Server/Gateway.v): the clamp of its weight field - the [parsed]
   input of the theorems above - and never negative; metadata that does not parse, or without a readable integer
   weight, weighs 1 *)
Theorem C12_weight_from_raw_metadata : forall meta,
  weight_raw meta = clamp_weight (weight_field meta) /\ (0 <= weight_raw meta)%Z.
Proof. intro meta. split; [apply weight_raw_is_clamped_field | apply weight_raw_nonneg]. Qed.

Open Scope N_scope.
Example C12_weight_nonvacuous :
  weight_raw [119;101;105;103;104;116;61;55] = 7%Z /\                 (* weight=7 *)
  weight_raw [119;101;105;103;104;116;61;45;51] = 0%Z /\              (* weight=-3 *)
  weight_raw [119;101;105;103;104;116;61;43;52] = 1%Z /\              (* weight=+4: '+' is a blank in a query string *)
  weight_raw [119;37;54;53;105;103;104;116;61;54] = 6%Z /\            (* w%65ight=6 *)
  weight_raw [37;122;122;38;119;101;105;103;104;116;61;52] = 1%Z.      (* %zz&weight=4: does not parse *)
Proof. vm_compute. repeat split. Qed.
Close Scope N_scope.

Example C12_nonvacuous :
  Forall (fun w => 0 <= w)%Z [5; 1; 1]%Z /\ (0 < sumZ [5; 1; 1])%Z /\
  swrr_ring [5; 1; 1]%Z = [0; 0; 1; 0; 2; 0; 0].
Proof. repeat split; try (repeat constructor; discriminate). Qed.

Print Assumptions C12_round_robin_exact.
Print Assumptions C12_round_robin_after_any_history.
Print Assumptions C12_weighted_ring_counts.
Print Assumptions C12_weighted_window_proportional.
Print Assumptions C12_update_is_fresh_build.
Print Assumptions C12_equal_weights_is_round_robin.
Print Assumptions C12_weight_from_raw_metadata.
