(* C18 — Circuit breaker opens after N consecutive failures and recovers.
   Statements only; every proof is `exact <lemma>`.
   Reading fixed in DESIGN.md: an observation (Ready/Call) made after the window has elapsed clears
   the failure count just as a success does ("one success or an elapsed window closes it again"). *)
From Coq Require Import List ZArith Bool.
From RPCX Require Import XClient.Breaker XClient.BreakerProofs.
Import ListNotations.
Open Scope Z_scope.

(* For every timed trace, every threshold and window: the breaker's answers are exactly those of the
   trace specification - Ready reports "not open", Call invokes the protected function iff not open
   and otherwise refuses - where open (is_open) is defined on the history alone: at least threshold
   failures since the most recent success / elapsed-window observation, and the window since the
   most recent failure has not elapsed. *)
Theorem C18_machine_meets_trace_spec : forall c tr,
  b_run c b_init tr = (st_of c (rev tr), outs_spec c [] tr).
Proof. exact run_spec_init. Qed.

Theorem C18_refused_call_changes_nothing : forall c h t ok t',
  is_open c h t = true -> st_of c (ECall t ok t' :: h) = st_of c h.
Proof. exact refused_changes_nothing. Qed.

Theorem C18_threshold_failures_open : forall c h t0 ts t,
  threshold c <= Z.of_nat (length (t0 :: ts)) -> 0 <= fails_aux c h -> t - t0 <= window c ->
  is_open c (map EFail (t0 :: ts) ++ h) t = true.
Proof. exact threshold_failures_open. Qed.

Theorem C18_success_closes : forall c h t0 t, 0 < threshold c -> is_open c (ESuccess t0 :: h) t = false.
Proof. exact success_closes. Qed.

Theorem C18_elapsed_window_closes : forall c h t, window c < t - touch c h -> is_open c h t = false.
Proof. exact elapsed_window_closes. Qed.

(* discovery client: while a server's breaker is open no dial happens; each refused dial counts *)
Theorem C18_xclient_open_breaker_skips_dial : forall c s t ok,
  xb_exists s = true -> threshold c <= b_failures (xb_b s) -> t - b_last (xb_b s) <= window c ->
  xb_dial c s t ok = (s, DialSkipped).
Proof. exact open_breaker_skips_dial. Qed.

Theorem C18_xclient_refused_dial_counts : forall c s t,
  (xb_exists s = false \/ b_failures (xb_b s) < threshold c \/ window c < t - b_last (xb_b s)) ->
  exists s', xb_dial c s t false = (s', Dialed false) /\ xb_exists s' = true /\ b_last (xb_b s') = t /\
             (xb_exists s = true -> t - b_last (xb_b s) <= window c ->
              b_failures (xb_b s') = b_failures (xb_b s) + 1).
Proof. exact refused_dial_counts. Qed.

(* non-vacuity: threshold 2, window 100: two failing calls open it, a call 60 later is refused,
   a call 150 after the last failure is let through *)
Example C18_nonvacuous :
  snd (b_run (mkCfg 2 100) b_init
         [ECall 1000 false 1001; ECall 1060 false 1061; ECall 1120 true 1121; ECall 1212 true 1213]) =
  [OInvoked false; OInvoked false; ORefused; OInvoked true].
Proof. reflexivity. Qed.

Print Assumptions C18_machine_meets_trace_spec.
Print Assumptions C18_refused_call_changes_nothing.
Print Assumptions C18_threshold_failures_open.
Print Assumptions C18_success_closes.
Print Assumptions C18_elapsed_window_closes.
Print Assumptions C18_xclient_open_breaker_skips_dial.
Print Assumptions C18_xclient_refused_dial_counts.
