(* C01 — Wire codec round-trip: encode then decode is the identity; header setters/getters.
   Statements only; every proof is `exact <lemma>`. *)
From Coq Require Import List NArith Bool.
From RPCX Require Import Wire.Bytes Wire.Header Wire.Codec Wire.CodecSpec Wire.CodecRoundTrip
  Wire.StreamProofs Wire.EncodeProofs Wire.HeaderGenProofs.
Import ListNotations.
Open Scope N_scope.

(* ---- (1) accessor laws, about the definitions regenerated from protocol/message.go ----
   gview h = everything the getters can observe (plus the magic byte and the reserved nibble).
   Each setter yields the same view with exactly its own field replaced by the value set. *)
Theorem C01_SetVersion : forall h v, wf_header h -> v < 256 ->
  gview (HeaderGen.SetVersion h v) =
    let w := gview h in mkView (v_magic w) v (v_type w) (v_hb w) (v_ow w) (v_compress w) (v_status w)
                          (v_serialize w) (v_reserved w) (v_seq w).
Proof. exact SetVersion_law. Qed.

Theorem C01_SetMessageType : forall h v, wf_header h -> v < 2 ->
  gview (HeaderGen.SetMessageType h v) =
    let w := gview h in mkView (v_magic w) (v_version w) v (v_hb w) (v_ow w) (v_compress w) (v_status w)
                          (v_serialize w) (v_reserved w) (v_seq w).
Proof. exact SetMessageType_law. Qed.

Theorem C01_SetHeartbeat : forall h hb, wf_header h ->
  gview (HeaderGen.SetHeartbeat h hb) =
    let w := gview h in mkView (v_magic w) (v_version w) (v_type w) hb (v_ow w) (v_compress w) (v_status w)
                          (v_serialize w) (v_reserved w) (v_seq w).
Proof. exact SetHeartbeat_law. Qed.

Theorem C01_SetOneway : forall h ow, wf_header h ->
  gview (HeaderGen.SetOneway h ow) =
    let w := gview h in mkView (v_magic w) (v_version w) (v_type w) (v_hb w) ow (v_compress w) (v_status w)
                          (v_serialize w) (v_reserved w) (v_seq w).
Proof. exact SetOneway_law. Qed.

Theorem C01_SetCompressType : forall h v, wf_header h -> v < 8 ->
  gview (HeaderGen.SetCompressType h v) =
    let w := gview h in mkView (v_magic w) (v_version w) (v_type w) (v_hb w) (v_ow w) v (v_status w)
                          (v_serialize w) (v_reserved w) (v_seq w).
Proof. exact SetCompressType_law. Qed.

Theorem C01_SetMessageStatusType : forall h v, wf_header h -> v < 4 ->
  gview (HeaderGen.SetMessageStatusType h v) =
    let w := gview h in mkView (v_magic w) (v_version w) (v_type w) (v_hb w) (v_ow w) (v_compress w) v
                          (v_serialize w) (v_reserved w) (v_seq w).
Proof. exact SetMessageStatusType_law. Qed.

Theorem C01_SetSerializeType : forall h v, wf_header h -> v < 16 ->
  gview (HeaderGen.SetSerializeType h v) =
    let w := gview h in mkView (v_magic w) (v_version w) (v_type w) (v_hb w) (v_ow w) (v_compress w) (v_status w)
                          v (v_reserved w) (v_seq w).
Proof. exact SetSerializeType_law. Qed.

Theorem C01_SetSeq : forall h s, wf_header h -> s < 18446744073709551616 ->
  gview (HeaderGen.SetSeq h s) =
    let w := gview h in mkView (v_magic w) (v_version w) (v_type w) (v_hb w) (v_ow w) (v_compress w) (v_status w)
                          (v_serialize w) (v_reserved w) s.
Proof. exact SetSeq_law. Qed.

(* the regenerated accessors and the hand-written header model used by the codec agree *)
Theorem C01_generated_getters_agree : forall h, wf_header h -> gview h = hview_of h.
Proof. exact getters_agree. Qed.

(* ---- (2) the pooled encoder overwrites every byte of its buffer; both encoders emit the frame ---- *)
Theorem C01_pooled_encoder_is_frame : forall env garbage m,
  length (header_on_wire env m) = 12%nat -> lenN garbage = encode_len env m ->
  encode_pooled env garbage m =
    frame_of (header_on_wire env m) (m_path m) (m_meth m) (enc_meta (m_meta m)) (payload_on_wire env m).
Proof. exact encode_pooled_is_frame. Qed.

Theorem C01_encoders_agree : forall env garbage m,
  hdr_ok (m_hdr m) -> comp_ok env m -> lenN garbage = encode_len env m ->
  encode_pooled env garbage m = fst (encode_stream env m).
Proof. exact encoders_agree. Qed.

(* ---- (3) round trip, for every message within the 32-bit length fields, every registered
   compressor that inverts on this payload, every previous state of the receiving object, every
   old content of the pooled buffer, any bytes following the frame ---- *)
Theorem C01_roundtrip_pooled : forall env maxlen old garbage m rest,
  hdr_ok (m_hdr m) -> msg_ok env m -> comp_ok env m ->
  encode_len env m < 16 + U32 -> (maxlen = 0 \/ encode_len env m <= 16 + maxlen) ->
  lenN garbage = encode_len env m ->
  let r := decode env maxlen old (encode_pooled env garbage m ++ rest) in
  out_msg (fst r) = Ok m /\ snd r = rest.
Proof. exact roundtrip_pooled. Qed.

Theorem C01_roundtrip_stream : forall env maxlen old m rest,
  hdr_ok (m_hdr m) -> msg_ok env m -> comp_ok env m ->
  encode_len env m < 16 + U32 -> (maxlen = 0 \/ encode_len env m <= 16 + maxlen) ->
  snd (encode_stream env m) = None /\
  let r := decode env maxlen old (fst (encode_stream env m) ++ rest) in
  out_msg (fst r) = Ok m /\ snd r = rest.
Proof. exact roundtrip_stream. Qed.

(* non-vacuity: a concrete message with metadata meets the premises and round-trips *)
Definition ex_env : comp_env := fun _ => None.
Definition ex_msg : message :=
  mkMsg [8; 1; 0; 32; 0; 0; 0; 0; 0; 0; 0; 7] [65; 66] [77] [([107], [118; 118]); ([], [])] [1; 2; 3].
Example C01_nonvacuous :
  fst (decode ex_env 0 fresh_obj (encode_pooled ex_env (repeat 255 57) ex_msg)) =
    Ok (mkObj ex_msg (skipn 16 (encode_pooled ex_env (repeat 255 57) ex_msg))).
Proof. vm_compute. reflexivity. Qed.

Print Assumptions C01_SetVersion.
Print Assumptions C01_SetMessageType.
Print Assumptions C01_SetHeartbeat.
Print Assumptions C01_SetOneway.
Print Assumptions C01_SetCompressType.
Print Assumptions C01_SetMessageStatusType.
Print Assumptions C01_SetSerializeType.
Print Assumptions C01_SetSeq.
Print Assumptions C01_generated_getters_agree.
Print Assumptions C01_pooled_encoder_is_frame.
Print Assumptions C01_encoders_agree.
Print Assumptions C01_roundtrip_pooled.
Print Assumptions C01_roundtrip_stream.
