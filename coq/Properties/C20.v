(* C20 — Pooled buffers and objects are never visible to two owners at once.
   Statements only; every proof is `exact <lemma>`. *)
From Coq Require Import List NArith Arith Bool.
From RPCX Require Import Pool.Pool Pool.PoolProofs Pool.PoolSites Pool.PoolSitesGen Pool.PoolSitesProofs.
From RPCX Require Wire.Shared Wire.SharedGen Wire.SharedGenProofs.
Import ListNotations.

(* byte pools: for every configuration 0 < min <= max (< 2^64) and every size: a request routed to
   class i fits the buffers class i allocates, and a buffer accepted back into class i is at least
   that large - so re-slicing a pooled buffer to the requested size is always legal and Get returns
   exactly the requested length *)
Theorem C20_get_fits_its_class : forall pmin pmax size i,
  (0 < pmin)%N -> (pmin <= pmax)%N -> (pmax < 2 ^ 64)%N ->
  find_get pmin pmax size = Some i -> (size <= class_size pmin pmax i)%N.
Proof. exact get_fits. Qed.

Theorem C20_put_is_big_enough : forall pmin pmax cap i,
  (0 < pmin)%N -> (pmin <= pmax)%N ->
  find_put pmin pmax cap = Some i -> (class_size pmin pmax i <= cap)%N.
Proof. exact put_is_big_enough. Qed.

Theorem C20_get_returns_requested_length : forall pmin pmax size i bufcap,
  (0 < pmin)%N -> (pmin <= pmax)%N -> (pmax < 2 ^ 64)%N ->
  find_get pmin pmax size = Some i -> (class_size pmin pmax i <= bufcap)%N -> (size <= bufcap)%N.
Proof. exact get_returns_requested_length. Qed.

(* ownership: for every history of Gets and Puts in which an owner returns only what it holds, and
   for every choice the pool makes when handing out objects (sync.Pool may return any object that was
   put, or a new one), all objects in the pool and in owners' hands are pairwise distinct: no object
   is held by two owners, or held while it sits in the pool *)
Theorem C20_exclusive_ownership : forall ops s, PInv s -> prun_ok s ops -> PInv (prun s ops).
Proof. exact exclusive_ownership. Qed.

Theorem C20_single_owner : forall ops o w1 w2 i j,
  prun_ok p_init ops ->
  nth_error (p_owned (prun p_init ops)) i = Some (o, w1) ->
  nth_error (p_owned (prun p_init ops)) j = Some (o, w2) -> i = j.
Proof. exact single_owner. Qed.

(* the server keeps that discipline on the pooled argument / reply objects of a request on every
   path through handleRequest (codec missing, undecodable arguments, PreCall veto, handler error
   with or without a reply, one-way, two-way): each object is put back at most once, only after it
   was obtained *)
Theorem C20_handle_request_keeps_the_discipline : forall f, bracketed 0 0 (handle_ops f) = true.
Proof. exact handle_request_is_bracketed. Qed.

(* non-vacuity, and what a double Put does: the pool then hands the same object to two owners *)
Example C20_double_put_breaks_exclusivity :
  p_owned (prun p_init [PGet 1 None; PPut 1 0; PPut 1 0; PGet 2 (Some 0); PGet 3 (Some 0)]) = [(0, 3); (0, 2)].
Proof. reflexivity. Qed.
Example C20_nonvacuous :
  find_get 512 4096 1000 = Some 1%N /\ find_put 512 4096 3000 = Some 2%N /\ find_get 512 3000 2500 = Some 3%N /\
  class_size 512 3000 3 = 3000%N /\ find_get 512 4096 4097 = None /\ find_put 512 4096 511 = None.
Proof. vm_compute. repeat split. Qed.

(* the tie to the source: every syntactic control-flow path of handleRequest and handleRequestForFunction, as
   tools/gopools2v regenerates them from server/server.go on every run (Pool/PoolSitesGen.v), uses and returns its
   pooled argument and reply object only while it holds it and returns it at most once; and the hand model
   handle_ops above is, for every outcome of its six conditions, the skeleton of one of those paths *)
Theorem C20_every_handler_path_keeps_the_discipline :
  forallb (fun p => disciplined 0 0 (snd p)) handler_paths = true.
Proof. exact every_path_is_disciplined. Qed.
Theorem C20_every_handler_path_is_bracketed : forall name ops,
  In (name, ops) handler_paths -> bracketed 0 0 (skeleton ops) = true.
Proof. exact every_path_is_bracketed. Qed.
Theorem C20_hand_model_is_the_source_s : forall f,
  exists name ops, In (name, ops) handler_paths /\ handle_ops f = skeleton ops.
Proof. exact handle_ops_is_generated. Qed.

(* frame buffers, about the code as it is now: every control-flow path of every function that materialises a frame in a
   pooled buffer (regenerated from the source on every run, tools/gowrites2v -> Wire/SharedGen.v) takes the buffer, fills
   it, writes it at most once and gives it back at most once - in particular no path, error paths included, puts a
   buffer back twice or uses it after it has been put back *)
Theorem C20_frame_buffers_follow_the_discipline_at_every_site :
  forallb (fun sp => Wire.Shared.safe_from 0 (snd sp)) Wire.SharedGen.site_paths = true /\
  forallb (fun sp => Nat.leb (Wire.Shared.count_writes (snd sp)) 1) Wire.SharedGen.site_paths = true.
Proof. exact (conj Wire.SharedGenProofs.all_sites_safe Wire.SharedGenProofs.all_sites_write_once). Qed.

Print Assumptions C20_get_fits_its_class.
Print Assumptions C20_put_is_big_enough.
Print Assumptions C20_get_returns_requested_length.
Print Assumptions C20_exclusive_ownership.
Print Assumptions C20_single_owner.
Print Assumptions C20_handle_request_keeps_the_discipline.
Print Assumptions C20_every_handler_path_keeps_the_discipline.
Print Assumptions C20_every_handler_path_is_bracketed.
Print Assumptions C20_hand_model_is_the_source_s.
Print Assumptions C20_frame_buffers_follow_the_discipline_at_every_site.
