(* C02 — Decoder totality, frame confinement, no stale bytes, maximum length, resynchronisation.
   Statements only; every proof is `exact <lemma>`. *)
From Coq Require Import List NArith Bool.
From RPCX Require Import Wire.Bytes Wire.Header Wire.Codec Wire.CodecSpec Wire.CodecProofs Wire.CodecRoundTrip
  Wire.StreamProofs Wire.EncodeProofs Wire.DecodeGen Wire.DecodeGenProofs.
Import ListNotations.
Open Scope N_scope.

(* (a) confinement: a successful Decode consumed exactly header + length + body, and the body is
   laid out as four consecutive length-prefixed sections (then optional slack); the message's
   fields are exactly those ranges. *)
Theorem C02_success_consumes_one_frame : forall env maxlen old stream o rest,
  decode env maxlen old stream = (Ok o, rest) ->
  exists h lb body,
    stream = h ++ lb ++ body ++ rest /\ length h = 12%nat /\ byte_at h 0 = magic /\
    length lb = 4%nat /\ lenN body = get32 lb /\ (maxlen = 0 \/ get32 lb <= maxlen) /\
    body_spec env h body = Ok (o_msg o).
Proof. exact decode_ok_inv. Qed.

Theorem C02_fields_are_the_delimited_ranges : forall env h body m,
  body_spec env h body = Ok m ->
  exists l1 l2 l3 mb l4 raw slack,
    body = l1 ++ m_path m ++ l2 ++ m_meth m ++ l3 ++ mb ++ l4 ++ raw ++ slack /\
    length l1 = 4%nat /\ get32 l1 = lenN (m_path m) /\
    length l2 = 4%nat /\ get32 l2 = lenN (m_meth m) /\
    length l3 = 4%nat /\ get32 l3 = lenN mb /\
    length l4 = 4%nat /\ get32 l4 = lenN raw /\
    meta_layout (m_meta m) mb /\
    unzip_spec env h raw = Ok (m_payload m) /\ m_hdr m = h.
Proof. exact body_spec_ok_inv. Qed.

(* the slice-level decoder (backing arrays, len, cap, panics) computes exactly the list-level
   specification on the bytes of the body: capacity beyond len is never observed *)
Theorem C02_decoder_refines_spec : forall env h data,
  wf_slice data -> s_off data = 0 ->
  decode_body env h data = body_spec env h (contents data).
Proof. exact decode_body_refines. Qed.

(* (c) the decoded message is a function of the stream alone: the previous contents of a reused
   message object (fields, backing array beyond len) never show *)
Theorem C02_independent_of_object_history : forall env maxlen old1 old2 stream,
  out_msg (fst (decode env maxlen old1 stream)) = out_msg (fst (decode env maxlen old2 stream)) /\
  snd (decode env maxlen old1 stream) = snd (decode env maxlen old2 stream).
Proof. exact decode_independent_of_past. Qed.

(* (f) never crashes: neither a panic nor a recovered panic is a reachable outcome *)
Theorem C02_never_panics : forall env maxlen old stream,
  fst (decode env maxlen old stream) <> Panic /\
  fst (decode env maxlen old stream) <> Err RecoveredPanic.
Proof. exact decode_never_panics. Qed.

(* (d) a frame longer than the configured maximum is rejected after the 16 header+length bytes,
   before its body is read *)
Theorem C02_too_long_rejected_before_body : forall env maxlen old h lb tail,
  length h = 12%nat -> byte_at h 0 = magic -> length lb = 4%nat ->
  0 < maxlen -> maxlen < get32 lb ->
  decode env maxlen old (h ++ lb ++ tail) = (Err TooLong, tail).
Proof. exact decode_too_long. Qed.

(* (e) after a successful decode the reader stands on the first byte after the frame:
   concatenated frames decode to the same sequence *)
Theorem C02_concatenated_frames_resynchronise : forall env maxlen ms old fuel,
  Forall (frame_ok env maxlen) ms -> (length ms <= fuel)%nat ->
  decode_all fuel env maxlen old (flat_map (frame_bytes env) ms) = (ms, None).
Proof. exact decode_all_frames. Qed.

(* non-vacuity + the pre-repair behaviour is excluded: a section length that overruns the frame
   is an error on a fresh object AND on an object whose buffer still holds an earlier, longer
   frame (the case in which the unrepaired decoder returned the earlier frame's path). *)
Definition no_env : comp_env := fun _ => None.
Definition bad_frame : bytes := [8;0;0;0;0;0;0;0;0;0;0;0] ++ put32 4 ++ put32 10.
Definition old_obj : msgobj := mkObj (mkMsg [8;0;0;0;0;0;0;0;0;0;0;0] [83;69;67] [77] [] [])
                                     (put32 10 ++ [83;69;67;82;69;84;80;65;84;72] ++ put32 1 ++ [77] ++ put32 0 ++ put32 0).
Example C02_overrun_is_an_error_fresh : fst (decode no_env 0 fresh_obj bad_frame) = Err InvalidFrame.
Proof. vm_compute. reflexivity. Qed.
Example C02_overrun_is_an_error_reused : fst (decode no_env 0 old_obj bad_frame) = Err InvalidFrame.
Proof. vm_compute. reflexivity. Qed.

(* the tie to the source: the two bounds-checked readers the decoder model is built from - the `section` closure of
   Message.Decode and decodeMetadata - are, statement by statement, what tools/godecode2v regenerates from
   protocol/message.go on every run (Wire/DecodeGen.v); a change of a guard, an offset, a slice bound or the loop in
   the Go source changes the generated definitions and these two equalities stop checking *)
Theorem C02_section_is_the_source_s : forall data n, gen_section data n = section data n.
Proof. exact gen_section_is_section. Qed.
Theorem C02_decode_metadata_is_the_source_s : forall fuel l data n acc,
  gen_dec_meta fuel l data n acc = dec_meta fuel l data n acc.
Proof. exact gen_dec_meta_is_dec_meta. Qed.

Print Assumptions C02_success_consumes_one_frame.
Print Assumptions C02_fields_are_the_delimited_ranges.
Print Assumptions C02_decoder_refines_spec.
Print Assumptions C02_independent_of_object_history.
Print Assumptions C02_never_panics.
Print Assumptions C02_too_long_rejected_before_body.
Print Assumptions C02_concatenated_frames_resynchronise.
Print Assumptions C02_section_is_the_source_s.
Print Assumptions C02_decode_metadata_is_the_source_s.
