(* C19 — HTTP gateway and JSON-RPC ingress are equivalent to the native protocol.
   Statements only; every proof is `exact <lemma>`.  Quantifier (DESIGN.md): services registered with
   Register* / RegisterFunction*; router handlers (AddHandler) write to the native connection and
   cannot be reached from the HTTP ingresses. *)
From Coq Require Import List NArith Arith Bool Lia.
From RPCX Require Import Wire.Bytes Server.Dispatch Server.Ingress Server.IngressProofs Server.Gateway Server.GatewayProofs.
Import ListNotations.

(* a two-way request that no stage rejects yields, through the HTTP gateway and through JSON-RPC, the
   outcome it yields natively - the same reply payload or the same error text - and runs the same
   handler: all three front ends call the same handleRequest *)
Theorem C19_http_ingress_equals_native : forall find codec_ok decodable handler hmeta ing c rq,
  ing <> Native ->
  rejected ing c rq = false -> q_hb (i_q rq) = false -> q_oneway (i_q rq) = false ->
  find (q_path (i_q rq)) (q_meth (i_q rq)) <> TRouter ->
  o_out (serve find codec_ok decodable handler hmeta ing c rq) = o_out (serve find codec_ok decodable handler hmeta Native c rq) /\
  o_invoked (serve find codec_ok decodable handler hmeta ing c rq) = o_invoked (serve find codec_ok decodable handler hmeta Native c rq).
Proof. exact http_ingress_equals_native. Qed.

(* malformed gateway requests (missing service / method / serialization headers, non-numeric id or
   type, unparsable metadata) and malformed JSON-RPC methods are rejected with an error and never
   reach a handler *)
Theorem C19_malformed_rejected : forall find codec_ok decodable handler hmeta ing c rq,
  ing <> Native -> i_malformed rq = true ->
  o_invoked (serve find codec_ok decodable handler hmeta ing c rq) = [] /\
  is_result (o_out (serve find codec_ok decodable handler hmeta ing c rq)) = false.
Proof. exact malformed_rejected. Qed.

(* ---- header level (Server/Gateway.v: HTTPRequest2RpcxRequest, the header checks of handleGatewayRequest, the
   method split of handleJSONRPCRequest, with strconv.ParseUint / Atoi and url.ParseQuery / QueryEscape modelled) ---- *)

(* "executed with the same service, method, metadata and payload": for every request - every sequence number below
   2^64, every serialize and compress type, every service path and method (any bytes), every metadata map (any
   keys and values, any bytes) and every payload - what the gateway builds from the headers a client sends for it is
   that request. *)
Theorem C19_gateway_builds_the_request_that_was_sent : forall q url body,
  wf_greq q -> g_path q <> [] -> g_meth q <> [] ->
  gateway_front (to_http q) url body =
  Some (mkGReq (g_seq q) (g_hb q) (g_oneway q) (g_ser q) (g_comp q) (g_meta q) (g_path q) (g_meth q) body).
Proof. exact gateway_round_trip. Qed.

(* the query-string encoding of metadata is inverted exactly (url.Values.Encode then url.ParseQuery) *)
Theorem C19_metadata_query_round_trip : forall kvs, Forall wf_kv kvs -> parse_query (encode_query kvs) = (kvs, false).
Proof. exact parse_query_encode. Qed.

(* malformed gateway requests: a missing method or serialize-type header, no service path in header or URL,
   an id that is not a decimal number below 2^64, a serialize type that is not an integer, metadata that does
   not parse - each is rejected before any plugin, authentication or handler sees it *)
Theorem C19_gateway_rejects_missing_method : forall h url body, h_meth h = [] -> gateway_front h url body = None.
Proof. exact gateway_rejects_missing_method. Qed.
Theorem C19_gateway_rejects_missing_serialize_type : forall h url body, h_ser h = [] -> gateway_front h url body = None.
Proof. exact gateway_rejects_missing_serialize_type. Qed.
Theorem C19_gateway_rejects_missing_path : forall h url body,
  h_path h = [] -> trim_slash url = [] -> gateway_front h url body = None.
Proof. exact gateway_rejects_missing_path. Qed.
Theorem C19_gateway_rejects_non_numeric_id : forall h url body,
  h_id h <> [] -> parse_uint64 (h_id h) = None -> gateway_front h url body = None.
Proof. exact gateway_rejects_bad_id. Qed.
Theorem C19_an_id_that_parses_is_decimal : forall s v,
  parse_uint64 s = Some v -> s <> [] /\ forallb is_digit s = true /\ v < 18446744073709551616.
Proof. exact parse_uint64_only_digits. Qed.
Theorem C19_gateway_rejects_non_numeric_type : forall h url body,
  h_ser h <> [] -> atoi (h_ser h) = None -> gateway_front h url body = None.
Proof. exact gateway_rejects_bad_serialize_type. Qed.
Theorem C19_gateway_rejects_unparsable_metadata : forall h url body,
  h_meta h <> [] -> snd (parse_query (h_meta h)) = true -> gateway_front h url body = None.
Proof. exact gateway_rejects_bad_metadata. Qed.

(* composed with the ingress model: a request the header checks reject runs no handler and yields no result *)
Theorem C19_header_level_malformed_never_reaches_a_handler :
  forall find codec_ok decodable handler hmeta c h url body tok q0,
  gateway_front h url body = None ->
  let rq := mkIRq tok (match gateway_front h url body with None => true | Some _ => false end) q0 in
  o_invoked (serve find codec_ok decodable handler hmeta Gateway c rq) = [] /\
  is_result (o_out (serve find codec_ok decodable handler hmeta Gateway c rq)) = false.
Proof.
  intros find codec_ok decodable handler hmeta c h url body tok q0 H. rewrite H.
  apply malformed_rejected; [discriminate | reflexivity].
Qed.

(* what is forwarded is what was sent *)
Theorem C19_gateway_forwards_what_was_sent : forall h url body q,
  gateway_front h url body = Some q ->
  g_path q = (match h_path h with [] => trim_slash url | p => p end) /\ g_path q <> [] /\
  g_meth q = h_meth h /\ g_meth q <> [] /\ h_ser h <> [] /\ g_payload q = body.
Proof. exact gateway_forwards_what_was_sent. Qed.

(* JSON-RPC: "service.path.Method" is split at its last dot - the service path may contain dots - and a method
   name without a dot, or whose only dot comes first, is rejected *)
Theorem C19_jsonrpc_split_at_last_dot : forall p m, p <> [] -> has_byte 46 m = false ->
  jsonrpc_split (p ++ 46 :: m) = Some (p, m).
Proof. exact jsonrpc_split_at_last_dot. Qed.
Theorem C19_jsonrpc_rejects_no_service : forall s,
  has_byte 46 s = false \/ (exists m, s = 46 :: m /\ has_byte 46 m = false) -> jsonrpc_split s = None.
Proof. exact jsonrpc_split_rejects. Qed.

(* non-vacuity: seq 2^64-1, type 4, metadata with separators, blanks and non-ASCII bytes in keys and values *)
Example C19_header_level_nonvacuous :
  let q := mkGReq 18446744073709551615 false true 4 1 [([97;38;61], [32;195;188;37]); ([98], [])] [65;46;66] [77] [] in
  wf_greq q /\ gateway_front (to_http q) [47] [1;2;3] = Some (mkGReq 18446744073709551615 false true 4 1 (g_meta q) [65;46;66] [77] [1;2;3])
  /\ gateway_front (mkGHdr [120] [] [] [49] [] [] [] [65] [77]) [47] [] = None.
Proof.
  cbv zeta. split.
  - unfold wf_greq. cbn [g_seq g_ser g_comp g_meta]. repeat split; try (vm_compute; reflexivity).
    + repeat constructor; cbn; intuition discriminate.
    + repeat constructor; cbn; lia.
  - split; vm_compute; reflexivity.
Qed.

Print Assumptions C19_http_ingress_equals_native.
Print Assumptions C19_malformed_rejected.
Print Assumptions C19_gateway_builds_the_request_that_was_sent.
Print Assumptions C19_metadata_query_round_trip.
Print Assumptions C19_gateway_rejects_non_numeric_id.
Print Assumptions C19_gateway_rejects_unparsable_metadata.
Print Assumptions C19_header_level_malformed_never_reaches_a_handler.
Print Assumptions C19_gateway_forwards_what_was_sent.
Print Assumptions C19_jsonrpc_split_at_last_dot.
Print Assumptions C19_jsonrpc_rejects_no_service.
