(* C19 — HTTP gateway and JSON-RPC ingress are equivalent to the native protocol.
   Statements only; every proof is `exact <lemma>`.  Quantifier (DESIGN.md): services registered with
   Register* / RegisterFunction*; router handlers (AddHandler) write to the native connection and
   cannot be reached from the HTTP ingresses. *)
From Coq Require Import List NArith Arith Bool.
From RPCX Require Import Server.Dispatch Server.Ingress Server.IngressProofs.
Import ListNotations.

(* a two-way request that no stage rejects yields, through the HTTP gateway and through JSON-RPC, the
   outcome it yields natively - the same reply payload or the same error text - and runs the same
   handler: all three front ends call the same handleRequest *)
Theorem C19_http_ingress_equals_native : forall find codec_ok decodable handler hmeta ing c rq,
  ing <> Native ->
  rejected ing c rq = false -> q_hb (i_q rq) = false -> q_oneway (i_q rq) = false ->
  find (q_path (i_q rq)) (q_meth (i_q rq)) <> TRouter ->
  o_out (serve find codec_ok decodable handler hmeta ing c rq) = o_out (serve find codec_ok decodable handler hmeta Native c rq) /\
  o_invoked (serve find codec_ok decodable handler hmeta ing c rq) = o_invoked (serve find codec_ok decodable handler hmeta Native c rq).
Proof. exact http_ingress_equals_native. Qed.

(* malformed gateway requests (missing service / method / serialization headers, non-numeric id or
   type, unparsable metadata) and malformed JSON-RPC methods are rejected with an error and never
   reach a handler *)
Theorem C19_malformed_rejected : forall find codec_ok decodable handler hmeta ing c rq,
  ing <> Native -> i_malformed rq = true ->
  o_invoked (serve find codec_ok decodable handler hmeta ing c rq) = [] /\
  is_result (o_out (serve find codec_ok decodable handler hmeta ing c rq)) = false.
Proof. exact malformed_rejected. Qed.

Print Assumptions C19_http_ingress_equals_native.
Print Assumptions C19_malformed_rejected.
