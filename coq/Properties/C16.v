(* C16 — Graceful shutdown drains what was read and then stops.
   Statements only; every proof is `exact <lemma>`.  The model (Server/Shutdown.v) has one event per
   atomic operation / per code section between two points where another goroutine can interfere;
   a schedule is any list of events (events that are not enabled leave the state unchanged), so the
   theorems quantify over every interleaving of any number of connections, requests (normal, one-way,
   heartbeat, rate-limited, failing authentication, rejected by a plugin), Shutdown callers, Close()
   calls, peer disconnects and deadline expiries.  [info] gives each request its connection and kind. *)
From Coq Require Import List ZArith Arith Bool.
From RPCX Require Import Server.Shutdown Server.ShutdownInv Server.ShutdownTac Server.ShutdownProofs.
From RPCX Require Server.DoneChan Server.DoneChanGen Server.DoneChanProofs.
Import ListNotations.

(* (1) Unless the deadline expires, Shutdown returns nil only when every request read at any moment
   before the end of its wait loop - in particular before Shutdown was called - has run to completion;
   a request that has a response had it written, and written to a connection that was open unless the
   connection was closed for a reason other than the shutdown (peer, reader giving the connection up,
   Close()). *)
Theorem C16_drains_what_was_read : forall info evs1 evs2 k r,
  let s1 := run info init evs1 in
  let s2 := run info s1 evs2 in
  polled s1 = false -> wasread (ph s1 r) ->
  sh s2 k = SDone false ->
    (ph s2 r = PExited \/ ph s2 r = PDropped) /\
    (writes info r = true -> ph s2 r = PExited ->
       answered s2 r = true /\ (delivered s2 r = true \/ closed_early s2 (r_conn (info r)))).
Proof. exact drain_history. Qed.

(* the same on states: past a wait loop that ended with a zero count, nothing read before is pending *)
Theorem C16_drained_state : forall info evs s, s = run info init evs ->
  polled s = true -> expired s = false ->
  forall r, wasread (ph s r) -> late s r = false ->
    (ph s r = PExited \/ ph s r = PDropped) /\
    (writes info r = true -> ph s r = PExited ->
       answered s r = true /\ (delivered s r = true \/ closed_early s (r_conn (info r)))).
Proof. exact drain_state. Qed.

(* connections are closed by the shutdown (its final sweep, or the readers' deferred close) only past
   the wait loop *)
Theorem C16_connections_closed_after_the_wait : forall info evs s c, s = run info init evs ->
  cst s c = CClosed ByShutdown \/ cst s c = CClosed ByReaderDone ->
  polled s = true \/ closeCalled s = true.
Proof. exact closed_by_shutdown_only_after_wait. Qed.

(* the in-progress count is exact in every reachable state, so the wait ends as soon as everything
   that was read has finished *)
Theorem C16_count_exact : forall info evs s, s = run info init evs ->
  count s = Z.of_nat (length (filter (fun r => counted (ph s r)) (readlog s))).
Proof. exact count_exact. Qed.

Theorem C16_wait_ends_when_idle : forall info evs s k, s = run info init evs ->
  sh s k = SWaiting -> (forall r, wasread (ph s r) -> counted (ph s r) = false) ->
  sh (step info s (EPoll k)) k = SClosing false.
Proof. exact poll_succeeds_when_idle. Qed.

(* (2) after Shutdown has completed nothing is read and no handler starts for a request that had not
   been read, on old or new connections *)
Theorem C16_nothing_starts_after_completion : forall info evs1 evs2 r,
  let s1 := run info init evs1 in
  completed s1 -> ~ wasread (ph s1 r) ->
  ~ wasread (ph (run info s1 evs2) r) /\ ~ In r (started (run info s1 evs2)).
Proof. exact no_read_after_completion. Qed.

(* (3) the serve loop returns ErrServerClosed, and only after doneChan is closed; it returns another
   error only if Close() was called *)
Theorem C16_serve_returns_server_closed : forall info evs s, s = run info init evs ->
  (serve s = LReturned true -> done s = true /\ inShutdown s = true) /\
  (serve s = LReturned false -> closeCalled s = true).
Proof. exact serve_return. Qed.

Theorem C16_serve_returns_after_completion : forall info evs s, s = run info init evs ->
  completed s -> serve s = LAccepting ->
  serve (run info s [EAcceptErr; EServeRet]) = LReturned true.
Proof. exact serve_returns_closed_after_completion. Qed.

(* (4) repeated / concurrent Shutdown and Close: doneChan is closed at most once, one caller runs the
   shutdown, every other caller returns nil at once *)
Theorem C16_done_closed_at_most_once : forall info evs s, s = run info init evs -> closes s <= 1.
Proof. exact done_closed_at_most_once. Qed.

Theorem C16_one_shutdown_runs : forall info evs s k1 k2, s = run info init evs ->
  winner (sh s k1) -> winner (sh s k2) -> k1 = k2.
Proof. exact one_shutdown_runs. Qed.

Theorem C16_later_shutdown_returns_at_once : forall info s k,
  inShutdown s = true -> sh s k = SIdle -> sh (step info s (EShutBegin k)) k = SLost.
Proof. exact later_shutdown_returns_at_once. Qed.

(* non-vacuity: one connection, a request read and parked in its handler when Shutdown begins; the
   first poll fails, the handler finishes, the response is written, the second poll succeeds *)
Definition ex_info (r : nat) : rinfo := mkInfo 0 KNormal false.
Definition ex_evs1 : list event :=
  [EAccept 0; EServe 0; ETop 0; EArrive 1; ERead 1; EDispatch 1; ETop 0; EEnter 1; EStart 1].
Definition ex_evs2 : list event :=
  [EShutBegin 7; EPoll 7; EFinish 1; EWrite 1; EPoll 7; EExit 1; EPoll 7; ECloseConns 7; EReadErr 0; EWaitDone 0;
   EAcceptErr; EServeRet].
Example C16_nonvacuous :
  let s1 := run ex_info init ex_evs1 in
  let s2 := run ex_info s1 ex_evs2 in
  polled s1 = false /\ ph s1 1 = PRunning /\ sh s2 7 = SDone false /\
  ph s2 1 = PExited /\ answered s2 1 = true /\ delivered s2 1 = true /\
  cst s2 0 = CClosed ByShutdown /\ serve s2 = LReturned true /\ closes s2 = 1.
Proof. vm_compute. repeat split; reflexivity. Qed.

Print Assumptions C16_drains_what_was_read.
Print Assumptions C16_drained_state.
Print Assumptions C16_connections_closed_after_the_wait.
(* "Safe to call repeatedly or together with Close", at the granularity of single statements and about the code as it
   is now.  The model above treats "close doneChan unless it is closed" as one step; in the source it is two (look,
   then close), and closing a closed channel panics.  tools/godone2v regenerates from server/*.go, on every run, the one
   place that closes doneChan (it must have exactly the shape select { case <-s.doneChan: default: close(s.doneChan) })
   and its call sites with the state of s.mu there: every one of them stands under the mutex ... *)
Theorem C16_every_closing_of_done_stands_under_the_mutex :
  forallb (fun s => snd s) DoneChanGen.done_sites = true.
Proof. exact DoneChanProofs.every_site_holds_the_mutex. Qed.

(* ... and goroutines that run such call sites - any number of them, each any number of times (Shutdown, Close, again and
   together), interleaved statement by statement in any order - never close the channel twice: nobody panics. *)
Theorem C16_shutdown_and_close_never_close_done_twice : forall (calls : nat -> nat) sched,
  DoneChan.dpanic (DoneChan.drun sched
    (DoneChan.dstart (fun t => List.concat (repeat (DoneChan.site_prog true) (calls t))))) = false.
Proof. exact DoneChanProofs.server_never_closes_done_twice. Qed.

Print Assumptions C16_count_exact.
Print Assumptions C16_wait_ends_when_idle.
Print Assumptions C16_nothing_starts_after_completion.
Print Assumptions C16_serve_returns_server_closed.
Print Assumptions C16_serve_returns_after_completion.
Print Assumptions C16_done_closed_at_most_once.
Print Assumptions C16_one_shutdown_runs.
Print Assumptions C16_later_shutdown_returns_at_once.
Print Assumptions C16_every_closing_of_done_stands_under_the_mutex.
Print Assumptions C16_shutdown_and_close_never_close_done_twice.
