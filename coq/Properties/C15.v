(* C15 — Rejected connections and requests never reach a handler, on any ingress.
   Statements only; every proof is `exact <lemma>`. *)
From Coq Require Import List NArith Arith Bool.
From RPCX Require Import Server.Dispatch Server.Ingress Server.IngressProofs.
Import ListNotations.

(* For every ingress (native, HTTP gateway, JSON-RPC), every configuration of rejecting stages
   (accept plugin, post-read plugin, authentication, pre-call plugin), every token (missing, wrong,
   right), every flag combination of the request and every service table / handler: a rejected
   request runs no handler and the requester gets no result. *)
Theorem C15_rejected_never_reaches_a_handler : forall find codec_ok decodable handler ing c rq,
  rejected ing c rq = true ->
  (find (q_path (i_q rq)) (q_meth (i_q rq)) <> TRouter \/ ic_precall c = false) ->
  o_invoked (serve find codec_ok decodable handler ing c rq) = [] /\
  is_result (o_out (serve find codec_ok decodable handler ing c rq)) = false.
Proof. exact rejected_never_reaches_a_handler. Qed.

(* on the native protocol a connection that failed authentication is closed *)
Theorem C15_native_auth_failure_closes : forall find codec_ok decodable handler c rq,
  ic_accept_veto c = false -> ic_postread c = false -> q_hb (i_q rq) = false ->
  auth_ok c (i_token rq) = false ->
  o_closed (serve find codec_ok decodable handler Native c rq) = true /\
  o_invoked (serve find codec_ok decodable handler Native c rq) = [].
Proof. exact native_auth_failure_closes. Qed.

(* the heartbeat flag never lets a request reach a handler (natively it is echoed; on the HTTP
   ingresses it is ignored and authentication applies: covered by the first theorem) *)
Theorem C15_heartbeat_never_reaches_a_handler : forall find codec_ok decodable handler c rq,
  q_hb (i_q rq) = true ->
  o_invoked (serve find codec_ok decodable handler Native c rq) = [] /\
  is_result (o_out (serve find codec_ok decodable handler Native c rq)) = false.
Proof. exact heartbeat_never_reaches_a_handler_natively. Qed.

Example C15_nonvacuous :
  rejected Gateway (mkICfg true false true false) (mkIRq TokRight false (mkReq 1 1 1 1 false false 1)) = true /\
  rejected Native (mkICfg false false true false) (mkIRq TokWrong false (mkReq 1 1 1 1 false true 1)) = true.
Proof. split; reflexivity. Qed.

Print Assumptions C15_rejected_never_reaches_a_handler.
Print Assumptions C15_native_auth_failure_closes.
Print Assumptions C15_heartbeat_never_reaches_a_handler.
