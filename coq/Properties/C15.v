(* C15 — Rejected connections and requests never reach a handler, on any ingress.
   Statements only; every proof is `exact <lemma>`. *)
From Coq Require Import List NArith Arith Bool String.
From RPCX Require Import Server.Dispatch Server.Ingress Server.IngressProofs Server.Plugins Server.PluginsGen Server.PluginsProofs
  Server.StockPlugins Server.StockPluginsProofs.
From RPCX Require Server.Gate Server.GateProofs.
Import ListNotations.
Open Scope string_scope.

(* For every ingress (native, HTTP gateway, JSON-RPC), every configuration of rejecting stages
   (accept plugin, post-read plugin, authentication, pre-call plugin), every token (missing, wrong,
   right), every flag combination of the request and every service table / handler: a rejected
   request runs no handler and the requester gets no result. *)
Theorem C15_rejected_never_reaches_a_handler : forall find codec_ok decodable handler hmeta ing c rq,
  rejected ing c rq = true ->
  (find (q_path (i_q rq)) (q_meth (i_q rq)) <> TRouter \/ ic_precall c = false) ->
  o_invoked (serve find codec_ok decodable handler hmeta ing c rq) = [] /\
  is_result (o_out (serve find codec_ok decodable handler hmeta ing c rq)) = false.
Proof. exact rejected_never_reaches_a_handler. Qed.

(* on the native protocol a connection that failed authentication is closed *)
Theorem C15_native_auth_failure_closes : forall find codec_ok decodable handler hmeta c rq,
  ic_accept_veto c = false -> ic_postread c = false -> q_hb (i_q rq) = false ->
  auth_ok c (i_token rq) = false ->
  o_closed (serve find codec_ok decodable handler hmeta Native c rq) = true /\
  o_invoked (serve find codec_ok decodable handler hmeta Native c rq) = [].
Proof. exact native_auth_failure_closes. Qed.

(* the heartbeat flag never lets a request reach a handler (natively it is echoed; on the HTTP
   ingresses it is ignored and authentication applies: covered by the first theorem) *)
Theorem C15_heartbeat_never_reaches_a_handler : forall find codec_ok decodable handler hmeta c rq,
  q_hb (i_q rq) = true ->
  o_invoked (serve find codec_ok decodable handler hmeta Native c rq) = [] /\
  is_result (o_out (serve find codec_ok decodable handler hmeta Native c rq)) = false.
Proof. exact heartbeat_never_reaches_a_handler_natively. Qed.

(* The same over plugin chains.  [accept], [postread], [precall] are the verdicts of the plugins registered for the
   three stages, in registration order (true = rejects); how a chain combines its verdicts is read from the table
   regenerated from server/plugin.go on every run (Server/PluginsGen.v): whichever plugin rejects - first, last or in
   the middle - the request runs no handler and yields no result, on every ingress. *)
Theorem C15_any_rejecting_plugin_wherever_registered :
  forall find codec_ok decodable handler hmeta accept postread precall auth ing rq,
  In true accept \/ In true postread \/
  (In true precall /\ (match ing with Native => q_hb (i_q rq) | _ => false end) = false) ->
  find (q_path (i_q rq)) (q_meth (i_q rq)) <> TRouter \/ ~ In true precall ->
  let c := cfg_of_plugins accept postread precall auth in
  o_invoked (serve find codec_ok decodable handler hmeta ing c rq) = [] /\
  is_result (o_out (serve find codec_ok decodable handler hmeta ing c rq)) = false.
Proof. exact any_rejecting_plugin_keeps_the_request_out. Qed.

(* the obligation on the generated table: the three rejecting stages stop at the first rejection *)
Theorem C15_rejecting_stages_stop_at_the_first_rejection :
  kind_eqb (kind_of plugin_chains "DoPostConnAccept") FirstReject &&
  kind_eqb (kind_of plugin_chains "DoPostReadRequest") FirstReject &&
  kind_eqb (kind_of plugin_chains "DoPreCall") FirstReject = true.
Proof. exact rejecting_stages_first_reject. Qed.

(* the stock access-control plugins (serverplugin/): the whitelist admits a connection exactly when its remote address
   is well-formed and the list or one of the masks names it; the blacklist refuses exactly those; the rate limiter
   lets exactly the first [capacity] requests of a burst pass; and a connection that the configured plugins do not
   all admit reaches no handler and gets no result on any ingress *)
Theorem C15_whitelist_rule : forall addr_ok in_list in_masks,
  whitelist_admits addr_ok in_list in_masks = true <-> addr_ok = true /\ (in_list = true \/ In true in_masks).
Proof. exact whitelist_spec. Qed.
Theorem C15_blacklist_rule : forall addr_ok in_list in_masks,
  blacklist_admits addr_ok in_list in_masks = false <-> addr_ok = true /\ (in_list = true \/ In true in_masks).
Proof. exact blacklist_spec. Qed.
Theorem C15_rate_limit_passes_exactly_capacity : forall capacity n,
  List.length (filter (fun b => b) (rate_run capacity 0 n)) = Nat.min capacity n.
Proof. exact rate_limit_passes_exactly_capacity. Qed.
Theorem C15_refused_connection_reaches_no_handler :
  forall find codec_ok decodable handler hmeta ing verdicts postread auth precall rq,
  all_admit verdicts = false ->
  let c := mkICfg (negb (all_admit verdicts)) postread auth precall in
  o_invoked (serve find codec_ok decodable handler hmeta ing c rq) = [] /\
  is_result (o_out (serve find codec_ok decodable handler hmeta ing c rq)) = false.
Proof. exact refused_connection_reaches_no_handler. Qed.

Example C15_chain_nonvacuous :
  ic_precall (cfg_of_plugins [] [] [false; true; false] false) = true /\
  ic_precall (cfg_of_plugins [] [] [false; false] false) = false.
Proof. vm_compute. split; reflexivity. Qed.

Example C15_nonvacuous :
  rejected Gateway (mkICfg true false true false) (mkIRq TokRight false (mkReq 1 1 1 1 false false 1)) = true /\
  rejected Native (mkICfg false false true false) (mkIRq TokWrong false (mkReq 1 1 1 1 false true 1)) = true.
Proof. split; reflexivity. Qed.

Print Assumptions C15_rejected_never_reaches_a_handler.
(* The native connection loop with its refusals answered by the reader (Server/Gate.v), any number of connections,
   any interleaving of reads and completions: every handler invocation belongs to a request that was read and that
   neither a PostReadRequest plugin nor AuthFunc refused. *)
Theorem C15_native_loop_refused_requests_reach_no_handler : forall find codec_ok decodable handler hmeta limited denied es i,
  In i (invoked (Gate.gbase (Gate.grun find codec_ok decodable handler hmeta limited denied Gate.ginit es))) ->
  exists c rid q, In (CRead c rid q) es /\ Gate.refusal limited denied q = None /\
                  In i (snd (process find codec_ok decodable handler hmeta q)).
Proof. exact GateProofs.refused_requests_never_reach_a_handler. Qed.

(* only a failed authentication closes the connection, and heartbeats are not authenticated *)
Theorem C15_only_failed_authentication_closes : forall limited denied q t,
  Gate.refusal limited denied q = Some (t, true) ->
  q_hb q = false /\ denied (q_path q) (q_meth q) (q_args q) = Some t /\ limited (q_path q) (q_meth q) (q_args q) = None.
Proof. exact GateProofs.only_auth_closes. Qed.

Print Assumptions C15_any_rejecting_plugin_wherever_registered.
Print Assumptions C15_rejecting_stages_stop_at_the_first_rejection.
Print Assumptions C15_native_auth_failure_closes.
Print Assumptions C15_heartbeat_never_reaches_a_handler.
Print Assumptions C15_whitelist_rule.
Print Assumptions C15_blacklist_rule.
Print Assumptions C15_rate_limit_passes_exactly_capacity.
Print Assumptions C15_refused_connection_reaches_no_handler.
Print Assumptions C15_native_loop_refused_requests_reach_no_handler.
Print Assumptions C15_only_failed_authentication_closes.
