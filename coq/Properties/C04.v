(* C04 — Server answers each request exactly once, stamped with its identity.
   Statements only; every proof is `exact <lemma>`.  find / codec_ok / decodable / handler are
   universally quantified: every service table, codec set and handler behaviour. *)
From Coq Require Import List NArith Arith Bool Permutation.
From RPCX Require Import Server.Dispatch Server.DispatchProofs Server.Gate Server.GateProofs.
Import ListNotations.

Theorem C04_two_way_exactly_one_stamped : forall find codec_ok decodable handler hmeta q,
  q_hb q = false -> q_oneway q = false ->
  exists r, fst (process find codec_ok decodable handler hmeta q) = [r] /\ stamped q r.
Proof. exact two_way_exactly_one. Qed.

Theorem C04_one_way_no_response : forall find codec_ok decodable handler hmeta q,
  q_hb q = false -> q_oneway q = true -> fst (process find codec_ok decodable handler hmeta q) = [].
Proof. exact one_way_no_response. Qed.

Theorem C04_heartbeat_echo : forall find codec_ok decodable handler hmeta q, q_hb q = true ->
  process find codec_ok decodable handler hmeta q = ([base q SNormal None (q_args q)], []).
Proof. exact heartbeat_echo. Qed.

(* any interleaving of reads and completions on any number of connections: a frame written on a
   connection answers a request that was read on that very connection *)
Theorem C04_frames_answer_own_connection : forall find codec_ok decodable handler hmeta es c f,
  In (c, f) (written (crun find codec_ok decodable handler hmeta cinit es)) ->
  exists rid q, In (CRead c rid q) es /\ In f (fst (process find codec_ok decodable handler hmeta q)).
Proof. exact frames_answer_own_connection. Qed.

(* every completion order: what was written is, in completion order, each request's own frames on
   its own connection - each exactly once *)
Theorem C04_completed_requests_written_once : forall find codec_ok decodable handler hmeta l order,
  NoDup (map (fun x => fst (fst x)) l) -> Permutation order l ->
  written (crun find codec_ok decodable handler hmeta cinit (reads l ++ map (fun x => CDone (fst (fst x))) order))
  = flat_map (frames_of find codec_ok decodable handler hmeta) order.
Proof. exact completed_requests_written_once. Qed.

(* a request refused by a pre-call plugin still gets exactly one answer (the plugin's text) and runs no handler *)
Theorem C04_precall_refusal_answered_once_no_handler : forall find codec_ok decodable handler hmeta q t,
  q_hb q = false -> (find (q_path q) (q_meth q) = TMethod \/ find (q_path q) (q_meth q) = TFunction) ->
  handler (q_path q) (q_meth q) (q_args q) = HVeto t ->
  snd (process find codec_ok decodable handler hmeta q) = [] /\
  (q_oneway q = false -> codec_ok (q_ser q) = true -> decodable (q_ser q) (q_args q) = true ->
   fst (process find codec_ok decodable handler hmeta q) = [err_resp q (XExact t)]).
Proof. exact precall_refusal_runs_no_handler. Qed.

Example C04_nonvacuous :
  let find := fun p m => if Nat.eqb p 1 then TMethod else TNoService in
  let handler := fun p m a => HReply (a * 10) in
  let q1 := mkReq 7 1 1 1 false false 3 in let q2 := mkReq 7 2 1 1 false false 4 in
  map (fun cf => (fst cf, r_seq (snd cf), r_payload (snd cf), r_err (snd cf)))
      (written (crun find (fun _ => true) (fun _ _ => true) handler (fun _ _ _ => [(5, 6)]) cinit [CRead 0 0 q1; CRead 1 1 q2; CDone 1; CDone 0]))
  = [(1, 7%N, 0, Some (XNoService 2)); (0, 7%N, 30, None)].
Proof. reflexivity. Qed.

(* The connection loop in front of the dispatch (Server/Gate.v): a request that a PostReadRequest plugin (the rate
   limiters) or AuthFunc refuses is answered by the reader itself - exactly once if it is two-way: an error frame that
   carries the refuser's text and the request's own sequence number, path, method and serialisation - and runs no
   handler; a refused one-way request produces no frame. *)
Theorem C04_refused_request_answered_once_stamped : forall find codec_ok decodable handler hmeta limited denied q t cl,
  refusal limited denied q = Some (t, cl) -> q_oneway q = false ->
  exists r, serve find codec_ok decodable handler hmeta limited denied q = ([r], []) /\ stamped q r /\
            r_status r = SError /\ r_err r = Some (XExact t) /\ r_hb r = q_hb q /\ r_payload r = 0.
Proof. exact refused_answered_once. Qed.

Theorem C04_refused_one_way_request_is_silent : forall find codec_ok decodable handler hmeta limited denied q t cl,
  refusal limited denied q = Some (t, cl) -> q_oneway q = true ->
  serve find codec_ok decodable handler hmeta limited denied q = ([], []).
Proof. exact refused_one_way_silent. Qed.

(* refused or not: every two-way request gets exactly one stamped frame, every one-way request none *)
Theorem C04_served_two_way_exactly_one_stamped : forall find codec_ok decodable handler hmeta limited denied q,
  q_hb q = false -> q_oneway q = false ->
  exists r, fst (serve find codec_ok decodable handler hmeta limited denied q) = [r] /\ stamped q r.
Proof. exact served_two_way_exactly_one. Qed.

Theorem C04_served_one_way_no_response : forall find codec_ok decodable handler hmeta limited denied q,
  q_hb q = false -> q_oneway q = true -> fst (serve find codec_ok decodable handler hmeta limited denied q) = [].
Proof. exact served_one_way_silent. Qed.

(* any interleaving of reads (with refusals answered by the reader, and connections closed by a failed
   authentication no longer read) and completions: a frame written on a connection answers a request read on it *)
Theorem C04_served_frames_answer_own_connection : forall find codec_ok decodable handler hmeta limited denied es c f,
  In (c, f) (written (gbase (grun find codec_ok decodable handler hmeta limited denied ginit es))) ->
  exists rid q, In (CRead c rid q) es /\ In f (fst (serve find codec_ok decodable handler hmeta limited denied q)).
Proof. exact served_frames_answer_own_connection. Qed.

Example C04_gate_nonvacuous :
  let find := fun p m => TMethod in
  let handler := fun p m a => HReply (a * 10) in
  let limited := fun p m a => if Nat.eqb a 3 then Some 902 else None in
  let denied := fun p m a => if Nat.eqb a 5 then Some 903 else None in
  let q a ow hb := mkReq 7 1 1 1 hb ow a in
  let st := grun find (fun _ => true) (fun _ _ => true) handler (fun _ _ _ => []) limited denied ginit
      [CRead 0 0 (q 3 false false); CRead 0 1 (q 4 false false); CRead 0 2 (q 3 true false); CRead 1 3 (q 5 false true);
       CRead 1 4 (q 5 false false); CRead 1 5 (q 4 false false); CDone 1] in
  map (fun cf => (fst cf, r_payload (snd cf), r_err (snd cf))) (written (gbase st))
  = [(0, 0, Some (XExact 902)); (1, 0, Some (XExact 903)); (0, 40, None)]
  /\ gclosed st = [1] /\ invoked (gbase st) = [(1, 1, 4)].
Proof. vm_compute. repeat split. Qed.

Print Assumptions C04_two_way_exactly_one_stamped.
Print Assumptions C04_one_way_no_response.
Print Assumptions C04_heartbeat_echo.
Print Assumptions C04_frames_answer_own_connection.
Print Assumptions C04_completed_requests_written_once.
Print Assumptions C04_precall_refusal_answered_once_no_handler.
Print Assumptions C04_refused_request_answered_once_stamped.
Print Assumptions C04_refused_one_way_request_is_silent.
Print Assumptions C04_served_two_way_exactly_one_stamped.
Print Assumptions C04_served_one_way_no_response.
Print Assumptions C04_served_frames_answer_own_connection.
