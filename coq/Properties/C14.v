(* C14 — Discovery updates converge to the last published server set, filtered.
   Statements only; every proof is `exact <lemma>`. *)
From Coq Require Import List Arith Bool NArith.
From RPCX Require Import Wire.Bytes Server.Gateway XClient.Discovery XClient.DiscoveryProofs XClient.Metadata XClient.MetadataProofs.
Import ListNotations.
Close Scope N_scope.

(* For every sequence of publications interleaved in every possible way with the client's watch
   loop (one channel of capacity 10 per watcher; a full channel drops its oldest snapshot): once
   updates stop and the loop has emptied the channel, the snapshot it applied last is the last one
   published.  An earlier update never overwrites a later one. *)
Theorem C14_converges_to_last_published : forall (snapshot : Type) (es : list (@devent snapshot)) u0,
  let s := drun (mkW [] u0 None) es in
  forall u, lastpub s = Some u -> applied (drain (length (q s)) s) = Some u.
Proof. exact @converges_to_last_published. Qed.

Theorem C14_last_published_is_last_Pub : forall (snapshot : Type) (es : list (@devent snapshot)) s,
  lastpub (drun s es) = fold_left (fun acc e => match e with Pub u => Some u | Consume => acc end) es (lastpub s).
Proof. exact @lastpub_drun. Qed.

(* what the client keeps of an applied snapshot: exactly the servers that are not marked inactive and
   (when a group is configured) announce that group among their group values *)
Theorem C14_filter_keeps_exactly : forall group servers k p,
  In (k, p) (filter_servers group servers) <-> In (k, p) servers /\ keep_server group p = true.
Proof. exact filter_servers_spec. Qed.

Theorem C14_keep_rule : forall group kvs,
  keep_server group (Some kvs) = true <->
  first_val K_STATE kvs <> Some V_INACTIVE /\ (group = 0 \/ In group (all_vals K_GROUP kvs)).
Proof. exact keep_server_spec. Qed.


(* ---- on the raw metadata strings (XClient/Metadata.v: url.ParseQuery as modelled in Server/Gateway.v) ---- *)
(* a server is kept exactly when its metadata does not parse, or its state is not "inactive" and - if the client
   has a group - one of its group values is that group *)
Theorem C14_keep_rule_on_raw_metadata : forall group meta,
  keep_raw group meta = true <->
  match parse_meta meta with
  | None => True
  | Some kvs => q_get S_STATE kvs <> S_INACTIVE /\ (group = [] \/ In group (q_all S_GROUP kvs))
  end.
Proof. exact keep_raw_spec. Qed.

Theorem C14_filter_on_raw_metadata : forall group servers k m,
  In (k, m) (filter_raw group servers) <-> In (k, m) servers /\ keep_raw group m = true.
Proof. exact filter_raw_spec. Qed.

(* the raw rule IS the interned rule of C14_keep_rule, for every injective numbering of the strings that gives the
   reserved words their numbers *)
Theorem C14_raw_rule_refines_to_the_model : forall (intern : bytes -> nat),
  (forall a b, intern a = intern b -> a = b) ->
  intern S_STATE = K_STATE -> intern S_GROUP = K_GROUP -> intern S_INACTIVE = V_INACTIVE -> intern [] = 0 ->
  forall group meta,
  keep_raw group meta = keep_server (intern group) (option_map (imap intern) (parse_meta meta)).
Proof. exact keep_raw_refines. Qed.

(* non-vacuity: "st%61te=inactive" is state=inactive; "state=inactive;x" does not parse and is left alone *)
Open Scope N_scope.
Example C14_raw_nonvacuous :
  keep_raw [] [115;116;37;54;49;116;101;61;105;110;97;99;116;105;118;101] = false /\
  keep_raw [98] [115;116;97;116;101;61;105;110;97;99;116;105;118;101;59;120] = true /\
  keep_raw [98] [103;114;111;117;112;61;97;38;103;114;111;117;112;61;98] = true /\
  keep_raw [99] [103;114;111;117;112;61;97;38;103;114;111;117;112;61;98] = false.
Proof. vm_compute. repeat split. Qed.
Close Scope N_scope.

(* selection is then from the applied set: C11 (every strategy returns a member of the most recent set) *)

(* non-vacuity: 12 rapid publications with the watch loop stalled overflow the channel; draining
   still ends on the last one *)
Example C14_nonvacuous :
  let s := drun (mkW [] (Some 0) None) (map Pub [1;2;3;4;5;6;7;8;9;10;11;12]) in
  q s = [3;4;5;6;7;8;9;10;11;12] /\ applied (drain (length (q s)) s) = Some 12.
Proof. vm_compute. split; reflexivity. Qed.

Print Assumptions C14_converges_to_last_published.
Print Assumptions C14_last_published_is_last_Pub.
Print Assumptions C14_filter_keeps_exactly.
Print Assumptions C14_keep_rule.
Print Assumptions C14_keep_rule_on_raw_metadata.
Print Assumptions C14_filter_on_raw_metadata.
Print Assumptions C14_raw_rule_refines_to_the_model.
