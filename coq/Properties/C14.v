(* C14 — Discovery updates converge to the last published server set, filtered.
   Statements only; every proof is `exact <lemma>`. *)
From Coq Require Import List Arith Bool.
From RPCX Require Import XClient.Discovery XClient.DiscoveryProofs.
Import ListNotations.

(* For every sequence of publications interleaved in every possible way with the client's watch
   loop (one channel of capacity 10 per watcher; a full channel drops its oldest snapshot): once
   updates stop and the loop has emptied the channel, the snapshot it applied last is the last one
   published.  An earlier update never overwrites a later one. *)
Theorem C14_converges_to_last_published : forall (snapshot : Type) (es : list (@devent snapshot)) u0,
  let s := drun (mkW [] u0 None) es in
  forall u, lastpub s = Some u -> applied (drain (length (q s)) s) = Some u.
Proof. exact @converges_to_last_published. Qed.

Theorem C14_last_published_is_last_Pub : forall (snapshot : Type) (es : list (@devent snapshot)) s,
  lastpub (drun s es) = fold_left (fun acc e => match e with Pub u => Some u | Consume => acc end) es (lastpub s).
Proof. exact @lastpub_drun. Qed.

(* what the client keeps of an applied snapshot: exactly the servers that are not marked inactive and
   (when a group is configured) announce that group among their group values *)
Theorem C14_filter_keeps_exactly : forall group servers k p,
  In (k, p) (filter_servers group servers) <-> In (k, p) servers /\ keep_server group p = true.
Proof. exact filter_servers_spec. Qed.

Theorem C14_keep_rule : forall group kvs,
  keep_server group (Some kvs) = true <->
  first_val K_STATE kvs <> Some V_INACTIVE /\ (group = 0 \/ In group (all_vals K_GROUP kvs)).
Proof. exact keep_server_spec. Qed.

(* selection is then from the applied set: C11 (every strategy returns a member of the most recent set) *)

(* non-vacuity: 12 rapid publications with the watch loop stalled overflow the channel; draining
   still ends on the last one *)
Example C14_nonvacuous :
  let s := drun (mkW [] (Some 0) None) (map Pub [1;2;3;4;5;6;7;8;9;10;11;12]) in
  q s = [3;4;5;6;7;8;9;10;11;12] /\ applied (drain (length (q s)) s) = Some 12.
Proof. vm_compute. split; reflexivity. Qed.

Print Assumptions C14_converges_to_last_published.
Print Assumptions C14_last_published_is_last_Pub.
Print Assumptions C14_filter_keeps_exactly.
Print Assumptions C14_keep_rule.
