(* C06 — Calls sharing a connection are isolated from each other.
   Statements only; every proof is `exact <lemma>`. *)
From Coq Require Import List NArith Arith Bool.
From RPCX Require Import Client.ClientSM Client.ClientProofs Client.ClientLive.
From RPCX Require Client.Pending Client.PendingGenProofs.
Import ListNotations.

(* Any step of call a - registering, a failed encoding of its argument, its write or write failure,
   its one-way completion, its cancellation or deadline (before or after registration), its return -
   leaves every other call v exactly as it was: same record (result, signals), same pending entry.
   The only exception is a v registered under a key that a's step uses, which needs a SendRaw with a
   caller-chosen sequence number clashing with another call's. *)
Theorem C06_own_steps_are_local : forall st e a v xv,
  Inv (pending st) (calls st) -> owner e = Some a -> v <> a ->
  nth_error (calls st) v = Some xv ->
  (forall k, In k (touch_keys st e) -> c_seq xv <> Some k) ->
  same_for v st (step st e).
Proof. exact own_steps_are_local. Qed.

(* A received frame touches only the call registered under its own sequence number, whatever it
   carries (service error, reply of the wrong type, unknown codec). *)
Theorem C06_received_frame_is_local : forall st f v xv,
  Inv (pending st) (calls st) -> nth_error (calls st) v = Some xv -> c_seq xv <> Some (f_seq f) ->
  same_for v st (step st (ERecv f)).
Proof. exact recv_is_local. Qed.

(* No step of a call and no received frame closes the connection or marks the client shut down:
   only the reader's termination (a frame that cannot be decoded, or a transport error) and Close do. *)
Theorem C06_connection_not_torn_down : forall st e,
  match e with EReadErr _ | EClose => True | _ => flags (step st e) = flags st end.
Proof. exact flags_step. Qed.

(* non-vacuity, and the two schedules on which the unrepaired client broke isolation: an
   already-cancelled Call (seq cell still 0) next to the first call of the connection; a reply of
   the wrong type next to a call in flight *)
Definition fr6 (id : nat) (s : N) (pl : nat) (dec : bool) : frame := mkFrame id s false false false 0 pl dec true.
Example C06_nonvacuous :
  let cs := [new_call KGo false 0; new_call KCall false 0; new_call KGo false 0] in
  let st := run (init cs false)
      [EReg 0; EWriteOk 0; ECtx 1; EReg 1; EReg 2; EWriteOk 2; ERecv (fr6 5 2 9 false); ERecv (fr6 6 0 7 true)] in
  map (fun x => map snd (c_signals x)) (calls st) = [[ROk 7]; []; [RDecodeErr]] /\
  shutdown st = false /\ conn_open st = true.
Proof. vm_compute. repeat split. Qed.

(* At the granularity of single statements, about the code as it is now (the paths of send, SendRaw, call, input and
   Close regenerated from client/client.go on every run, see C05 (iv)): under ANY interleaving of any number of
   goroutines running these paths, a call's fields are written and the call is completed only by the one goroutine
   that holds it - the function it was handed to until that function registers it, afterwards whoever removed it
   from the table under the mutex; nobody touches a call that sits in the table, a completed call, a nil call, or a
   call somebody else has touched since it left the table (that is what bad records). *)
Theorem C06_a_call_is_touched_only_by_the_goroutine_that_holds_it : forall progs sched,
  (forall t, PendingGenProofs.runs_of PendingGenProofs.all_paths (progs t)) ->
  Pending.bad (Pending.run sched (Pending.start progs)) = false.
Proof. exact PendingGenProofs.client_goroutines_never_share_a_call. Qed.

Print Assumptions C06_own_steps_are_local.
Print Assumptions C06_received_frame_is_local.
Print Assumptions C06_connection_not_torn_down.
Print Assumptions C06_a_call_is_touched_only_by_the_goroutine_that_holds_it.
