(* C08 — Frames are never interleaved or torn on a shared connection.
   Statements only; every proof is `exact <lemma>`.  The write sites (Wire/SharedGen.v) are regenerated
   from /repo's Go source on every run; Wire/SharedGenProofs.v re-checks that every control-flow path
   of every site follows the discipline Get; Fill; Write once; Put once.
   Premise on the transport (net.Conn): the bytes of one Write call are contiguous in the stream. *)
From Coq Require Import List NArith Arith Bool.
From RPCX Require Import Wire.Bytes Wire.Header Wire.Codec Wire.CodecSpec Wire.CodecRoundTrip Wire.EncodeProofs
  Wire.Shared Wire.SharedProofs Wire.SharedGen Wire.SharedGenProofs.
Import ListNotations.
Close Scope N_scope.
Open Scope nat_scope.

(* For any number of writers, each executing any path of any write site of the code, sending any
   well-formed messages, and for every schedule of their pool / transport operations (and every choice
   of the pooled buffer handed out): the byte stream is the concatenation of whole frames, one per
   write, each equal to the frame of the message its writer sent. *)
Theorem C08_stream_is_whole_frames : forall env maxlen msg,
  (forall t, frame_ok env maxlen (msg t)) ->
  forall site sched,
  stream (wrun env msg (progs site) sched) =
  flat_map (fun t => frame_bytes env (msg t)) (wlog (wrun env msg (progs site) sched)).
Proof. exact sites_stream_is_frames. Qed.

(* An independent decoder reading that stream - however the transport segments it: the decoder only
   sees the concatenation - recovers exactly the messages sent, in the order of the writes. *)
Theorem C08_peer_decodes_what_was_sent : forall env maxlen msg,
  (forall t, frame_ok env maxlen (msg t)) ->
  forall site sched old fuel,
  length (wlog (wrun env msg (progs site) sched)) <= fuel ->
  decode_all fuel env maxlen old (stream (wrun env msg (progs site) sched)) =
  (map msg (wlog (wrun env msg (progs site) sched)), None).
Proof. exact sites_stream_decodes. Qed.

(* no frame is duplicated: every writer's frame appears at most once *)
Theorem C08_each_frame_at_most_once : forall env maxlen msg,
  (forall t, frame_ok env maxlen (msg t)) ->
  forall site sched t,
  count_occ Nat.eq_dec (wlog (wrun env msg (progs site) sched)) t <= 1.
Proof. exact sites_frame_at_most_once. Qed.

(* the same for arbitrary programs that follow the discipline (not only today's sites) *)
Theorem C08_discipline_suffices : forall env maxlen msg,
  (forall t, frame_ok env maxlen (msg t)) ->
  forall prog0 sched, (forall t, safe_from 0 (prog0 t) = true) ->
  stream (wrun env msg prog0 sched) = flat_map (frame env msg) (wlog (wrun env msg prog0 sched)).
Proof. exact shared_stream_is_frames. Qed.

(* the obligations on the generated sites *)
Theorem C08_every_site_follows_the_discipline :
  forallb (fun sp => safe_from 0 (snd sp)) site_paths = true /\
  forallb (fun sp => Nat.leb (count_writes (snd sp)) 1) site_paths = true.
Proof. exact (conj all_sites_safe all_sites_write_once). Qed.

(* Non-vacuity, and the discipline is what the theorem rests on: a writer that puts its buffer twice
   (thread 0) lets two later writers share one buffer; in this schedule the stream carries the frame of
   thread 2 twice and never the frame of thread 1. *)
Definition ex_env : comp_env := fun _ => None.
Definition ex_msg (t : nat) : message :=
  mkMsg [8;0;0;0;0;0;0;0;0;0;0;N.of_nat t]%N [65]%N [66]%N [] [N.of_nat t; 7]%N.
Definition ex_bad (t : nat) : list op :=
  match t with 0 => [OGet; OFill; OWrite; OPut; OPut] | _ => [OGet; OFill; OWrite; OPut] end.
Definition ex_sched : list (nat * nat) :=
  [(0,0);(0,0);(0,0);(0,0);(0,0); (1,0); (2,0); (1,0); (2,0); (1,0); (2,0)].
Example C08_double_put_tears_the_stream :
  let s := wrun ex_env ex_msg ex_bad ex_sched in
  wlog s = [0; 1; 2] /\
  stream s = frame_bytes ex_env (ex_msg 0) ++ frame_bytes ex_env (ex_msg 2) ++ frame_bytes ex_env (ex_msg 2) /\
  safe_from 0 (ex_bad 0) = false.
Proof. vm_compute. repeat split; reflexivity. Qed.

(* the same schedule with every writer following the discipline *)
Example C08_nonvacuous :
  let s := wrun ex_env ex_msg (fun _ => [OGet; OFill; OWrite; OPut]) ex_sched in
  stream s = frame_bytes ex_env (ex_msg 0) ++ frame_bytes ex_env (ex_msg 1) ++ frame_bytes ex_env (ex_msg 2).
Proof. vm_compute. reflexivity. Qed.

Print Assumptions C08_stream_is_whole_frames.
Print Assumptions C08_peer_decodes_what_was_sent.
Print Assumptions C08_each_frame_at_most_once.
Print Assumptions C08_discipline_suffices.
Print Assumptions C08_every_site_follows_the_discipline.
