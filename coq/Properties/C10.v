(* C10 — Fail-mode contract: bounded attempts, no re-execution, truthful result.
   Statements only; every proof is `exact <lemma>`.  The model (XClient/FailMode.v) mirrors the
   switch arms of xClient.Call, which xClient.SendRaw shares after the repair; the environment is a
   per-server script of dial results and per-attempt outcomes, quantified universally. *)
From Coq Require Import List Arith Bool.
From RPCX Require Import XClient.FailMode XClient.FailModeProofs.
Import ListNotations.

(* For every mode in {fail-fast, fail-try, fail-over}, every retry count, every number of servers,
   every script of dial results and per-attempt outcomes, every cache state and cursor:
   l = the requests this call delivered to servers, in order.
   (i)   at most retries+1 of them (fail-try / fail-over), at most one (fail-fast);
   (ii)  success is returned exactly when the attempt the call ends with succeeded, with its reply;
   (iii) a service error, a cancelled context, an expired deadline (or a success) is the last attempt;
   (iv)  fail-try sends every attempt to the same server. *)
Theorem C10_call_contract : forall m retries en,
  let r := xcall m retries en in
  exists l, attempts (x_env r) = attempts en ++ l /\
    length l <= max_attempts m retries /\
    (x_err r = None -> exists pre s rp, l = pre ++ [(s, OOk rp)] /\ x_reply r = Some rp) /\
    (forall pre s rp, l = pre ++ [(s, OOk rp)] -> x_err r = None /\ x_reply r = Some rp) /\
    (forall pre s o post, l = pre ++ (s, o) :: post -> terminal o -> post = []) /\
    (m = Failtry -> forall s1 o1 s2 o2, In (s1, o1) l -> In (s2, o2) l -> s1 = s2).
Proof. exact xcall_contract. Qed.

(* (iv) fail-over asks the selector again; under round-robin with more than one server the next
   selection is a different server *)
Theorem C10_failover_reselects_differently : forall en,
  2 <= length (servers en) ->
  let '(en1, k1, _, _) := select_client en in
  let '(_, k2, _, _) := select_client en1 in
  k1 <> k2 /\ k1 <> None /\ k2 <> None.
Proof. exact next_selection_differs. Qed.

(* non-vacuity: fail-over, 2 retries, 3 servers: lost on s0, dial refused on s1, ok on s2 *)
Example C10_nonvacuous :
  let en := mkEnv [mkSrv false [true] [OLost]; mkSrv false [false] []; mkSrv false [true] [OOk 42]] 0 [] in
  let r := xcall Failover 2 en in
  attempts (x_env r) = [(0, OLost); (2, OOk 42)] /\ x_err r = None /\ x_reply r = Some 42.
Proof. vm_compute. repeat split. Qed.

Print Assumptions C10_call_contract.
Print Assumptions C10_failover_reselects_differently.
