(* C10 — Fail-mode contract: bounded attempts, no re-execution, truthful result.
   Statements only; every proof is `exact <lemma>`.  The model (XClient/FailMode.v) mirrors the
   switch arms of xClient.Call, which xClient.SendRaw shares after the repair; the environment is a
   per-server script of dial results and per-attempt outcomes, quantified universally. *)
From Coq Require Import List Arith Bool.
From RPCX Require Import XClient.FailMode XClient.FailModeProofs XClient.Backup XClient.BackupProofs.
Import ListNotations.

(* For every mode in {fail-fast, fail-try, fail-over}, every retry count, every number of servers,
   every script of dial results and per-attempt outcomes, every cache state and cursor:
   l = the requests this call delivered to servers, in order.
   (i)   at most retries+1 of them (fail-try / fail-over), at most one (fail-fast);
   (ii)  success is returned exactly when the attempt the call ends with succeeded, with its reply;
   (iii) a service error, a cancelled context, an expired deadline (or a success) is the last attempt;
   (iv)  fail-try sends every attempt to the same server. *)
Theorem C10_call_contract : forall m retries en,
  let r := xcall m retries en in
  exists l, attempts (x_env r) = attempts en ++ l /\
    length l <= max_attempts m retries /\
    (x_err r = None -> exists pre s rp, l = pre ++ [(s, OOk rp)] /\ x_reply r = Some rp) /\
    (forall pre s rp, l = pre ++ [(s, OOk rp)] -> x_err r = None /\ x_reply r = Some rp) /\
    (forall pre s o post, l = pre ++ (s, o) :: post -> terminal o -> post = []) /\
    (m = Failtry -> forall s1 o1 s2 o2, In (s1, o1) l -> In (s2, o2) l -> s1 = s2).
Proof. exact xcall_contract. Qed.

(* (iv) fail-over asks the selector again; under round-robin with more than one server the next
   selection is a different server *)
Theorem C10_failover_reselects_differently : forall en,
  2 <= length (servers en) ->
  let '(en1, k1, _, _) := select_client en in
  let '(_, k2, _, _) := select_client en1 in
  k1 <> k2 /\ k1 <> None /\ k2 <> None.
Proof. exact next_selection_differs. Qed.

(* non-vacuity: fail-over, 2 retries, 3 servers: lost on s0, dial refused on s1, ok on s2 *)
Example C10_nonvacuous :
  let en := mkEnv [mkSrv false [true] [OLost]; mkSrv false [false] []; mkSrv false [true] [OOk 42]] 0 [] in
  let r := xcall Failover 2 en in
  attempts (x_env r) = [(0, OLost); (2, OOk 42)] /\ x_err r = None /\ x_reply r = Some 42.
Proof. vm_compute. repeat split. Qed.

(* Fail-backup (XClient/Backup.v): for every script of dial results and outcomes, every cache state and
   cursor, and both timing choices (the first request answered within the backup latency or not; which of
   the two requests in flight completes first):
   (i)   at most two requests are delivered;
   (ii)  success is returned only for a delivered request that was answered successfully, with that
         request's reply;
   (iii) when nothing could be delivered an error is returned. *)
Theorem C10_backup_contract : forall sc en,
  let r := xcall_backup sc en in
  (length (added en (x_env r)) <= 2) /\
  (x_err r = None -> exists s rep, In (s, OOk rep) (added en (x_env r)) /\ x_reply r = Some rep) /\
  (added en (x_env r) = [] -> x_err r <> None).
Proof. exact backup_contract_short. Qed.

(* the second request is sent only after the backup latency passed unanswered *)
Theorem C10_backup_second_only_after_latency : forall sc en,
  b_early sc = true ->
  snd (go_attempt (fst (fst (fst (select_client en))))) <> None ->
  length (added en (x_env (xcall_backup sc en))) <= 1.
Proof. exact backup_no_second_when_early. Qed.

(* non-vacuity: 2 servers, the first request (to s1) is slow, the backup (to s0) answers 7 first; and the
   repaired case: the backup's server refuses the dial, the call waits for the first request's answer *)
Example C10_backup_nonvacuous :
  let en := mkEnv [mkSrv false [true] [OOk 7]; mkSrv false [true] [OOk 5]] 0 [] in
  let r := xcall_backup (mkB false false) en in
  added en (x_env r) = [(1, OOk 5); (0, OOk 7)] /\ x_err r = None /\ x_reply r = Some 7.
Proof. vm_compute. repeat split. Qed.
Example C10_backup_unsendable_backup_waits :
  let en := mkEnv [mkSrv false [false; false] []; mkSrv false [true] [OOk 5]] 0 [] in
  let r := xcall_backup (mkB false false) en in
  added en (x_env r) = [(1, OOk 5)] /\ x_err r = None /\ x_reply r = Some 5.
Proof. vm_compute. repeat split. Qed.

Print Assumptions C10_call_contract.
Print Assumptions C10_backup_contract.
Print Assumptions C10_backup_second_only_after_latency.
Print Assumptions C10_failover_reselects_differently.
