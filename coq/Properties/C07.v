(* C07 — Service failures are reported faithfully and never kill the server.
   Statements only; every proof is `exact <lemma>`. *)
From Coq Require Import List NArith Arith Bool.
From RPCX Require Import Server.Dispatch Server.DispatchProofs Client.ClientSM.
Import ListNotations.

(* for every failure kind - handler error, handler panic, unknown service, unknown method, arguments
   that do not decode, unknown serialization type - the (single) response of a two-way request has
   status Error and carries exactly that failure's text; otherwise it is a Normal response *)
Theorem C07_failures_are_reported : forall find codec_ok decodable handler hmeta q r,
  q_hb q = false -> q_oneway q = false -> fst (process find codec_ok decodable handler hmeta q) = [r] ->
  match failure_text find codec_ok decodable handler q with
  | Some e => r_status r = SError /\ r_err r = Some e
  | None => r_status r = SNormal /\ r_err r = None
  end.
Proof. exact failures_are_reported. Qed.

Theorem C07_two_way_exactly_one_stamped : forall find codec_ok decodable handler hmeta q,
  q_hb q = false -> q_oneway q = false ->
  exists r, fst (process find codec_ok decodable handler hmeta q) = [r] /\ stamped q r.
Proof. exact two_way_exactly_one. Qed.

(* the caller's side (client machine): an Error-status frame that carries the text completes the call
   with a service error of exactly that text *)
(* the response metadata a handler sets (share.ResMetaDataKey) is carried on success and on failure alike,
   and - the theorems above hold for every [hmeta] - never displaces the error text *)
Theorem C07_response_metadata_is_the_handlers : forall find codec_ok decodable handler hmeta q r,
  q_hb q = false -> q_oneway q = false -> fst (process find codec_ok decodable handler hmeta q) = [r] ->
  r_meta r = if handler_ran find codec_ok decodable handler q then hmeta (q_path q) (q_meth q) (q_args q) else [].
Proof. exact response_metadata_is_the_handlers. Qed.

Theorem C07_client_sees_the_text : forall id s text pl dec codec x,
  interp (mkFrame id s false true true text pl dec codec) x = RSvcErr text.
Proof. reflexivity. Qed.

(* "never kills the server": processing a request is a pure function of that request - the model has
   no server or connection state that a failing request could damage; the correspondence check
   probes the real server after every failure on the same and on another connection *)

Print Assumptions C07_failures_are_reported.
Print Assumptions C07_response_metadata_is_the_handlers.
Print Assumptions C07_two_way_exactly_one_stamped.
Print Assumptions C07_client_sees_the_text.
