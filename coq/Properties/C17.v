(* C17 — Broadcast, Fork and Inform report what the servers actually did.
   Statements only; every proof is `exact <lemma>`.  v = outcome of each contacted server,
   order = any completion order of the per-server goroutines (a permutation of the indices).
   Premise of the whole property: the caller's context does not expire during the call (a slow
   server is a failing server: its call ends with the deadline error). *)
From Coq Require Import List Arith Bool Permutation.
From RPCX Require Import XClient.Multi XClient.MultiProofs.
Import ListNotations.

Theorem C17_broadcast_success_iff_all : forall v order, is_order v order ->
  (fst (broadcast v order) = [] <-> all_ok v).
Proof. exact broadcast_success_iff_all. Qed.

Theorem C17_fork_success_iff_some : forall v order, is_order v order -> v <> [] ->
  (fst (fork v order) = [] <-> some_ok v).
Proof. exact fork_success_iff_some. Qed.

Theorem C17_inform_receipts : forall v order, is_order v order ->
  let '(rs, errs, _) := inform v order in
  length rs = length v /\
  (forall i, i < length v ->
     exists rep er, In (i, rep, er) rs /\
       match out_at v i with
       | MOk r => rep = Some r /\ er = None
       | MFail e => rep = None /\ er = Some e
       end) /\
  (errs = [] <-> all_ok v).
Proof. exact inform_receipts. Qed.

(* whenever success is reported the caller's reply holds a value produced by a server that succeeded
   (the reply is the same first_ok for the three operations) *)
Theorem C17_reply_from_a_successful_server : forall v order r,
  first_ok v order = Some r -> exists i, In i order /\ out_at v i = MOk r.
Proof. exact reply_from_a_successful_server. Qed.
Theorem C17_reply_present : forall v order, is_order v order -> some_ok v -> first_ok v order <> None.
Proof. exact reply_present_when_some_ok. Qed.

(* non-vacuity + the order on which a Fork that checks "all done" before "this one succeeded" fails:
   the only success completes last *)
Example C17_nonvacuous :
  fork [MFail 1; MOk 7; MFail 2] [0; 2; 1] = ([], Some 7) /\
  fst (broadcast [MOk 1; MFail 9; MOk 3] [2; 0; 1]) = [9] /\
  inform [MOk 4; MFail 5] [1; 0] = ([(1, None, Some 5); (0, Some 4, None)], [5], Some 4).
Proof. repeat split. Qed.

Print Assumptions C17_broadcast_success_iff_all.
Print Assumptions C17_fork_success_iff_some.
Print Assumptions C17_inform_receipts.
Print Assumptions C17_reply_from_a_successful_server.
Print Assumptions C17_reply_present.
