(* Helper lemmas and tactics for the proofs about the graceful-shutdown model. *)
From Coq Require Import List ZArith Arith Bool Lia.
From RPCX Require Import Server.Shutdown Server.ShutdownInv.
Import ListNotations.


Lemma compl_facts s : InvC s -> completed s -> inShutdown s = true /\ done s = true /\ polled s = true.
Proof.
  intros HC (k & e & H). destruct HC. repeat split.
  - apply (C_win_in k). rewrite H. exact I.
  - eapply C_compl_done; eassumption.
  - apply (C_win_polled k e). now right.
Qed.

Lemma cnt_zero f l : cnt f l = 0%Z -> forall r, In r l -> counted (f r) = false.
Proof.
  induction l as [|x l IH]; intros H r Hin; [destruct Hin|].
  rewrite cnt_cons in H. assert (0 <= cnt f l)%Z by (unfold cnt; lia).
  destruct (counted (f x)) eqn:E; unfold bz in H; [lia|].
  destruct Hin as [->|Hin]; [assumption|]. apply IH; [lia|assumption].
Qed.

Lemma is_reading_eq x : is_reading x = true -> x = RReading.
Proof. destruct x; simpl; congruence. Qed.
Lemma holds_eq x r : holds x r = true -> x = RHolding r.
Proof. destruct x; simpl; try congruence. intros H. apply Nat.eqb_eq in H. congruence. Qed.
Ltac rdeq :=
  repeat match goal with
  | H : is_reading _ = true |- _ => apply is_reading_eq in H
  | H : holds _ _ = true |- _ => apply holds_eq in H
  end.

Ltac start HD := unf; brk; try assumption; destruct HD; split; simpl; try assumption.
Ltac ups := intros; bools; rdeq; unfold upd, wasread in *; eqbs; simpl in *.
Ltac fin := try contradiction; try discriminate; try tauto; try congruence; try (split; congruence); eauto.
(* a completed shutdown contradicts inShutdown = false *)
Ltac nocompl HC :=
  match goal with
  | Hc : completed _, Hf : inShutdown _ = false |- _ =>
      exfalso; destruct Hc as (?k & ?e & Hc); simpl in Hc;
      let W := fresh in
      assert (W := C_win_in _ HC _ (eq_ind_r (fun x => winner x) I Hc)); congruence
  end.


Ltac cmp := let Hc := fresh "Hc" in intros Hc; unfold completed in Hc; simpl in Hc.
Lemma ce_mono s s' c :
  closed_early s c -> (forall who, cst s c = CClosed who -> cst s' c = CClosed who) ->
  (closeCalled s = true -> closeCalled s' = true) -> closed_early s' c.
Proof. intros (who & H1 & H2) Hc Hcc. exists who. split; [now apply Hc|]. tauto. Qed.
Lemma is_open_eq x : is_open x = true -> x = COpen.
Proof. destruct x; simpl; congruence. Qed.
Ltac openclosed :=
  match goal with
  | Ho : is_open (cst ?s ?c) = true, Hw : cst ?s ?c' = CClosed _ |- _ =>
      apply is_open_eq in Ho; congruence
  | Ho : is_open (cst ?s ?c) = true, Hw : cst ?s ?c = CClosed _ |- _ => rewrite Hw in Ho; discriminate
  | Ho : is_open (cst ?s ?c) = false, Hw : cst ?s ?c = COpen |- _ => rewrite Hw in Ho; discriminate
  end.
Ltac fin2 := try openclosed; fin.
Ltac cem D :=
  let r := fresh "r" in let Ha := fresh in let Hd := fresh in let Hl := fresh in let He := fresh in
  intros r Ha Hd Hl He; apply (ce_mono _ _ _ (D r Ha Hd Hl He)); simpl; [|tauto];
  let who := fresh "who" in let Hw := fresh "Hw" in intros who Hw; ups; fin2.
Ltac auto_d :=
  try solve [ups; fin2];
  try solve [cmp; ups; fin2];
  try solve [cmp; exfalso;
             match goal with HC : InvC ?s, Hc : exists k e, sh ?s k = SDone e |- _ =>
               destruct (compl_facts s HC Hc) as (? & ? & ?); congruence end].
Ltac act D :=
  ups; try (apply D; [ match goal with H : rd _ ?c = _ |- reader_live (rd _ ?c) => rewrite H; exact I end | assumption ]); fin2.
Ltac cmpl D :=
  let Hc := fresh "Hc" in intros Hc; unfold completed in Hc; simpl in Hc; ups;
  try (match goal with Ho : is_open (cst ?s ?c) = true |- _ => destruct (D Hc c Ho); congruence end); fin2.
Ltac auto_e Dact Dcompl Ddeliv :=
  auto_d; try solve [cem Ddeliv]; try solve [act Dact]; try solve [cmpl Dcompl].
Ltac phs Dans0 Dst :=
  ups;
  repeat match goal with H : _ \/ _ |- _ => destruct H end; try discriminate;
  try (match goal with Ha : answered ?s ?r = true |- _ => destruct (Dans0 r Ha); congruence end);
  try (match goal with Hi : In ?r (started ?s) |- _ => destruct (Dst r Hi); congruence end);
  fin2.
Ltac auto_f Dact Dcompl Ddeliv Dans0 Dst :=
  auto_e Dact Dcompl Ddeliv; try solve [phs Dans0 Dst].

(* the successful-poll invariant: a counted phase of a non-late request contradicts it *)
Ltac okk Dok :=
  let Hp := fresh in let He := fresh in let r0 := fresh "r0" in let Hin := fresh in let Hl := fresh in
  intros Hp He r0 Hin Hl; ups;
  try (match goal with Hph : ph ?s ?r = _ |- _ =>
         let X := fresh in pose proof (Dok Hp He r Hin Hl) as X; rewrite Hph in X; discriminate end);
  fin2.

Lemma close_active_closed s w c x :
  close_active s w c = CClosed x ->
  cst s c = CClosed x \/ (x = w /\ active s c = true /\ is_open (cst s c) = true).
Proof.
  unfold close_active. destruct (active s c); simpl; [|tauto].
  destruct (is_open (cst s c)); [|tauto]. intros H. inversion H. tauto.
Qed.
Lemma close_active_open s w c :
  is_open (close_active s w c) = true -> is_open (cst s c) = true /\ active s c = false.
Proof.
  unfold close_active. destruct (active s c); simpl; [|tauto].
  destruct (is_open (cst s c)) eqn:E; simpl; [discriminate|]. rewrite E. discriminate.
Qed.
Lemma close_active_stays s w c x : cst s c = CClosed x -> close_active s w c = CClosed x.
Proof. unfold close_active. intros H. rewrite H. simpl. now rewrite andb_false_r. Qed.
Lemma close_done_fst s : fst (close_done s) = true.
Proof. unfold close_done. destruct (done s); reflexivity. Qed.

