From Coq Require Import List NArith Arith Bool Lia.
From RPCX Require Import Server.Dispatch Server.DispatchProofs Server.Ingress.
Import ListNotations.

Section IP.
Variable find : nat -> nat -> target.
Variable codec_ok : N -> bool.
Variable decodable : N -> nat -> bool.
Variable handler : nat -> nat -> nat -> hres.
Variable hmeta : nat -> nat -> nat -> list (nat * nat).

Notation serve := (serve find codec_ok decodable handler hmeta).
Notation handle_with_precall := (handle_with_precall find codec_ok decodable handler hmeta).

Definition is_result (o : ioutcome) : bool := match o with IResult _ => true | _ => false end.

Lemma precall_veto_no_invocation c q :
  ic_precall c = true -> snd (handle_with_precall c q) = [] /\ r_status (fst (handle_with_precall c q)) = SError.
Proof.
  intros Hp. unfold handle_with_precall.
  destruct (find (q_path q) (q_meth q)); cbn; auto;
    destruct (negb (codec_ok (q_ser q))); cbn; auto;
    destruct (negb (decodable (q_ser q) (q_args q))); cbn; auto; rewrite Hp; cbn; auto.
Qed.

(* C15: a rejected connection or request never reaches a handler and never yields a result, on any
   ingress, whatever its flags and its position; a native connection that failed authentication is closed *)
Theorem rejected_never_reaches_a_handler ing c rq :
  rejected ing c rq = true ->
  (find (q_path (i_q rq)) (q_meth (i_q rq)) <> TRouter \/ ic_precall c = false) ->
  o_invoked (serve ing c rq) = [] /\ is_result (o_out (serve ing c rq)) = false.
Proof.
  unfold rejected. intros H Hr.
  destruct ing; cbn [serve].
  - unfold native.
    destruct (ic_accept_veto c); [split; reflexivity|].
    destruct (ic_postread c); [split; reflexivity|].
    destruct (q_hb (i_q rq)); [split; reflexivity|].
    cbn in H. rewrite !andb_true_r in H.
    destruct (negb (auth_ok c (i_token rq))) eqn:Ea.
    + destruct (q_oneway (i_q rq)); split; reflexivity.
    + cbn in H. destruct (ic_precall c) eqn:Ep; [|discriminate].
      destruct (find (q_path (i_q rq)) (q_meth (i_q rq))) eqn:Ef;
        try (destruct Hr as [Hr|Hr]; [congruence|discriminate]);
        destruct (precall_veto_no_invocation c (i_q rq) Ep) as [H1 H2];
        destruct (handle_with_precall c (i_q rq)) as [r inv]; cbn in *; subst inv;
        (split; [reflexivity|]); destruct (q_oneway (i_q rq)); [reflexivity|unfold of_resp; rewrite H2; reflexivity|reflexivity|unfold of_resp; rewrite H2; reflexivity
          |reflexivity|unfold of_resp; rewrite H2; reflexivity|reflexivity|unfold of_resp; rewrite H2; reflexivity].
  - unfold http_like.
    destruct (ic_accept_veto c); [split; reflexivity|].
    destruct (i_malformed rq); [split; reflexivity|].
    destruct (ic_postread c); [split; reflexivity|].
    destruct (negb (auth_ok c (i_token rq))); [split; reflexivity|].
    cbn in H. destruct (ic_precall c) eqn:Ep; [|discriminate].
    destruct (precall_veto_no_invocation c (i_q rq) Ep) as [H1 H2].
    destruct (handle_with_precall c (i_q rq)) as [r inv]; cbn in *; subst inv.
    split; [reflexivity|]. unfold of_resp. rewrite H2. destruct (q_oneway (i_q rq)); reflexivity.
  - unfold http_like.
    destruct (ic_accept_veto c); [destruct (q_oneway (i_q rq)); split; reflexivity|].
    destruct (i_malformed rq); [destruct (q_oneway (i_q rq)); split; reflexivity|].
    destruct (ic_postread c); [destruct (q_oneway (i_q rq)); split; reflexivity|].
    destruct (negb (auth_ok c (i_token rq))); [destruct (q_oneway (i_q rq)); split; reflexivity|].
    cbn in H. destruct (ic_precall c) eqn:Ep; [|discriminate].
    destruct (precall_veto_no_invocation c (i_q rq) Ep) as [H1 H2].
    destruct (handle_with_precall c (i_q rq)) as [r inv]; cbn in *; subst inv.
    unfold of_resp. rewrite H2. destruct (q_oneway (i_q rq)); split; reflexivity.
Qed.

Theorem native_auth_failure_closes c rq :
  ic_accept_veto c = false -> ic_postread c = false -> q_hb (i_q rq) = false ->
  auth_ok c (i_token rq) = false ->
  o_closed (serve Native c rq) = true /\ o_invoked (serve Native c rq) = [].
Proof.
  intros H1 H2 H3 H4. cbn [serve]. unfold native. rewrite H1, H2, H3, H4. cbn.
  destruct (q_oneway (i_q rq)); split; reflexivity.
Qed.

(* the heartbeat flag does not open a door: natively it yields an echo and no handler; on the HTTP
   ingresses it does not bypass authentication *)
Theorem heartbeat_never_reaches_a_handler_natively c rq :
  q_hb (i_q rq) = true -> o_invoked (serve Native c rq) = [] /\ is_result (o_out (serve Native c rq)) = false.
Proof.
  intros H. cbn [serve]. unfold native. destruct (ic_accept_veto c); [split; reflexivity|].
  destruct (ic_postread c); [split; reflexivity|]. rewrite H. split; reflexivity.
Qed.

(* C19: for a request that no stage rejects, the HTTP gateway and the JSON-RPC endpoint produce what
   the native protocol produces for a two-way request to a registered service or function: the same
   reply payload, or the same error text (both run the same handleRequest) *)
Theorem http_ingress_equals_native ing c rq :
  ing <> Native ->
  rejected ing c rq = false -> q_hb (i_q rq) = false -> q_oneway (i_q rq) = false ->
  find (q_path (i_q rq)) (q_meth (i_q rq)) <> TRouter ->
  o_out (serve ing c rq) = o_out (serve Native c rq) /\ o_invoked (serve ing c rq) = o_invoked (serve Native c rq).
Proof.
  intros Hi Hrej Hhb How Hr. unfold rejected in Hrej.
  assert (E : serve ing c rq = http_like find codec_ok decodable handler hmeta c rq).
  { destruct ing; [congruence|reflexivity|]. cbn [Ingress.serve]. rewrite How. reflexivity. }
  rewrite E. clear E. cbn [Ingress.serve]. unfold http_like, native.
  apply orb_false_iff in Hrej. destruct Hrej as [Hrej Hpc].
  apply orb_false_iff in Hrej. destruct Hrej as [Hrej Hau].
  apply orb_false_iff in Hrej. destruct Hrej as [Hrej Hmal].
  apply orb_false_iff in Hrej. destruct Hrej as [Hacc Hpr].
  rewrite Hacc, Hpr, Hhb.
  assert (Hm : i_malformed rq = false) by (destruct ing; [congruence|exact Hmal|exact Hmal]).
  rewrite Hm.
  assert (Ha : negb (auth_ok c (i_token rq)) = false).
  { destruct ing; [congruence| |]; cbn in Hau; rewrite andb_true_r in Hau; exact Hau. }
  rewrite Ha. rewrite How.
  destruct (find (q_path (i_q rq)) (q_meth (i_q rq))) eqn:Ef; [congruence| | | |];
    destruct (handle_with_precall c (i_q rq)) as [r inv]; split; reflexivity.
Qed.

(* malformed gateway / JSON-RPC requests are rejected with an error and never reach a handler *)
Theorem malformed_rejected ing c rq :
  ing <> Native -> i_malformed rq = true ->
  o_invoked (serve ing c rq) = [] /\ is_result (o_out (serve ing c rq)) = false.
Proof.
  intros Hi Hm. destruct ing; [congruence| |]; cbn [Ingress.serve]; unfold http_like;
    (destruct (ic_accept_veto c); [destruct (q_oneway (i_q rq)); split; reflexivity|]); rewrite Hm;
    destruct (q_oneway (i_q rq)); split; reflexivity.
Qed.

End IP.
