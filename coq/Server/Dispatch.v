(* Model of the server's request dispatch (server/server.go processOneRequest, handleRequest,
   handleRequestForFunction, handleError, sendResponse; server/context.go Write / WriteError) and of
   the per-connection loop that spawns it.  Handlers, the service table and the codecs are Section
   variables: the theorems hold for all of them.  Definitions only. *)
From Coq Require Import List NArith Arith Bool.
Import ListNotations.

Record sreq := mkReq {
  q_seq : N; q_path : nat; q_meth : nat; q_ser : N;
  q_hb : bool; q_oneway : bool; q_args : nat }.

(* what the call stage does with (path, method, decoded args): the handler's outcome, or - for reflected methods
   and registered functions, whose arguments pass the PreCall plugins first - a plugin's refusal with its text
   (then no handler runs) *)
Inductive hres := HReply (payload : nat) | HFail (text : nat) | HPanic (value : nat) | HVeto (text : nat).
(* how the server finds the target *)
Inductive target := TRouter | TNoService | TNoMethod | TMethod | TFunction.

Inductive status := SNormal | SError.
(* the text carried under __rpcx_error__ *)
Inductive etext :=
  | XExact (t : nat)            (* the handler's error text, unchanged *)
  | XPanic (v : nat)            (* a message containing the panic value *)
  | XPanicExact (v : nat)       (* router style: fmt.Errorf("%v", r) *)
  | XNoService (path : nat)     (* "rpcx: can't find service <path>" *)
  | XNoMethod (meth : nat)      (* "rpcx: can't find method <method>" *)
  | XDecode (ser : N) (args : nat)  (* the codec's own error for these bytes *)
  | XNoCodec (ser : N).         (* "can not find codec for <n>" *)

Record sresp := mkResp {
  r_seq : N; r_path : nat; r_meth : nat; r_ser : N;
  r_hb : bool; r_oneway : bool;
  r_status : status; r_err : option etext; r_payload : nat;
  r_meta : list (nat * nat) }.     (* response metadata other than the reserved error key *)

Section Dispatch.
Variable find : nat -> nat -> target.                (* router first, then service map *)
Variable codec_ok : N -> bool.                       (* share.Codecs[ser] != nil *)
Variable decodable : N -> nat -> bool.               (* codec.Decode(args) succeeds *)
Variable handler : nat -> nat -> nat -> hres.        (* path, method, args *)
Variable hmeta : nat -> nat -> nat -> list (nat * nat).   (* the response metadata the handler sets (share.ResMetaDataKey),
                                                            keys other than the reserved error key *)

(* res := req.Clone(); res.SetMessageType(Response) *)
Definition base (q : sreq) (st : status) (e : option etext) (pl : nat) : sresp :=
  mkResp (q_seq q) (q_path q) (q_meth q) (q_ser q) (q_hb q) (q_oneway q) st e pl [].

(* processOneRequest / Context.Write merge the handler's response metadata into the response: keys that the
   response already has with a non-empty value are kept - in particular the error text of a failed call *)
Definition with_meta (r : sresp) (m : list (nat * nat)) : sresp :=
  mkResp (r_seq r) (r_path r) (r_meth r) (r_ser r) (r_hb r) (r_oneway r) (r_status r) (r_err r) (r_payload r) m.

Definition err_resp (q : sreq) (e : etext) : sresp := base q SError (Some e) 0.

(* invocation log: (path, method, args) of every handler that ran *)
Definition invocation := (nat * nat * nat)%type.

(* handleRequest / handleRequestForFunction: the response message and whether a handler ran *)
Definition handle_reflected (q : sreq) : sresp * list invocation :=
  if negb (codec_ok (q_ser q)) then (err_resp q (XNoCodec (q_ser q)), [])
  else if negb (decodable (q_ser q) (q_args q)) then (err_resp q (XDecode (q_ser q) (q_args q)), [])
  else
    let inv := [(q_path q, q_meth q, q_args q)] in
    let m := hmeta (q_path q) (q_meth q) (q_args q) in
    match handler (q_path q) (q_meth q) (q_args q) with
    | HReply p => (with_meta (base q SNormal None p) m, inv)
    | HFail t => (with_meta (err_resp q (XExact t)) m, inv)
    | HPanic v => (with_meta (err_resp q (XPanic v)) m, inv)      (* service.call recovers and wraps the value *)
    | HVeto t => (err_resp q (XExact t), [])      (* DoPreCall returned an error: answered with it, nothing invoked *)
    end.

(* processOneRequest: the frames written for one request, and the handlers that ran *)
Definition process (q : sreq) : list sresp * list invocation :=
  if q_hb q then ([base q SNormal None (q_args q)], [])        (* echo of itself as a Response *)
  else
    match find (q_path q) (q_meth q) with
    | TRouter =>
      let inv := [(q_path q, q_meth q, q_args q)] in
      (* Context.Write / WriteError send nothing for a one-way request *)
      if q_oneway q then ([], inv)
      else let m := hmeta (q_path q) (q_meth q) (q_args q) in
           match handler (q_path q) (q_meth q) (q_args q) with
           | HReply p => if codec_ok (q_ser q) then ([with_meta (base q SNormal None p) m], inv)
                         else ([with_meta (err_resp q (XNoCodec (q_ser q))) m], inv)   (* Write fails, the handler's error goes to WriteError *)
           | HFail t | HVeto t => ([with_meta (err_resp q (XExact t)) m], inv)   (* no PreCall stage before a router handler: a refusal can only be the handler's own error *)
           | HPanic v => ([with_meta (err_resp q (XPanicExact v)) m], inv)
           end
    | TNoService => if q_oneway q then ([], []) else ([err_resp q (XNoService (q_path q))], [])
    | TNoMethod => if q_oneway q then ([], []) else ([err_resp q (XNoMethod (q_meth q))], [])
    | TMethod | TFunction =>
      let '(r, inv) := handle_reflected q in
      if q_oneway q then ([], inv) else ([r], inv)
    end.

(* ---- connections: requests are read in order, processed concurrently, completed in any order ---- *)
Inductive cevent :=
  | CRead (conn : nat) (rid : nat) (q : sreq)   (* the reader of conn read request rid and spawned it *)
  | CDone (rid : nat).                          (* the goroutine of request rid ran and wrote its frames *)

Record cstate := mkC {
  inflight : list (nat * nat * sreq);        (* rid, conn, request *)
  written : list (nat * sresp);              (* conn, frame: in the order of the Conn.Write calls *)
  invoked : list invocation }.

Definition cinit : cstate := mkC [] [] [].

Fixpoint take_rid (rid : nat) (l : list (nat * nat * sreq)) : option (nat * sreq) * list (nat * nat * sreq) :=
  match l with
  | [] => (None, [])
  | (r, c, q) :: rest =>
    if Nat.eqb r rid then (Some (c, q), rest)
    else let (x, rest') := take_rid rid rest in (x, (r, c, q) :: rest')
  end.

Definition cstep (s : cstate) (e : cevent) : cstate :=
  match e with
  | CRead c rid q => mkC (inflight s ++ [(rid, c, q)]) (written s) (invoked s)
  | CDone rid =>
    match take_rid rid (inflight s) with
    | (Some (c, q), rest) =>
      let '(frames, inv) := process q in
      mkC rest (written s ++ map (fun f => (c, f)) frames) (invoked s ++ inv)
    | (None, _) => s
    end
  end.

Definition crun (s : cstate) (es : list cevent) : cstate := fold_left cstep es s.

End Dispatch.
