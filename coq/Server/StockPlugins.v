(* The stock access-control plugins of serverplugin/ (whitelist.go, blacklist.go, req_rate_limiting.go) as decision
   rules.  What the Go library decides - whether the remote address splits into host and port (net.SplitHostPort),
   whether the host is a key of the list, whether a CIDR mask contains it (net.IPNet.Contains) - enters as booleans;
   the token bucket is a counter of tokens taken since the last refill.  Definitions only. *)
From Coq Require Import List Arith Bool.
Import ListNotations.

(* WhitelistPlugin.HandleConnAccept: an address that cannot be split is refused; otherwise the connection is
   admitted when the list names the host or one of the masks contains it *)
Definition whitelist_admits (addr_ok in_list : bool) (in_masks : list bool) : bool :=
  addr_ok && (in_list || existsb (fun b => b) in_masks).

(* BlacklistPlugin.HandleConnAccept: an address that cannot be split is admitted; otherwise the connection is
   refused when the list names the host or one of the masks contains it *)
Definition blacklist_admits (addr_ok in_list : bool) (in_masks : list bool) : bool :=
  negb addr_ok || negb (in_list || existsb (fun b => b) in_masks).

(* ReqRateLimitingPlugin.PostReadRequest (non-blocking): a request passes while a token is left *)
Definition rate_pass (capacity taken : nat) : bool := taken <? capacity.

(* a run of requests against a bucket that is not refilled meanwhile: which of them pass *)
Fixpoint rate_run (capacity taken n : nat) : list bool :=
  match n with
  | O => []
  | S n' => rate_pass capacity taken :: rate_run capacity (if rate_pass capacity taken then S taken else taken) n'
  end.

(* several accept plugins: the connection is admitted only if every one admits it (DoPostConnAccept stops at the
   first refusal - Server/PluginsGen.v) *)
Definition all_admit (verdicts : list bool) : bool := forallb (fun b => b) verdicts.
