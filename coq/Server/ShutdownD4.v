(* The request/connection invariant InvD of the graceful-shutdown model is preserved by every step (part 4). *)
From Coq Require Import List ZArith Arith Bool Lia.
From RPCX Require Import Server.Shutdown Server.ShutdownInv Server.ShutdownTac.
Import ListNotations.

Section D.
Variable info : nat -> rinfo.
Notation step := (step info).
Notation writes := (writes info).
Notation InvD := (InvD info).


Lemma D_EShutBegin s k : InvA s -> InvC s -> InvD s -> InvD (step s (EShutBegin k)).
Proof. intros HA HC HD. start HD. all: auto_f D_act D_compl D_deliv D_ans0 D_started.
all: try solve [okk D_ok].
all: intros (k0 & e & Hc); simpl in Hc; unfold upd in Hc; destruct (Nat.eqb_spec k0 k); [discriminate|];
  apply D_compl; exists k0, e; assumption.
Qed.

Lemma D_EPoll s k : InvA s -> InvC s -> InvD s -> InvD (step s (EPoll k)).
Proof. intros HA HC HD. start HD. all: auto_f D_act D_compl D_deliv D_ans0 D_started.
all: try solve [okk D_ok].
- intros _ _ r Hin _. apply (cnt_zero (ph s) (readlog s)); [|assumption].
  rewrite <- (A_count _ HA). apply Z.eqb_eq. assumption.
- intros (k0 & e & Hc); simpl in Hc; unfold upd in Hc; destruct (Nat.eqb_spec k0 k); [discriminate|];
  apply D_compl; exists k0, e; assumption.
Qed.

Lemma D_EDeadline s k : InvA s -> InvC s -> InvD s -> InvD (step s (EDeadline k)).
Proof. intros HA HC HD. start HD. all: auto_f D_act D_compl D_deliv D_ans0 D_started.
all: try solve [okk D_ok].
intros (k0 & e & Hc); simpl in Hc; unfold upd in Hc; destruct (Nat.eqb_spec k0 k); [discriminate|];
  apply D_compl; exists k0, e; assumption.
Qed.

Lemma D_ECloseConns s k : InvA s -> InvC s -> InvD s -> InvD (step s (ECloseConns k)).
Proof. intros HA HC HD. start HD. all: auto_f D_act D_compl D_deliv D_ans0 D_started.
all: try solve [okk D_ok].
- intros c Hc. apply close_active_closed in Hc as [Hc|(_ & _ & _)]; [eapply D_byshut; eassumption|].
  apply (C_win_polled _ HC k expired). now left.
- intros c Hc. rewrite close_done_fst. reflexivity.
- intros c Hc. apply close_active_closed in Hc as [Hc|(Hx & _ & _)]; [eapply D_byclose; eassumption|discriminate].
- intros r Ha Hd Hl He. apply (ce_mono _ _ _ (D_deliv r Ha Hd Hl He)); simpl; [|tauto].
  intros who Hw. now apply close_active_stays.
- intros c Hl Ho. apply close_active_open in Ho as [Ho Hact]. rewrite (D_act c Hl Ho) in Hact. discriminate.
- intros c Hg. destruct (is_open (close_active s ByShutdown c)) eqn:E; [|reflexivity].
  apply close_active_open in E as [Ho _]. rewrite (D_gone c Hg) in Ho. discriminate.
- intros _ c Ho. apply close_active_open in Ho as [Ho Hact].
  destruct (rd s c) eqn:Er; try tauto.
  all: try (rewrite (D_act c) in Hact; [discriminate|rewrite Er; exact I|assumption]).
  rewrite (D_gone c Er) in Ho. discriminate.
Qed.

Lemma D_EClose s : InvA s -> InvC s -> InvD s -> InvD (step s EClose).
Proof. intros HA HC HD. start HD. all: auto_f D_act D_compl D_deliv D_ans0 D_started.
all: try solve [okk D_ok].
- intros c Hc. apply close_active_closed in Hc as [Hc|(Hx & _ & _)]; [eapply D_byshut; eassumption|discriminate].
- intros c Hc. rewrite close_done_fst. reflexivity.
- intros r Ha Hd Hl He. apply (ce_mono _ _ _ (D_deliv r Ha Hd Hl He)); simpl; [|tauto].
  intros who Hw. now apply close_active_stays.
- intros c Hl Ho. apply close_active_open in Ho as [Ho Hact]. rewrite (D_act c Hl Ho) in Hact. discriminate.
- intros c Hg. destruct (is_open (close_active s ByClose c)) eqn:E; [|reflexivity].
  apply close_active_open in E as [Ho _]. rewrite (D_gone c Hg) in Ho. discriminate.
- intros _ c Ho. apply close_active_open in Ho as [Ho Hact].
  destruct (rd s c) eqn:Er; try tauto.
  all: try (rewrite (D_act c) in Hact; [discriminate|rewrite Er; exact I|assumption]).
  rewrite (D_gone c Er) in Ho. discriminate.
Qed.
End D.
