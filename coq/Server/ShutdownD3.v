(* The request/connection invariant InvD of the graceful-shutdown model is preserved by every step (part 3). *)
From Coq Require Import List ZArith Arith Bool Lia.
From RPCX Require Import Server.Shutdown Server.ShutdownInv Server.ShutdownTac.
Import ListNotations.

Section D.
Variable info : nat -> rinfo.
Notation step := (step info).
Notation writes := (writes info).
Notation InvD := (InvD info).


Lemma D_EWrite s r : InvA s -> InvC s -> InvD s -> InvD (step s (EWrite r)).
Proof. intros HA HC HD. start HD. all: auto_f D_act D_compl D_deliv D_ans0 D_started.
all: try solve [okk D_ok].
intros r0 Ha Hd Hl He. destruct (Nat.eq_dec r0 r) as [->|Hne].
- rewrite upd_same in Hd. clear Ha.
  assert (Hcnt : counted (ph s r) = true) by (bools; match goal with H : ph s r = _ |- _ => rewrite H; reflexivity end).
  assert (Hin : In r (readlog s)).
  { apply (A_log _ HA). split; intros E; rewrite E in Hcnt; discriminate. }
  assert (Hnp : polled s = true -> False).
  { intros Hp. rewrite (D_ok Hp He r Hin Hl) in Hcnt. discriminate. }
  destruct (cst s (r_conn (info r))) as [|who] eqn:Ec; [discriminate|].
  exists who. simpl. split; [assumption|].
  destruct who; try tauto.
  + exfalso. apply Hnp. eapply D_byshut; eassumption.
  + right; right; right. eapply D_byclose; eassumption.
  + destruct (C_done _ HC (D_bydone _ Ec)) as [Hp|Hcc]; [exfalso; now apply Hnp|tauto].
- rewrite upd_other in Ha, Hd by assumption.
  apply (ce_mono _ _ _ (D_deliv r0 Ha Hd Hl He)); simpl; tauto.
Qed.

Lemma D_EExit s r : InvA s -> InvC s -> InvD s -> InvD (step s (EExit r)).
Proof. intros HA HC HD. start HD. all: auto_f D_act D_compl D_deliv D_ans0 D_started.
all: try solve [okk D_ok].
Qed.
End D.
