From Coq Require Import List NArith Arith Bool Lia Permutation.
From RPCX Require Import Server.Dispatch.
Import ListNotations.

Section DP.
Variable find : nat -> nat -> target.
Variable codec_ok : N -> bool.
Variable decodable : N -> nat -> bool.
Variable handler : nat -> nat -> nat -> hres.
Variable hmeta : nat -> nat -> nat -> list (nat * nat).

Notation process := (process find codec_ok decodable handler hmeta).
Notation handle_reflected := (handle_reflected codec_ok decodable handler hmeta).
Notation cstep := (cstep find codec_ok decodable handler hmeta).
Notation crun := (crun find codec_ok decodable handler hmeta).

Definition stamped (q : sreq) (r : sresp) : Prop :=
  r_seq r = q_seq q /\ r_path r = q_path q /\ r_meth r = q_meth q /\ r_ser r = q_ser q.

Lemma handle_reflected_stamped q : stamped q (fst (handle_reflected q)).
Proof.
  unfold handle_reflected. destruct (negb (codec_ok (q_ser q))); [repeat split|].
  destruct (negb (decodable (q_ser q) (q_args q))); [repeat split|].
  destruct (handler (q_path q) (q_meth q) (q_args q)); repeat split.
Qed.

(* C04: a two-way, non-heartbeat request gets exactly one response, stamped with its identity *)
Theorem two_way_exactly_one q :
  q_hb q = false -> q_oneway q = false ->
  exists r, fst (process q) = [r] /\ stamped q r.
Proof.
  intros Hh Ho. unfold process. rewrite Hh.
  destruct (find (q_path q) (q_meth q)); rewrite ?Ho.
  - destruct (handler (q_path q) (q_meth q) (q_args q)); [destruct (codec_ok (q_ser q))| | |];
      eexists; (split; [reflexivity|repeat split]).
  - eexists; (split; [reflexivity|repeat split]).
  - eexists; (split; [reflexivity|repeat split]).
  - pose proof (handle_reflected_stamped q) as Hs. destruct (handle_reflected q) as [r inv].
    exists r. split; [reflexivity|exact Hs].
  - pose proof (handle_reflected_stamped q) as Hs. destruct (handle_reflected q) as [r inv].
    exists r. split; [reflexivity|exact Hs].
Qed.

(* one-way requests are never answered; a heartbeat is answered by an echo and no handler runs *)
Theorem one_way_no_response q : q_hb q = false -> q_oneway q = true -> fst (process q) = [].
Proof.
  intros Hh Ho. unfold process. rewrite Hh.
  destruct (find (q_path q) (q_meth q)); rewrite ?Ho; try reflexivity;
    destruct (handle_reflected q); reflexivity.
Qed.

Theorem heartbeat_echo q : q_hb q = true ->
  process q = ([base q SNormal None (q_args q)], []).
Proof. intros H. unfold process. rewrite H. reflexivity. Qed.

(* C07: each failure kind yields an Error response carrying exactly its text; a handler's error
   text is carried unchanged; the response is still exactly one (two_way_exactly_one) *)
Definition failure_text (q : sreq) : option etext :=
  match find (q_path q) (q_meth q) with
  | TNoService => Some (XNoService (q_path q))
  | TNoMethod => Some (XNoMethod (q_meth q))
  | TRouter =>
    match handler (q_path q) (q_meth q) (q_args q) with
    | HFail t | HVeto t => Some (XExact t)
    | HPanic v => Some (XPanicExact v)
    | HReply _ => if codec_ok (q_ser q) then None else Some (XNoCodec (q_ser q))
    end
  | TMethod | TFunction =>
    if negb (codec_ok (q_ser q)) then Some (XNoCodec (q_ser q))
    else if negb (decodable (q_ser q) (q_args q)) then Some (XDecode (q_ser q) (q_args q))
    else match handler (q_path q) (q_meth q) (q_args q) with
         | HFail t | HVeto t => Some (XExact t)
         | HPanic v => Some (XPanic v)
         | HReply _ => None
         end
  end.

Theorem failures_are_reported q r :
  q_hb q = false -> q_oneway q = false -> fst (process q) = [r] ->
  match failure_text q with
  | Some e => r_status r = SError /\ r_err r = Some e
  | None => r_status r = SNormal /\ r_err r = None
  end.
Proof.
  intros Hh Ho. unfold process, failure_text. rewrite Hh.
  destruct (find (q_path q) (q_meth q)); rewrite ?Ho.
  - destruct (handler (q_path q) (q_meth q) (q_args q)); [destruct (codec_ok (q_ser q))| | |];
      intros H; injection H as <-; split; reflexivity.
  - intros H; injection H as <-; split; reflexivity.
  - intros H; injection H as <-; split; reflexivity.
  - unfold handle_reflected. destruct (negb (codec_ok (q_ser q))); [intros H; injection H as <-; split; reflexivity|].
    destruct (negb (decodable (q_ser q) (q_args q))); [intros H; injection H as <-; split; reflexivity|].
    destruct (handler (q_path q) (q_meth q) (q_args q)); intros H; injection H as <-; split; reflexivity.
  - unfold handle_reflected. destruct (negb (codec_ok (q_ser q))); [intros H; injection H as <-; split; reflexivity|].
    destruct (negb (decodable (q_ser q) (q_args q))); [intros H; injection H as <-; split; reflexivity|].
    destruct (handler (q_path q) (q_meth q) (q_args q)); intros H; injection H as <-; split; reflexivity.
Qed.

(* the response metadata a handler sets is carried on success and on failure alike (and never displaces the
   error text: failures_are_reported holds for every hmeta); a request that never reached its handler carries none *)
Definition handler_ran (q : sreq) : bool :=
  match find (q_path q) (q_meth q) with
  | TRouter => true
  | TMethod | TFunction =>
    codec_ok (q_ser q) && decodable (q_ser q) (q_args q) &&
    match handler (q_path q) (q_meth q) (q_args q) with HVeto _ => false | _ => true end
  | _ => false
  end.

Theorem response_metadata_is_the_handlers q r :
  q_hb q = false -> q_oneway q = false -> fst (process q) = [r] ->
  r_meta r = if handler_ran q then hmeta (q_path q) (q_meth q) (q_args q) else [].
Proof.
  intros Hh Ho. unfold process, handler_ran. rewrite Hh.
  destruct (find (q_path q) (q_meth q)); rewrite ?Ho.
  - destruct (handler (q_path q) (q_meth q) (q_args q)); [destruct (codec_ok (q_ser q))| | |];
      intros H; injection H as <-; reflexivity.
  - intros H; injection H as <-; reflexivity.
  - intros H; injection H as <-; reflexivity.
  - unfold handle_reflected. destruct (codec_ok (q_ser q)); cbn [negb andb]; [|intros H; injection H as <-; reflexivity].
    destruct (decodable (q_ser q) (q_args q)); cbn [negb]; [|intros H; injection H as <-; reflexivity].
    destruct (handler (q_path q) (q_meth q) (q_args q)); intros H; injection H as <-; reflexivity.
  - unfold handle_reflected. destruct (codec_ok (q_ser q)); cbn [negb andb]; [|intros H; injection H as <-; reflexivity].
    destruct (decodable (q_ser q) (q_args q)); cbn [negb]; [|intros H; injection H as <-; reflexivity].
    destruct (handler (q_path q) (q_meth q) (q_args q)); intros H; injection H as <-; reflexivity.
Qed.

(* a request whose arguments a PreCall plugin refuses (reflected methods and registered functions) runs no handler and
   is answered - exactly once, if two-way - with the plugin's own text *)
Theorem precall_refusal_runs_no_handler q t :
  q_hb q = false -> (find (q_path q) (q_meth q) = TMethod \/ find (q_path q) (q_meth q) = TFunction) ->
  handler (q_path q) (q_meth q) (q_args q) = HVeto t ->
  snd (process q) = [] /\
  (q_oneway q = false -> codec_ok (q_ser q) = true -> decodable (q_ser q) (q_args q) = true ->
   fst (process q) = [err_resp q (XExact t)]).
Proof.
  intros Hh Hf Hv. unfold process. rewrite Hh.
  assert (Hr : snd (handle_reflected q) = [] /\
               (codec_ok (q_ser q) = true -> decodable (q_ser q) (q_args q) = true ->
                fst (handle_reflected q) = err_resp q (XExact t))).
  { unfold handle_reflected. destruct (codec_ok (q_ser q)); cbn [negb]; [|split; [reflexivity|discriminate]].
    destruct (decodable (q_ser q) (q_args q)); cbn [negb]; [|split; [reflexivity|discriminate]].
    rewrite Hv. split; reflexivity. }
  destruct Hr as [Hr1 Hr2].
  destruct Hf as [-> | ->]; destruct (handle_reflected q) as [r inv]; cbn [fst snd] in *; subst inv;
    (split; [destruct (q_oneway q); reflexivity|]); intros Ho Hc Hd; rewrite Ho, (Hr2 Hc Hd); reflexivity.
Qed.

(* ---- connections ---- *)
Lemma take_rid_some rid l c q rest :
  take_rid rid l = (Some (c, q), rest) -> In (rid, c, q) l /\ (forall x, In x rest -> In x l).
Proof.
  revert rest. induction l as [|[[r0 c0] q0] l IH]; intros rest; cbn; [discriminate|].
  destruct (Nat.eqb_spec r0 rid) as [->|Hne].
  - intros H. injection H as <- <- <-. split; [left; reflexivity|intros x Hx; right; exact Hx].
  - destruct (take_rid rid l) as [x rest'] eqn:E. intros H. injection H as -> <-.
    destruct (IH rest' eq_refl) as [H1 H2]. split; [right; exact H1|].
    intros y [<-|Hy]; [left; reflexivity|right; auto].
Qed.

(* every frame written on a connection answers a request that was read on that very connection *)
Definition CInv (es : list cevent) (s : cstate) : Prop :=
  (forall rid c q, In (rid, c, q) (inflight s) -> In (CRead c rid q) es) /\
  (forall c f, In (c, f) (written s) -> exists rid q, In (CRead c rid q) es /\ In f (fst (process q))).

Lemma cinv_step es s e : CInv es s -> CInv (es ++ [e]) (cstep s e).
Proof.
  intros [H1 H2]. destruct e as [c rid q|rid]; cbn [cstep].
  - split; cbn [inflight written].
    + intros r c' q' Hin. apply in_app_iff in Hin. apply in_app_iff.
      destruct Hin as [Hin|[Hin|[]]]; [left; eauto|right; left]. injection Hin as <- <- <-. reflexivity.
    + intros c' f Hin. destruct (H2 c' f Hin) as (r & q' & Hr & Hf). exists r, q'. split; [apply in_app_iff; left; exact Hr|exact Hf].
  - destruct (take_rid rid (inflight s)) as [[[c q]|] rest] eqn:E.
    + destruct (take_rid_some _ _ _ _ _ E) as [Hin Hrest].
      destruct (process q) as [frames inv] eqn:Ep. split; cbn [inflight written].
      * intros r c' q' Hi. apply in_app_iff. left. apply H1, Hrest, Hi.
      * intros c' f Hi. apply in_app_iff in Hi. destruct Hi as [Hi|Hi].
        -- destruct (H2 c' f Hi) as (r & q' & Hr & Hf). exists r, q'. split; [apply in_app_iff; left; exact Hr|exact Hf].
        -- apply in_map_iff in Hi. destruct Hi as (f' & Hf' & Hin'). injection Hf' as <- <-.
           exists rid, q. split; [apply in_app_iff; left; apply H1, Hin|rewrite Ep; exact Hin'].
    + split.
      * intros r c' q' Hi. apply in_app_iff. left. apply H1, Hi.
      * intros c' f Hi. destruct (H2 c' f Hi) as (r & q' & Hr & Hf). exists r, q'. split; [apply in_app_iff; left; exact Hr|exact Hf].
Qed.

Theorem frames_answer_own_connection es :
  forall c f, In (c, f) (written (crun cinit es)) ->
  exists rid q, In (CRead c rid q) es /\ In f (fst (process q)).
Proof.
  assert (H : forall es0 s, CInv es0 s -> CInv (es0 ++ es) (crun s es)).
  { induction es as [|e r IH]; intros es0 s Hi; [rewrite app_nil_r; exact Hi|].
    cbn. replace (es0 ++ e :: r) with ((es0 ++ [e]) ++ r) by (rewrite <- app_assoc; reflexivity).
    apply IH. apply cinv_step. exact Hi. }
  apply (H [] cinit). split; intros; contradiction.
Qed.

(* when every request that was read has completed - in ANY order - what was written is the
   concatenation, in completion order, of each request's own frames on its own connection *)
Fixpoint reads (l : list (nat * nat * sreq)) : list cevent :=
  match l with [] => [] | (rid, c, q) :: r => CRead c rid q :: reads r end.

Lemma crun_app s a b : crun s (a ++ b) = crun (crun s a) b.
Proof. unfold Dispatch.crun. apply fold_left_app. Qed.

Lemma crun_reads l : forall s, crun s (reads l) = mkC (inflight s ++ l) (written s) (invoked s).
Proof.
  induction l as [|[[rid c] q] l IH]; intros s; cbn [reads].
  - cbn. rewrite app_nil_r. destruct s; reflexivity.
  - change (crun s (CRead c rid q :: reads l)) with (crun (cstep s (CRead c rid q)) (reads l)).
    rewrite IH. cbn [cstep inflight written invoked]. rewrite <- app_assoc. reflexivity.
Qed.

Definition frames_of (x : nat * nat * sreq) : list (nat * sresp) :=
  let '(_, c, q) := x in map (fun f => (c, f)) (fst (process q)).

Lemma take_rid_perm rid l : NoDup (map (fun x => fst (fst x)) l) ->
  forall c q, In (rid, c, q) l ->
  exists rest, take_rid rid l = (Some (c, q), rest) /\ Permutation l ((rid, c, q) :: rest).
Proof.
  induction l as [|[[r0 c0] q0] l IH]; intros Hnd c q Hin; [destruct Hin|].
  cbn in Hnd. inversion Hnd as [|? ? Hn Hr]; subst. cbn [take_rid].
  destruct (Nat.eqb_spec r0 rid) as [->|Hne].
  - destruct Hin as [Hin|Hin].
    + injection Hin as -> ->. eexists. split; [reflexivity|apply Permutation_refl].
    + exfalso. apply Hn. apply in_map_iff. exists (rid, c, q). split; [reflexivity|exact Hin].
  - destruct Hin as [Hin|Hin]; [injection Hin as ? ? ?; congruence|].
    destruct (IH Hr c q Hin) as (rest & E & Hp). rewrite E. eexists. split; [reflexivity|].
    eapply Permutation_trans; [apply perm_skip, Hp|apply perm_swap].
Qed.

Theorem completed_requests_written_once l order :
  NoDup (map (fun x => fst (fst x)) l) -> Permutation order l ->
  written (crun cinit (reads l ++ map (fun x => CDone (fst (fst x))) order)) = flat_map frames_of order.
Proof.
  intros Hnd Hp. rewrite crun_app, crun_reads. cbn [inflight written invoked cinit app].
  assert (G : forall order infl wr iv, NoDup (map (fun x => fst (fst x)) infl) -> Permutation order infl ->
            written (crun (mkC infl wr iv) (map (fun x => CDone (fst (fst x))) order)) = wr ++ flat_map frames_of order).
  { clear. induction order as [|[[rid c] q] order IH]; intros infl wr iv Hnd Hp.
    - cbn. rewrite app_nil_r. reflexivity.
    - cbn [map]. change (crun ?s (?e :: ?r)) with (crun (cstep s e) r). cbn [cstep inflight fst].
      assert (Hin : In (rid, c, q) infl) by (apply (Permutation_in _ Hp); left; reflexivity).
      destruct (take_rid_perm rid infl Hnd c q Hin) as (rest & E & Hp2). rewrite E.
      destruct (process q) as [frames inv] eqn:Ep. cbn [written invoked].
      rewrite IH.
      + cbn [flat_map frames_of]. rewrite Ep. cbn [fst]. rewrite <- app_assoc. reflexivity.
      + assert (Hnd2 : NoDup (map (fun x => fst (fst x)) ((rid, c, q) :: rest))).
        { eapply Permutation_NoDup; [apply Permutation_map, Hp2|exact Hnd]. }
        inversion Hnd2; assumption.
      + apply Permutation_cons_inv with (a := (rid, c, q)).
        eapply Permutation_trans; [exact Hp|exact Hp2]. }
  rewrite (G order l [] [] Hnd Hp). reflexivity.
Qed.

End DP.
