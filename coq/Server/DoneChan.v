(* Who closes Server.doneChan.  closeDoneChanLocked is "look whether the channel is closed; if not, close it" - two
   steps, and closing a closed channel panics.  Its call sites (regenerated from the source on every run:
   Server/DoneChanGen.v) stand under s.mu.  Definitions only. *)
From Coq Require Import List Arith Bool.
Import ListNotations.

Inductive dop := DLock | DUnlock | DCheck | DCloseIfOpen.

(* what a call site runs *)
Definition site_prog (held : bool) : list dop :=
  if held then [DLock; DCheck; DCloseIfOpen; DUnlock] else [DCheck; DCloseIfOpen].

Record dthread := mkDT { dpc : list dop; sawopen : bool }.
Record dworld := mkDW { dthr : nat -> dthread; dlock : option nat; dclosed : bool; dpanic : bool }.

Definition dupd (f : nat -> dthread) (t : nat) (x : dthread) : nat -> dthread :=
  fun t' => if Nat.eqb t' t then x else f t'.

(* one step of thread t; None: it cannot move (the mutex is held, or it has nothing left to do) *)
Definition dstep (t : nat) (w : dworld) : option dworld :=
  let th := dthr w t in
  match dpc th with
  | [] => None
  | DLock :: r => match dlock w with
                  | None => Some (mkDW (dupd (dthr w) t (mkDT r (sawopen th))) (Some t) (dclosed w) (dpanic w))
                  | Some _ => None
                  end
  | DUnlock :: r => Some (mkDW (dupd (dthr w) t (mkDT r (sawopen th))) None (dclosed w)
                              (dpanic w || negb (match dlock w with Some t' => Nat.eqb t' t | None => false end)))
  | DCheck :: r => Some (mkDW (dupd (dthr w) t (mkDT r (negb (dclosed w)))) (dlock w) (dclosed w) (dpanic w))
  | DCloseIfOpen :: r =>
      if sawopen th
      then Some (mkDW (dupd (dthr w) t (mkDT r false)) (dlock w) true (dpanic w || dclosed w))   (* close of a closed channel panics *)
      else Some (mkDW (dupd (dthr w) t (mkDT r false)) (dlock w) (dclosed w) (dpanic w))
  end.

Fixpoint drun (sched : list nat) (w : dworld) : dworld :=
  match sched with
  | [] => w
  | t :: r => drun r (match dstep t w with Some w' => w' | None => w end)
  end.

Definition dstart (progs : nat -> list dop) : dworld :=
  mkDW (fun t => mkDT (progs t) false) None false false.

(* the discipline of one thread's program: the look and the close stand in one critical section, in this order *)
Fixpoint dcheck (held looked : bool) (ops : list dop) : bool :=
  match ops with
  | [] => negb held
  | DLock :: r => negb held && dcheck true false r
  | DUnlock :: r => held && dcheck false false r
  | DCheck :: r => held && dcheck true true r
  | DCloseIfOpen :: r => held && looked && dcheck true false r
  end.
