(* The request/connection invariant InvD of the graceful-shutdown model is preserved by every step (part 2). *)
From Coq Require Import List ZArith Arith Bool Lia.
From RPCX Require Import Server.Shutdown Server.ShutdownInv Server.ShutdownTac.
Import ListNotations.

Section D.
Variable info : nat -> rinfo.
Notation step := (step info).
Notation writes := (writes info).
Notation InvD := (InvD info).


Lemma D_EDispatch s r : InvA s -> InvC s -> InvD s -> InvD (step s (EDispatch r)).
Proof. intros HA HC HD. start HD. all: auto_f D_act D_compl D_deliv D_ans0 D_started.
all: try solve [okk D_ok].
Qed.

Lemma D_EEnter s r : InvA s -> InvC s -> InvD s -> InvD (step s (EEnter r)).
Proof. intros HA HC HD. start HD. all: auto_f D_act D_compl D_deliv D_ans0 D_started.
all: try solve [okk D_ok].
Qed.

Lemma D_EFinish s r : InvA s -> InvC s -> InvD s -> InvD (step s (EFinish r)).
Proof. intros HA HC HD. start HD. all: auto_f D_act D_compl D_deliv D_ans0 D_started.
all: try solve [okk D_ok].
Qed.

Lemma D_EStart s r : InvA s -> InvC s -> InvD s -> InvD (step s (EStart r)).
Proof. intros HA HC HD. start HD. all: auto_f D_act D_compl D_deliv D_ans0 D_started.
all: try solve [okk D_ok].
all: intros r0 Hin; apply in_app_or in Hin; destruct Hin as [Hin|[<-|[]]]; ups; fin2.
Qed.
End D.
