(* Model of graceful shutdown (server/server.go: Shutdown, Close, closeDoneChanLocked, serveListener's
   exit, serveConn's loop / exit, readRequest's counting, processOneRequest's un-counting).
   One event per atomic operation or per section between two points at which another goroutine can
   observably interfere (plugin call-outs, the dispatch, the handler, the transport write).
   The wait loop of Shutdown is the events EPoll (the in-progress count is read) / EDeadline.
   Ghost fields (never read by the transitions that model code): readlog, late, polled, expired,
   closeCalled.  Definitions only. *)
From Coq Require Import List ZArith Arith Bool.
Import ListNotations.

Inductive kind :=
  | KNormal      (* dispatched to a handler *)
  | KHeartbeat   (* dispatched, echoed without a handler *)
  | KLimit       (* post-read plugin answers ErrReqReachLimit: error response, the loop goes on *)
  | KAuthFail    (* authentication fails: error response, the connection is given up *)
  | KReject.     (* post-read plugin fails otherwise: no response, the connection is given up *)

Record rinfo := mkInfo { r_conn : nat; r_kind : kind; r_oneway : bool }.

Inductive phase :=
  | PNone | PArrived
  | PGot         (* decoded by readRequest and counted; the reader holds it *)
  | PAnswering   (* rejected, the reader is about to answer; still counted *)
  | PSpawned     (* handed to a goroutine / queued in the pool; processOneRequest not entered *)
  | PEntered | PRunning | PHandled
  | PWritten     (* response written or nothing to write; still counted *)
  | PExited      (* no longer counted *)
  | PDropped.    (* rejected without an answer; no longer counted *)

Inductive closer :=
  | ByShutdown     (* Shutdown's final sweep over activeConn *)
  | ByClose        (* Close() *)
  | ByReaderExit   (* serveConn gives the connection up while the server is not shutting down *)
  | ByReaderDone   (* serveConn's deferred close after doneChan was closed *)
  | ByServeStart   (* serveConn started on a server that is already shutting down *)
  | ByPeer.
Inductive cstate := COpen | CClosed (who : closer).
Inductive rstate := RNone | RAccepted | RTop | RReading | RHolding (r : nat) | RWaitDone | RGone.
Inductive shphase := SIdle | SWaiting | SClosing (expired : bool) | SDone (expired : bool) | SLost.
Inductive lstate := LAccepting | LWaitDone | LReturned (server_closed : bool).

Record st := mkSt {
  inShutdown : bool; count : Z; done : bool; closes : nat; lnClosed : bool;
  cst : nat -> cstate; active : nat -> bool; rd : nat -> rstate;
  ph : nat -> phase; answered : nat -> bool; delivered : nat -> bool; started : list nat;
  sh : nat -> shphase; serve : lstate;
  (* ghost *)
  readlog : list nat; late : nat -> bool; polled : bool; expired : bool; closeCalled : bool }.

Definition upd {A} (f : nat -> A) (k : nat) (v : A) : nat -> A :=
  fun x => if Nat.eqb x k then v else f x.

Definition init : st :=
  mkSt false 0 false 0 false (fun _ => COpen) (fun _ => false) (fun _ => RNone)
       (fun _ => PNone) (fun _ => false) (fun _ => false) [] (fun _ => SIdle) LAccepting
       [] (fun _ => false) false false false.

Inductive event :=
  | EAccept (c : nat) | EServe (c : nat) | ETop (c : nat)
  | EArrive (r : nat) | ERead (r : nat) | EReadErr (c : nat) | EPeerClose (c : nat)
  | EDispatch (r : nat) | EEnter (r : nat) | EStart (r : nat) | EFinish (r : nat)
  | EWrite (r : nat) | EExit (r : nat) | EWaitDone (c : nat)
  | EShutBegin (k : nat) | EPoll (k : nat) | EDeadline (k : nat) | ECloseConns (k : nat)
  | EClose | EAcceptErr | EServeRet.

Definition is_open (x : cstate) : bool := match x with COpen => true | _ => false end.

Definition counted (p : phase) : bool :=
  match p with
  | PGot | PAnswering | PSpawned | PEntered | PRunning | PHandled | PWritten => true
  | _ => false
  end.

Section Shutdown.
Variable info : nat -> rinfo.

(* does the server write a frame for this request? *)
Definition writes (r : nat) : bool :=
  match r_kind (info r) with
  | KHeartbeat => true
  | KReject => false
  | _ => negb (r_oneway (info r))
  end.

(* conn.Close() by [by] (a second Close changes nothing) *)
Definition close_conn (f : nat -> cstate) (c : nat) (by_ : closer) : nat -> cstate :=
  if is_open (f c) then upd f c (CClosed by_) else f.

(* for c := range activeConn { c.Close(); delete(activeConn, c) } *)
Definition close_active (s : st) (by_ : closer) : nat -> cstate :=
  fun c => if active s c && is_open (cst s c) then CClosed by_ else cst s c.

(* closeDoneChanLocked *)
Definition close_done (s : st) : bool * nat :=
  if done s then (true, closes s) else (true, S (closes s)).

(* serveConn's deferred function: wait for doneChan when shutting down, then closeConn *)
Definition exit_reader (s : st) (c : nat) : st :=
  if inShutdown s then
    mkSt (inShutdown s) (count s) (done s) (closes s) (lnClosed s) (cst s) (active s) (upd (rd s) c RWaitDone)
         (ph s) (answered s) (delivered s) (started s) (sh s) (serve s)
         (readlog s) (late s) (polled s) (expired s) (closeCalled s)
  else
    mkSt (inShutdown s) (count s) (done s) (closes s) (lnClosed s) (close_conn (cst s) c ByReaderExit)
         (upd (active s) c false) (upd (rd s) c RGone)
         (ph s) (answered s) (delivered s) (started s) (sh s) (serve s)
         (readlog s) (late s) (polled s) (expired s) (closeCalled s).

Definition set_rd (s : st) (c : nat) (x : rstate) : st :=
  mkSt (inShutdown s) (count s) (done s) (closes s) (lnClosed s) (cst s) (active s) (upd (rd s) c x)
       (ph s) (answered s) (delivered s) (started s) (sh s) (serve s)
       (readlog s) (late s) (polled s) (expired s) (closeCalled s).

Definition set_ph (s : st) (r : nat) (p : phase) : st :=
  mkSt (inShutdown s) (count s) (done s) (closes s) (lnClosed s) (cst s) (active s) (rd s)
       (upd (ph s) r p) (answered s) (delivered s) (started s) (sh s) (serve s)
       (readlog s) (late s) (polled s) (expired s) (closeCalled s).

Definition set_sh (s : st) (k : nat) (x : shphase) : st :=
  mkSt (inShutdown s) (count s) (done s) (closes s) (lnClosed s) (cst s) (active s) (rd s)
       (ph s) (answered s) (delivered s) (started s) (upd (sh s) k x) (serve s)
       (readlog s) (late s) (polled s) (expired s) (closeCalled s).

Definition set_serve (s : st) (x : lstate) : st :=
  mkSt (inShutdown s) (count s) (done s) (closes s) (lnClosed s) (cst s) (active s) (rd s)
       (ph s) (answered s) (delivered s) (started s) (sh s) x
       (readlog s) (late s) (polled s) (expired s) (closeCalled s).

Definition add_count (s : st) (d : Z) : st :=
  mkSt (inShutdown s) (count s + d) (done s) (closes s) (lnClosed s) (cst s) (active s) (rd s)
       (ph s) (answered s) (delivered s) (started s) (sh s) (serve s)
       (readlog s) (late s) (polled s) (expired s) (closeCalled s).

Definition is_reading (x : rstate) : bool := match x with RReading => true | _ => false end.
Definition holds (x : rstate) (r : nat) : bool := match x with RHolding r' => Nat.eqb r' r | _ => false end.

Definition phase_eqb (a b : phase) : bool :=
  match a, b with
  | PNone, PNone | PArrived, PArrived | PGot, PGot | PAnswering, PAnswering | PSpawned, PSpawned
  | PEntered, PEntered | PRunning, PRunning | PHandled, PHandled | PWritten, PWritten
  | PExited, PExited | PDropped, PDropped => true
  | _, _ => false
  end.

Definition step (s : st) (e : event) : st :=
  match e with
  | EAccept c =>
      (* ln.Accept() returns a new connection *)
      match serve s, rd s c with
      | LAccepting, RNone => if lnClosed s then s else set_rd s c RAccepted
      | _, _ => s
      end
  | EServe c =>
      (* activeConn[conn] = {}; go serveConn(conn): if isShutdown { closeConn; return } *)
      match rd s c with
      | RAccepted =>
          if inShutdown s then
            mkSt (inShutdown s) (count s) (done s) (closes s) (lnClosed s) (close_conn (cst s) c ByServeStart)
                 (active s) (upd (rd s) c RGone)
                 (ph s) (answered s) (delivered s) (started s) (sh s) (serve s)
                 (readlog s) (late s) (polled s) (expired s) (closeCalled s)
          else
            mkSt (inShutdown s) (count s) (done s) (closes s) (lnClosed s) (cst s)
                 (upd (active s) c true) (upd (rd s) c RTop)
                 (ph s) (answered s) (delivered s) (started s) (sh s) (serve s)
                 (readlog s) (late s) (polled s) (expired s) (closeCalled s)
      | _ => s
      end
  | ETop c =>
      (* for { if s.isShutdown() { return } ... readRequest *)
      match rd s c with
      | RTop => if inShutdown s then exit_reader s c else set_rd s c RReading
      | _ => s
      end
  | EArrive r =>
      if phase_eqb (ph s r) PNone && is_open (cst s (r_conn (info r))) then set_ph s r PArrived else s
  | ERead r =>
      (* req.Decode(r) succeeds; atomic.AddInt32(&s.handlerMsgNum, 1) *)
      let c := r_conn (info r) in
      if is_reading (rd s c) && is_open (cst s c) && phase_eqb (ph s r) PArrived then
        mkSt (inShutdown s) (count s + 1) (done s) (closes s) (lnClosed s) (cst s) (active s)
             (upd (rd s) c (RHolding r))
             (upd (ph s) r PGot) (answered s) (delivered s) (started s) (sh s) (serve s)
             (r :: readlog s) (upd (late s) r (polled s)) (polled s) (expired s) (closeCalled s)
      else s
  | EReadErr c =>
      (* the read fails because the connection is closed *)
      if is_reading (rd s c) && negb (is_open (cst s c)) then exit_reader s c else s
  | EPeerClose c =>
      mkSt (inShutdown s) (count s) (done s) (closes s) (lnClosed s) (close_conn (cst s) c ByPeer)
           (active s) (rd s) (ph s) (answered s) (delivered s) (started s) (sh s) (serve s)
           (readlog s) (late s) (polled s) (expired s) (closeCalled s)
  | EDispatch r =>
      (* post-read plugins return; auth; go processOneRequest / pool.Submit *)
      let c := r_conn (info r) in
      if holds (rd s c) r && phase_eqb (ph s r) PGot then
        match r_kind (info r) with
        | KNormal | KHeartbeat => set_rd (set_ph s r PSpawned) c RTop
        | KLimit | KAuthFail => set_ph s r PAnswering
        | KReject => exit_reader (add_count (set_ph s r PDropped) (-1)) c
        end
      else s
  | EEnter r => if phase_eqb (ph s r) PSpawned then set_ph s r PEntered else s
  | EStart r =>
      if phase_eqb (ph s r) PEntered then
        match r_kind (info r) with
        | KHeartbeat => set_ph s r PHandled
        | _ =>
          mkSt (inShutdown s) (count s) (done s) (closes s) (lnClosed s) (cst s) (active s) (rd s)
               (upd (ph s) r PRunning) (answered s) (delivered s) (started s ++ [r]) (sh s) (serve s)
               (readlog s) (late s) (polled s) (expired s) (closeCalled s)
        end
      else s
  | EFinish r => if phase_eqb (ph s r) PRunning then set_ph s r PHandled else s
  | EWrite r =>
      (* conn.Write(frame): delivered iff the connection is still open *)
      if phase_eqb (ph s r) PHandled || phase_eqb (ph s r) PAnswering then
        if writes r then
          mkSt (inShutdown s) (count s) (done s) (closes s) (lnClosed s) (cst s) (active s) (rd s)
               (upd (ph s) r PWritten) (upd (answered s) r true)
               (upd (delivered s) r (is_open (cst s (r_conn (info r))))) (started s) (sh s) (serve s)
               (readlog s) (late s) (polled s) (expired s) (closeCalled s)
        else set_ph s r PWritten
      else s
  | EExit r =>
      (* atomic.AddInt32(&s.handlerMsgNum, -1) *)
      let c := r_conn (info r) in
      if phase_eqb (ph s r) PWritten then
        let s1 := add_count (set_ph s r PExited) (-1) in
        if holds (rd s c) r then
          match r_kind (info r) with
          | KAuthFail => exit_reader s1 c
          | _ => set_rd s1 c RTop
          end
        else s1
      else s
  | EWaitDone c =>
      (* <-s.doneChan; s.closeConn(conn) *)
      match rd s c with
      | RWaitDone =>
          if done s then
            mkSt (inShutdown s) (count s) (done s) (closes s) (lnClosed s) (close_conn (cst s) c ByReaderDone)
                 (upd (active s) c false) (upd (rd s) c RGone)
                 (ph s) (answered s) (delivered s) (started s) (sh s) (serve s)
                 (readlog s) (late s) (polled s) (expired s) (closeCalled s)
          else s
      | _ => s
      end
  | EShutBegin k =>
      (* atomic.CompareAndSwapInt32(&s.inShutdown, 0, 1); s.ln.Close() *)
      match sh s k with
      | SIdle =>
          if inShutdown s then set_sh s k SLost
          else
            mkSt true (count s) (done s) (closes s) true (cst s) (active s) (rd s)
                 (ph s) (answered s) (delivered s) (started s) (upd (sh s) k SWaiting) (serve s)
                 (readlog s) (late s) (polled s) (expired s) (closeCalled s)
      | _ => s
      end
  | EPoll k =>
      (* checkProcessMsg *)
      match sh s k with
      | SWaiting =>
          if Z.eqb (count s) 0 then
            mkSt (inShutdown s) (count s) (done s) (closes s) (lnClosed s) (cst s) (active s) (rd s)
                 (ph s) (answered s) (delivered s) (started s) (upd (sh s) k (SClosing false)) (serve s)
                 (readlog s) (late s) true (expired s) (closeCalled s)
          else s
      | _ => s
      end
  | EDeadline k =>
      (* <-ctx.Done() *)
      match sh s k with
      | SWaiting =>
          mkSt (inShutdown s) (count s) (done s) (closes s) (lnClosed s) (cst s) (active s) (rd s)
               (ph s) (answered s) (delivered s) (started s) (upd (sh s) k (SClosing true)) (serve s)
               (readlog s) (late s) true true (closeCalled s)
      | _ => s
      end
  | ECloseConns k =>
      (* under s.mu: close and forget every active connection; closeDoneChanLocked *)
      match sh s k with
      | SClosing e =>
          mkSt (inShutdown s) (count s) (fst (close_done s)) (snd (close_done s)) (lnClosed s)
               (close_active s ByShutdown) (fun _ => false) (rd s)
               (ph s) (answered s) (delivered s) (started s) (upd (sh s) k (SDone e)) (serve s)
               (readlog s) (late s) (polled s) (expired s) (closeCalled s)
      | _ => s
      end
  | EClose =>
      (* Close(): under s.mu: close the listener, every active connection, closeDoneChanLocked *)
      mkSt (inShutdown s) (count s) (fst (close_done s)) (snd (close_done s)) true
           (close_active s ByClose) (fun _ => false) (rd s)
           (ph s) (answered s) (delivered s) (started s) (sh s) (serve s)
           (readlog s) (late s) (polled s) (expired s) true
  | EAcceptErr =>
      (* Accept fails: if s.isShutdown() { <-s.doneChan; return ErrServerClosed }; return e *)
      match serve s with
      | LAccepting =>
          if lnClosed s then (if inShutdown s then set_serve s LWaitDone else set_serve s (LReturned false))
          else s
      | _ => s
      end
  | EServeRet =>
      match serve s with
      | LWaitDone => if done s then set_serve s (LReturned true) else s
      | _ => s
      end
  end.

Definition run (s : st) (evs : list event) : st := fold_left step evs s.

End Shutdown.
