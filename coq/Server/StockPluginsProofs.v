(* Proofs about the stock access-control plugins and their composition with the ingress model. *)
From Coq Require Import List Arith Bool Lia NArith.
From RPCX Require Import Server.Dispatch Server.Ingress Server.IngressProofs Server.StockPlugins.
Import ListNotations.

Theorem whitelist_spec : forall addr_ok in_list in_masks,
  whitelist_admits addr_ok in_list in_masks = true <-> addr_ok = true /\ (in_list = true \/ In true in_masks).
Proof.
  intros. unfold whitelist_admits. rewrite andb_true_iff, orb_true_iff, existsb_exists.
  split; intros [H1 H2]; (split; [exact H1|]); destruct H2 as [H2|H2]; try (left; exact H2).
  - destruct H2 as [x [Hin Hx]]. subst. right. exact Hin.
  - right. exists true. split; [exact H2|reflexivity].
Qed.

Theorem blacklist_spec : forall addr_ok in_list in_masks,
  blacklist_admits addr_ok in_list in_masks = false <-> addr_ok = true /\ (in_list = true \/ In true in_masks).
Proof.
  intros. unfold blacklist_admits. rewrite orb_false_iff, !negb_false_iff, orb_true_iff, existsb_exists.
  split; intros [H1 H2]; (split; [exact H1|]); destruct H2 as [H2|H2]; try (left; exact H2).
  - destruct H2 as [x [Hin Hx]]. subst. right. exact Hin.
  - right. exists true. split; [exact H2|reflexivity].
Qed.

(* an empty whitelist admits nobody; an empty blacklist refuses nobody *)
Corollary empty_whitelist_refuses : forall addr_ok, whitelist_admits addr_ok false [] = false.
Proof. intros []; reflexivity. Qed.
Corollary empty_blacklist_admits : forall addr_ok, blacklist_admits addr_ok false [] = true.
Proof. intros []; reflexivity. Qed.

(* the rate limiter lets exactly the first (capacity - taken) requests of a run pass *)
Lemma rate_run_spec : forall n capacity taken i,
  i < n -> nth i (rate_run capacity taken n) false = (taken + i <? capacity).
Proof.
  induction n as [|n IH]; intros capacity taken i Hi; [lia|].
  cbn [rate_run]. destruct i as [|i].
  - cbn [nth]. unfold rate_pass. rewrite Nat.add_0_r. reflexivity.
  - cbn [nth]. rewrite IH by lia. unfold rate_pass.
    destruct (Nat.ltb_spec taken capacity) as [Hlt|Hge].
    + f_equal. lia.
    + destruct (Nat.ltb_spec (taken + i) capacity); destruct (Nat.ltb_spec (taken + S i) capacity); try reflexivity; lia.
Qed.

Theorem rate_limit_passes_exactly_capacity : forall capacity n,
  length (filter (fun b => b) (rate_run capacity 0 n)) = Nat.min capacity n.
Proof.
  intros capacity n.
  assert (H : forall n taken, length (filter (fun b => b) (rate_run capacity taken n)) = Nat.min (capacity - taken) n).
  { induction n0 as [|m IH]; intros taken; [rewrite Nat.min_0_r; reflexivity|].
    cbn [rate_run filter]. destruct (rate_pass capacity taken) eqn:E; unfold rate_pass in E.
    - apply Nat.ltb_lt in E. cbn [length]. rewrite IH.
      destruct (Nat.min_spec (capacity - S taken) m) as [[? ->]|[? ->]];
        destruct (Nat.min_spec (capacity - taken) (S m)) as [[? ->]|[? ->]]; lia.
    - apply Nat.ltb_ge in E. rewrite IH. replace (capacity - taken) with 0 by lia. reflexivity. }
  rewrite H. rewrite Nat.sub_0_r. reflexivity.
Qed.

(* composed with the ingress model: a connection the access-control plugins do not all admit reaches no handler and
   gets no result, on every ingress *)
Theorem refused_connection_reaches_no_handler :
  forall find codec_ok decodable handler hmeta ing verdicts postread auth precall rq,
  all_admit verdicts = false ->
  let c := mkICfg (negb (all_admit verdicts)) postread auth precall in
  o_invoked (serve find codec_ok decodable handler hmeta ing c rq) = [] /\
  is_result (o_out (serve find codec_ok decodable handler hmeta ing c rq)) = false.
Proof.
  intros find codec_ok decodable handler hmeta ing verdicts postread auth precall rq H. cbv zeta. rewrite H. cbn [negb].
  destruct ing; cbn [serve native http_like ic_accept_veto]; try (split; reflexivity).
  destruct (q_oneway (i_q rq)); split; reflexivity.
Qed.
