(* Plugin chains of the server (server/plugin.go, pluginContainer.Do<Stage>): how the verdicts of the
   plugins registered for a stage combine into the verdict of the stage.  Server/PluginsGen.v, regenerated from
   the Go source on every run by tools/goplugins2v, says which discipline each Do<Stage> method follows.
   Definitions only. *)
From Coq Require Import List Bool String.
Import ListNotations.

Inductive chain_kind :=
  | FirstReject    (* the loop returns at the first plugin that rejects *)
  | LastVerdict    (* the loop runs to its end; the verdict is what the last plugin said *)
  | NoVerdict.     (* the plugins' verdicts are not reported *)

(* vs: the verdict of every registered plugin of the stage, in registration order (true = it rejects).
   The result: does the stage reject? *)
Fixpoint first_reject (vs : list bool) : bool :=
  match vs with
  | [] => false
  | v :: r => if v then true else first_reject r
  end.

Definition run_chain (k : chain_kind) (vs : list bool) : bool :=
  match k with
  | FirstReject => first_reject vs
  | LastVerdict => last vs false
  | NoVerdict => false
  end.

Definition kind_eqb (a b : chain_kind) : bool :=
  match a, b with
  | FirstReject, FirstReject | LastVerdict, LastVerdict | NoVerdict, NoVerdict => true
  | _, _ => false
  end.

(* the discipline of a stage according to a table (NoVerdict when the stage is not in it) *)
Fixpoint kind_of (tbl : list (string * chain_kind)) (name : string) : chain_kind :=
  match tbl with
  | [] => NoVerdict
  | (n, k) :: r => if String.eqb n name then k else kind_of r name
  end.
