(* Theorems about the graceful-shutdown model (Server/Shutdown.v). *)
From Coq Require Import List ZArith Arith Bool Lia.
From RPCX Require Import Server.Shutdown Server.ShutdownInv Server.ShutdownTac
  Server.ShutdownD1 Server.ShutdownD2 Server.ShutdownD3 Server.ShutdownD4.
Import ListNotations.

Section Proofs.
Variable info : nat -> rinfo.
Notation step := (step info).
Notation run := (run info).
Notation writes := (writes info).
Notation InvD := (InvD info).

Lemma InvD_step s e : InvA s -> InvC s -> InvD s -> InvD (step s e).
Proof.
  intros HA HC HD. destruct e.
  - now apply D_EAccept. - now apply D_EServe. - now apply D_ETop. - now apply D_EArrive.
  - now apply D_ERead. - now apply D_EReadErr. - now apply D_EPeerClose. - now apply D_EDispatch.
  - now apply D_EEnter. - now apply D_EStart. - now apply D_EFinish. - now apply D_EWrite.
  - now apply D_EExit. - now apply D_EWaitDone. - now apply D_EShutBegin. - now apply D_EPoll.
  - now apply D_EDeadline. - now apply D_ECloseConns. - now apply D_EClose. - now apply D_EAcceptErr.
  - now apply D_EServeRet.
Qed.

Definition Inv (s : st) : Prop := InvA s /\ InvC s /\ InvD s.

Lemma Inv_init : Inv init.
Proof. split; [apply InvA_init|split; [apply (InvC_init info)|apply InvD_init]]. Qed.

Lemma Inv_step s e : Inv s -> Inv (step s e).
Proof.
  intros (HA & HC & HD). split; [now apply InvA_step|split; [now apply InvC_step|now apply InvD_step]].
Qed.

Lemma Inv_run evs : forall s, Inv s -> Inv (run s evs).
Proof.
  induction evs as [|e evs IH]; intros s H; [exact H|]. simpl. apply IH. now apply Inv_step.
Qed.

Lemma run_app s a b : run s (a ++ b) = run (run s a) b.
Proof. unfold run, Shutdown.run. apply fold_left_app. Qed.

(* ---------- monotonicity facts about single steps ---------- *)
Lemma late_step s e r : wasread (ph s r) -> late (step s e) r = late s r.
Proof.
  intros [H1 H2]. pattern (step s e). destruct e; unf; brk; cbv beta; simpl; try reflexivity.
  bools. unfold upd. destruct (Nat.eqb_spec r r0); [subst; congruence|reflexivity].
Qed.

Lemma wasread_step s e r : wasread (ph s r) -> wasread (ph (step s e) r).
Proof.
  intros [H1 H2]. pattern (step s e). destruct e; unf; brk; cbv beta; simpl; try (split; assumption);
  bools; unfold upd; destruct (Nat.eqb_spec r r0); subst; try (split; assumption); try (split; discriminate);
  congruence.
Qed.

Lemma wasread_run evs : forall s r, wasread (ph s r) -> wasread (ph (run s evs) r).
Proof.
  induction evs as [|e evs IH]; intros s r H; [exact H|]. simpl. apply IH. now apply wasread_step.
Qed.

Lemma late_run evs : forall s r, wasread (ph s r) -> late (run s evs) r = late s r.
Proof.
  induction evs as [|e evs IH]; intros s r H; [reflexivity|]. simpl.
  rewrite IH by (now apply wasread_step). now apply late_step.
Qed.

(* terminal phases stay *)
Lemma exited_step s e r : ph s r = PExited \/ ph s r = PDropped -> ph (step s e) r = ph s r.
Proof.
  intros H. pattern (step s e). destruct e; unf; brk; cbv beta; simpl; try reflexivity;
  bools; unfold upd; destruct (Nat.eqb_spec r r0); subst; try reflexivity; destruct H; congruence.
Qed.

Lemma answered_step s e r : answered s r = true -> answered (step s e) r = true.
Proof.
  intros H. pattern (step s e). destruct e; unf; brk; cbv beta; simpl; try assumption.
  unfold upd. destruct (Nat.eqb r r0); [reflexivity|assumption].
Qed.

Lemma delivered_step s e r : InvD s -> answered s r = true -> delivered (step s e) r = delivered s r.
Proof.
  intros HD H. pattern (step s e). destruct e; unf; brk; cbv beta; simpl; try reflexivity.
  all: bools; unfold upd; destruct (Nat.eqb_spec r r0); try reflexivity; subst.
  all: destruct (D_ans0 _ _ HD _ H) as [X|X]; congruence.
Qed.

(* ---------- T1: drain ---------- *)
(* In every reachable state in which the wait loop of Shutdown ended because the in-progress count was
   zero (not because the deadline expired), every request that had been read when the count was found
   zero - in particular every request read before Shutdown began - has run to completion, and if it
   has a response, the response was written, and written to a connection that was still open unless
   the connection had been closed for a reason other than the shutdown (by the peer, by the reader
   giving the connection up, or by Close()). *)
Theorem drain_state : forall evs s, s = run init evs ->
  polled s = true -> expired s = false ->
  forall r, wasread (ph s r) -> late s r = false ->
    (ph s r = PExited \/ ph s r = PDropped) /\
    (writes r = true -> ph s r = PExited ->
       answered s r = true /\ (delivered s r = true \/ closed_early s (r_conn (info r)))).
Proof.
  intros evs s -> Hp He r Hr Hl.
  destruct (Inv_run evs init Inv_init) as (HA & HC & HD).
  set (s := run init evs) in *.
  assert (Hin : In r (readlog s)) by (now apply (A_log _ HA)).
  pose proof (D_ok _ _ HD Hp He r Hin Hl) as Hc.
  assert (Hph : ph s r = PExited \/ ph s r = PDropped).
  { destruct Hr as [H1 H2]. destruct (ph s r); simpl in Hc; try discriminate; tauto. }
  split; [assumption|]. intros Hw Hx.
  assert (Ha : answered s r = true) by (apply (D_ans _ _ HD); tauto).
  split; [assumption|].
  destruct (delivered s r) eqn:Ed; [now left|right]. now apply (D_deliv _ _ HD).
Qed.

(* the caller of Shutdown that won the race is past the wait loop without error => the premises above *)
Lemma winner_polled : forall evs s k, s = run init evs ->
  (sh s k = SClosing false \/ sh s k = SDone false) -> polled s = true /\ expired s = false.
Proof.
  intros evs s k -> H. destruct (Inv_run evs init Inv_init) as (HA & HC & HD).
  apply (C_win_polled _ HC k false H).
Qed.

(* requests read before the wait loop ended are never late, whatever happens afterwards *)
Lemma read_before_poll_not_late : forall evs1 evs2 r,
  let s1 := run init evs1 in
  polled s1 = false -> wasread (ph s1 r) -> late (run s1 evs2) r = false.
Proof.
  intros evs1 evs2 r s1 Hp Hr. rewrite late_run by assumption.
  destruct (Inv_run evs1 init Inv_init) as (HA & HC & HD). fold s1 in HC.
  destruct (late s1 r) eqn:E; [|reflexivity]. apply (C_late _ HC) in E. congruence.
Qed.

(* T1 in terms of a history: a request read at any moment at which the wait loop of Shutdown has not
   ended yet (before Shutdown is called, or while it waits) is drained by the time Shutdown returns nil *)
Theorem drain_history : forall evs1 evs2 k r,
  let s1 := run init evs1 in
  let s2 := run s1 evs2 in
  polled s1 = false -> wasread (ph s1 r) ->
  sh s2 k = SDone false ->
    (ph s2 r = PExited \/ ph s2 r = PDropped) /\
    (writes r = true -> ph s2 r = PExited ->
       answered s2 r = true /\ (delivered s2 r = true \/ closed_early s2 (r_conn (info r)))).
Proof.
  intros evs1 evs2 k r s1 s2 Hp Hr Hk.
  assert (E : s2 = run init (evs1 ++ evs2)) by (unfold s2, s1; now rewrite run_app).
  destruct (winner_polled _ _ k E (or_intror Hk)) as [Hp2 He2].
  apply (drain_state _ _ E Hp2 He2).
  - unfold s2. now apply wasread_run.
  - now apply read_before_poll_not_late.
Qed.

(* the connection of a drained request is closed by the shutdown only after the response was written:
   Shutdown closes connections in ECloseConns only, which is enabled only past the wait loop *)
Theorem closed_by_shutdown_only_after_wait : forall evs s c, s = run init evs ->
  cst s c = CClosed ByShutdown \/ cst s c = CClosed ByReaderDone ->
  polled s = true \/ closeCalled s = true.
Proof.
  intros evs s c -> H. destruct (Inv_run evs init Inv_init) as (HA & HC & HD).
  destruct H as [H|H]; [left; eapply D_byshut; eassumption|].
  apply (C_done _ HC). eapply D_bydone; eassumption.
Qed.

(* ---------- T5: the count is exact, so the wait loop ends as soon as everything read has finished ---------- *)
Theorem count_exact : forall evs s, s = run init evs ->
  count s = Z.of_nat (length (filter (fun r => counted (ph s r)) (readlog s))).
Proof. intros evs s ->. destruct (Inv_run evs init Inv_init) as (HA & _). apply (A_count _ HA). Qed.

Theorem poll_succeeds_when_idle : forall evs s k, s = run init evs ->
  sh s k = SWaiting -> (forall r, wasread (ph s r) -> counted (ph s r) = false) ->
  sh (step s (EPoll k)) k = SClosing false.
Proof.
  intros evs s k E Hk Hall. pose proof (count_exact _ _ E) as Hc.
  assert (Hz : count s = 0%Z).
  { rewrite Hc. destruct (Inv_run evs init Inv_init) as (HA & _). rewrite <- E in HA.
    assert (Hf : forall l, (forall r, In r l -> counted (ph s r) = false) ->
                 length (filter (fun r => counted (ph s r)) l) = 0).
    { induction l as [|x l IH]; intros Hl; [reflexivity|]. simpl. rewrite (Hl x) by now left.
      apply IH. intros r Hr. apply Hl. now right. }
    rewrite Hf; [reflexivity|]. intros r Hr. apply Hall. now apply (A_log _ HA). }
  unfold step, Shutdown.step. rewrite Hk, Hz. simpl. now rewrite upd_same.
Qed.

(* ---------- T2: nothing is read, and no handler starts, for requests arriving after completion ---------- *)
Lemma completed_step s e : completed s -> completed (step s e).
Proof.
  intros (k & x & H). destruct e; unf; brk; simpl; try (exists k, x; assumption);
  unfold completed; simpl; unfold upd.
  all: match goal with |- exists a b, (if Nat.eqb a ?k0 then _ else _) = _ =>
         destruct (Nat.eq_dec k k0) as [->|Hne];
         [congruence || (eexists k0, _; rewrite Nat.eqb_refl; reflexivity)
         |exists k, x; destruct (Nat.eqb_spec k k0); [contradiction|assumption]] end.
Qed.

Lemma notread_step s e r : Inv s -> completed s -> ~ wasread (ph s r) -> ~ wasread (ph (step s e) r).
Proof.
  intros (HA & HC & HD) Hc Hn.
  assert (Hopen : forall c, is_open (cst s c) = true -> rd s c = RNone \/ rd s c = RAccepted)
    by (apply (D_compl _ _ HD Hc)).
  assert (Hnp : ph s r = PNone \/ ph s r = PArrived).
  { unfold wasread in Hn. destruct (ph s r); try tauto; exfalso; apply Hn; split; discriminate. }
  destruct e; unf; brk; simpl; try assumption; bools; rdeq;
  unfold upd; destruct (Nat.eqb_spec r r0); subst; try assumption;
  try (intros [H1 H2]; congruence);
  try (destruct Hnp; congruence).
  destruct (Hopen _ H1); congruence.
Qed.

Theorem no_read_after_completion : forall evs1 evs2 r,
  let s1 := run init evs1 in
  completed s1 -> ~ wasread (ph s1 r) ->
  ~ wasread (ph (run s1 evs2) r) /\ ~ In r (started (run s1 evs2)).
Proof.
  intros evs1 evs2 r s1 Hc Hn.
  assert (Hi : Inv s1) by (apply Inv_run, Inv_init).
  assert (H : ~ wasread (ph (run s1 evs2) r) /\ Inv (run s1 evs2)).
  { clearbody s1. revert s1 Hc Hn Hi. induction evs2 as [|e evs IH]; intros s1 Hc Hn Hi; [tauto|].
    simpl. apply IH; [now apply completed_step|now apply notread_step|now apply Inv_step]. }
  destruct H as [H (_ & _ & HD)]. split; [assumption|]. intros Hin. apply H. now apply (D_started _ _ HD).
Qed.

(* ---------- T3: Serve returns ErrServerClosed ---------- *)
Theorem serve_return : forall evs s, s = run init evs ->
  (serve s = LReturned true -> done s = true /\ inShutdown s = true) /\
  (serve s = LReturned false -> closeCalled s = true).
Proof.
  intros evs s ->. destruct (Inv_run evs init Inv_init) as (HA & HC & HD).
  split; [apply (C_serve_t _ HC)|apply (C_serve_f _ HC)].
Qed.

Theorem serve_returns_closed_after_completion : forall evs s, s = run init evs ->
  completed s -> serve s = LAccepting ->
  serve (run s [EAcceptErr; EServeRet]) = LReturned true.
Proof.
  intros evs s E Hc Hs. destruct (Inv_run evs init Inv_init) as (HA & HC & HD). rewrite <- E in *.
  destruct (compl_facts s HC Hc) as (Hin & Hd & _).
  pose proof (C_ln _ HC Hin) as Hl.
  assert (E1 : step s EAcceptErr = set_serve s LWaitDone).
  { unfold step, Shutdown.step. now rewrite Hs, Hl, Hin. }
  unfold run, Shutdown.run. simpl. fold (step s EAcceptErr). rewrite E1.
  unfold Shutdown.step. simpl. rewrite Hd. reflexivity.
Qed.

(* ---------- T4: repeated / concurrent Shutdown and Close ---------- *)
Theorem done_closed_at_most_once : forall evs s, s = run init evs -> closes s <= 1.
Proof.
  intros evs s ->. destruct (Inv_run evs init Inv_init) as (HA & HC & HD).
  rewrite (C_closes _ HC). destruct (done _); lia.
Qed.

Theorem one_shutdown_runs : forall evs s k1 k2, s = run init evs ->
  winner (sh s k1) -> winner (sh s k2) -> k1 = k2.
Proof.
  intros evs s k1 k2 ->. destruct (Inv_run evs init Inv_init) as (HA & HC & HD). apply (C_win_uniq _ HC).
Qed.

Theorem later_shutdown_returns_at_once : forall s k,
  inShutdown s = true -> sh s k = SIdle -> sh (step s (EShutBegin k)) k = SLost.
Proof. intros s k H1 H2. unfold step, Shutdown.step. rewrite H2, H1. simpl. apply upd_same. Qed.

End Proofs.
