(* What the connection loop of server/server.go (serveConn / readRequest) does with a request before it is handed
   to processOneRequest: the PostReadRequest plugins may refuse it (the rate limiters return ErrReqReachLimit: the
   request is answered with that error and the loop goes on), and AuthFunc may refuse it (answered with its error,
   and the connection is closed; heartbeats are not authenticated).  A refused request is answered by the reader
   itself, at once, and is never processed.  Definitions only. *)
From Coq Require Import List NArith Arith Bool.
From RPCX Require Import Server.Dispatch.
Import ListNotations.

Section Gate.
Variable find : nat -> nat -> target.
Variable codec_ok : N -> bool.
Variable decodable : N -> nat -> bool.
Variable handler : nat -> nat -> nat -> hres.
Variable hmeta : nat -> nat -> nat -> list (nat * nat).
Variable limited : nat -> nat -> nat -> option nat.   (* path, method, args: the text a PostReadRequest plugin refuses with *)
Variable denied : nat -> nat -> nat -> option nat.    (* the text AuthFunc refuses with *)

(* the refusal text, and whether the connection is closed after the answer *)
Definition refusal (q : sreq) : option (nat * bool) :=
  match limited (q_path q) (q_meth q) (q_args q) with
  | Some t => Some (t, false)
  | None => if q_hb q then None
            else match denied (q_path q) (q_meth q) (q_args q) with
                 | Some t => Some (t, true)
                 | None => None
                 end
  end.

(* res := req.Clone(); res.SetMessageType(Response); handleError(res, err); sendResponse - unless one-way *)
Definition refusal_frames (q : sreq) (t : nat) : list sresp :=
  if q_oneway q then [] else [err_resp q (XExact t)].

(* everything the server does for one request that it read *)
Definition serve (q : sreq) : list sresp * list invocation :=
  match refusal q with
  | Some (t, _) => (refusal_frames q t, [])
  | None => process find codec_ok decodable handler hmeta q
  end.

Record gstate := mkGS {
  gbase : cstate;
  gclosed : list nat }.     (* connections closed by a failed authentication: nothing is read on them any more *)

Definition ginit : gstate := mkGS cinit [].

Definition gstep (s : gstate) (e : cevent) : gstate :=
  match e with
  | CRead c rid q =>
    if existsb (Nat.eqb c) (gclosed s) then s
    else match refusal q with
         | Some (t, closes) =>
           mkGS (mkC (inflight (gbase s))
                     (written (gbase s) ++ map (fun f => (c, f)) (refusal_frames q t))
                     (invoked (gbase s)))
                (if closes then c :: gclosed s else gclosed s)
         | None => mkGS (cstep find codec_ok decodable handler hmeta (gbase s) e) (gclosed s)
         end
  | CDone _ => mkGS (cstep find codec_ok decodable handler hmeta (gbase s) e) (gclosed s)
  end.

Definition grun (s : gstate) (es : list cevent) : gstate := fold_left gstep es s.

End Gate.
