(* The stages that can reject a connection or a request combine their plugins' verdicts as "the first rejection
   wins" - checked against the table regenerated from server/plugin.go - hence a stage rejects exactly when one
   of its plugins does, wherever that plugin is registered. *)
From Coq Require Import List Bool String NArith.
From RPCX Require Import Server.Dispatch Server.Ingress Server.IngressProofs Server.Plugins Server.PluginsGen.
Import ListNotations.
Open Scope string_scope.

Lemma rejecting_stages_first_reject :
  kind_eqb (kind_of plugin_chains "DoPostConnAccept") FirstReject &&
  kind_eqb (kind_of plugin_chains "DoPostReadRequest") FirstReject &&
  kind_eqb (kind_of plugin_chains "DoPreCall") FirstReject = true.
Proof. vm_compute. reflexivity. Qed.

Lemma first_reject_iff vs : first_reject vs = true <-> In true vs.
Proof.
  induction vs as [|v r IH]; simpl; [split; [discriminate|intros []]|].
  destruct v; [split; [intros _; now left|reflexivity]|].
  rewrite IH. split; [intros H; now right|intros [H|H]; [discriminate|exact H]].
Qed.

Lemma kind_is s : kind_eqb (kind_of plugin_chains s) FirstReject = true -> kind_of plugin_chains s = FirstReject.
Proof. destruct (kind_of plugin_chains s); simpl; congruence. Qed.

(* the configuration of the ingress model that a set of registered plugins amounts to *)
Definition cfg_of_plugins (accept postread precall : list bool) (auth : bool) : icfg :=
  mkICfg (run_chain (kind_of plugin_chains "DoPostConnAccept") accept)
         (run_chain (kind_of plugin_chains "DoPostReadRequest") postread)
         auth
         (run_chain (kind_of plugin_chains "DoPreCall") precall).

Lemma cfg_of_plugins_spec accept postread precall auth :
  let c := cfg_of_plugins accept postread precall auth in
  (ic_accept_veto c = true <-> In true accept) /\
  (ic_postread c = true <-> In true postread) /\
  (ic_precall c = true <-> In true precall) /\
  ic_auth c = auth.
Proof.
  pose proof rejecting_stages_first_reject as H.
  apply andb_true_iff in H as [H H3]. apply andb_true_iff in H as [H1 H2].
  apply kind_is in H1, H2, H3. cbv zeta. unfold cfg_of_plugins. rewrite H1, H2, H3. cbn [run_chain ic_accept_veto ic_postread ic_precall ic_auth].
  repeat split; try apply first_reject_iff; apply first_reject_iff.
Qed.

Section WithPlugins.
Variable find : nat -> nat -> target.
Variable codec_ok : N -> bool.
Variable decodable : N -> nat -> bool.
Variable handler : nat -> nat -> nat -> hres.
Variable hmeta : nat -> nat -> nat -> list (nat * nat).

(* whichever plugin of whichever stage rejects - first, last or in the middle of its chain - the request runs no
   handler and yields no result, on every ingress *)
Theorem any_rejecting_plugin_keeps_the_request_out accept postread precall auth ing rq :
  In true accept \/ In true postread \/
  (In true precall /\ (match ing with Native => q_hb (i_q rq) | _ => false end) = false) ->
  find (q_path (i_q rq)) (q_meth (i_q rq)) <> TRouter \/ ~ In true precall ->
  let c := cfg_of_plugins accept postread precall auth in
  o_invoked (serve find codec_ok decodable handler hmeta ing c rq) = [] /\
  is_result (o_out (serve find codec_ok decodable handler hmeta ing c rq)) = false.
Proof.
  intros Hrej Hrouter. cbv zeta.
  destruct (cfg_of_plugins_spec accept postread precall auth) as (Ha & Hp & Hc & _). cbv zeta in *.
  apply rejected_never_reaches_a_handler.
  - unfold rejected. destruct Hrej as [H|[H|[H Hb]]].
    + apply Ha in H. rewrite H. reflexivity.
    + apply Hp in H. rewrite H. now rewrite orb_true_r.
    + apply Hc in H. rewrite H, Hb. cbn. now rewrite !orb_true_r.
  - destruct Hrouter as [H|H]; [now left|right].
    destruct (ic_precall (cfg_of_plugins accept postread precall auth)) eqn:E; [|reflexivity].
    exfalso. apply H. now apply Hc.
Qed.

End WithPlugins.
