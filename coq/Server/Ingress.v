(* Model of the three ingresses of the server - the native protocol (serveConn), the HTTP gateway
   (handleGatewayRequest) and the JSON-RPC endpoint (handleJSONRPCRequest) - as front ends of the
   same authentication function and the same handleRequest.  Definitions only. *)
From Coq Require Import List NArith Arith Bool.
From RPCX Require Import Server.Dispatch.
Import ListNotations.

Inductive ingress := Native | Gateway | JsonRpc.
Inductive token := TokMissing | TokWrong | TokRight.

(* which stages are configured to reject *)
Record icfg := mkICfg {
  ic_accept_veto : bool;     (* a PostConnAccept plugin refuses the connection *)
  ic_postread : bool;        (* a PostReadRequest plugin rejects the request *)
  ic_auth : bool;            (* an AuthFunc is configured (accepts only TokRight) *)
  ic_precall : bool }.       (* a PreCall plugin rejects the request *)

Record irq := mkIRq {
  i_token : token;
  i_malformed : bool;        (* gateway: a required X-RPCX header missing / not a number; json-rpc: no "svc.method" *)
  i_q : sreq }.

(* what the requester observes *)
Inductive ioutcome :=
  | IResult (r : sresp)            (* a Normal response / HTTP 200 with the reply / JSON-RPC result *)
  | IError (e : option etext)      (* an error frame / HTTP error status or error headers / JSON-RPC error; None: a rejection's own text *)
  | IEcho                          (* heartbeat echo *)
  | INothing.                      (* no answer (one-way) *)

Record ires := mkIRes {
  o_out : ioutcome;
  o_invoked : list invocation;
  o_closed : bool }.               (* the server closed the connection *)

Section Ingress.
Variable find : nat -> nat -> target.
Variable codec_ok : N -> bool.
Variable decodable : N -> nat -> bool.
Variable handler : nat -> nat -> nat -> hres.
Variable hmeta : nat -> nat -> nat -> list (nat * nat).

Definition auth_ok (c : icfg) (t : token) : bool :=
  negb (ic_auth c) || match t with TokRight => true | _ => false end.

(* handleRequest with the PreCall stage: a veto comes after the arguments were decoded *)
Definition handle_with_precall (c : icfg) (q : sreq) : sresp * list invocation :=
  match find (q_path q) (q_meth q) with
  | TNoService => (err_resp q (XNoService (q_path q)), [])
  | TNoMethod => (err_resp q (XNoMethod (q_meth q)), [])
  | TRouter => (err_resp q (XNoService (q_path q)), [])   (* not used: see the ingress functions *)
  | TMethod | TFunction =>
    if negb (codec_ok (q_ser q)) then (err_resp q (XNoCodec (q_ser q)), [])
    else if negb (decodable (q_ser q) (q_args q)) then (err_resp q (XDecode (q_ser q) (q_args q)), [])
    else if ic_precall c then (err_resp q (XExact 0), [])            (* the plugin's own error text *)
    else handle_reflected codec_ok decodable handler hmeta q
  end.

Definition of_resp (r : sresp) : ioutcome :=
  match r_status r with SNormal => IResult r | SError => IError (r_err r) end.

(* ---- native protocol: one request on a connection ---- *)
Definition native (c : icfg) (rq : irq) : ires :=
  let q := i_q rq in
  if ic_accept_veto c then mkIRes INothing [] true          (* the connection is closed at accept *)
  else if ic_postread c then mkIRes INothing [] true         (* readRequest fails: the connection is dropped *)
  else if q_hb q then mkIRes IEcho [] false                  (* heartbeat: echoed without authentication, no service *)
  else if negb (auth_ok c (i_token rq)) then
    mkIRes (if q_oneway q then INothing else IError None) [] true   (* error frame (two-way), then closed *)
  else
    match find (q_path q) (q_meth q) with
    | TRouter =>
      let '(frames, inv) := process find codec_ok decodable handler hmeta q in
      mkIRes (match frames with r :: _ => of_resp r | [] => INothing end) inv false
    | _ =>
      let '(r, inv) := handle_with_precall c q in
      mkIRes (if q_oneway q then INothing else of_resp r) inv false
    end.

(* ---- HTTP gateway and JSON-RPC: one request on a fresh connection ---- *)
Definition http_like (c : icfg) (rq : irq) : ires :=
  let q := i_q rq in
  if ic_accept_veto c then mkIRes INothing [] true
  else if i_malformed rq then mkIRes (IError None) [] false
  else if ic_postread c then mkIRes (IError None) [] false
  else if negb (auth_ok c (i_token rq)) then mkIRes (IError None) [] false
  else
    let '(r, inv) := handle_with_precall c q in
    (* a one-way request (X-RPCX-Oneway / a JSON-RPC notification) runs but carries no reply back *)
    mkIRes (if q_oneway q then (match r_status r with SNormal => INothing | SError => of_resp r end) else of_resp r) inv false.

Definition serve (ing : ingress) (c : icfg) (rq : irq) : ires :=
  match ing with
  | Native => native c rq
  | Gateway => http_like c rq
  | JsonRpc =>
    (* a notification (no id) is handled in its own goroutine and never answered, not even with an error *)
    let r := http_like c rq in
    if q_oneway (i_q rq) then mkIRes INothing (o_invoked r) (o_closed r) else r
  end.

(* a request is rejected when some configured stage refuses it *)
Definition rejected (ing : ingress) (c : icfg) (rq : irq) : bool :=
  ic_accept_veto c || ic_postread c ||
  (match ing with Native => false | _ => i_malformed rq end) ||
  (negb (auth_ok c (i_token rq)) && negb (match ing with Native => q_hb (i_q rq) | _ => false end)) ||
  (ic_precall c && negb (match ing with Native => q_hb (i_q rq) | _ => false end)).

End Ingress.
