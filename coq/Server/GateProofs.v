From Coq Require Import List NArith Arith Bool Lia.
From RPCX Require Import Server.Dispatch Server.DispatchProofs Server.Gate.
Import ListNotations.

Section GP.
Variable find : nat -> nat -> target.
Variable codec_ok : N -> bool.
Variable decodable : N -> nat -> bool.
Variable handler : nat -> nat -> nat -> hres.
Variable hmeta : nat -> nat -> nat -> list (nat * nat).
Variable limited : nat -> nat -> nat -> option nat.
Variable denied : nat -> nat -> nat -> option nat.

Notation process := (process find codec_ok decodable handler hmeta).
Notation refusal := (refusal limited denied).
Notation serve := (serve find codec_ok decodable handler hmeta limited denied).
Notation gstep := (gstep find codec_ok decodable handler hmeta limited denied).
Notation grun := (grun find codec_ok decodable handler hmeta limited denied).

(* a refused two-way request gets exactly one answer: an error carrying the refuser's text, stamped with the
   request's identity; no handler runs *)
Lemma refused_answered_once q t cl :
  refusal q = Some (t, cl) -> q_oneway q = false ->
  exists r, serve q = ([r], []) /\ stamped q r /\ r_status r = SError /\ r_err r = Some (XExact t)
            /\ r_hb r = q_hb q /\ r_payload r = 0.
Proof.
  intros Hr Ho. unfold Gate.serve. rewrite Hr. unfold refusal_frames. rewrite Ho.
  eexists. split; [reflexivity|]. repeat split.
Qed.

Lemma refused_one_way_silent q t cl :
  refusal q = Some (t, cl) -> q_oneway q = true -> serve q = ([], []).
Proof. intros Hr Ho. unfold Gate.serve. rewrite Hr. unfold refusal_frames. now rewrite Ho. Qed.

Lemma refused_runs_no_handler q t cl : refusal q = Some (t, cl) -> snd (serve q) = [].
Proof. intros Hr. unfold Gate.serve. now rewrite Hr. Qed.

Lemma admitted_is_processed q : refusal q = None -> serve q = process q.
Proof. intros Hr. unfold Gate.serve. now rewrite Hr. Qed.

(* heartbeats are not authenticated *)
Lemma heartbeat_not_authenticated q :
  q_hb q = true -> limited (q_path q) (q_meth q) (q_args q) = None -> serve q = process q.
Proof. intros Hh Hl. apply admitted_is_processed. unfold Gate.refusal. now rewrite Hl, Hh. Qed.

(* only a failed authentication closes the connection *)
Lemma only_auth_closes q t : refusal q = Some (t, true) ->
  q_hb q = false /\ denied (q_path q) (q_meth q) (q_args q) = Some t
  /\ limited (q_path q) (q_meth q) (q_args q) = None.
Proof.
  unfold Gate.refusal. destruct (limited _ _ _); [intros H; injection H; discriminate|].
  destruct (q_hb q); [discriminate|]. destruct (denied _ _ _); [|discriminate].
  intros H. injection H as <-. auto.
Qed.

(* every two-way request that is not a heartbeat, refused or not: exactly one frame, stamped *)
Theorem served_two_way_exactly_one q :
  q_hb q = false -> q_oneway q = false -> exists r, fst (serve q) = [r] /\ stamped q r.
Proof.
  intros Hh Ho. destruct (refusal q) as [[t cl]|] eqn:Hr.
  - destruct (refused_answered_once q t cl Hr Ho) as (r & Hs & Hst & _). exists r. now rewrite Hs.
  - rewrite (admitted_is_processed q Hr). now apply two_way_exactly_one.
Qed.

Theorem served_one_way_silent q : q_hb q = false -> q_oneway q = true -> fst (serve q) = [].
Proof.
  intros Hh Ho. destruct (refusal q) as [[t cl]|] eqn:Hr.
  - now rewrite (refused_one_way_silent q t cl Hr Ho).
  - rewrite (admitted_is_processed q Hr). now apply one_way_no_response.
Qed.

(* ---- connections: every frame written answers a request read on that very connection, with what serve says ---- *)
Definition GInv (es : list cevent) (s : gstate) : Prop :=
  (forall rid c q, In (rid, c, q) (inflight (gbase s)) -> In (CRead c rid q) es /\ refusal q = None) /\
  (forall c f, In (c, f) (written (gbase s)) -> exists rid q, In (CRead c rid q) es /\ In f (fst (serve q))) /\
  (forall i, In i (invoked (gbase s)) -> exists c rid q, In (CRead c rid q) es /\ refusal q = None /\ In i (snd (process q))).

Lemma ginv_step es s e : GInv es s -> GInv (es ++ [e]) (gstep s e).
Proof.
  intros (H1 & H2 & H3).
  assert (W1 : forall rid c q, In (rid, c, q) (inflight (gbase s)) -> In (CRead c rid q) (es ++ [e]) /\ refusal q = None).
  { intros r c q Hi. destruct (H1 r c q Hi). split; [apply in_app_iff; now left|assumption]. }
  assert (W2 : forall c f, In (c, f) (written (gbase s)) -> exists rid q, In (CRead c rid q) (es ++ [e]) /\ In f (fst (serve q))).
  { intros c f Hi. destruct (H2 c f Hi) as (r & q & Hr & Hf). exists r, q. split; [apply in_app_iff; now left|assumption]. }
  assert (W3 : forall i, In i (invoked (gbase s)) -> exists c rid q, In (CRead c rid q) (es ++ [e]) /\ refusal q = None /\ In i (snd (process q))).
  { intros i Hi. destruct (H3 i Hi) as (c & r & q & Hr & Hn & Hp). exists c, r, q. split; [apply in_app_iff; now left|auto]. }
  destruct e as [c rid q|rid]; cbn [Gate.gstep].
  - destruct (existsb (Nat.eqb c) (gclosed s)); [split; [|split]; auto|].
    destruct (refusal q) as [[t cl]|] eqn:Hr; cbn [gbase inflight written invoked cstep].
    + split; [|split]; auto.
      intros c' f Hi. apply in_app_iff in Hi. destruct Hi as [Hi|Hi]; [auto|].
      apply in_map_iff in Hi. destruct Hi as (f' & Hf' & Hin'). injection Hf' as <- <-.
      exists rid, q. split; [apply in_app_iff; right; now left|]. unfold Gate.serve. now rewrite Hr.
    + split; [|split]; auto.
      intros r c' q' Hi. apply in_app_iff in Hi. destruct Hi as [Hi|[Hi|[]]]; [auto|].
      injection Hi as <- <- <-. split; [apply in_app_iff; right; now left|assumption].
  - cbn [gbase cstep]. destruct (take_rid rid (inflight (gbase s))) as [[[c q]|] rest] eqn:E; [|split; [|split]; auto].
    destruct (take_rid_some _ _ _ _ _ E) as [Hin Hrest]. destruct (W1 _ _ _ Hin) as (Hread & Hadm).
    destruct (process q) as [frames inv] eqn:Ep. cbn [inflight written invoked]. split; [|split].
    + intros r c' q' Hi. apply W1, Hrest, Hi.
    + intros c' f Hi. apply in_app_iff in Hi. destruct Hi as [Hi|Hi]; [auto|].
      apply in_map_iff in Hi. destruct Hi as (f' & Hf' & Hin'). injection Hf' as <- <-.
      exists rid, q. split; [exact Hread|]. rewrite (admitted_is_processed q Hadm), Ep. exact Hin'.
    + intros i Hi. apply in_app_iff in Hi. destruct Hi as [Hi|Hi]; [auto|].
      exists c, rid, q. split; [exact Hread|]. split; [exact Hadm|]. now rewrite Ep.
Qed.

Lemma ginv_run es : forall es0 s, GInv es0 s -> GInv (es0 ++ es) (grun s es).
Proof.
  induction es as [|e r IH]; intros es0 s Hi; [rewrite app_nil_r; exact Hi|].
  cbn. replace (es0 ++ e :: r) with ((es0 ++ [e]) ++ r) by (rewrite <- app_assoc; reflexivity).
  apply IH. apply ginv_step. exact Hi.
Qed.

Lemma ginv_init : GInv [] (ginit).
Proof. repeat split; intros; contradiction. Qed.

Theorem served_frames_answer_own_connection es c f :
  In (c, f) (written (gbase (grun ginit es))) ->
  exists rid q, In (CRead c rid q) es /\ In f (fst (serve q)).
Proof. intros H. exact (proj1 (proj2 (ginv_run es [] ginit ginv_init)) c f H). Qed.

(* a handler only ever runs for a request that was read and that nobody refused *)
Theorem refused_requests_never_reach_a_handler es i :
  In i (invoked (gbase (grun ginit es))) ->
  exists c rid q, In (CRead c rid q) es /\ refusal q = None /\ In i (snd (process q)).
Proof. intros H. exact (proj2 (proj2 (ginv_run es [] ginit ginv_init)) i H). Qed.

End GP.

(* with nobody refusing, the gate is not there *)
Lemma no_gate_is_crun find codec_ok decodable handler hmeta es : forall s,
  gbase (grun find codec_ok decodable handler hmeta (fun _ _ _ => None) (fun _ _ _ => None) s es)
  = crun find codec_ok decodable handler hmeta (gbase s) es \/ gclosed s <> [].
Proof.
  induction es as [|e r IH]; intros s; cbn; [now left|].
  destruct (gclosed s) eqn:Hc; [|right; discriminate]. 
  assert (Hstep : gstep find codec_ok decodable handler hmeta (fun _ _ _ => None) (fun _ _ _ => None) s e
                  = mkGS (cstep find codec_ok decodable handler hmeta (gbase s) e) []).
  { destruct e as [c rid q|rid]; cbn; rewrite Hc; cbn; [|reflexivity].
    unfold refusal. cbn. destruct (q_hb q); reflexivity. }
  rewrite Hstep. destruct (IH (mkGS (cstep find codec_ok decodable handler hmeta (gbase s) e) [])) as [H|H]; [left; exact H|].
  cbn in H. contradiction.
Qed.
