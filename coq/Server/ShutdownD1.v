(* The request/connection invariant InvD of the graceful-shutdown model is preserved by every step (part 1). *)
From Coq Require Import List ZArith Arith Bool Lia.
From RPCX Require Import Server.Shutdown Server.ShutdownInv Server.ShutdownTac.
Import ListNotations.

Section D.
Variable info : nat -> rinfo.
Notation step := (step info).
Notation writes := (writes info).
Notation InvD := (InvD info).

Lemma D_EAccept s c : InvA s -> InvC s -> InvD s -> InvD (step s (EAccept c)).
Proof. intros HA HC HD. start HD. all: auto_f D_act D_compl D_deliv D_ans0 D_started.
Qed.

Lemma D_EServe s c : InvA s -> InvC s -> InvD s -> InvD (step s (EServe c)).
Proof. intros HA HC HD. start HD. all: auto_f D_act D_compl D_deliv D_ans0 D_started.
Qed.

Lemma D_ETop s c : InvA s -> InvC s -> InvD s -> InvD (step s (ETop c)).
Proof. intros HA HC HD. start HD. all: auto_f D_act D_compl D_deliv D_ans0 D_started.
Qed.

Lemma D_EArrive s r : InvA s -> InvC s -> InvD s -> InvD (step s (EArrive r)).
Proof. intros HA HC HD. start HD. all: auto_f D_act D_compl D_deliv D_ans0 D_started.
Qed.

Lemma D_ERead s r : InvA s -> InvC s -> InvD s -> InvD (step s (ERead r)).
Proof. intros HA HC HD. start HD. all: auto_f D_act D_compl D_deliv D_ans0 D_started.
Qed.

Lemma D_EReadErr s c : InvA s -> InvC s -> InvD s -> InvD (step s (EReadErr c)).
Proof. intros HA HC HD. start HD. all: auto_f D_act D_compl D_deliv D_ans0 D_started.
Qed.

Lemma D_EPeerClose s c : InvA s -> InvC s -> InvD s -> InvD (step s (EPeerClose c)).
Proof. intros HA HC HD. start HD. all: auto_f D_act D_compl D_deliv D_ans0 D_started.
Qed.

Lemma D_EWaitDone s c : InvA s -> InvC s -> InvD s -> InvD (step s (EWaitDone c)).
Proof. intros HA HC HD. start HD. all: auto_f D_act D_compl D_deliv D_ans0 D_started.
Qed.

Lemma D_EAcceptErr s : InvA s -> InvC s -> InvD s -> InvD (step s EAcceptErr).
Proof. intros HA HC HD. start HD. all: auto_f D_act D_compl D_deliv D_ans0 D_started.
Qed.

Lemma D_EServeRet s : InvA s -> InvC s -> InvD s -> InvD (step s EServeRet).
Proof. intros HA HC HD. start HD. all: auto_f D_act D_compl D_deliv D_ans0 D_started.
Qed.

End D.
