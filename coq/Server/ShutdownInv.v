(* Invariants of the graceful-shutdown model (Server/Shutdown.v): count exactness (InvA), control state (InvC),
   and the definition of the request/connection invariant (InvD). *)
From Coq Require Import List ZArith Arith Bool Lia.
From RPCX Require Import Server.Shutdown.
Import ListNotations.

Lemma upd_same {A} (f : nat -> A) k v : upd f k v k = v.
Proof. unfold upd. now rewrite Nat.eqb_refl. Qed.
Lemma upd_other {A} (f : nat -> A) k v x : x <> k -> upd f k v x = f x.
Proof. unfold upd. intros H. destruct (Nat.eqb_spec x k); congruence. Qed.

Lemma phase_eqb_eq a b : phase_eqb a b = true <-> a = b.
Proof. destruct a, b; simpl; split; intros H; try reflexivity; try discriminate. Qed.

Definition bz (b : bool) : Z := if b then 1%Z else 0%Z.

Definition cnt (f : nat -> phase) (l : list nat) : Z :=
  Z.of_nat (length (filter (fun r => counted (f r)) l)).

Lemma cnt_cons f r l : cnt f (r :: l) = (bz (counted (f r)) + cnt f l)%Z.
Proof. unfold cnt. simpl. destruct (counted (f r)); simpl length; unfold bz; lia. Qed.

Lemma cnt_upd_notin f r p l : ~ In r l -> cnt (upd f r p) l = cnt f l.
Proof.
  induction l as [|x l IH]; intros H; [reflexivity|].
  rewrite !cnt_cons. rewrite IH by (intros H1; apply H; now right).
  rewrite upd_other; [reflexivity|]. intros ->. apply H. now left.
Qed.

Lemma cnt_upd_in f r p l : NoDup l -> In r l ->
  cnt (upd f r p) l = (cnt f l + bz (counted p) - bz (counted (f r)))%Z.
Proof.
  induction l as [|x l IH]; intros Hnd Hin; [destruct Hin|].
  inversion Hnd as [|? ? Hx Hnd']; subst. rewrite !cnt_cons.
  destruct Hin as [->|Hin].
  - rewrite upd_same. rewrite cnt_upd_notin by assumption. lia.
  - rewrite IH by assumption. rewrite upd_other; [lia|]. intros ->. contradiction.
Qed.

Ltac brk :=
  repeat match goal with
  | |- context [match ?x with _ => _ end] => destruct x eqn:?
  end.

Ltac unf := unfold step, exit_reader, set_rd, set_ph, set_sh, set_serve, add_count, close_conn.

Ltac eqbs :=
  repeat match goal with
  | H : context [Nat.eqb ?a ?b] |- _ => destruct (Nat.eqb_spec a b); subst
  | |- context [Nat.eqb ?a ?b] => destruct (Nat.eqb_spec a b); subst
  end.

Ltac bools :=
  repeat match goal with
  | H : _ && _ = true |- _ => apply andb_true_iff in H; destruct H
  | H : _ || _ = true |- _ => apply orb_true_iff in H; destruct H
  | H : phase_eqb _ _ = true |- _ => apply phase_eqb_eq in H
  end.

Section Proofs.
Variable info : nat -> rinfo.
Notation step := (step info).
Notation run := (run info).
Notation writes := (writes info).

Definition wasread (p : phase) : Prop := p <> PNone /\ p <> PArrived.

(* ---------- A: the in-progress count is exact ---------- *)
Record InvA (s : st) : Prop := {
  A_count : count s = cnt (ph s) (readlog s);
  A_nodup : NoDup (readlog s);
  A_log : forall r, In r (readlog s) <-> wasread (ph s r) }.

Lemma InvA_init : InvA init.
Proof. split; simpl; [reflexivity|constructor|]. intros r; split; [intros []|intros [H _]; congruence]. Qed.

(* a phase change of one request that was read already *)
Lemma InvA_set_ph s s' r p :
  InvA s -> wasread (ph s r) -> wasread p ->
  ph s' = upd (ph s) r p -> readlog s' = readlog s ->
  count s' = (count s + bz (counted p) - bz (counted (ph s r)))%Z ->
  InvA s'.
Proof.
  intros [Hc Hn Hl] Hr Hp Eph Elog Ecnt. split.
  - rewrite Ecnt, Eph, Elog, Hc. rewrite cnt_upd_in; [lia|assumption|]. now apply Hl.
  - now rewrite Elog.
  - intros x. rewrite Elog, Eph. destruct (Nat.eq_dec x r) as [->|Hx].
    + rewrite upd_same. split; intros _; [assumption|now apply Hl].
    + rewrite upd_other by assumption. apply Hl.
Qed.

(* nothing relevant changes *)
Lemma InvA_same s s' :
  InvA s -> ph s' = ph s -> readlog s' = readlog s -> count s' = count s -> InvA s'.
Proof. intros [Hc Hn Hl] E1 E2 E3. split; rewrite ?E1, ?E2, ?E3; assumption. Qed.


Lemma exit_reader_fields s c :
  ph (exit_reader s c) = ph s /\ readlog (exit_reader s c) = readlog s /\ count (exit_reader s c) = count s
  /\ answered (exit_reader s c) = answered s /\ delivered (exit_reader s c) = delivered s
  /\ late (exit_reader s c) = late s /\ polled (exit_reader s c) = polled s /\ expired (exit_reader s c) = expired s
  /\ started (exit_reader s c) = started s /\ sh (exit_reader s c) = sh s /\ serve (exit_reader s c) = serve s
  /\ inShutdown (exit_reader s c) = inShutdown s /\ lnClosed (exit_reader s c) = lnClosed s
  /\ done (exit_reader s c) = done s /\ closes (exit_reader s c) = closes s /\ closeCalled (exit_reader s c) = closeCalled s.
Proof. unfold exit_reader. destruct (inShutdown s); simpl; repeat split; reflexivity. Qed.

Lemma InvA_step s e : InvA s -> InvA (step s e).
Proof.
  intros H. destruct e; unfold step.
  - (* EAccept *) brk; try assumption; eapply InvA_same; eauto.
  - (* EServe *) brk; try assumption; eapply InvA_same; eauto.
  - (* ETop *) brk; try assumption; eapply InvA_same; eauto; apply exit_reader_fields.
  - (* EArrive *) brk; try assumption.
    apply andb_true_iff in Heqb as [E _]. apply phase_eqb_eq in E.
    destruct H as [Hc Hn Hl]. split; simpl.
    + rewrite cnt_upd_notin; [assumption|]. intros Hin. apply Hl in Hin. destruct Hin; congruence.
    + assumption.
    + intros x. destruct (Nat.eq_dec x r) as [->|Hx].
      * rewrite upd_same. split; [intros Hin; apply Hl in Hin; destruct Hin; congruence|intros [_ ?]; congruence].
      * rewrite upd_other by assumption. apply Hl.
  - (* ERead *) brk; try assumption.
    apply andb_true_iff in Heqb as [E1 E]. apply phase_eqb_eq in E.
    destruct H as [Hc Hn Hl].
    assert (Hnin : ~ In r (readlog s)) by (intros Hin; apply Hl in Hin; destruct Hin; congruence).
    split; simpl.
    + rewrite cnt_cons, upd_same, cnt_upd_notin by assumption. rewrite Hc. cbv [bz counted]; lia.
    + now constructor.
    + intros x. destruct (Nat.eq_dec x r) as [->|Hx].
      * rewrite upd_same. split; [intros _; split; discriminate|intros _; now left].
      * rewrite upd_other by assumption. split.
        -- intros [->|Hin]; [congruence|now apply Hl].
        -- intros Hw. right. now apply Hl.
  - (* EReadErr *) brk; try assumption; eapply InvA_same; eauto; apply exit_reader_fields.
  - (* EPeerClose *) eapply InvA_same; eauto.
  - (* EDispatch *) brk; try assumption;
    apply andb_true_iff in Heqb as [_ E]; apply phase_eqb_eq in E.
    + eapply (InvA_set_ph s _ r PSpawned); eauto; simpl; rewrite ?E; try (split; discriminate). cbv [bz counted]; lia.
    + eapply (InvA_set_ph s _ r PSpawned); eauto; simpl; rewrite ?E; try (split; discriminate). cbv [bz counted]; lia.
    + eapply (InvA_set_ph s _ r PAnswering); eauto; simpl; rewrite ?E; try (split; discriminate). cbv [bz counted]; lia.
    + eapply (InvA_set_ph s _ r PAnswering); eauto; simpl; rewrite ?E; try (split; discriminate). cbv [bz counted]; lia.
    + pose proof (exit_reader_fields (add_count (set_ph s r PDropped) (-1)) (r_conn (info r))) as (F1 & F2 & F3 & _).
      eapply (InvA_set_ph s _ r PDropped); eauto; rewrite ?F1, ?F2, ?F3; simpl; rewrite ?E; try (split; discriminate). cbv [bz counted]; lia.
  - (* EEnter *) brk; try assumption. apply phase_eqb_eq in Heqb.
    eapply (InvA_set_ph s _ r PEntered); eauto; simpl; rewrite ?Heqb; try (split; discriminate). cbv [bz counted]; lia.
  - (* EStart *) brk; try assumption; apply phase_eqb_eq in Heqb.
    all: try (eapply (InvA_set_ph s _ r PRunning); eauto; simpl; rewrite ?Heqb; try (split; discriminate); cbv [bz counted]; lia).
    eapply (InvA_set_ph s _ r PHandled); eauto; simpl; rewrite ?Heqb; try (split; discriminate). cbv [bz counted]; lia.
  - (* EFinish *) brk; try assumption. apply phase_eqb_eq in Heqb.
    eapply (InvA_set_ph s _ r PHandled); eauto; simpl; rewrite ?Heqb; try (split; discriminate). cbv [bz counted]; lia.
  - (* EWrite *) brk; try assumption; apply orb_true_iff in Heqb as [E|E]; apply phase_eqb_eq in E;
    eapply (InvA_set_ph s _ r PWritten); eauto; simpl; rewrite ?E; try (split; discriminate); cbv [bz counted]; lia.
  - (* EExit *) brk; try assumption; apply phase_eqb_eq in Heqb.
    all: try (eapply (InvA_set_ph s _ r PExited); eauto; simpl; rewrite ?Heqb; try (split; discriminate); cbv [bz counted]; lia).
    pose proof (exit_reader_fields (add_count (set_ph s r PExited) (-1)) (r_conn (info r))) as (F1 & F2 & F3 & _).
    eapply (InvA_set_ph s _ r PExited); eauto; rewrite ?F1, ?F2, ?F3; simpl; rewrite ?Heqb; try (split; discriminate). cbv [bz counted]; lia.
  - (* EWaitDone *) brk; try assumption; eapply InvA_same; eauto.
  - (* EShutBegin *) brk; try assumption; eapply InvA_same; eauto.
  - (* EPoll *) brk; try assumption; eapply InvA_same; eauto.
  - (* EDeadline *) brk; try assumption; eapply InvA_same; eauto.
  - (* ECloseConns *) brk; try assumption; eapply InvA_same; eauto.
  - (* EClose *) eapply InvA_same; eauto.
  - (* EAcceptErr *) brk; try assumption; eapply InvA_same; eauto.
  - (* EServeRet *) brk; try assumption; eapply InvA_same; eauto.
Qed.


(* ---------- C: control state (shutdown callers, listener, done channel) ---------- *)
Definition winner (x : shphase) : Prop :=
  match x with SWaiting | SClosing _ | SDone _ => True | _ => False end.
Definition completed (s : st) : Prop := exists k e, sh s k = SDone e.

Record InvC (s : st) : Prop := {
  C_win_in : forall k, winner (sh s k) -> inShutdown s = true;
  C_win_uniq : forall k1 k2, winner (sh s k1) -> winner (sh s k2) -> k1 = k2;
  C_win_polled : forall k e, sh s k = SClosing e \/ sh s k = SDone e -> polled s = true /\ expired s = e;
  C_wait : forall k, sh s k = SWaiting -> polled s = false /\ expired s = false;
  C_pre : inShutdown s = false -> polled s = false /\ expired s = false;
  C_ln : inShutdown s = true -> lnClosed s = true;
  C_lnc : lnClosed s = true -> inShutdown s = true \/ closeCalled s = true;
  C_closes : closes s = if done s then 1 else 0;
  C_done : done s = true -> polled s = true \/ closeCalled s = true;
  C_compl_done : forall k e, sh s k = SDone e -> done s = true;
  C_serve_t : serve s = LReturned true -> done s = true /\ inShutdown s = true;
  C_serve_w : serve s = LWaitDone -> inShutdown s = true;
  C_serve_f : serve s = LReturned false -> closeCalled s = true;
  C_late : forall r, late s r = true -> polled s = true }.

Lemma InvC_init : InvC init.
Proof.
  split; simpl; try tauto; try congruence; try (intros; discriminate).
  all: intros k e [H|H]; discriminate.
Qed.

(* events that leave every control field unchanged *)
Lemma InvC_same s s' :
  InvC s -> inShutdown s' = inShutdown s -> sh s' = sh s -> polled s' = polled s -> expired s' = expired s ->
  lnClosed s' = lnClosed s -> closeCalled s' = closeCalled s -> closes s' = closes s -> done s' = done s ->
  serve s' = serve s -> late s' = late s -> InvC s'.
Proof.
  intros [] E1 E2 E3 E4 E5 E6 E7 E8 E9 E10.
  split; rewrite ?E1, ?E2, ?E3, ?E4, ?E5, ?E6, ?E7, ?E8, ?E9, ?E10; assumption.
Qed.

Ltac same_by_exit :=
  match goal with
  | |- context [exit_reader ?s ?c] =>
      pose proof (exit_reader_fields s c) as (? & ? & ? & ? & ? & ? & ? & ? & ? & ? & ? & ? & ? & ? & ? & ?)
  end.

Ltac csame := eapply InvC_same; [eassumption| try same_by_exit; simpl; congruence ..].

Ltac crush_c :=
  intros; unfold upd in *;
  repeat match goal with
  | H : context [Nat.eqb ?a ?b] |- _ => destruct (Nat.eqb_spec a b); subst
  | |- context [Nat.eqb ?a ?b] => destruct (Nat.eqb_spec a b); subst
  end;
  cbn [winner] in *; try contradiction;
  try discriminate; try tauto; try congruence;
  repeat match goal with H : _ \/ _ |- _ => destruct H end;
  try discriminate; try congruence; eauto.

(* [Hu : forall k0, winner (sh s k0) -> k0 = k] : any other winner is k *)
Ltac uniq_c Hu :=
  intros; unfold upd in *;
  repeat match goal with
  | H : context [Nat.eqb ?a ?b] |- _ => destruct (Nat.eqb_spec a b); subst
  | |- context [Nat.eqb ?a ?b] => destruct (Nat.eqb_spec a b); subst
  end;
  repeat match goal with H : _ \/ _ |- _ => destruct H end;
  cbn [winner] in *; try contradiction;
  try discriminate; try congruence;
  try match goal with H : SClosing _ = SClosing _ |- _ => inversion H; subst end;
  try match goal with H : SDone _ = SDone _ |- _ => inversion H; subst end;
  try (split; congruence); try tauto;
  try (exfalso;
       match goal with
       | Hn : ?k0 <> _, H : sh _ ?k0 = _ |- _ => apply Hn; apply Hu; rewrite H; exact I
       | Hn : ?k0 <> _, H : winner (sh _ ?k0) |- _ => apply Hn; apply Hu; exact H
       end);
  try (match goal with
       | H1 : winner (sh _ ?a), H2 : winner (sh _ ?b) |- ?a = ?b => rewrite (Hu a H1), (Hu b H2); reflexivity
       | H1 : winner (sh _ ?a) |- ?a = _ => apply Hu; exact H1
       | H1 : winner (sh _ ?a) |- _ = ?a => symmetry; apply Hu; exact H1
       end); eauto.

Lemma InvC_step s e : InvC s -> InvC (step s e).
Proof.
  intros H. destruct e; unfold step.
  - brk; try assumption; csame.
  - brk; try assumption; csame.
  - brk; try assumption; csame.
  - brk; try assumption; csame.
  - (* ERead: late r := polled *) brk; try assumption.
    destruct H. split; simpl; try assumption.
    intros x. unfold upd. destruct (Nat.eqb x r); [tauto|apply C_late0].
  - brk; try assumption; csame.
  - csame.
  - brk; try assumption; try csame.
    same_by_exit. eapply InvC_same; [exact H|simpl in *; congruence ..].
  - brk; try assumption; csame.
  - brk; try assumption; csame.
  - brk; try assumption; csame.
  - brk; try assumption; csame.
  - brk; try assumption; try csame.
    same_by_exit. eapply InvC_same; [exact H|simpl in *; congruence ..].
  - brk; try assumption; csame.
  - (* EShutBegin *) brk; try assumption.
    + (* lost *) destruct H. split; simpl; try assumption; try solve [crush_c].
    + (* winner *) destruct H.
      assert (Hnw : forall k0, ~ winner (sh s k0)) by (intros k0 Hw; apply C_win_in0 in Hw; congruence).
      destruct (C_pre0 Heqb) as [Hp He].
      split; simpl; try tauto; try assumption; try solve [crush_c].
      all: try solve [intros; unfold upd in *; repeat match goal with
             | H : context [Nat.eqb ?a ?b] |- _ => destruct (Nat.eqb_spec a b); subst end;
             try discriminate; try congruence; exfalso;
             match goal with H : sh _ ?k0 = _ |- _ => apply (Hnw k0); rewrite H; exact I
                           | H : sh _ ?k0 = _ \/ _ |- _ => apply (Hnw k0); destruct H as [H|H]; rewrite H; exact I
                           | H : winner (sh _ ?k0) |- _ => apply (Hnw k0); exact H end].
  - (* EPoll *) brk; try assumption. destruct H.
    assert (Hw : winner (sh s k)) by (rewrite Heqs0; exact I).
    destruct (C_wait0 _ Heqs0) as [Hp He].
    assert (Hu : forall k0, winner (sh s k0) -> k0 = k) by (intros k0 H0; now apply C_win_uniq0).
    pose proof (C_win_in0 _ Hw) as Hin.
    split; simpl; try tauto; try assumption; try solve [crush_c]; try solve [uniq_c Hu].
  - (* EDeadline *) brk; try assumption. destruct H.
    assert (Hw : winner (sh s k)) by (rewrite Heqs0; exact I).
    destruct (C_wait0 _ Heqs0) as [Hp He].
    assert (Hu : forall k0, winner (sh s k0) -> k0 = k) by (intros k0 H0; now apply C_win_uniq0).
    pose proof (C_win_in0 _ Hw) as Hin.
    split; simpl; try tauto; try assumption; try solve [crush_c]; try solve [uniq_c Hu].
  - (* ECloseConns *) brk; try assumption. destruct H.
    assert (Hw : winner (sh s k)) by (rewrite Heqs0; exact I).
    destruct (C_win_polled0 k _ (or_introl Heqs0)) as [Hp He].
    assert (Hu : forall k0, winner (sh s k0) -> k0 = k) by (intros k0 H0; now apply C_win_uniq0).
    pose proof (C_win_in0 _ Hw) as Hin.
    unfold close_done. split; simpl; try tauto; try assumption; try solve [crush_c]; try solve [uniq_c Hu].
    all: try solve [destruct (done s) eqn:Ed; simpl; first [assumption|reflexivity|tauto|intros; reflexivity]].
    rewrite C_closes0. destruct (done s); reflexivity.
  - (* EClose *) destruct H. unfold close_done. split; simpl; try tauto; try assumption; try solve [crush_c].
    all: try solve [rewrite C_closes0; destruct (done s); reflexivity].
    all: try solve [destruct (done s); simpl; intros; first [reflexivity | tauto]].
    all: try solve [intros H1; destruct (C_serve_t0 H1); split; [destruct (done s); reflexivity|assumption]].
  - (* EAcceptErr *) brk; try assumption.
    + destruct H. split; simpl; try assumption; try (intros; discriminate). intros _; assumption.
    + destruct H. split; simpl; try assumption; try (intros; discriminate).
      intros _. destruct (C_lnc0 Heqb); [congruence|assumption].
  - (* EServeRet *) brk; try assumption.
    destruct H. split; simpl; try assumption; try (intros; discriminate).
    intros _. split; [assumption|now apply C_serve_w0].
Qed.


(* ---------- D: requests and connections ---------- *)
Definition reader_live (x : rstate) : Prop :=
  match x with RTop | RReading | RHolding _ | RWaitDone => True | _ => False end.
(* the connection was closed for a reason other than the graceful shutdown *)
Definition closed_early (s : st) (c : nat) : Prop :=
  exists who, cst s c = CClosed who /\
    (who = ByPeer \/ who = ByReaderExit \/ who = ByServeStart \/ closeCalled s = true).


Record InvD (s : st) : Prop := {
  D_ans : forall r, ph s r = PWritten \/ ph s r = PExited -> writes r = true -> answered s r = true;
  D_ans0 : forall r, answered s r = true -> ph s r = PWritten \/ ph s r = PExited;
  D_ok : polled s = true -> expired s = false ->
         forall r, In r (readlog s) -> late s r = false -> counted (ph s r) = false;
  D_byshut : forall c, cst s c = CClosed ByShutdown -> polled s = true;
  D_bydone : forall c, cst s c = CClosed ByReaderDone -> done s = true;
  D_byclose : forall c, cst s c = CClosed ByClose -> closeCalled s = true;
  D_deliv : forall r, answered s r = true -> delivered s r = false -> late s r = false -> expired s = false ->
            closed_early s (r_conn (info r));
  D_act : forall c, reader_live (rd s c) -> is_open (cst s c) = true -> active s c = true;
  D_gone : forall c, rd s c = RGone -> is_open (cst s c) = false;
  D_compl : completed s -> forall c, is_open (cst s c) = true -> rd s c = RNone \/ rd s c = RAccepted;
  D_started : forall r, In r (started s) -> wasread (ph s r) }.

Lemma InvD_init : InvD init.
Proof.
  split; simpl; try (intros; discriminate); try tauto.
  all: try (intros r [H|H]; discriminate).
  all: try (intros [k [e H]]; discriminate).
Qed.

Ltac dcrush :=
  intros; bools; unfold upd, wasread, completed, closed_early in *; eqbs; cbn [reader_live is_open counted] in *;
  try contradiction; try discriminate; try tauto; try congruence; eauto.

Ltac dcrush2 :=
  unfold wasread, completed, closed_early in *; simpl; intros; bools; unfold upd in *; eqbs;
  cbn [reader_live is_open counted] in *;
  repeat match goal with H : _ /\ _ |- _ => destruct H end;
  try contradiction; try discriminate; try tauto; try congruence;
  try (split; congruence); eauto;
  try (match goal with H : _ \/ _ |- _ => destruct H end; try discriminate; try congruence; try tauto; eauto).

End Proofs.
