(* Proofs about the header-level model of the HTTP front ends (Server/Gateway.v):
   decimal and query-string round trips, what counts as malformed, the JSON-RPC method split. *)
From Coq Require Import List NArith ZArith Bool Lia Arith.
From RPCX Require Import Wire.Bytes Server.Gateway.
Import ListNotations.
Open Scope N_scope.

(* ---------- finite sweeps over bytes ---------- *)
Definition range (n : nat) : list N := map N.of_nat (seq 0 n).
Lemma in_range : forall n v, v < N.of_nat n -> In v (range n).
Proof.
  intros n v H. unfold range. apply in_map_iff. exists (N.to_nat v). split; [lia|].
  apply in_seq. lia.
Qed.
Lemma sweep : forall (P : N -> bool) n, forallb P (range n) = true -> forall v, v < N.of_nat n -> P v = true.
Proof. intros P n H v Hv. rewrite forallb_forall in H. apply H, in_range, Hv. Qed.

(* ---------- strconv ---------- *)
Lemma digits_val_app : forall x y a,
  digits_val a (x ++ y) = match digits_val a x with Some a' => digits_val a' y | None => None end.
Proof.
  induction x as [|c x IH]; intros y a; cbn [app digits_val]; [reflexivity|].
  destruct (is_digit c); [apply IH | reflexivity].
Qed.

Lemma to_dec_fuel_app : forall f v acc, to_dec_fuel f v acc = to_dec_fuel f v [] ++ acc.
Proof.
  induction f as [|f IH]; intros v acc; cbn [to_dec_fuel]; [reflexivity|].
  destruct (v <? 10); [reflexivity|].
  rewrite IH. rewrite (IH (v / 10) [dec_digit (v mod 10)]). rewrite <- app_assoc. reflexivity.
Qed.

Lemma digit_val_one : forall a d, d < 10 -> digits_val a [dec_digit d] = Some (a * 10 + d).
Proof.
  intros a d H. cbn [digits_val]. unfold is_digit, dec_digit.
  replace (48 <=? 48 + d) with true by (symmetry; apply N.leb_le; lia).
  replace (48 + d <=? 57) with true by (symmetry; apply N.leb_le; lia).
  cbn [andb]. f_equal. lia.
Qed.

Lemma digits_to_dec : forall f v, v < 10 ^ N.of_nat f -> (0 < f)%nat -> digits_val 0 (to_dec_fuel f v []) = Some v.
Proof.
  induction f as [|f IH]; intros v Hv Hf; [lia|].
  cbn [to_dec_fuel]. destruct (N.ltb_spec v 10) as [Hlt|Hge].
  - rewrite digit_val_one by exact Hlt. f_equal; lia.
  - rewrite to_dec_fuel_app, digits_val_app.
    assert (Hpow : 10 ^ N.of_nat (S f) = 10 * 10 ^ N.of_nat f).
    { rewrite Nat2N.inj_succ, N.pow_succ_r'. reflexivity. }
    assert (Hf' : (0 < f)%nat).
    { destruct f; [|lia]. rewrite Hpow in Hv. cbn in Hv. lia. }
    rewrite IH; [| |exact Hf'].
    + rewrite digit_val_one by (apply N.mod_lt; lia). f_equal.
      pose proof (N.div_mod v 10 ltac:(lia)). lia.
    + apply N.div_lt_upper_bound; [lia|]. rewrite Hpow in Hv. exact Hv.
Qed.

Lemma to_dec_fuel_nonempty : forall f v, to_dec_fuel (S f) v [] <> [].
Proof.
  intros f v. cbn [to_dec_fuel]. destruct (v <? 10); [discriminate|].
  rewrite to_dec_fuel_app. intro H. apply app_eq_nil in H. destruct H as [_ H]. discriminate.
Qed.

Lemma to_dec_nonempty : forall v, to_dec v <> [].
Proof. intro v. unfold to_dec. apply to_dec_fuel_nonempty. Qed.

Lemma match_nonempty : forall (A : Type) (s : bytes) (x : A) (f : bytes -> A),
  s <> [] -> match s with [] => x | c :: r => f (c :: r) end = f s.
Proof. intros A s x f H. destruct s; [contradiction|reflexivity]. Qed.

Theorem parse_uint64_to_dec : forall v, v < 18446744073709551616 -> parse_uint64 (to_dec v) = Some v.
Proof.
  intros v Hv. unfold parse_uint64.
  assert (Hd : digits_val 0 (to_dec v) = Some v).
  { unfold to_dec. apply digits_to_dec; [|lia].
    change (10 ^ N.of_nat 21) with 1000000000000000000000. lia. }
  destruct (to_dec v) as [|c r] eqn:E; [exfalso; apply (to_dec_nonempty v); exact E|].
  rewrite Hd. destruct (N.ltb_spec v 18446744073709551616); [reflexivity|lia].
Qed.

(* a message id that parses is a non-empty string of decimal digits *)
Lemma digits_val_all_digits : forall s a v, digits_val a s = Some v -> forallb is_digit s = true.
Proof.
  induction s as [|c s IH]; intros a v H; [reflexivity|].
  cbn [digits_val] in H. cbn [forallb]. destruct (is_digit c); [|discriminate].
  cbn [andb]. eapply IH; exact H.
Qed.
Theorem parse_uint64_only_digits : forall s v,
  parse_uint64 s = Some v -> s <> [] /\ forallb is_digit s = true /\ v < 18446744073709551616.
Proof.
  intros s v H. unfold parse_uint64 in H. destruct s as [|c r]; [discriminate|].
  destruct (digits_val 0 (c :: r)) as [w|] eqn:E; [|discriminate].
  destruct (N.ltb_spec w 18446744073709551616); [|discriminate].
  injection H as <-. repeat split; [discriminate | eapply digits_val_all_digits; exact E | assumption].
Qed.

Lemma atoi_to_dec_small : forall v, v < 16 -> atoi (to_dec v) = Some (Z.of_N v).
Proof.
  intros v Hv.
  pose proof (sweep (fun v => match atoi (to_dec v) with Some z => Z.eqb z (Z.of_N v) | None => false end) 16
                    ltac:(vm_compute; reflexivity) v Hv) as H.
  cbv beta in H. destruct (atoi (to_dec v)) as [z|]; [|discriminate].
  apply Z.eqb_eq in H. subst z. reflexivity.
Qed.

Lemma ser_of_small : forall v, v < 16 -> ser_of (Z.of_N v) = v.
Proof. intros v H. unfold ser_of. rewrite Z.mod_small by lia. apply N2Z.id. Qed.
Lemma comp_of_small : forall v, v < 8 -> comp_of (Z.of_N v) = v.
Proof. intros v H. unfold comp_of. rewrite Z.mod_small by lia. apply N2Z.id. Qed.

(* ---------- net/url ---------- *)
Definition byte_hex_ok (c : N) : bool :=
  match hexval (hexdigit (c / 16)), hexval (hexdigit (c mod 16)) with
  | Some a, Some b => 16 * a + b =? c
  | _, _ => false
  end.

Lemma unescape_escape_byte : forall c rest u, c < 256 ->
  unescape rest = Some u -> unescape (escape_byte c ++ rest) = Some (c :: u).
Proof.
  intros c rest u Hc Hu. unfold escape_byte.
  destruct (unreserved c) eqn:U.
  - pose proof (sweep (fun c => negb (unreserved c) || (negb (c =? 37) && negb (c =? 43))) 256
                      ltac:(vm_compute; reflexivity) c Hc) as H.
    cbv beta in H. rewrite U in H. cbn [negb orb] in H. apply andb_true_iff in H. destruct H as [H1 H2].
    apply negb_true_iff in H1. apply negb_true_iff in H2.
    cbn [app unescape]. rewrite H1, Hu, H2. reflexivity.
  - destruct (N.eqb_spec c 32) as [->|Hne].
    + cbn [app unescape]. change (43 =? 37) with false. cbv iota. rewrite Hu. reflexivity.
    + pose proof (sweep byte_hex_ok 256 ltac:(vm_compute; reflexivity) c Hc) as H.
      unfold byte_hex_ok in H.
      destruct (hexval (hexdigit (c / 16))) as [a|] eqn:Ha; [|discriminate].
      destruct (hexval (hexdigit (c mod 16))) as [b|] eqn:Hb; [|discriminate].
      apply N.eqb_eq in H.
      cbn [app unescape]. change (37 =? 37) with true. cbv iota. rewrite Ha, Hb, Hu, H. reflexivity.
Qed.

Theorem unescape_escape : forall s, wf_bytes s -> unescape (escape s) = Some s.
Proof.
  induction s as [|c s IH]; intros Hwf; [reflexivity|].
  inversion Hwf as [|? ? Hc Hs]; subst. unfold escape. cbn [flat_map]. fold (escape s).
  apply unescape_escape_byte; [exact Hc | apply IH; exact Hs].
Qed.

(* an escaped string contains none of the separators '&', '=', ';' *)
Lemma escape_no_sep : forall s x, wf_bytes s -> (x = 38 \/ x = 61 \/ x = 59) -> has_byte x (escape s) = false.
Proof.
  induction s as [|c s IH]; intros x Hwf Hx; [reflexivity|].
  inversion Hwf as [|? ? Hc Hs]; subst. unfold escape. cbn [flat_map]. fold (escape s).
  unfold has_byte. rewrite existsb_app. fold (has_byte x (escape s)). rewrite (IH x Hs Hx), orb_false_r.
  pose proof (sweep (fun c => negb (existsb (N.eqb 38) (escape_byte c)) && negb (existsb (N.eqb 61) (escape_byte c))
                              && negb (existsb (N.eqb 59) (escape_byte c))) 256 ltac:(vm_compute; reflexivity) c Hc) as H.
  cbv beta in H. apply andb_true_iff in H. destruct H as [H H3]. apply andb_true_iff in H. destruct H as [H1 H2].
  apply negb_true_iff in H1. apply negb_true_iff in H2. apply negb_true_iff in H3.
  destruct Hx as [->|[->| ->]]; assumption.
Qed.

Lemma has_byte_app : forall x a b, has_byte x (a ++ b) = has_byte x a || has_byte x b.
Proof. intros. unfold has_byte. apply existsb_app. Qed.

Lemma split_nonempty : forall sep s, split sep s <> [].
Proof.
  intros sep s. destruct s as [|c r]; cbn [split]; [discriminate|].
  destruct (c =? sep); [discriminate|]. destruct (split sep r); discriminate.
Qed.

Lemma split_nosep : forall sep a, has_byte sep a = false -> split sep a = [a].
Proof.
  induction a as [|c a IH]; intros H; [reflexivity|].
  unfold has_byte in H. cbn [existsb] in H. apply orb_false_iff in H. destruct H as [H1 H2].
  cbn [split]. rewrite N.eqb_sym, H1. rewrite (IH H2). reflexivity.
Qed.

Lemma split_app_sep : forall sep a b, has_byte sep a = false -> split sep (a ++ sep :: b) = a :: split sep b.
Proof.
  induction a as [|c a IH]; intros b H.
  - cbn [app split]. rewrite N.eqb_refl. reflexivity.
  - unfold has_byte in H. cbn [existsb] in H. apply orb_false_iff in H. destruct H as [H1 H2].
    cbn [app split]. rewrite N.eqb_sym, H1. rewrite (IH b H2). reflexivity.
Qed.

Lemma cut_app_sep : forall sep a b, has_byte sep a = false -> cut sep (a ++ sep :: b) = (a, b).
Proof.
  induction a as [|c a IH]; intros b H.
  - cbn [app cut]. rewrite N.eqb_refl. reflexivity.
  - unfold has_byte in H. cbn [existsb] in H. apply orb_false_iff in H. destruct H as [H1 H2].
    cbn [app cut]. rewrite N.eqb_sym, H1. rewrite (IH b H2). reflexivity.
Qed.

Definition wf_kv (kv : bytes * bytes) : Prop := wf_bytes (fst kv) /\ wf_bytes (snd kv).
Definition piece (kv : bytes * bytes) : bytes := escape (fst kv) ++ [61] ++ escape (snd kv).

Lemma piece_no : forall kv x, wf_kv kv -> (x = 38 \/ x = 59) -> has_byte x (piece kv) = false.
Proof.
  intros [k v] x [Hk Hv] Hx. unfold piece. cbn [fst snd] in *.
  rewrite !has_byte_app, (escape_no_sep k x Hk), (escape_no_sep v x Hv) by tauto.
  unfold has_byte. cbn [existsb]. destruct Hx as [->| ->]; reflexivity.
Qed.

Lemma parse_pieces_piece : forall kv rest, wf_kv kv ->
  parse_pieces (piece kv :: rest) = let '(kvs, err) := parse_pieces rest in (kv :: kvs, err).
Proof.
  intros [k v] rest Hwf. pose proof Hwf as [Hk Hv]. cbn [fst snd] in Hk, Hv.
  cbn [parse_pieces]. destruct (parse_pieces rest) as [kvs err].
  rewrite (piece_no (k, v) 59 Hwf) by tauto.
  unfold piece. cbn [fst snd].
  destruct (escape k ++ [61] ++ escape v) as [|c0 r0] eqn:E.
  { apply app_eq_nil in E. destruct E as [_ E]. discriminate. }
  rewrite <- E. cbn [app]. rewrite cut_app_sep by (apply escape_no_sep; tauto).
  rewrite (unescape_escape k Hk), (unescape_escape v Hv). reflexivity.
Qed.

Theorem parse_query_encode : forall kvs, Forall wf_kv kvs -> parse_query (encode_query kvs) = (kvs, false).
Proof.
  unfold parse_query.
  induction kvs as [|kv kvs IH]; intros Hwf; [reflexivity|].
  inversion Hwf as [|? ? Hkv Hrest]; subst.
  destruct kvs as [|kv2 kvs2].
  - destruct kv as [k v]. cbn [encode_query]. change (escape k ++ [61] ++ escape v) with (piece (k, v)).
    rewrite split_nosep by (apply piece_no; [exact Hkv|tauto]).
    rewrite parse_pieces_piece by exact Hkv. reflexivity.
  - destruct kv as [k v].
    change (encode_query ((k, v) :: kv2 :: kvs2))
      with (escape k ++ [61] ++ escape v ++ [38] ++ encode_query (kv2 :: kvs2)).
    replace (escape k ++ [61] ++ escape v ++ [38] ++ encode_query (kv2 :: kvs2))
      with (piece (k, v) ++ 38 :: encode_query (kv2 :: kvs2))
      by (unfold piece; cbn [fst snd]; rewrite <- !app_assoc; reflexivity).
    rewrite split_app_sep by (apply piece_no; [exact Hkv|tauto]).
    rewrite parse_pieces_piece by exact Hkv. rewrite (IH Hrest). reflexivity.
Qed.

(* ---------- maps ---------- *)
Lemma beq_eq : forall a b, beq a b = true <-> a = b.
Proof.
  induction a as [|x a IH]; destruct b as [|y b]; cbn [beq]; split; intro H; try reflexivity; try discriminate.
  - apply andb_true_iff in H. destruct H as [H1 H2]. apply N.eqb_eq in H1. apply IH in H2. subst. reflexivity.
  - injection H as -> ->. rewrite N.eqb_refl. apply IH. reflexivity.
Qed.

Lemma existsb_beq_in : forall k seen, existsb (beq k) seen = true <-> In k seen.
Proof.
  intros k seen. rewrite existsb_exists. split.
  - intros [x [Hin Hx]]. apply beq_eq in Hx. subst. exact Hin.
  - intro H. exists k. split; [exact H | apply beq_eq; reflexivity].
Qed.

Lemma first_vals_nodup : forall kvs seen,
  NoDup (map fst kvs) -> (forall k, In k (map fst kvs) -> ~ In k seen) -> first_vals seen kvs = kvs.
Proof.
  induction kvs as [|[k v] kvs IH]; intros seen Hnd Hseen; [reflexivity|].
  cbn [first_vals]. cbn [map fst] in Hnd, Hseen. inversion Hnd as [|? ? Hnotin Hnd']; subst.
  destruct (existsb (beq k) seen) eqn:E.
  - apply existsb_beq_in in E. exfalso. apply (Hseen k); [left; reflexivity | exact E].
  - f_equal. apply IH; [exact Hnd'|].
    intros k' Hin [->|Hin']; [contradiction | apply (Hseen k'); [right; exact Hin | exact Hin']].
Qed.

(* ---------- the gateway: a well-formed request arrives as it was sent ---------- *)
Definition wf_greq (q : greq) : Prop :=
  g_seq q < 18446744073709551616 /\ g_ser q < 16 /\ g_comp q < 8 /\
  NoDup (map fst (g_meta q)) /\ Forall wf_kv (g_meta q).

Lemma hdr_uint_to_dec : forall v, v < 18446744073709551616 -> hdr_uint (to_dec v) = Some v.
Proof.
  intros v H. unfold hdr_uint. destruct (to_dec v) eqn:E; [exfalso; apply (to_dec_nonempty v); exact E|].
  rewrite <- E. apply parse_uint64_to_dec, H.
Qed.
Lemma hdr_int_to_dec : forall v, v < 16 -> hdr_int (to_dec v) = Some (Z.of_N v).
Proof.
  intros v H. unfold hdr_int. destruct (to_dec v) eqn:E; [exfalso; apply (to_dec_nonempty v); exact E|].
  rewrite <- E. apply atoi_to_dec_small, H.
Qed.
Lemma hdr_meta_encode : forall m, NoDup (map fst m) -> Forall wf_kv m -> hdr_meta (encode_query m) = Some m.
Proof.
  intros m Hnd Hwf. unfold hdr_meta. pose proof (parse_query_encode m Hwf) as Hp.
  destruct (encode_query m) as [|c r] eqn:E.
  - change (parse_query []) with (@nil (bytes * bytes), false) in Hp. injection Hp as <-. reflexivity.
  - rewrite Hp. rewrite first_vals_nodup; [reflexivity | exact Hnd | intros k _ []].
Qed.

Theorem http_round_trip : forall q body, wf_greq q ->
  http_to_req (to_http q) body =
  Some (mkGReq (g_seq q) (g_hb q) (g_oneway q) (g_ser q) (g_comp q) (g_meta q) (g_path q) (g_meth q) body).
Proof.
  intros q body (Hseq & Hser & Hcomp & Hnd & Hwf).
  unfold http_to_req, to_http. cbn [h_id h_hb h_oneway h_ser h_comp h_meta h_auth h_path h_meth].
  rewrite hdr_uint_to_dec by exact Hseq.
  rewrite hdr_int_to_dec by exact Hser. rewrite ser_of_small by exact Hser.
  assert (Hc : hdr_int (if g_comp q =? 0 then [] else to_dec (g_comp q)) = Some (Z.of_N (g_comp q))).
  { destruct (N.eqb_spec (g_comp q) 0) as [->|Hne]; [reflexivity|]. apply hdr_int_to_dec. lia. }
  rewrite Hc. rewrite comp_of_small by exact Hcomp.
  rewrite hdr_meta_encode by assumption. cbn [nonempty]. destruct (g_hb q), (g_oneway q); reflexivity.
Qed.

Theorem gateway_round_trip : forall q url body, wf_greq q -> g_path q <> [] -> g_meth q <> [] ->
  gateway_front (to_http q) url body =
  Some (mkGReq (g_seq q) (g_hb q) (g_oneway q) (g_ser q) (g_comp q) (g_meta q) (g_path q) (g_meth q) body).
Proof.
  intros q url body Hwf Hp Hm. unfold gateway_front.
  assert (Hpath : match h_path (to_http q) with [] => trim_slash url | c :: r => c :: r end = g_path q).
  { cbn [to_http h_path]. destruct (g_path q); [contradiction|reflexivity]. }
  rewrite Hpath.
  assert (Hh : mkGHdr (h_id (to_http q)) (h_hb (to_http q)) (h_oneway (to_http q)) (h_ser (to_http q)) (h_comp (to_http q))
                      (h_meta (to_http q)) (h_auth (to_http q)) (g_path q) (h_meth (to_http q)) = to_http q) by reflexivity.
  rewrite Hh, (http_round_trip q body Hwf).
  cbn [to_http h_meth h_ser].
  destruct (g_path q); [contradiction|]. destruct (g_meth q); [contradiction|].
  destruct (to_dec (g_ser q)) eqn:E; [exfalso; apply (to_dec_nonempty (g_ser q)); exact E|]. reflexivity.
Qed.

(* ---------- the gateway: what is rejected as malformed ---------- *)
Theorem gateway_rejects_missing_method : forall h url body, h_meth h = [] -> gateway_front h url body = None.
Proof.
  intros h url body H. unfold gateway_front. rewrite H.
  destruct (http_to_req _ body); [|reflexivity]. cbn [nonempty]. rewrite andb_false_r. reflexivity.
Qed.
Theorem gateway_rejects_missing_serialize_type : forall h url body, h_ser h = [] -> gateway_front h url body = None.
Proof.
  intros h url body H. unfold gateway_front. rewrite H.
  destruct (http_to_req _ body); [|reflexivity]. cbn [nonempty]. rewrite andb_false_r. reflexivity.
Qed.
Theorem gateway_rejects_missing_path : forall h url body,
  h_path h = [] -> trim_slash url = [] -> gateway_front h url body = None.
Proof.
  intros h url body H1 H2. unfold gateway_front. rewrite H1, H2.
  destruct (http_to_req _ body); reflexivity.
Qed.
Theorem gateway_rejects_bad_id : forall h url body,
  h_id h <> [] -> parse_uint64 (h_id h) = None -> gateway_front h url body = None.
Proof.
  intros h url body Hne H. unfold gateway_front, http_to_req. cbn [h_id].
  unfold hdr_uint. destruct (h_id h) as [|c r]; [contradiction|]. rewrite H. reflexivity.
Qed.
Theorem gateway_rejects_bad_serialize_type : forall h url body,
  h_ser h <> [] -> atoi (h_ser h) = None -> gateway_front h url body = None.
Proof.
  intros h url body Hne H. unfold gateway_front, http_to_req. cbn [h_id h_ser].
  destruct (hdr_uint (h_id h)); [|reflexivity].
  unfold hdr_int at 1. destruct (h_ser h) as [|c r]; [contradiction|]. rewrite H. reflexivity.
Qed.
Theorem gateway_rejects_bad_metadata : forall h url body,
  h_meta h <> [] -> snd (parse_query (h_meta h)) = true -> gateway_front h url body = None.
Proof.
  intros h url body Hne H. unfold gateway_front, http_to_req. cbn [h_id h_ser h_comp h_meta].
  destruct (hdr_uint (h_id h)); [|reflexivity].
  destruct (hdr_int (h_ser h)); [|reflexivity].
  destruct (hdr_int (h_comp h)); [|reflexivity].
  unfold hdr_meta. destruct (h_meta h) as [|c r]; [contradiction|].
  destruct (parse_query (c :: r)) as [kvs err]. cbn [snd] in H. rewrite H. reflexivity.
Qed.

(* whatever is forwarded carries the path, the method and the body that were sent, and its serialize type was given *)
Theorem gateway_forwards_what_was_sent : forall h url body q,
  gateway_front h url body = Some q ->
  g_path q = (match h_path h with [] => trim_slash url | p => p end) /\ g_path q <> [] /\
  g_meth q = h_meth h /\ g_meth q <> [] /\ h_ser h <> [] /\ g_payload q = body.
Proof.
  intros h url body q H. unfold gateway_front in H.
  set (path := match h_path h with [] => trim_slash url | c :: r => c :: r end) in *.
  destruct (http_to_req _ body) as [q'|] eqn:E; [|discriminate].
  destruct (nonempty path && nonempty (h_meth h) && nonempty (h_ser h)) eqn:N; [|discriminate].
  injection H as <-.
  apply andb_true_iff in N. destruct N as [N N3]. apply andb_true_iff in N. destruct N as [N1 N2].
  unfold http_to_req in E. cbn [h_id h_hb h_oneway h_ser h_comp h_meta h_auth h_path h_meth] in E.
  destruct (hdr_uint (h_id h)); [|discriminate].
  destruct (hdr_int (h_ser h)); [|discriminate].
  destruct (hdr_int (h_comp h)); [|discriminate].
  destruct (hdr_meta (h_meta h)); [|discriminate].
  injection E as <-. cbn [g_path g_meth g_payload].
  repeat split; try reflexivity.
  - destruct path; [discriminate|discriminate].
  - destruct (h_meth h); [discriminate|discriminate].
  - destruct (h_ser h); [discriminate|discriminate].
Qed.

(* ---------- JSON-RPC: the method name is split at its LAST dot ---------- *)
Lemma last_dot_none : forall s, last_dot s = None <-> has_byte 46 s = false.
Proof.
  induction s as [|c s IH]; [split; reflexivity|].
  cbn [last_dot]. unfold has_byte. cbn [existsb]. fold (has_byte 46 s).
  destruct (last_dot s) as [i|].
  - split; [discriminate|]. intro H. apply orb_false_iff in H. destruct H as [_ H].
    apply IH in H. discriminate.
  - destruct IH as [IH _]. rewrite (IH eq_refl), orb_false_r. rewrite (N.eqb_sym 46 c).
    destruct (c =? 46); split; intro; try reflexivity; discriminate.
Qed.

Lemma last_dot_app : forall p m, has_byte 46 m = false -> last_dot (p ++ 46 :: m) = Some (length p).
Proof.
  induction p as [|c p IH]; intros m H.
  - cbn [app last_dot length]. apply last_dot_none in H. rewrite H. reflexivity.
  - cbn [app last_dot length]. rewrite (IH m H). reflexivity.
Qed.

Theorem jsonrpc_split_at_last_dot : forall p m, p <> [] -> has_byte 46 m = false ->
  jsonrpc_split (p ++ 46 :: m) = Some (p, m).
Proof.
  intros p m Hp Hm. unfold jsonrpc_split. rewrite (last_dot_app p m Hm).
  destruct p as [|c p]; [contradiction|].
  set (P := c :: p). change (length P) with (S (length p)). cbv iota beta.
  change (S (length p)) with (length P).
  f_equal. f_equal.
  - rewrite firstn_app, firstn_all, Nat.sub_diag. cbn [firstn]. apply app_nil_r.
  - replace (S (length P)) with (length (P ++ [46])) by (rewrite app_length; cbn [length]; lia).
    replace (P ++ 46 :: m) with ((P ++ [46]) ++ m) by (rewrite <- app_assoc; reflexivity).
    rewrite skipn_app, skipn_all, Nat.sub_diag. reflexivity.
Qed.

Theorem jsonrpc_split_rejects : forall s,
  has_byte 46 s = false \/ (exists m, s = 46 :: m /\ has_byte 46 m = false) -> jsonrpc_split s = None.
Proof.
  intros s [H|[m [-> H]]]; unfold jsonrpc_split.
  - apply last_dot_none in H. rewrite H. reflexivity.
  - change (46 :: m) with ([] ++ 46 :: m). rewrite (last_dot_app [] m H). reflexivity.
Qed.
