(* Header-level model of the two HTTP front ends: server/converter.go (HTTPRequest2RpcxRequest), the header
   checks of handleGatewayRequest (server/gateway.go), the method split of handleJSONRPCRequest
   (server/jsonrpc2.go), and the library functions whose behaviour decides what reaches the handler:
   strconv.ParseUint(s, 10, 64), strconv.Atoi, url.QueryUnescape, url.ParseQuery, and - for the round trip -
   url.QueryEscape and url.Values.Encode.  Strings are byte lists.  Definitions only. *)
From Coq Require Import List NArith ZArith Bool.
From RPCX Require Import Wire.Bytes.
Import ListNotations.
Open Scope N_scope.

(* ---------- strconv ---------- *)
Definition is_digit (c : N) : bool := (48 <=? c) && (c <=? 57).

(* value of a non-empty all-digit string, unbounded *)
Fixpoint digits_val (acc : N) (s : bytes) : option N :=
  match s with
  | [] => Some acc
  | c :: r => if is_digit c then digits_val (acc * 10 + (c - 48)) r else None
  end.

(* strconv.ParseUint(s, 10, 64): digits only (no sign, no underscore in base 10), at most 2^64-1 *)
Definition parse_uint64 (s : bytes) : option N :=
  match s with
  | [] => None
  | _ => match digits_val 0 s with
         | Some v => if v <? 18446744073709551616 then Some v else None
         | None => None
         end
  end.

(* strconv.Atoi on a 64-bit platform: optional sign, digits, range of int64 *)
Definition atoi (s : bytes) : option Z :=
  let '(neg, d) := match s with
                   | 45 :: r => (true, r)
                   | 43 :: r => (false, r)
                   | _ => (false, s)
                   end in
  match d with
  | [] => None
  | _ => match digits_val 0 d with
         | Some v => if neg then (if v <=? 9223372036854775808 then Some (- Z.of_N v)%Z else None)
                     else (if v <? 9223372036854775808 then Some (Z.of_N v) else None)
         | None => None
         end
  end.

(* ---------- net/url ---------- *)
Definition hexval (c : N) : option N :=
  if is_digit c then Some (c - 48)
  else if (97 <=? c) && (c <=? 102) then Some (c - 87)
  else if (65 <=? c) && (c <=? 70) then Some (c - 55)
  else None.

(* url.QueryUnescape: '+' is a blank, %XX a byte, a '%' not followed by two hex digits an error *)
Fixpoint unescape (s : bytes) : option bytes :=
  match s with
  | [] => Some []
  | c :: r =>
    if c =? 37 then
      match r with
      | h1 :: h2 :: r2 =>
        match hexval h1, hexval h2 with
        | Some a, Some b => match unescape r2 with Some u => Some ((16 * a + b) :: u) | None => None end
        | _, _ => None
        end
      | _ => None
      end
    else match unescape r with
         | Some u => Some ((if c =? 43 then 32 else c) :: u)
         | None => None
         end
  end.

(* strings.Split(s, sep) for a one-byte separator *)
Fixpoint split (sep : N) (s : bytes) : list bytes :=
  match s with
  | [] => [[]]
  | c :: r => if c =? sep then [] :: split sep r
              else match split sep r with p :: ps => (c :: p) :: ps | [] => [[c]] end
  end.

(* strings.Cut(s, "=") *)
Fixpoint cut (sep : N) (s : bytes) : bytes * bytes :=
  match s with
  | [] => ([], [])
  | c :: r => if c =? sep then ([], r) else let '(a, b) := cut sep r in (c :: a, b)
  end.

Definition has_byte (x : N) (s : bytes) : bool := existsb (N.eqb x) s.

(* url.ParseQuery: the pieces between '&'; a piece with ';' is an error and is skipped; an empty piece is
   skipped; a piece whose key or value does not unescape is an error and is skipped.  Returns the pairs in
   order and whether an error was met (Go returns the map AND the first error). *)
Fixpoint parse_pieces (ps : list bytes) : list (bytes * bytes) * bool :=
  match ps with
  | [] => ([], false)
  | p :: rest =>
    let '(kvs, err) := parse_pieces rest in
    if has_byte 59 p then (kvs, true)
    else match p with
         | [] => (kvs, err)
         | _ => let '(k, v) := cut 61 p in
                match unescape k, unescape v with
                | Some k', Some v' => ((k', v') :: kvs, err)
                | _, _ => (kvs, true)
                end
         end
  end.
Definition parse_query (s : bytes) : list (bytes * bytes) * bool := parse_pieces (split 38 s).

Fixpoint beq (a b : bytes) : bool :=
  match a, b with
  | [], [] => true
  | x :: a', y :: b' => (x =? y) && beq a' b'
  | _, _ => false
  end.

Fixpoint mlookup (k : bytes) (m : list (bytes * bytes)) : option bytes :=
  match m with
  | [] => None
  | (k', v) :: r => if beq k k' then Some v else mlookup k r
  end.

(* `for k, v := range metadata { mm[k] = v[0] }`: the first value of every key (keys in order of first
   occurrence; the order is immaterial, the result is a map) *)
Fixpoint first_vals (seen : list bytes) (kvs : list (bytes * bytes)) : list (bytes * bytes) :=
  match kvs with
  | [] => []
  | (k, v) :: r => if existsb (beq k) seen then first_vals seen r else (k, v) :: first_vals (k :: seen) r
  end.

(* m[k] = v on an association list that stands for a map *)
Fixpoint mset (k v : bytes) (m : list (bytes * bytes)) : list (bytes * bytes) :=
  match m with
  | [] => [(k, v)]
  | (k', v') :: r => if beq k k' then (k, v) :: r else (k', v') :: mset k v r
  end.

(* url.QueryEscape *)
Definition unreserved (c : N) : bool :=
  is_digit c || ((65 <=? c) && (c <=? 90)) || ((97 <=? c) && (c <=? 122)) ||
  (c =? 45) || (c =? 95) || (c =? 46) || (c =? 126).
Definition hexdigit (v : N) : N := if v <? 10 then 48 + v else 55 + v.     (* "0123456789ABCDEF" *)
Definition escape_byte (c : N) : bytes :=
  if unreserved c then [c] else if c =? 32 then [43] else [37; hexdigit (c / 16); hexdigit (c mod 16)].
Definition escape (s : bytes) : bytes := flat_map escape_byte s.

(* url.Values.Encode for single-valued keys given in (sorted) order: k1=v1&k2=v2... *)
Fixpoint encode_query (kvs : list (bytes * bytes)) : bytes :=
  match kvs with
  | [] => []
  | [(k, v)] => escape k ++ [61] ++ escape v
  | (k, v) :: r => escape k ++ [61] ++ escape v ++ [38] ++ encode_query r
  end.

(* ---------- the gateway's request headers ---------- *)
Record ghdr := mkGHdr {
  h_id : bytes;        (* X-RPCX-MessageID *)
  h_hb : bytes;        (* X-RPCX-Heartbeat *)
  h_oneway : bytes;    (* X-RPCX-Oneway *)
  h_ser : bytes;       (* X-RPCX-SerializeType *)
  h_comp : bytes;      (* X-RPCX-CompressType *)
  h_meta : bytes;      (* X-RPCX-Meta *)
  h_auth : bytes;      (* Authorization *)
  h_path : bytes;      (* X-RPCX-ServicePath *)
  h_meth : bytes }.    (* X-RPCX-ServiceMethod *)

(* the rpcx request the server builds (protocol.Message) *)
Record greq := mkGReq {
  g_seq : N; g_hb : bool; g_oneway : bool; g_ser : N; g_comp : N;
  g_meta : list (bytes * bytes); g_path : bytes; g_meth : bytes; g_payload : bytes }.

Definition AUTH_KEY : bytes := [95;95;65;85;84;72].        (* share.AuthKey = "__AUTH" *)
Definition nonempty (s : bytes) : bool := match s with [] => false | _ => true end.

(* SetSerializeType(protocol.SerializeType(rst)): int -> byte truncates, the setter keeps four bits;
   SetCompressType keeps three *)
Definition ser_of (rst : Z) : N := Z.to_N (rst mod 16)%Z.
Definition comp_of (ct : Z) : N := Z.to_N (ct mod 8)%Z.

(* a header that is absent (h.Get returns "") keeps the default; one that is present must parse *)
Definition hdr_uint (s : bytes) : option N := match s with [] => Some 0 | _ => parse_uint64 s end.
Definition hdr_int (s : bytes) : option Z := match s with [] => Some 0%Z | _ => atoi s end.
Definition hdr_meta (s : bytes) : option (list (bytes * bytes)) :=
  match s with
  | [] => Some []
  | _ => let '(kvs, err) := parse_query s in if err then None else Some (first_vals [] kvs)
  end.

(* HTTPRequest2RpcxRequest: None = an error is returned *)
Definition http_to_req (h : ghdr) (body : bytes) : option greq :=
  match hdr_uint (h_id h) with
  | None => None
  | Some seq =>
    match hdr_int (h_ser h) with
    | None => None
    | Some st =>
      match hdr_int (h_comp h) with
      | None => None
      | Some ct =>
        match hdr_meta (h_meta h) with
        | None => None
        | Some meta =>
          let meta' := if nonempty (h_auth h) then mset AUTH_KEY (h_auth h) meta else meta in
          Some (mkGReq seq (nonempty (h_hb h)) (nonempty (h_oneway h)) (ser_of st) (comp_of ct)
                       meta' (h_path h) (h_meth h) body)
        end
      end
    end
  end.

Definition trim_slash (s : bytes) : bytes := match s with 47 :: r => r | _ => s end.

(* handleGatewayRequest up to the point where the plugins, the authentication and handleRequest take over:
   the service path falls back to the URL path; a conversion error, an empty path, an empty method header or
   an empty serialize-type header end the request with an error.  None = rejected as malformed. *)
Definition gateway_front (h : ghdr) (urlpath body : bytes) : option greq :=
  let path := match h_path h with [] => trim_slash urlpath | p => p end in
  let h' := mkGHdr (h_id h) (h_hb h) (h_oneway h) (h_ser h) (h_comp h) (h_meta h) (h_auth h) path (h_meth h) in
  match http_to_req h' body with
  | None => None
  | Some q => if nonempty path && nonempty (h_meth h) && nonempty (h_ser h) then Some q else None
  end.

(* what a gateway client sends for a request (the harness's encoder; Go's own http client for the rest) *)
Definition dec_digit (v : N) : N := 48 + v.
Fixpoint to_dec_fuel (fuel : nat) (v : N) (acc : bytes) : bytes :=
  match fuel with
  | O => acc
  | S f => if v <? 10 then dec_digit v :: acc else to_dec_fuel f (v / 10) (dec_digit (v mod 10) :: acc)
  end.
Definition to_dec (v : N) : bytes := to_dec_fuel 21 v [].          (* 2^64 has 20 digits *)

Definition to_http (q : greq) : ghdr :=
  mkGHdr (to_dec (g_seq q)) (if g_hb q then [49] else []) (if g_oneway q then [49] else [])
         (to_dec (g_ser q)) (if g_comp q =? 0 then [] else to_dec (g_comp q))
         (encode_query (g_meta q)) [] (g_path q) (g_meth q).

(* ---------- JSON-RPC: "Service.Path.Method" is split at the LAST dot, which must not be first ---------- *)
Fixpoint last_dot (s : bytes) : option nat :=          (* strings.LastIndex(s, ".") *)
  match s with
  | [] => None
  | c :: r => match last_dot r with
              | Some i => Some (S i)
              | None => if c =? 46 then Some O else None
              end
  end.
Definition jsonrpc_split (m : bytes) : option (bytes * bytes) :=
  match last_dot m with
  | Some (S i) => Some (firstn (S i) m, skipn (S (S i)) m)
  | _ => None                                           (* lastDot <= 0 *)
  end.

(* the JSON-RPC front: metadata errors are ignored there (the pairs parsed so far are used) *)
Definition jsonrpc_front (method meta auth params : bytes) (has_id : bool) : option greq :=
  match jsonrpc_split method with
  | None => None
  | Some (p, m) =>
    let kvs := match meta with [] => [] | s => first_vals [] (fst (parse_query s)) end in
    let kvs' := if nonempty auth then mset AUTH_KEY auth kvs else kvs in
    Some (mkGReq 0 false (negb has_id) 1 0 kvs' p m params)
  end.
