(* Goroutines that look at doneChan and close it within one critical section of s.mu, interleaved in any order, never
   close it twice (nobody panics); and that is how the call sites regenerated from the source do it. *)
From Coq Require Import List Arith Bool String Lia.
From RPCX Require Import Server.DoneChan Server.DoneChanGen.
Import ListNotations.

Lemma dupd_same f t x : dupd f t x t = x.
Proof. unfold dupd. now rewrite Nat.eqb_refl. Qed.
Lemma dupd_other f t x t' : t' <> t -> dupd f t x t' = f t'.
Proof. intros H. unfold dupd. destruct (Nat.eqb_spec t' t); [contradiction|reflexivity]. Qed.

(* per thread: where it stands in the discipline *)
Record drel (t : nat) (held looked : bool) (w : dworld) : Prop := mkDR {
  dr_lock : held = true <-> dlock w = Some t;
  dr_check : dcheck held looked (dpc (dthr w t)) = true;
  dr_saw : looked = true -> held = true /\ (sawopen (dthr w t) = true -> dclosed w = false)
}.

Definition DInv (w : dworld) : Prop :=
  dpanic w = false /\ exists H L : nat -> bool, forall t, drel t (H t) (L t) w.

Lemma dstep_pres t w w' : DInv w -> dstep t w = Some w' -> DInv w'.
Proof.
  intros (Hp & H & L & HR) Hs. unfold dstep in Hs.
  destruct (HR t) as [Lk Ck Sw].
  destruct (dpc (dthr w t)) as [|o r] eqn:Hpc; [discriminate|].
  assert (Hoth : forall h l (w1 : dworld),
            (forall t', t' <> t -> dthr w1 t' = dthr w t') ->
            (forall t', t' <> t -> (H t' = true <-> dlock w1 = Some t')) ->
            (dclosed w1 = dclosed w \/ dlock w = Some t) ->
            drel t h l w1 -> dpanic w1 = false -> DInv w1).
  { intros h l w1 Hthr Hlk Hcl Hme Hp1. split; [exact Hp1|].
    exists (fun t' => if Nat.eqb t' t then h else H t'), (fun t' => if Nat.eqb t' t then l else L t').
    intros t'. destruct (Nat.eqb_spec t' t) as [->|Hne]; [exact Hme|].
    destruct (HR t') as [Lk' Ck' Sw']. constructor.
    - now apply Hlk.
    - now rewrite Hthr.
    - rewrite Hthr by exact Hne. intros Hl. destruct (Sw' Hl) as (A & B). split; [exact A|].
      intros Hso. destruct Hcl as [Hcl|Hcl]; [rewrite Hcl; auto|].
      apply Lk' in A. rewrite Hcl in A. injection A. congruence. }
  destruct o; cbn in Ck.
  - (* DLock *)
    destruct (dlock w) eqn:Hl; [discriminate|]. inversion Hs; subst; clear Hs.
    apply andb_true_iff in Ck. destruct Ck as (Hnh & Ck).
    apply (Hoth true false); cbn; auto.
    + intros t' Hne. now apply dupd_other.
    + intros t' Hne. destruct (HR t') as [Lk' _ _]. rewrite Hl in Lk'.
      split; [intros E; apply Lk' in E; discriminate|intros E; injection E; congruence].
    + constructor; cbn; rewrite ?dupd_same; cbn; auto; [tauto|discriminate].
  - (* DUnlock *)
    inversion Hs; subst; clear Hs.
    apply andb_true_iff in Ck. destruct Ck as (Hh & Ck).
    pose proof (proj1 Lk Hh) as Hl.
    apply (Hoth false false); cbn; auto.
    + intros t' Hne. now apply dupd_other.
    + intros t' Hne. destruct (HR t') as [Lk' _ _]. rewrite Hl in Lk'.
      split; [intros E; apply Lk' in E; injection E; congruence|discriminate].
    + constructor; cbn; rewrite ?dupd_same; cbn; auto; [split; discriminate|discriminate].
    + rewrite Hp, Hl, Nat.eqb_refl. reflexivity.
  - (* DCheck *)
    inversion Hs; subst; clear Hs.
    apply andb_true_iff in Ck. destruct Ck as (Hh & Ck).
    apply (Hoth true true); cbn; auto.
    + intros t' Hne. now apply dupd_other.
    + intros t' Hne. exact (dr_lock _ _ _ _ (HR t')).
    + constructor; cbn; rewrite ?dupd_same; cbn; auto.
      * split; [intros _; now apply Lk|reflexivity].
      * intros _. split; [reflexivity|]. intros E. now apply negb_true_iff in E.
  - (* DCloseIfOpen *)
    apply andb_true_iff in Ck. destruct Ck as (Hhl & Ck). apply andb_true_iff in Hhl. destruct Hhl as (Hh & Hlo).
    pose proof (proj1 Lk Hh) as Hl.
    destruct (Sw Hlo) as (_ & Hopen).
    destruct (sawopen (dthr w t)) eqn:Hso; inversion Hs; subst; clear Hs.
    + apply (Hoth true false); cbn; auto.
      * intros t' Hne. now apply dupd_other.
      * intros t' Hne. exact (dr_lock _ _ _ _ (HR t')).
      * constructor; cbn; rewrite ?dupd_same; cbn; auto; try discriminate; try (split; [intros _; now apply Lk|reflexivity]).
      * rewrite Hp, (Hopen eq_refl). reflexivity.
    + apply (Hoth true false); cbn; auto.
      * intros t' Hne. now apply dupd_other.
      * intros t' Hne. exact (dr_lock _ _ _ _ (HR t')).
      * constructor; cbn; rewrite ?dupd_same; cbn; auto; try discriminate; try (split; [intros _; now apply Lk|reflexivity]).
Qed.

Lemma drun_pres sched : forall w, DInv w -> DInv (drun sched w).
Proof.
  induction sched as [|t r IH]; intros w HI; cbn; [exact HI|].
  apply IH. destruct (dstep t w) as [w'|] eqn:Hs; [eapply dstep_pres; eauto|exact HI].
Qed.

Lemma dstart_inv progs : (forall t, dcheck false false (progs t) = true) -> DInv (dstart progs).
Proof.
  intros Hc. split; [reflexivity|]. exists (fun _ => false), (fun _ => false). intros t.
  constructor; cbn; auto; try discriminate. split; discriminate.
Qed.

(* any number of goroutines, each running any number of disciplined closings, under any schedule: nobody panics *)
Theorem disciplined_closers_never_panic progs sched :
  (forall t, dcheck false false (progs t) = true) -> dpanic (drun sched (dstart progs)) = false.
Proof. intros Hc. exact (proj1 (drun_pres sched _ (dstart_inv progs Hc))). Qed.

(* a program made of call sites that stand under the mutex obeys the discipline *)
Lemma held_sites_disciplined n : dcheck false false (List.concat (repeat (site_prog true) n)) = true.
Proof. induction n as [|n IH]; [reflexivity|exact IH]. Qed.

(* the call sites of the source all stand under s.mu *)
Lemma every_site_holds_the_mutex : forallb (fun s => snd s) done_sites = true.
Proof. vm_compute. reflexivity. Qed.

Theorem server_never_closes_done_twice (calls : nat -> nat) sched :
  dpanic (drun sched (dstart (fun t => List.concat (repeat (site_prog true) (calls t))))) = false.
Proof. apply disciplined_closers_never_panic. intros t. apply held_sites_disciplined. Qed.

(* what the mutex is for: the same two steps without it, by two goroutines *)
Example unlocked_closers_panic :
  dpanic (drun [0; 1; 0; 1] (dstart (fun t => if Nat.ltb t 2 then site_prog false else []))) = true.
Proof. vm_compute. reflexivity. Qed.
Example locked_closers_run :
  let w := drun [0; 1; 0; 0; 1; 0; 1; 1; 1; 1] (dstart (fun t => if Nat.ltb t 2 then site_prog true else [])) in
  dpanic w = false /\ dclosed w = true /\ dlock w = None /\ dpc (dthr w 0) = [] /\ dpc (dthr w 1) = [].
Proof. vm_compute. repeat split; reflexivity. Qed.
