(* Model of client/selector.go roundRobinSelector (definitions only).
     Select:  ss := s.servers; if len(ss)==0 {return ""}; i := s.i % len(ss); s.i = i+1; return ss[i]
     UpdateServer: s.servers = <keys of the map, in the iteration order the runtime chose>; s.i kept *)
From Coq Require Import List Arith.
Import ListNotations.

Record rr_state := { rr_servers : list nat; rr_i : nat }.

Definition rr_new (ss : list nat) : rr_state := {| rr_servers := ss; rr_i := 0 |}.

Definition rr_update (s : rr_state) (ss : list nat) : rr_state :=
  {| rr_servers := ss; rr_i := rr_i s |}.

(* None = the empty result "" *)
Definition rr_select (s : rr_state) : option nat * rr_state :=
  match rr_servers s with
  | [] => (None, s)
  | d :: _ =>
      let i := rr_i s mod length (rr_servers s) in
      (Some (nth i (rr_servers s) d), {| rr_servers := rr_servers s; rr_i := i + 1 |})
  end.

Fixpoint rr_selects (k : nat) (s : rr_state) : list (option nat) * rr_state :=
  match k with
  | 0 => ([], s)
  | S k' => let (r, s') := rr_select s in
            let (rs, s'') := rr_selects k' s' in (r :: rs, s'')
  end.

(* operations for histories *)
Inductive rr_op := RRUpdate (ss : list nat) | RRSelect.

Definition rr_step (s : rr_state) (o : rr_op) : rr_state * list (option nat) :=
  match o with
  | RRUpdate ss => (rr_update s ss, [])
  | RRSelect => let (r, s') := rr_select s in (s', [r])
  end.

Fixpoint rr_run (s : rr_state) (ops : list rr_op) : rr_state * list (option nat) :=
  match ops with
  | [] => (s, [])
  | o :: os => let (s', out) := rr_step s o in
               let (s'', outs) := rr_run s' os in (s'', out ++ outs)
  end.
