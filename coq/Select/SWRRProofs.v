From Coq Require Import List ZArith Arith Lia Permutation.
From RPCX Require Import Base.Cyclic Select.SWRR.
Import ListNotations.
Open Scope Z_scope.

Definition cnt (sel : list nat) (i : nat) : Z := Z.of_nat (count_occ Nat.eq_dec sel i).

Fixpoint sumf (f : nat -> Z) (n : nat) : Z :=
  match n with O => 0 | S n' => sumf f n' + f n' end.

Lemma sumf_shift f n : sumf f (S n) = f O + sumf (fun i => f (S i)) n.
Proof. induction n as [|n IH]; [simpl; lia|]. cbn [sumf] in *. lia. Qed.

Lemma sumf_ext f g n : (forall i, (i < n)%nat -> f i = g i) -> sumf f n = sumf g n.
Proof.
  induction n as [|n IH]; intros H; [reflexivity|]. cbn [sumf].
  rewrite IH by (intros; apply H; lia). rewrite H by lia. reflexivity.
Qed.

Lemma sumf_add f g n : sumf (fun i => f i + g i) n = sumf f n + sumf g n.
Proof. induction n as [|n IH]; [reflexivity|]. cbn [sumf]. lia. Qed.

Lemma sumf_le f g n : (forall i, (i < n)%nat -> f i <= g i) -> sumf f n <= sumf g n.
Proof.
  induction n as [|n IH]; intros H; [simpl; lia|]. cbn [sumf].
  specialize (IH ltac:(intros; apply H; lia)). specialize (H n ltac:(lia)). lia.
Qed.

Lemma sumf_le_eq f g n :
  (forall i, (i < n)%nat -> f i <= g i) -> sumf f n = sumf g n ->
  forall i, (i < n)%nat -> f i = g i.
Proof.
  induction n as [|n IH]; intros Hle Hs i Hi; [lia|]. cbn [sumf] in Hs.
  assert (H1 : sumf f n <= sumf g n) by (apply sumf_le; intros; apply Hle; lia).
  assert (H2 : f n <= g n) by (apply Hle; lia).
  destruct (Nat.eq_dec i n) as [->|Hne]; [lia|].
  apply IH; [intros; apply Hle; lia | lia | lia].
Qed.

Lemma sumZ_sumf l : sumZ l = sumf (fun i => nth i l 0) (length l).
Proof.
  induction l as [|x l IH]; [reflexivity|].
  cbn [length]. rewrite sumf_shift. cbn [sumZ nth]. rewrite IH. reflexivity.
Qed.

Lemma sumf_indicator x n :
  sumf (fun i => if Nat.eq_dec x i then 1 else 0) n = if (x <? n)%nat then 1 else 0.
Proof.
  induction n as [|n IH]; [reflexivity|]. cbn [sumf]. rewrite IH.
  destruct (Nat.ltb_spec x n), (Nat.ltb_spec x (S n)), (Nat.eq_dec x n); lia.
Qed.

Lemma cnt_cons x sel i : cnt (x :: sel) i = (if Nat.eq_dec x i then 1 else 0) + cnt sel i.
Proof. unfold cnt. cbn [count_occ]. destruct (Nat.eq_dec x i); lia. Qed.

Lemma sumf_zero f n : (forall i, f i = 0) -> sumf f n = 0.
Proof. intros H. induction n as [|n IH]; [reflexivity|]. cbn [sumf]. rewrite IH, H. reflexivity. Qed.

Lemma sumf_cnt sel n :
  Forall (fun x => (x < n)%nat) sel -> sumf (cnt sel) n = Z.of_nat (length sel).
Proof.
  induction sel as [|x sel IH]; intros H.
  - apply sumf_zero. intros i. reflexivity.
  - inversion H as [|? ? Hx Hr]; subst.
    rewrite (sumf_ext _ (fun i => (if Nat.eq_dec x i then 1 else 0) + cnt sel i))
      by (intros; apply cnt_cons).
    rewrite sumf_add, sumf_indicator, IH by assumption.
    destruct (Nat.ltb_spec x n); [|lia]. cbn [length]. lia.
Qed.

(* ---- list arithmetic ---- *)
Lemma addl_length a b : length a = length b -> length (addl a b) = length a.
Proof.
  revert b. induction a as [|x a IH]; intros [|y b] H; simpl in *; try lia.
  rewrite IH by lia. reflexivity.
Qed.

Lemma nth_addl a : forall b i, length a = length b ->
  nth i (addl a b) 0 = nth i a 0 + nth i b 0.
Proof.
  induction a as [|x a IH]; intros [|y b] i H; simpl in *; try lia.
  - destruct i; reflexivity.
  - destruct i; [reflexivity|]. apply IH. lia.
Qed.

Lemma sumZ_addl a : forall b, length a = length b -> sumZ (addl a b) = sumZ a + sumZ b.
Proof.
  induction a as [|x a IH]; intros [|y b] H; simpl in *; try lia.
  rewrite IH by lia. lia.
Qed.

Lemma upd_sub_length f W l : length (upd_sub f W l) = length l.
Proof.
  revert f. induction l as [|x l IH]; intros f; [destruct f; reflexivity|].
  destruct f; simpl; [reflexivity|]. rewrite IH. reflexivity.
Qed.

Lemma nth_upd_sub l : forall f W i, (f < length l)%nat ->
  nth i (upd_sub f W l) 0 = nth i l 0 - (if Nat.eq_dec i f then W else 0).
Proof.
  induction l as [|x l IH]; intros f W i Hf; [simpl in Hf; lia|].
  destruct f as [|f]; cbn [upd_sub].
  - destruct i as [|i]; cbn [nth]; [destruct (Nat.eq_dec 0 0); lia|].
    destruct (Nat.eq_dec (S i) 0); lia.
  - destruct i as [|i]; cbn [nth]; [destruct (Nat.eq_dec 0 (S f)); lia|].
    rewrite IH by (simpl in Hf; lia).
    destruct (Nat.eq_dec i f), (Nat.eq_dec (S i) (S f)); lia.
Qed.

Lemma sumZ_upd_sub l : forall f W, (f < length l)%nat -> sumZ (upd_sub f W l) = sumZ l - W.
Proof.
  induction l as [|x l IH]; intros f W Hf; [simpl in Hf; lia|].
  destruct f as [|f]; cbn [upd_sub sumZ]; [lia|]. rewrite IH by (simpl in Hf; lia). lia.
Qed.

Lemma sumZ_nonpos l : Forall (fun x => x <= 0) l -> sumZ l <= 0.
Proof. induction 1; simpl; lia. Qed.

(* ---- the scan ---- *)
Lemma argmax_spec l : forall i m flag,
  (argmax l i m flag = flag /\ Forall (fun x => x <= m) l) \/
  ((i <= argmax l i m flag < i + length l)%nat /\ nth (argmax l i m flag - i) l 0 > m
   /\ Forall (fun x => x <= nth (argmax l i m flag - i) l 0) l).
Proof.
  induction l as [|x l IH]; intros i m flag; [left; split; [reflexivity|constructor]|].
  cbn [argmax]. destruct (Z.gtb_spec x m) as [Hgt|Hle].
  - right. destruct (IH (S i) x i) as [[He Hall]|[Hr [Hn Hall]]].
    + rewrite He. replace (i - i)%nat with O by lia. cbn [nth length].
      split; [lia|]. split; [lia|]. constructor; [lia|exact Hall].
    + set (r := argmax l (S i) x i) in *.
      replace (r - i)%nat with (S (r - S i)) by lia. cbn [nth length].
      split; [lia|]. split; [lia|]. constructor; [lia|exact Hall].
  - destruct (IH (S i) m flag) as [[He Hall]|[Hr [Hn Hall]]].
    + left. split; [exact He|]. constructor; assumption.
    + right. set (r := argmax l (S i) m flag) in *.
      replace (r - i)%nat with (S (r - S i)) by lia. cbn [nth length].
      split; [lia|]. split; [lia|]. constructor; [lia|exact Hall].
Qed.

Lemma Forall_le_trans (l : list Z) a b :
  a <= b -> Forall (fun x => x <= a) l -> Forall (fun x => x <= b) l.
Proof. intros Hab H. eapply Forall_impl; [|exact H]. simpl. intros; lia. Qed.

(* ---- one step of next() ---- *)
Lemma swrr_next_spec W ws cws :
  length cws = length ws -> sumZ ws = W -> 0 < W -> sumZ cws = 0 ->
  let f := fst (swrr_next W ws cws) in
  let c' := snd (swrr_next W ws cws) in
  (f < length ws)%nat /\ length c' = length ws /\ sumZ c' = 0 /\
  (forall i, nth i c' 0 = nth i cws 0 + nth i ws 0 - (if Nat.eq_dec i f then W else 0)) /\
  0 < nth f cws 0 + nth f ws 0 /\
  (forall i, (i < length ws)%nat -> nth i cws 0 + nth i ws 0 <= nth f cws 0 + nth f ws 0).
Proof.
  intros Hlen HW Hpos Hsum. cbv zeta.
  destruct ws as [|w0 [|w1 ws']].
  - simpl in HW. lia.
  - (* n = 1 *)
    destruct cws as [|c0 [|? ?]]; simpl in Hlen; try lia.
    simpl in Hsum, HW. cbn [swrr_next fst snd length].
    split; [lia|]. split; [reflexivity|]. split; [simpl; lia|].
    split.
    + intros [|[|i]]; simpl; lia.
    + split; [simpl; lia|]. intros [|i] Hi; simpl in *; lia.
  - remember (w0 :: w1 :: ws') as ws eqn:Hws.
    assert (Hn : swrr_next W ws cws =
            (argmax (addl cws ws) 0 0 0, upd_sub (argmax (addl cws ws) 0 0 0) W (addl cws ws))).
    { rewrite Hws. reflexivity. }
    rewrite Hn. cbn [fst snd].
    set (c1 := addl cws ws). set (f := argmax c1 0 0 0).
    assert (Hl1 : length c1 = length ws) by (unfold c1; rewrite addl_length; lia).
    assert (Hs1 : sumZ c1 = W) by (unfold c1; rewrite sumZ_addl by lia; lia).
    destruct (argmax_spec c1 0 0 0) as [[_ Hall]|[Hr [Hgt Hall]]].
    { apply sumZ_nonpos in Hall. lia. }
    fold f in Hr, Hgt, Hall. replace (f - 0)%nat with f in * by lia.
    assert (Hf : (f < length ws)%nat) by lia.
    assert (Hnth : forall i, nth i c1 0 = nth i cws 0 + nth i ws 0)
      by (intros; unfold c1; apply nth_addl; lia).
    split; [exact Hf|]. split; [rewrite upd_sub_length; exact Hl1|].
    split; [rewrite sumZ_upd_sub by lia; lia|].
    split; [intros i; rewrite nth_upd_sub by lia; rewrite Hnth; reflexivity|].
    split; [rewrite <- Hnth; lia|].
    intros i Hi. rewrite <- !Hnth. rewrite Forall_forall in Hall. apply Hall.
    apply nth_In. lia.
Qed.

(* ---- buildRing: invariant over k steps ---- *)
Lemma swrr_build_inv W ws : sumZ ws = W -> 0 < W -> Forall (fun w => 0 <= w) ws ->
  forall k cws,
  length cws = length ws -> sumZ cws = 0 ->
  (forall i, (i < length ws)%nat -> - W < nth i cws 0) ->
  let sel := fst (swrr_build k W ws cws) in
  let c' := snd (swrr_build k W ws cws) in
  length sel = k /\ Forall (fun x => (x < length ws)%nat) sel /\
  length c' = length ws /\ sumZ c' = 0 /\
  (forall i, (i < length ws)%nat -> - W < nth i c' 0) /\
  (forall i, nth i c' 0 = nth i cws 0 + Z.of_nat k * nth i ws 0 - cnt sel i * W).
Proof.
  intros HW Hpos Hnn. induction k as [|k IH]; intros cws Hlen Hsum Hlow; cbv zeta.
  - cbn [swrr_build fst snd]. repeat split; auto. intros i. unfold cnt. simpl. lia.
  - cbn [swrr_build].
    destruct (swrr_next_spec W ws cws Hlen HW Hpos Hsum) as (Hf & Hl & Hs & Hn & Hg & _).
    destruct (swrr_next W ws cws) as [f c1]. cbn [fst snd] in *.
    assert (Hlow1 : forall i, (i < length ws)%nat -> - W < nth i c1 0).
    { intros i Hi. rewrite Hn. specialize (Hlow i Hi).
      assert (0 <= nth i ws 0).
      { rewrite Forall_forall in Hnn. apply Hnn. apply nth_In. exact Hi. }
      destruct (Nat.eq_dec i f) as [->|]; lia. }
    specialize (IH c1 Hl Hs Hlow1). cbv zeta in IH.
    destruct (swrr_build k W ws c1) as [sel c2]. cbn [fst snd] in *.
    destruct IH as (I1 & I2 & I3 & I4 & I5 & I6).
    split; [simpl; lia|]. split; [constructor; assumption|].
    split; [exact I3|]. split; [exact I4|]. split; [exact I5|].
    intros i. rewrite I6, Hn, cnt_cons.
    destruct (Nat.eq_dec i f), (Nat.eq_dec f i); subst; try congruence; lia.
Qed.

Lemma nth_zeros (ws : list Z) i : nth i (map (fun _ => 0) ws) 0 = 0.
Proof.
  revert i. induction ws as [|w ws IH]; intros [|i]; simpl; auto.
Qed.

Lemma sumZ_zeros (ws : list Z) : sumZ (map (fun _ => 0) ws) = 0.
Proof. induction ws; simpl; lia. Qed.

(* The built ring contains server i exactly w_i times. *)
Theorem swrr_ring_count ws :
  Forall (fun w => 0 <= w) ws -> 0 < sumZ ws ->
  length (swrr_ring ws) = Z.to_nat (sumZ ws) /\
  Forall (fun x => (x < length ws)%nat) (swrr_ring ws) /\
  forall i, (i < length ws)%nat -> cnt (swrr_ring ws) i = nth i ws 0.
Proof.
  intros Hnn Hpos. unfold swrr_ring. set (W := sumZ ws) in *.
  destruct (swrr_build_inv W ws eq_refl Hpos Hnn (Z.to_nat W) (map (fun _ => 0) ws))
    as (I1 & I2 & I3 & I4 & I5 & I6).
  - rewrite map_length. reflexivity.
  - apply sumZ_zeros.
  - intros i _. rewrite nth_zeros. lia.
  - set (sel := fst (swrr_build (Z.to_nat W) W ws (map (fun _ => 0) ws))) in *.
    set (c' := snd (swrr_build (Z.to_nat W) W ws (map (fun _ => 0) ws))) in *.
    split; [exact I1|]. split; [exact I2|].
    assert (Hle : forall i, (i < length ws)%nat -> cnt sel i <= nth i ws 0).
    { intros i Hi. specialize (I5 i Hi). rewrite I6, nth_zeros in I5.
      rewrite Z2Nat.id in I5 by lia. nia. }
    apply sumf_le_eq; [exact Hle|].
    rewrite sumf_cnt by exact I2. rewrite I1, Z2Nat.id by lia.
    unfold W. apply sumZ_sumf.
Qed.

(* ---- the selector: a cyclic cursor over the ring ---- *)
Lemma wrr_selects_spec k : forall s d,
  wrr_n s <> O -> length (wrr_ring s) <> O ->
  fst (wrr_selects k s) = map Some (window d (wrr_ring s) (wrr_cur s) k).
Proof.
  induction k as [|k IH]; intros s d Hn Hr; [reflexivity|].
  cbn [wrr_selects]. unfold wrr_select.
  destruct (wrr_n s) as [|n'] eqn:En; [lia|].
  destruct (wrr_ring s) as [|x xs] eqn:Er; [simpl in Hr; lia|].
  set (L := length (x :: xs)) in *.
  set (s' := {| wrr_n := S n'; wrr_ring := x :: xs; wrr_cur := S (wrr_cur s mod L) |}).
  specialize (IH s' d). cbn [wrr_n wrr_ring wrr_cur s'] in IH. fold L in IH.
  specialize (IH ltac:(lia) Hr).
  destruct (wrr_selects k s') as [rs s''] eqn:Hrs. cbn [fst] in *.
  unfold window. cbn [seq map]. f_equal.
  - unfold cyc_nth. f_equal. fold L. apply nth_indep. apply Nat.mod_upper_bound; exact Hr.
  - rewrite IH. f_equal. apply window_congr; [exact Hr|]. fold L.
    replace (S (wrr_cur s mod L)) with (wrr_cur s mod L + 1)%nat by lia.
    replace (S (wrr_cur s)) with (wrr_cur s + 1)%nat by lia.
    rewrite Nat.add_mod_idemp_l by exact Hr. reflexivity.
Qed.

Definition onat_eq_dec : forall a b : option nat, {a = b} + {a <> b}.
Proof. decide equality. apply Nat.eq_dec. Defined.

Lemma count_occ_map_Some (l : list nat) i :
  count_occ onat_eq_dec (map Some l) (Some i) = count_occ Nat.eq_dec l i.
Proof.
  induction l as [|x l IH]; [reflexivity|]. cbn [map count_occ].
  destruct (onat_eq_dec (Some x) (Some i)) as [E|E], (Nat.eq_dec x i) as [E'|E'];
    try congruence; rewrite IH; reflexivity.
Qed.

Lemma clamp_nonneg p : Forall (fun w => 0 <= w) (map clamp_weight p).
Proof.
  induction p as [|[w|] p IH]; constructor; auto; unfold clamp_weight; try lia.
  destruct (Z.ltb_spec w 0); lia.
Qed.

(* Every window of W = sum-of-weights consecutive selections, from any cursor position of a
   selector built from the weights, picks server i exactly w_i times. *)
Theorem wrr_window_counts parsed cur :
  let ws := map clamp_weight parsed in
  0 < sumZ ws ->
  let s := {| wrr_n := length ws; wrr_ring := swrr_ring ws; wrr_cur := cur |} in
  forall i, (i < length ws)%nat ->
  Z.of_nat (count_occ onat_eq_dec
              (fst (wrr_selects (Z.to_nat (sumZ ws)) s)) (Some i)) = nth i ws 0.
Proof.
  intros ws Hpos s i Hi.
  destruct (swrr_ring_count ws (clamp_nonneg parsed) Hpos) as (Hlen & Hall & Hcnt).
  assert (Hn : wrr_n s <> O) by (cbn; lia).
  assert (Hr : length (wrr_ring s) <> O) by (cbn [wrr_ring s]; rewrite Hlen; lia).
  rewrite (wrr_selects_spec _ s O Hn Hr). cbn [wrr_ring wrr_cur s].
  rewrite count_occ_map_Some. rewrite <- Hlen.
  assert (HP : Permutation (window O (swrr_ring ws) cur (length (swrr_ring ws))) (swrr_ring ws))
    by (apply window_perm; rewrite Hlen; lia).
  rewrite (proj1 (Permutation_count_occ Nat.eq_dec _ _) HP).
  apply (Hcnt i Hi).
Qed.
