(* Bit-exact model of github.com/dgryski/go-jump Hash (Google's jump consistent hash), the
   function doublejump - and through it rpcx's consistent-hash selector - routes with.
   IEEE-754 binary64 arithmetic is Flocq's BinarySingleNaN.  Definitions only.

     var b int64 = -1; var j int64
     for j < int64(numBuckets) {
         b = j
         key = key*2862933555777941757 + 1
         j = int64(float64(b+1) * (float64(int64(1)<<31) / float64((key>>33)+1)))
     }
     return int32(b)                                                                        *)
From Coq Require Import ZArith.
From Flocq Require Import Core BinarySingleNaN.
Open Scope Z_scope.

Definition prec := 53.
Definition emax := 1024.
Lemma Hprec : FLX.Prec_gt_0 prec. Proof. reflexivity. Qed.
Lemma Hmax : Prec_lt_emax prec emax. Proof. reflexivity. Qed.
Definition f64 := binary_float prec emax.

(* float64(z) for an integer z *)
Definition ofZ (z : Z) : f64 := binary_normalize prec emax Hprec Hmax mode_NE z 0 false.
Definition fdiv (x y : f64) : f64 := @Bdiv prec emax Hprec Hmax mode_NE x y.
Definition fmul (x y : f64) : f64 := @Bmult prec emax Hprec Hmax mode_NE x y.

(* int64(float64(b1) * (float64(1<<31) / float64(d))) *)
Definition stepj (b1 d : Z) : Z := Btrunc (fmul (ofZ b1) (fdiv (ofZ (2^31)) (ofZ d))).

Definition lcg (key : Z) : Z := (key * 2862933555777941757 + 1) mod 2^64.

Fixpoint jloop (fuel : nat) (key b j n : Z) : Z :=
  match fuel with
  | O => b
  | S fuel' =>
      if j <? n then
        let key' := lcg key in
        jloop fuel' key' j (stepj (j + 1) (Z.shiftr key' 33 + 1)) n
      else b
  end.

(* jump.Hash(key, n) for 0 <= key < 2^64; the loop runs at most n+1 times (JumpProofs) *)
Definition jump (key n : Z) : Z := jloop (S (Z.to_nat n)) key (-1) 0 n.

(* hash/fnv New64a over a byte string (rpcx HashString) *)
Definition fnv_offset : Z := 14695981039346656037.
Definition fnv_prime : Z := 1099511628211.
Fixpoint fnv1a (h : Z) (s : list Z) : Z :=
  match s with
  | nil => h
  | cons c r => fnv1a ((Z.lxor h c * fnv_prime) mod 2^64) r
  end.
Definition hash_string (s : list Z) : Z := fnv1a fnv_offset s.
