From Coq Require Import List Arith Lia Permutation.
From RPCX Require Import Base.Cyclic Select.RoundRobin.
Import ListNotations.

Lemma rr_selects_spec k : forall s d,
  length (rr_servers s) <> 0 ->
  fst (rr_selects k s) = map Some (window d (rr_servers s) (rr_i s) k)
  /\ rr_servers (snd (rr_selects k s)) = rr_servers s.
Proof.
  induction k as [|k IH]; intros s d Hn; [split; reflexivity|].
  cbn [rr_selects]. unfold rr_select.
  destruct (rr_servers s) as [|x xs] eqn:Hs; [simpl in Hn; lia|].
  set (n := length (x :: xs)) in *.
  set (s' := {| rr_servers := x :: xs; rr_i := rr_i s mod n + 1 |}).
  specialize (IH s' d). cbn [rr_servers s' rr_i] in IH. fold n in IH.
  specialize (IH Hn). destruct IH as [IH1 IH2].
  destruct (rr_selects k s') as [rs s''] eqn:Hr. cbn [fst snd] in *.
  split; [|exact IH2].
  unfold window. cbn [seq map]. f_equal.
  - unfold cyc_nth. f_equal. fold n. apply nth_indep. apply Nat.mod_upper_bound; exact Hn.
  - rewrite IH1. f_equal. apply window_congr; [exact Hn|]. fold n.
    replace (S (rr_i s)) with (rr_i s + 1) by lia.
    rewrite Nat.add_mod_idemp_l by exact Hn. reflexivity.
Qed.

(* any n consecutive selections, from any cursor value, are a permutation of the n servers *)
Lemma rr_window_perm s :
  length (rr_servers s) <> 0 ->
  Permutation (fst (rr_selects (length (rr_servers s)) s)) (map Some (rr_servers s)).
Proof.
  intros Hn. destruct (rr_servers s) as [|d l] eqn:Hs; [simpl in Hn; lia|].
  rewrite <- Hs in *.
  destruct (rr_selects_spec (length (rr_servers s)) s d Hn) as [H _]. rewrite H.
  apply Permutation_map. apply (window_perm d (rr_servers s) (rr_i s) Hn).
Qed.

(* ... and this stays true after any history of updates and selections (the state reached
   is just some state; the window lemma holds from every state) *)
Lemma rr_run_servers ops : forall s,
  rr_servers (fst (rr_run s ops)) =
    fold_left (fun ss o => match o with RRUpdate ss' => ss' | RRSelect => ss end) ops (rr_servers s).
Proof.
  induction ops as [|o os IH]; intros s; [reflexivity|].
  cbn [rr_run fold_left]. destruct o as [ss'|].
  - cbn [rr_step]. specialize (IH (rr_update s ss')).
    destruct (rr_run (rr_update s ss') os) as [s2 outs]. exact IH.
  - cbn [rr_step]. destruct (rr_select s) as [r s'] eqn:Hsel.
    assert (Hsrv : rr_servers s' = rr_servers s).
    { unfold rr_select in Hsel. destruct (rr_servers s) eqn:E; inversion Hsel; subst; cbn; auto. }
    specialize (IH s'). destruct (rr_run s' os) as [s2 outs]. cbn [fst] in *.
    rewrite IH, Hsrv. reflexivity.
Qed.

(* selection from an empty set yields the empty result *)
Lemma rr_select_empty s : rr_servers s = [] -> fst (rr_select s) = None.
Proof. intros H. unfold rr_select. rewrite H. reflexivity. Qed.

Lemma rr_select_mem s r : fst (rr_select s) = Some r -> In r (rr_servers s).
Proof.
  unfold rr_select. destruct (rr_servers s) as [|d l] eqn:E; [discriminate|].
  remember (d :: l) as ss eqn:Hss. cbn [fst]. intros H.
  assert (Hr : r = nth (rr_i s mod length ss) ss d) by congruence.
  rewrite Hr. apply nth_In. apply Nat.mod_upper_bound. subst ss; simpl; lia.
Qed.
