(* Models of the random selector and of the closest-server (geo) selector of client/selector.go
   (after the C11 repair).  Definitions only.  Servers are slice indices/ids (nat). *)
From Coq Require Import List ZArith Arith Bool.
Import ListNotations.

(* randomSelector.Select: i := fastrand.Uint32n(len(ss)) is an oracle value *)
Definition rnd_select (ss : list nat) (i : nat) : option nat :=
  match ss with
  | [] => None
  | d :: _ => Some (nth (i mod length ss) ss d)
  end.

(* what strconv.ParseFloat made of the latitude / longitude announced by a server *)
Inductive coord := CMissing | CNonFinite | CFinite.

(* CNonFinite: NaN, +-Inf, or outside the valid range (|lat| <= 90, |lon| <= 180).
   createGeoServer keeps a server iff both coordinates parsed to valid numbers.
   dist: the float64 getDistanceFrom returned for it, as IEEE-754 bits (distances are >= 0, so the
   order of the bits is the order of the floats); None = NaN. *)
Record geo_in := { g_id : nat; g_lat : coord; g_lon : coord; g_dist : option Z }.

Definition geo_eligible (g : geo_in) : bool :=
  match g_lat g, g_lon g with CFinite, CFinite => true | _, _ => false end.

Definition create_geo (servers : list geo_in) : list geo_in := filter geo_eligible servers.

Definition max_float_bits : Z := 9218868437227405311.  (* math.MaxFloat64 *)

(* the scan of geoSelector.Select *)
Fixpoint geo_scan (ss : list geo_in) (minNum : Z) (cands : list nat) : list nat :=
  match ss with
  | [] => cands
  | g :: r =>
    match g_dist g with
    | None => geo_scan r minNum cands                       (* NaN: neither < nor == *)
    | Some d => if (d <? minNum)%Z then geo_scan r d [g_id g]
                else if (d =? minNum)%Z then geo_scan r minNum (cands ++ [g_id g])
                else geo_scan r minNum cands
    end
  end.

(* pick: the value of rand.Intn(len(candidates)) *)
Definition geo_select (ss : list geo_in) (pick : nat) : option nat :=
  match ss with
  | [] => None
  | _ =>
    match geo_scan ss max_float_bits [] with
    | [] => None
    | [x] => Some x
    | d :: r => Some (nth (pick mod length (d :: r)) (d :: r) d)
    end
  end.
