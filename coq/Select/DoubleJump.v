(* Model of github.com/edwingeng/doublejump v1.0.1 (loose + compact holders, free list), which
   rpcx's consistentHashSelector delegates to, and of the selector itself (client/selector.go
   after the C13 repair: servers are added in sorted order).  Objects are natural numbers whose
   order is the order of the server names.  Go maps are association lists.  Definitions only. *)
From Coq Require Import List ZArith Arith Bool.
From RPCX Require Import Select.Jump.
Import ListNotations.
Close Scope Z_scope.
Open Scope nat_scope.

(* doublejump keeps, beside each array, a Go map from object to its index.  The model derives
   that map from the array (first index holding the object): the library's own representation
   invariant "m is the inverse of a" is assumed, not re-proved (it is not rpcx code); the
   correspondence check runs the real library against this model. *)
Fixpoint find_idx {A} (eqb : A -> A -> bool) (x : A) (l : list A) : option nat :=
  match l with
  | [] => None
  | y :: r => if eqb x y then Some O else option_map S (find_idx eqb x r)
  end.

Definition oeqb (a b : option nat) : bool :=
  match a, b with
  | Some x, Some y => Nat.eqb x y
  | None, None => true
  | _, _ => false
  end.

Fixpoint set_nth {A} (i : nat) (x : A) (l : list A) : list A :=
  match l, i with
  | [], _ => []
  | _ :: r, O => x :: r
  | y :: r, S i' => y :: set_nth i' x r
  end.

Record djhash := mkDJ {
  la : list (option nat);   (* loose.a : None = a hole (nil) *)
  lf : list nat;            (* loose.f : free slots, head = top of the stack *)
  ca : list nat }.          (* compact.a *)

Definition dj_new : djhash := mkDJ [] [] [].

Definition loose_add (la : list (option nat)) (lf : list nat) (obj : nat) : list (option nat) * list nat :=
  match find_idx oeqb (Some obj) la with
  | Some _ => (la, lf)
  | None =>
    match lf with
    | [] => (la ++ [Some obj], [])
    | idx :: rest => (set_nth idx (Some obj) la, rest)
    end
  end.

Definition compact_add (ca : list nat) (obj : nat) : list nat :=
  match find_idx Nat.eqb obj ca with
  | Some _ => ca
  | None => ca ++ [obj]
  end.

Definition dj_add (h : djhash) (obj : nat) : djhash :=
  let (la', lf') := loose_add (la h) (lf h) obj in
  mkDJ la' lf' (compact_add (ca h) obj).

Definition loose_remove (la : list (option nat)) (lf : list nat) (obj : nat) : list (option nat) * list nat :=
  match find_idx oeqb (Some obj) la with
  | Some idx => (set_nth idx None la, idx :: lf)
  | None => (la, lf)
  end.

(* a[idx] = a[n-1]; a[n-1] = nil; a = a[:n-1] *)
Definition compact_remove (ca : list nat) (obj : nat) : list nat :=
  match find_idx Nat.eqb obj ca with
  | Some idx => removelast (set_nth idx (nth (length ca - 1) ca 0) ca)
  | None => ca
  end.

Definition dj_remove (h : djhash) (obj : nat) : djhash :=
  let (la', lf') := loose_remove (la h) (lf h) obj in
  mkDJ la' lf' (compact_remove (ca h) obj).

Definition mul64 (a b : Z) : Z := ((a * b) mod 2^64)%Z.

(* Hash.Get: None = nil *)
Definition dj_get (h : djhash) (key : Z) : option nat :=
  let loose :=
    match la h with
    | [] => None
    | _ => nth (Z.to_nat (jump key (Z.of_nat (length (la h))))) (la h) None
    end in
  match loose with
  | Some o => Some o
  | None =>
    match ca h with
    | [] => None
    | d :: _ => Some (nth (Z.to_nat (jump (mul64 key 14313749767032793493) (Z.of_nat (length (ca h))))) (ca h) d)
    end
  end.

(* ---- the selector ---- *)
Fixpoint insert_sorted (x : nat) (l : list nat) : list nat :=
  match l with
  | [] => [x]
  | y :: r => if x <=? y then x :: l else y :: insert_sorted x r
  end.
Definition sort_nat (l : list nat) : list nat := fold_right insert_sorted [] l.

Record chsel := mkCH { ch_h : djhash; ch_servers : list nat }.

(* newConsistentHashSelector(servers): keys in map order, sorted, added in sorted order *)
Definition ch_new (keys : list nat) : chsel :=
  let ss := sort_nat keys in
  mkCH (fold_left dj_add ss dj_new) ss.

(* UpdateServer: add every key of the new set (sorted), then remove the old ones that left *)
Definition ch_update (s : chsel) (keys : list nat) : chsel :=
  let ss := sort_nat keys in
  let h1 := fold_left dj_add ss (ch_h s) in
  let h2 := fold_left (fun h k => if existsb (Nat.eqb k) keys then h else dj_remove h k) (ch_servers s) h1 in
  mkCH h2 ss.

(* Select: "" when there are no servers; key = genKey(path, method, args) is an input *)
Definition ch_select (s : chsel) (key : Z) : option nat :=
  match ch_servers s with
  | [] => None
  | _ => dj_get (ch_h s) key
  end.

Inductive ch_op := CHUpdate (keys : list nat) | CHSelect (key : Z).

Fixpoint ch_run (s : chsel) (ops : list ch_op) : chsel * list (option nat) :=
  match ops with
  | [] => (s, [])
  | CHUpdate ks :: r => ch_run (ch_update s ks) r
  | CHSelect k :: r => let (s', outs) := ch_run s r in (s', ch_select s k :: outs)
  end.
