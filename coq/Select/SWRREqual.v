(* Weighted round-robin with equal weights is plain round-robin (client/selector.go, smooth weighted
   round-robin ring): for n servers of the same positive weight w the ring built by buildRing is
   0,1,...,n-1 repeated w times, so selection k from cursor c is server (c + k) mod n. *)
From Coq Require Import List ZArith Arith Lia.
From RPCX Require Import Base.Cyclic Select.SWRR Select.SWRRProofs.
Import ListNotations.
Open Scope Z_scope.

(* the CurrentWeight vector after j selections of a round: the j servers already selected, then the others *)
Definition st (n : nat) (w : Z) (j : nat) : list Z :=
  repeat (Z.of_nat j * w - Z.of_nat n * w) j ++ repeat (Z.of_nat j * w) (n - j).

Lemma addl_repeat a b k : addl (repeat a k) (repeat b k) = repeat (a + b) k.
Proof. induction k as [|k IH]; [reflexivity|]. cbn [repeat addl]. now rewrite IH. Qed.

Lemma addl_app a1 a2 b1 b2 : length a1 = length b1 ->
  addl (a1 ++ a2) (b1 ++ b2) = addl a1 b1 ++ addl a2 b2.
Proof.
  revert b1. induction a1 as [|x a1 IH]; intros [|y b1] H; try discriminate; [reflexivity|].
  cbn [app addl]. rewrite IH by (simpl in H; lia). reflexivity.
Qed.

Lemma argmax_flat b k : forall i flag, argmax (repeat b k) i b flag = flag.
Proof.
  induction k as [|k IH]; intros i flag; [reflexivity|]. cbn [repeat argmax].
  destruct (Z.gtb_spec b b); [lia|]. apply IH.
Qed.

Lemma argmax_prefix a b j m : a <= 0 -> 0 < b -> forall i flag,
  argmax (repeat a j ++ repeat b (S m)) i 0 flag = (i + j)%nat.
Proof.
  intros Ha Hb. induction j as [|j IH]; intros i flag.
  - cbn [repeat app argmax]. destruct (Z.gtb_spec b 0); [|lia]. rewrite argmax_flat. lia.
  - cbn [repeat app argmax]. destruct (Z.gtb_spec a 0); [lia|]. rewrite IH. lia.
Qed.

Lemma upd_sub_at a b j m W :
  upd_sub j W (repeat a j ++ b :: repeat b m) = repeat a j ++ (b - W) :: repeat b m.
Proof. induction j as [|j IH]; [reflexivity|]. cbn [repeat app upd_sub]. now rewrite IH. Qed.

Lemma repeat_snoc {A} (x : A) k : repeat x k ++ [x] = repeat x (S k).
Proof. induction k as [|k IH]; [reflexivity|]. cbn [repeat app]. now rewrite IH. Qed.

(* one selection inside a round *)
Lemma next_in_round n w j : (2 <= n)%nat -> 0 < w -> (j < n)%nat ->
  swrr_next (Z.of_nat n * w) (repeat w n) (st n w j) = (j, st n w (S j)).
Proof.
  intros Hn Hw Hj. unfold swrr_next.
  destruct n as [|[|n]]; [lia|lia|]. cbn [repeat].
  change (w :: w :: repeat w n) with (repeat w (S (S n))).
  set (N := S (S n)) in *.
  unfold st.
  replace (repeat w N) with (repeat w j ++ repeat w (N - j)) by (rewrite <- repeat_app; f_equal; lia).
  rewrite addl_app by (now rewrite !repeat_length).
  rewrite !addl_repeat.
  replace (N - j)%nat with (S (N - S j)) by lia.
  rewrite argmax_prefix by nia.
  cbn [repeat]. rewrite upd_sub_at. cbn [Nat.add]. f_equal.
  set (X := Z.of_nat (S j) * w - Z.of_nat N * w).
  change (X :: repeat X j) with (repeat X (S j)).
  rewrite <- (repeat_snoc X j), <- app_assoc. cbn [app]. unfold X.
  rewrite Nat2Z.inj_succ.
  f_equal; [f_equal; lia|]. f_equal; [lia|]. f_equal. lia.
Qed.

Lemma st_wrap n w : st n w n = st n w 0.
Proof.
  unfold st. rewrite Nat.sub_diag, Nat.sub_0_r. cbn [repeat app]. rewrite app_nil_r.
  f_equal. lia.
Qed.

(* k selections from position j of a round *)
Lemma build_rounds n w : (2 <= n)%nat -> 0 < w -> forall k j, (j < n)%nat ->
  swrr_build k (Z.of_nat n * w) (repeat w n) (st n w j) =
  (map (fun t => ((j + t) mod n)%nat) (seq 0 k), st n w ((j + k) mod n)).
Proof.
  intros Hn Hw. induction k as [|k IH]; intros j Hj.
  - cbn [swrr_build seq map]. rewrite Nat.add_0_r, Nat.mod_small by lia. reflexivity.
  - cbn [swrr_build]. rewrite next_in_round by assumption.
    destruct (Nat.eq_dec (S j) n) as [E|E].
    + rewrite E, st_wrap. rewrite (IH 0%nat) by lia. cbn [seq map]. f_equal.
      * rewrite Nat.add_0_r, Nat.mod_small by lia. f_equal.
        rewrite <- seq_shift, map_map. apply map_ext_in. intros t _.
        cbn [Nat.add]. replace (j + S t)%nat with (t + 1 * n)%nat by lia. now rewrite Nat.mod_add by lia.
      * f_equal. cbn [Nat.add]. replace (j + S k)%nat with (k + 1 * n)%nat by lia. now rewrite Nat.mod_add by lia.
    + rewrite (IH (S j)) by lia. cbn [seq map]. f_equal.
      * rewrite Nat.add_0_r, Nat.mod_small by lia. f_equal.
        rewrite <- seq_shift, map_map. apply map_ext. intros t. f_equal. lia.
      * f_equal. f_equal. lia.
Qed.

Lemma sumZ_repeat w n : sumZ (repeat w n) = Z.of_nat n * w.
Proof. induction n as [|n IH]; [reflexivity|]. cbn [repeat sumZ]. rewrite IH. lia. Qed.

(* the ring for n equal positive weights: position t holds server t mod n *)
Theorem equal_weights_ring n w : (1 <= n)%nat -> 0 < w ->
  swrr_ring (repeat w n) = map (fun t => (t mod n)%nat) (seq 0 (n * Z.to_nat w)).
Proof.
  intros Hn Hw. unfold swrr_ring. rewrite sumZ_repeat.
  replace (Z.to_nat (Z.of_nat n * w)) with (n * Z.to_nat w)%nat by (rewrite Z2Nat.inj_mul, Nat2Z.id; lia).
  destruct (Nat.eq_dec n 1) as [->|Hne].
  - (* a single server: next() returns it without touching the weights *)
    cbn [repeat map]. rewrite Nat.mul_1_l. generalize (Z.to_nat w). intros k.
    assert (G : forall c, fst (swrr_build k (1 * w) [w] c) = map (fun t => (t mod 1)%nat) (seq 0 k)).
    { induction k as [|k IH]; intros c; [reflexivity|]. cbn [swrr_build swrr_next].
      specialize (IH c). destruct (swrr_build k (1 * w) [w] c) as [sel c'] eqn:E. cbn [fst] in *.
      cbn [seq map]. rewrite IH. f_equal. rewrite <- seq_shift, map_map. apply map_ext. intros t.
      now rewrite !Nat.mod_1_r. }
    apply G.
  - replace (map (fun _ : Z => 0) (repeat w n)) with (st n w 0).
    2:{ unfold st. rewrite Nat.sub_0_r. cbn [repeat app]. clear. induction n as [|n IH]; [reflexivity|].
        cbn [repeat map]. rewrite <- IH. f_equal. }
    rewrite build_rounds by lia. cbn [fst]. apply map_ext. intros t. reflexivity.
Qed.

Lemma mod_mul_mod c n m : (n <> 0)%nat -> (m <> 0)%nat -> ((c mod (n * m)) mod n = c mod n)%nat.
Proof.
  intros Hn Hm. rewrite Nat.mod_mul_r by assumption.
  replace (c mod n + n * ((c / n) mod m))%nat with (c mod n + ((c / n) mod m) * n)%nat by lia.
  rewrite Nat.mod_add by assumption. apply Nat.mod_mod. assumption.
Qed.

Lemma seq_shift_by c k : seq c k = map (fun t => (t + c)%nat) (seq 0 k).
Proof.
  revert c. induction k as [|k IH]; intros c; [reflexivity|]. cbn [seq map]. f_equal.
  rewrite (IH (S c)), (IH 1%nat), map_map. apply map_ext. intros t. lia.
Qed.

(* selection k from cursor c picks server (c + k) mod n: exactly the plain round-robin selector *)
Theorem equal_weights_round_robin n w cur k : (1 <= n)%nat -> 0 < w ->
  let s := {| wrr_n := n; wrr_ring := swrr_ring (repeat w n); wrr_cur := cur |} in
  fst (wrr_selects k s) = map (fun t => Some ((cur + t) mod n)%nat) (seq 0 k).
Proof.
  intros Hn Hw s.
  assert (HW : (Z.to_nat w <> 0)%nat) by lia.
  assert (Hring : wrr_ring s = map (fun t => (t mod n)%nat) (seq 0 (n * Z.to_nat w))) by (apply equal_weights_ring; assumption).
  assert (HL : length (wrr_ring s) = (n * Z.to_nat w)%nat) by (rewrite Hring, map_length, seq_length; reflexivity).
  rewrite (wrr_selects_spec k s 0%nat); [|cbn; lia|rewrite HL; nia].
  unfold window. rewrite map_map. cbn [wrr_cur s].
  rewrite (seq_shift_by cur k), map_map. apply map_ext. intros t. f_equal.
  unfold cyc_nth. rewrite HL, Hring.
  assert (Hlt : ((t + cur) mod (n * Z.to_nat w) < n * Z.to_nat w)%nat) by (apply Nat.mod_upper_bound; nia).
  rewrite nth_indep with (d' := ((fun t0 => (t0 mod n)%nat) 0%nat)) by (rewrite map_length, seq_length; exact Hlt).
  rewrite (map_nth (fun t0 => (t0 mod n)%nat)), seq_nth by exact Hlt. cbn [Nat.add].
  rewrite mod_mul_mod by lia. f_equal. lia.
Qed.
