(* Model of client/selector.go weightedRoundRobinSelector after the C11 repair
   (negative weights clamped to 0 in createWeighted; Select guards a nil ring).
   Definitions only.  Servers are identified by their index in the slice that
   createWeighted built (the slice order is an input: Go map iteration order). *)
From Coq Require Import List ZArith Arith.
Import ListNotations.
Open Scope Z_scope.

(* strconv.Atoi result as seen by createWeighted: missing/unparsable -> 1; negative -> 0 *)
Definition clamp_weight (parsed : option Z) : Z :=
  match parsed with
  | None => 1
  | Some w => if w <? 0 then 0 else w
  end.

Fixpoint addl (a b : list Z) : list Z :=
  match a, b with
  | x :: a', y :: b' => (x + y) :: addl a' b'
  | _, _ => []
  end.

Fixpoint sumZ (l : list Z) : Z := match l with [] => 0 | x :: r => x + sumZ r end.

(* the scan of next():  m := 0; flag := 0; for i { if cw[i] > m { m = cw[i]; flag = i } } *)
Fixpoint argmax (l : list Z) (i : nat) (m : Z) (flag : nat) : nat :=
  match l with
  | [] => flag
  | x :: r => if x >? m then argmax r (S i) x i else argmax r (S i) m flag
  end.

Fixpoint upd_sub (f : nat) (W : Z) (l : list Z) : list Z :=
  match l, f with
  | [], _ => []
  | x :: r, O => (x - W) :: r
  | x :: r, S f' => x :: upd_sub f' W r
  end.

(* next(): returns the chosen index and the new CurrentWeight vector *)
Definition swrr_next (W : Z) (ws cws : list Z) : nat * list Z :=
  match ws with
  | [] => (O, cws)              (* len==0: nil (unreachable from buildRing: total>0 needs a server) *)
  | [_] => (O, cws)             (* n==1: servers[0], CurrentWeight untouched *)
  | _ => let c' := addl cws ws in
         let f := argmax c' 0 0 0 in
         (f, upd_sub f W c')
  end.

Fixpoint swrr_build (k : nat) (W : Z) (ws cws : list Z) : list nat * list Z :=
  match k with
  | O => ([], cws)
  | S k' => let (f, c') := swrr_next W ws cws in
            let (sel, c'') := swrr_build k' W ws c' in (f :: sel, c'')
  end.

(* buildRing(): totalWeight = sum; ring.New(total) (nil when total<=0); fill with next() *)
Definition swrr_ring (ws : list Z) : list nat :=
  let W := sumZ ws in
  fst (swrr_build (Z.to_nat W) W ws (map (fun _ => 0) ws)).

Record wrr_state := { wrr_n : nat; wrr_ring : list nat; wrr_cur : nat }.

(* newWeightedRoundRobinSelector / UpdateServer (s is overwritten by a new selector): a freshly built state *)
Definition wrr_new (parsed : list (option Z)) : wrr_state :=
  let ws := map clamp_weight parsed in
  {| wrr_n := length ws; wrr_ring := swrr_ring ws; wrr_cur := 0 |}.

(* Select: "" when no servers or nil ring; else ring value, advance *)
Definition wrr_select (s : wrr_state) : option nat * wrr_state :=
  match wrr_n s, wrr_ring s with
  | O, _ => (None, s)
  | _, [] => (None, s)
  | _, d :: _ =>
      (Some (nth (wrr_cur s mod length (wrr_ring s)) (wrr_ring s) d),
       {| wrr_n := wrr_n s; wrr_ring := wrr_ring s;
          wrr_cur := S (wrr_cur s mod length (wrr_ring s)) |})
  end.

Inductive wrr_op := WUpdate (parsed : list (option Z)) | WSelect.

Definition wrr_step (s : wrr_state) (o : wrr_op) : wrr_state * list (option nat) :=
  match o with
  | WUpdate p => (wrr_new p, [])
  | WSelect => let (r, s') := wrr_select s in (s', [r])
  end.

Fixpoint wrr_run (s : wrr_state) (ops : list wrr_op) : wrr_state * list (option nat) :=
  match ops with
  | [] => (s, [])
  | o :: os => let (s', out) := wrr_step s o in
               let (s'', outs) := wrr_run s' os in (s'', out ++ outs)
  end.

Fixpoint wrr_selects (k : nat) (s : wrr_state) : list (option nat) * wrr_state :=
  match k with
  | O => ([], s)
  | S k' => let (r, s') := wrr_select s in
            let (rs, s'') := wrr_selects k' s' in (r :: rs, s'')
  end.
