From Coq Require Import List ZArith Arith Bool Lia.
From RPCX Require Import Select.Simple.
Import ListNotations.

Lemma rnd_select_member ss i o : rnd_select ss i = Some o -> In o ss.
Proof.
  unfold rnd_select. destruct ss as [|d l] eqn:E; [discriminate|]. rewrite <- E.
  intros H. injection H as <-. apply nth_In. apply Nat.mod_upper_bound. subst; discriminate.
Qed.

Lemma rnd_select_empty_iff ss i : rnd_select ss i = None <-> ss = [].
Proof. unfold rnd_select. destruct ss; split; (discriminate || reflexivity). Qed.

(* the candidates of the scan are ids of servers of the list with a non-NaN distance *)
Lemma geo_scan_in ss : forall minNum cands x,
  In x (geo_scan ss minNum cands) ->
  In x cands \/ exists g, In g ss /\ g_id g = x /\ g_dist g <> None.
Proof.
  induction ss as [|g r IH]; intros m c x H; cbn in H; [left; exact H|].
  destruct (g_dist g) as [d|] eqn:Ed.
  - destruct (d <? m)%Z.
    + apply IH in H. destruct H as [[<-|[]]|(g' & Hg & Hx & Hd)].
      * right. exists g. split; [left; reflexivity|]. split; [reflexivity|congruence].
      * right. exists g'. split; [right; exact Hg|auto].
    + destruct (d =? m)%Z.
      * apply IH in H. destruct H as [H|(g' & Hg & Hx & Hd)].
        -- apply in_app_iff in H. destruct H as [H|[<-|[]]]; [left; exact H|].
           right. exists g. split; [left; reflexivity|]. split; [reflexivity|congruence].
        -- right. exists g'. split; [right; exact Hg|auto].
      * apply IH in H. destruct H as [H|(g' & Hg & Hx & Hd)]; [left; exact H|].
        right. exists g'. split; [right; exact Hg|auto].
  - apply IH in H. destruct H as [H|(g' & Hg & Hx & Hd)]; [left; exact H|].
    right. exists g'. split; [right; exact Hg|auto].
Qed.

(* some candidate exists as soon as one server has a distance that is not NaN and is at most
   MaxFloat64 (every finite float is) *)
Lemma geo_scan_nonempty ss : forall minNum cands,
  (cands <> [] \/ exists g d, In g ss /\ g_dist g = Some d /\ (d <= minNum)%Z) ->
  geo_scan ss minNum cands <> [].
Proof.
  induction ss as [|g r IH]; intros m c H; cbn.
  - destruct H as [H|(g & d & [] & _)]. exact H.
  - destruct (g_dist g) as [d|] eqn:Ed.
    + destruct (Z.ltb_spec d m) as [Hlt|Hge].
      * apply IH. left. discriminate.
      * destruct (Z.eqb_spec d m) as [He|Hne].
        -- apply IH. left. destruct c; discriminate.
        -- apply IH. destruct H as [H|(g' & d' & [<-|Hg] & Hd & Hle)]; [left; exact H| |].
           ++ rewrite Ed in Hd. injection Hd as <-. lia.
           ++ right. exists g', d'. auto.
    + apply IH. destruct H as [H|(g' & d' & [<-|Hg] & Hd & Hle)]; [left; exact H|congruence|].
      right. exists g', d'. auto.
Qed.

Theorem geo_select_member ss pick o :
  geo_select (create_geo ss) pick = Some o ->
  exists g, In g ss /\ g_id g = o /\ geo_eligible g = true.
Proof.
  unfold geo_select. destruct (create_geo ss) as [|a l] eqn:E; [discriminate|]. rewrite <- E.
  assert (Hall : forall x, In x (geo_scan (create_geo ss) max_float_bits []) ->
                 exists g, In g ss /\ g_id g = x /\ geo_eligible g = true).
  { intros x Hx. apply geo_scan_in in Hx. destruct Hx as [[]|(g & Hg & Hx & _)].
    unfold create_geo in Hg. apply filter_In in Hg. exists g. tauto. }
  destruct (geo_scan (create_geo ss) max_float_bits []) as [|c1 [|c2 cs]] eqn:Es; [discriminate| |].
  - intros H. injection H as <-. apply Hall. left. reflexivity.
  - remember (c1 :: c2 :: cs) as cl eqn:Ecl. intros H.
    assert (Ho : o = nth (pick mod length cl) cl c1) by congruence. rewrite Ho.
    apply Hall. apply nth_In. apply Nat.mod_upper_bound. subst cl; discriminate.
Qed.

(* empty result exactly when no server is eligible - provided an eligible server's distance is an
   ordinary number (not NaN, at most MaxFloat64), which the correspondence check observes *)
Theorem geo_select_empty_iff ss pick :
  (forall g, In g ss -> geo_eligible g = true -> exists d, g_dist g = Some d /\ (d <= max_float_bits)%Z) ->
  (geo_select (create_geo ss) pick = None <-> create_geo ss = []).
Proof.
  intros Hd. unfold geo_select. split.
  - destruct (create_geo ss) as [|a l] eqn:E; [reflexivity|]. rewrite <- E.
    assert (Hne : geo_scan (create_geo ss) max_float_bits [] <> []).
    { apply geo_scan_nonempty. right.
      assert (Ha : In a (create_geo ss)) by (rewrite E; left; reflexivity).
      unfold create_geo in Ha. apply filter_In in Ha. destruct Ha as [Ha1 Ha2].
      destruct (Hd a Ha1 Ha2) as (d & Hd1 & Hd2). exists a, d.
      split; [rewrite E; left; reflexivity|auto]. }
    destruct (geo_scan (create_geo ss) max_float_bits []) as [|c1 [|c2 cs]]; [congruence|discriminate|discriminate].
  - intros ->. reflexivity.
Qed.
