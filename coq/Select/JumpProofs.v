(* The jump step never moves backwards (Flocq), hence the jump hash is monotone:
   jump key (n+1) is either jump key n or the new bucket n. *)
From Coq Require Import ZArith Reals Lia Lra.
From Flocq Require Import Core BinarySingleNaN.
From RPCX Require Import Select.Jump.
Open Scope Z_scope.

Notation fexp := (SpecFloat.fexp prec emax).
Notation rnd := (round radix2 fexp ZnearestE).

Lemma fexp_FLT : forall e, fexp e = FLT_exp (3 - emax - prec) prec e.
Proof. reflexivity. Qed.

Lemma int_format : forall z, Z.abs z < 2^53 -> generic_format radix2 fexp (IZR z).
Proof.
  intros z Hz.
  replace (IZR z) with (F2R (Float radix2 z 0)) by (unfold F2R; simpl; lra).
  apply generic_format_F2R. intros Hnz.
  unfold cexp. rewrite fexp_FLT. unfold FLT_exp.
  assert (mag radix2 (F2R (Float radix2 z 0)) <= 53)%Z.
  { apply mag_le_bpow.
    - apply F2R_neq_0. simpl. exact Hnz.
    - unfold F2R; simpl. rewrite Rmult_1_r. rewrite <- abs_IZR.
      change (bpow radix2 53) with (IZR (2^53)). apply IZR_lt. exact Hz. }
  unfold prec, emax. lia.
Qed.

Lemma rnd_int : forall z, Z.abs z < 2^53 -> rnd (IZR z) = IZR z.
Proof. intros. apply round_generic; [apply valid_rnd_N | now apply int_format]. Qed.

Lemma rnd_le : forall x y, (x <= y)%R -> (rnd x <= rnd y)%R.
Proof. intros. apply round_le;
  [ apply (fexp_correct prec emax Hprec) | apply valid_rnd_N | assumption ]. Qed.

Lemma bpow_emax_big : forall z, Z.abs z < 2^64 -> (Rabs (IZR z) < bpow radix2 emax)%R.
Proof.
  intros z Hz. rewrite <- abs_IZR.
  apply Rlt_trans with (IZR (2^64)). now apply IZR_lt.
  change (IZR (2^64)) with (bpow radix2 64). apply bpow_lt. unfold emax; lia.
Qed.

Lemma ofZ_correct : forall z, Z.abs z < 2^53 -> B2R (ofZ z) = IZR z /\ is_finite (ofZ z) = true.
Proof.
  intros z Hz. unfold ofZ.
  generalize (binary_normalize_correct prec emax Hprec Hmax mode_NE z 0 false).
  cbv zeta.
  replace (F2R (Float radix2 z 0)) with (IZR z) by (unfold F2R; simpl; lra).
  simpl round_mode. rewrite rnd_int by exact Hz.
  rewrite Rlt_bool_true. 2:{ apply bpow_emax_big. lia. }
  intros (H1 & H2 & _). split; assumption.
Qed.

Lemma ratio_ge_1 : forall d, 1 <= d <= 2^31 ->
  let r := fdiv (ofZ (2^31)) (ofZ d) in
  is_finite r = true /\ (1 <= B2R r <= IZR (2^31))%R.
Proof.
  intros d Hd r.
  destruct (ofZ_correct (2^31)) as [HT HTf]; [lia|].
  destruct (ofZ_correct d) as [HD HDf]; [lia|].
  assert (Hdpos : (1 <= IZR d)%R) by (apply IZR_le; lia).
  assert (Hdle : (IZR d <= IZR (2^31))%R) by (apply IZR_le; lia).
  assert (Hq1 : (1 <= IZR (2^31) / IZR d)%R).
  { apply Rmult_le_reg_r with (IZR d); [lra|]. field_simplify; lra. }
  assert (Hq2 : (IZR (2^31) / IZR d <= IZR (2^31))%R).
  { apply Rmult_le_reg_r with (IZR d); [lra|]. field_simplify; [|lra].
    assert (0 < IZR (2^31))%R by (apply IZR_lt; lia). nra. }
  assert (Hr1 : (1 <= rnd (IZR (2^31) / IZR d))%R).
  { rewrite <- (rnd_int 1) by lia. apply rnd_le; lra. }
  assert (Hr2 : (rnd (IZR (2^31) / IZR d) <= IZR (2^31))%R).
  { rewrite <- (rnd_int (2^31)) at 2 by lia. apply rnd_le; lra. }
  generalize (Bdiv_correct prec emax Hprec Hmax mode_NE (ofZ (2^31)) (ofZ d)).
  rewrite HT, HD. simpl round_mode.
  intros H. specialize (H ltac:(lra)).
  rewrite Rlt_bool_true in H.
  2:{ rewrite Rabs_pos_eq by lra. apply Rle_lt_trans with (IZR (2^31)); [exact Hr2|].
      change (IZR (2^31)) with (bpow radix2 31). apply bpow_lt. unfold emax; lia. }
  destruct H as (H1 & H2 & _).
  split. unfold r, fdiv. rewrite H2. exact HTf.
  unfold r, fdiv. rewrite H1. split; assumption.
Qed.

Theorem stepj_ge : forall b1 d, 1 <= b1 <= 2^31 -> 1 <= d <= 2^31 -> b1 <= stepj b1 d.
Proof.
  intros b1 d Hb Hd. unfold stepj.
  destruct (ratio_ge_1 d Hd) as (Hrf & Hr1 & Hr2). cbv zeta in *.
  set (r := fdiv (ofZ (2^31)) (ofZ d)) in *.
  destruct (ofZ_correct b1) as [HB HBf]; [lia|].
  assert (Hb1 : (1 <= IZR b1)%R) by (apply IZR_le; lia).
  assert (Hb2 : (IZR b1 <= IZR (2^31))%R) by (apply IZR_le; lia).
  assert (H31 : (0 < IZR (2^31))%R) by (apply IZR_lt; lia).
  assert (Hp1 : (IZR b1 <= IZR b1 * B2R r)%R) by nra.
  assert (Hp2 : (IZR b1 * B2R r <= IZR (2^62))%R).
  { replace (2^62) with (2^31 * 2^31) by reflexivity. rewrite mult_IZR. nra. }
  assert (Hm1 : (IZR b1 <= rnd (IZR b1 * B2R r))%R).
  { rewrite <- (rnd_int b1) at 1 by lia. apply rnd_le; lra. }
  assert (Hm2 : (rnd (IZR b1 * B2R r) <= IZR (2^62))%R).
  { assert (G : generic_format radix2 fexp (IZR (2^62))).
    { change (IZR (2^62)) with (bpow radix2 62). apply generic_format_bpow.
      rewrite fexp_FLT. unfold FLT_exp, prec, emax. lia. }
    apply Rle_trans with (rnd (IZR (2^62))); [apply rnd_le; lra|].
    rewrite round_generic; [lra | apply valid_rnd_N | exact G]. }
  generalize (Bmult_correct prec emax Hprec Hmax mode_NE (ofZ b1) r).
  rewrite HB. simpl round_mode.
  rewrite Rlt_bool_true.
  2:{ rewrite Rabs_pos_eq by lra. apply Rle_lt_trans with (IZR (2^62)); [exact Hm2|].
      change (IZR (2^62)) with (bpow radix2 62). apply bpow_lt. unfold emax; lia. }
  intros (H1 & _).
  apply le_IZR. rewrite Btrunc_correct. fold (fmul (ofZ b1) r). unfold fmul. rewrite H1.
  rewrite round_FIX_IZR.
  rewrite <- (Ztrunc_IZR b1) at 1. apply IZR_le. apply Ztrunc_le. exact Hm1.
  exact Hmax.
Qed.

(* ---- the loop ---- *)
Lemma lcg_range key : 0 <= lcg key < 2^64.
Proof. unfold lcg. apply Z.mod_pos_bound. lia. Qed.

Lemma d_range key : 0 <= key < 2^64 -> 1 <= Z.shiftr key 33 + 1 <= 2^31.
Proof.
  intros H. rewrite Z.shiftr_div_pow2 by lia.
  assert (0 <= key / 2^33 < 2^31).
  { split; [apply Z.div_pos; lia|]. apply Z.div_lt_upper_bound; lia. }
  lia.
Qed.

Lemma step_increases key j n : 0 <= j < n -> n <= 2^31 ->
  j + 1 <= stepj (j + 1) (Z.shiftr (lcg key) 33 + 1).
Proof.
  intros Hj Hn. apply stepj_ge; [lia|]. apply d_range. apply lcg_range.
Qed.

(* the result is a bucket: -1 <= b < n is preserved; with b >= 0 on entry from j >= 0 *)
Lemma jloop_range fuel : forall key b j n,
  b < n -> 0 <= j -> b < j -> n <= 2^31 ->
  let r := jloop fuel key b j n in b <= r < n.
Proof.
  induction fuel as [|fuel IH]; intros key b j n Hb Hj Hbj Hn; cbn [jloop]; [lia|].
  destruct (Z.ltb_spec j n) as [Hlt|Hge]; [|lia].
  pose proof (step_increases key j n ltac:(lia) Hn) as Hs.
  specialize (IH (lcg key) j (stepj (j + 1) (Z.shiftr (lcg key) 33 + 1)) n Hlt ltac:(lia) ltac:(lia) Hn).
  cbv zeta in IH. lia.
Qed.

(* enough fuel: any two fuels of at least n - j + 1 give the same result *)
Lemma jloop_fuel fuel1 : forall fuel2 key b j n,
  0 <= j -> n <= 2^31 -> n - j < Z.of_nat fuel1 -> n - j < Z.of_nat fuel2 ->
  jloop fuel1 key b j n = jloop fuel2 key b j n.
Proof.
  induction fuel1 as [|f1 IH]; intros fuel2 key b j n Hj Hn H1 H2.
  - destruct fuel2 as [|f2]; [reflexivity|]. cbn [jloop].
    destruct (Z.ltb_spec j n); [simpl in H1; lia|reflexivity].
  - destruct fuel2 as [|f2].
    + cbn [jloop]. destruct (Z.ltb_spec j n); [simpl in H2; lia|reflexivity].
    + cbn [jloop]. destruct (Z.ltb_spec j n) as [Hlt|Hge]; [|reflexivity].
      pose proof (step_increases key j n ltac:(lia) Hn) as Hs.
      apply IH; lia.
Qed.

(* monotonicity of the loop in the number of buckets *)
Lemma jloop_mono fuel : forall key b j n,
  0 <= j -> n + 1 <= 2^31 -> n + 1 - j < Z.of_nat fuel ->
  jloop fuel key b j (n + 1) = jloop fuel key b j n \/ jloop fuel key b j (n + 1) = n.
Proof.
  induction fuel as [|fuel IH]; intros key b j n Hj Hn Hf; cbn [jloop]; [left; reflexivity|].
  destruct (Z.ltb_spec j (n + 1)) as [H1|H1], (Z.ltb_spec j n) as [H2|H2]; try lia.
  - pose proof (step_increases key j n ltac:(lia) ltac:(lia)). apply IH; lia.
  - (* j = n: one more round for n+1 buckets, which then stops *)
    assert (j = n) by lia. subst j. right.
    pose proof (step_increases key n (n + 1) ltac:(lia) Hn) as Hs.
    destruct fuel as [|fuel']; [reflexivity|]. cbn [jloop].
    destruct (Z.ltb_spec (stepj (n + 1) (Z.shiftr (lcg key) 33 + 1)) (n + 1)); [lia|reflexivity].
Qed.

Theorem jump_range key n : 1 <= n <= 2^31 -> 0 <= jump key n < n.
Proof.
  intros Hn. unfold jump. cbn [jloop]. destruct (Z.ltb_spec 0 n) as [_|]; [|lia].
  pose proof (step_increases key 0 n ltac:(lia) ltac:(lia)) as Hs.
  pose proof (jloop_range (Z.to_nat n) (lcg key) 0 (stepj (0 + 1) (Z.shiftr (lcg key) 33 + 1)) n
                ltac:(lia) ltac:(lia) ltac:(lia) ltac:(lia)) as H. cbv zeta in H. lia.
Qed.

(* jump key (n+1) is jump key n or the new bucket n *)
Theorem jump_mono key n : 1 <= n -> n + 1 <= 2^31 ->
  jump key (n + 1) = jump key n \/ jump key (n + 1) = n.
Proof.
  intros H1 Hn. unfold jump.
  rewrite (jloop_fuel (S (Z.to_nat n)) (S (Z.to_nat (n + 1))) key (-1) 0 n) by lia.
  apply jloop_mono; lia.
Qed.
