From Coq Require Import List ZArith Arith Bool Lia Permutation.
From RPCX Require Import Select.Jump Select.JumpProofs Select.DoubleJump Select.DoubleJumpProofs.
Import ListNotations.
Close Scope Z_scope.
Open Scope nat_scope.

(* ---------- sorting ---------- *)
Lemma insert_sorted_in x y l : In y (insert_sorted x l) <-> y = x \/ In y l.
Proof.
  induction l as [|z l IH]; cbn; [intuition|].
  destruct (x <=? z); cbn; [intuition|]. rewrite IH. intuition.
Qed.

Lemma sort_nat_in y l : In y (sort_nat l) <-> In y l.
Proof.
  induction l as [|x l IH]; cbn; [tauto|]. rewrite insert_sorted_in, IH. intuition.
Qed.

Lemma insert_sorted_comm x y l : insert_sorted x (insert_sorted y l) = insert_sorted y (insert_sorted x l).
Proof.
  induction l as [|z l IH]; cbn.
  - destruct (Nat.leb_spec x y), (Nat.leb_spec y x); try reflexivity; try lia.
    assert (x = y) by lia. subst. reflexivity.
  - destruct (Nat.leb_spec y z) as [Hyz|Hyz], (Nat.leb_spec x z) as [Hxz|Hxz]; cbn.
    + destruct (Nat.leb_spec x y), (Nat.leb_spec y x); cbn;
        repeat match goal with |- context [?a <=? ?b] => destruct (Nat.leb_spec a b); try lia end;
        try reflexivity. assert (x = y) by lia. subst. reflexivity.
    + repeat match goal with |- context [?a <=? ?b] => destruct (Nat.leb_spec a b); try lia end. reflexivity.
    + repeat match goal with |- context [?a <=? ?b] => destruct (Nat.leb_spec a b); try lia end. reflexivity.
    + repeat match goal with |- context [?a <=? ?b] => destruct (Nat.leb_spec a b); try lia end.
      rewrite IH. reflexivity.
Qed.

Lemma sort_nat_perm l1 l2 : Permutation l1 l2 -> sort_nat l1 = sort_nat l2.
Proof.
  induction 1 as [|x l l' Hp IH|x y l|l l' l'' H1 IH1 H2 IH2].
  - reflexivity.
  - change (insert_sorted x (sort_nat l) = insert_sorted x (sort_nat l')). rewrite IH. reflexivity.
  - change (insert_sorted y (insert_sorted x (sort_nat l)) = insert_sorted x (insert_sorted y (sort_nat l))).
    apply insert_sorted_comm.
  - congruence.
Qed.

(* two selectors constructed from the same server set - in any two map iteration orders - are equal *)
Theorem ch_new_perm k1 k2 : Permutation k1 k2 -> ch_new k1 = ch_new k2.
Proof. intros H. unfold ch_new. rewrite (sort_nat_perm _ _ H). reflexivity. Qed.

(* ---------- selector invariant ---------- *)
Definition SelInv (s : chsel) : Prop :=
  Inv (ch_h s) /\ forall o, In o (ch_servers s) <-> In o (ca (ch_h s)).

Lemma fold_add_inv l : forall h, Inv h -> Inv (fold_left dj_add l h).
Proof. induction l as [|x l IH]; intros h Hi; cbn; [exact Hi|]. apply IH, inv_add, Hi. Qed.

Lemma fold_add_members l : forall h o, In o (ca (fold_left dj_add l h)) <-> In o (ca h) \/ In o l.
Proof.
  induction l as [|x l IH]; intros h o; cbn; [tauto|].
  rewrite IH, members_add. intuition.
Qed.

Definition rm_step (keys : list nat) (h : djhash) (k : nat) : djhash :=
  if existsb (Nat.eqb k) keys then h else dj_remove h k.

Lemma existsb_eqb_in k keys : existsb (Nat.eqb k) keys = true <-> In k keys.
Proof.
  rewrite existsb_exists. split.
  - intros (x & Hx & E). apply Nat.eqb_eq in E. subst. exact Hx.
  - intros H. exists k. split; [exact H|apply Nat.eqb_refl].
Qed.

Lemma fold_rm_inv keys l : forall h, Inv h -> Inv (fold_left (rm_step keys) l h).
Proof.
  induction l as [|x l IH]; intros h Hi; cbn; [exact Hi|]. apply IH. unfold rm_step.
  destruct (existsb (Nat.eqb x) keys); [exact Hi|apply inv_remove, Hi].
Qed.

Lemma fold_rm_members keys l : forall h o, Inv h ->
  (In o (ca (fold_left (rm_step keys) l h)) <-> In o (ca h) /\ (In o l -> In o keys)).
Proof.
  induction l as [|x l IH]; intros h o Hi; cbn; [tauto|].
  unfold rm_step at 2. destruct (existsb (Nat.eqb x) keys) eqn:E.
  - apply existsb_eqb_in in E. rewrite IH by exact Hi. split.
    + intros [H1 H2]. split; [exact H1|]. intros [<-|H]; auto.
    + intros [H1 H2]. split; auto.
  - assert (Hn : ~ In x keys) by (intros H; apply existsb_eqb_in in H; congruence).
    rewrite IH by (apply inv_remove, Hi). rewrite (members_remove _ _ _ Hi). split.
    + intros [[H1 H3] H2]. split; [exact H1|]. intros [<-|H]; [congruence|auto].
    + intros [H1 H2]. split; [split; [exact H1|]|auto]. intros ->. apply Hn, H2. left. reflexivity.
Qed.

Theorem ch_new_inv keys : SelInv (ch_new keys) /\ (forall o, In o (ch_servers (ch_new keys)) <-> In o keys).
Proof.
  unfold ch_new, SelInv. cbn [ch_h ch_servers]. split; [split|].
  - apply fold_add_inv, inv_new.
  - intros o. rewrite fold_add_members. cbn. tauto.
  - intros o. apply sort_nat_in.
Qed.

Theorem ch_update_inv s keys : SelInv s ->
  SelInv (ch_update s keys) /\ (forall o, In o (ch_servers (ch_update s keys)) <-> In o keys).
Proof.
  intros [Hi Hm]. unfold ch_update, SelInv. cbn [ch_h ch_servers].
  change (fun h k => if existsb (Nat.eqb k) keys then h else dj_remove h k) with (rm_step keys).
  assert (Hi1 : Inv (fold_left dj_add (sort_nat keys) (ch_h s))) by (apply fold_add_inv, Hi).
  split; [split|].
  - apply fold_rm_inv, Hi1.
  - intros o. rewrite (fold_rm_members _ _ _ _ Hi1), fold_add_members, sort_nat_in, <- Hm. tauto.
  - intros o. apply sort_nat_in.
Qed.

(* ---------- selection ---------- *)
Definition ch_small (s : chsel) : Prop :=
  small (S (length (la (ch_h s)))) /\ small (S (length (ca (ch_h s)))).

Theorem ch_select_member s key o : SelInv s -> ch_small s ->
  ch_select s key = Some o -> In o (ch_servers s).
Proof.
  intros [Hi Hm] [Hs1 Hs2]. unfold ch_select. destruct (ch_servers s) as [|a l] eqn:E; [discriminate|].
  rewrite <- E in *. intros H. apply Hm. eapply get_member; eauto using small_S.
Qed.

Theorem ch_select_empty_iff s key : SelInv s -> (ch_select s key = None <-> ch_servers s = []).
Proof.
  intros [Hi Hm]. unfold ch_select. split.
  - destruct (ch_servers s) as [|a l] eqn:E; [reflexivity|]. intros H. exfalso.
    refine (get_nonempty (ch_h s) key _ H). intros Hc.
    assert (In a (ca (ch_h s))) by (apply Hm; left; reflexivity). rewrite Hc in H0. exact H0.
  - intros ->. reflexivity.
Qed.

(* ---------- a re-announcement of the same set changes nothing ---------- *)
Lemma dj_add_member h x : Inv h -> In x (ca h) -> dj_add h x = h.
Proof.
  intros Hi Hx. unfold dj_add, loose_add, compact_add.
  destruct (find_idx_in oeqb oeqb_eq (Some x) (la h) (proj2 (inv_mem h Hi x) Hx)) as (i & ->).
  destruct (find_idx_in Nat.eqb Nat.eqb_eq x (ca h) Hx) as (j & ->).
  destruct h; reflexivity.
Qed.

Lemma fold_add_members_id l : forall h, Inv h -> (forall x, In x l -> In x (ca h)) -> fold_left dj_add l h = h.
Proof.
  induction l as [|x l IH]; intros h Hi Hl; cbn; [reflexivity|].
  rewrite dj_add_member by (auto; apply Hl; left; reflexivity). apply IH; [exact Hi|].
  intros y Hy. apply Hl. right. exact Hy.
Qed.

Lemma fold_rm_id keys l : forall h, (forall x, In x l -> In x keys) -> fold_left (rm_step keys) l h = h.
Proof.
  induction l as [|x l IH]; intros h Hl; cbn; [reflexivity|]. unfold rm_step at 2.
  rewrite (proj2 (existsb_eqb_in x keys) (Hl x (or_introl eq_refl))). apply IH.
  intros y Hy. apply Hl. right. exact Hy.
Qed.

Theorem ch_update_same_set s keys key : SelInv s ->
  (forall o, In o keys <-> In o (ch_servers s)) ->
  ch_select (ch_update s keys) key = ch_select s key.
Proof.
  intros [Hi Hm] Hsame. unfold ch_update, ch_select. cbn [ch_h ch_servers].
  change (fun h k => if existsb (Nat.eqb k) keys then h else dj_remove h k) with (rm_step keys).
  rewrite (fold_add_members_id (sort_nat keys) (ch_h s) Hi)
    by (intros x Hx; apply Hm, Hsame, sort_nat_in, Hx).
  rewrite fold_rm_id by (intros x Hx; apply Hsame, Hx).
  destruct (sort_nat keys) as [|a l] eqn:E1, (ch_servers s) as [|b l'] eqn:E2; try reflexivity.
  - exfalso. assert (In b keys) by (apply Hsame; left; reflexivity).
    apply sort_nat_in in H. rewrite E1 in H. exact H.
  - exfalso. assert (In a (sort_nat keys)) by (rewrite E1; left; reflexivity).
    apply sort_nat_in, Hsame in H. exact H.
Qed.

(* ---------- pure additions: a key keeps its server or moves to an added one ---------- *)
Lemma la_length_add h x : length (la (dj_add h x)) <= S (length (la h)).
Proof.
  unfold dj_add, loose_add. destruct (find_idx oeqb (Some x) (la h)); cbn [la]; [lia|].
  destruct (lf h); cbn [la]; [rewrite app_length; cbn; lia|rewrite set_nth_length; lia].
Qed.

Lemma ca_length_add h x : length (ca (dj_add h x)) <= S (length (ca h)).
Proof.
  unfold dj_add. destruct (loose_add (la h) (lf h) x). cbn [ca]. unfold compact_add.
  destruct (find_idx Nat.eqb x (ca h)); [lia|rewrite app_length; cbn; lia].
Qed.

Lemma fold_add_monotone l : forall h key, Inv h ->
  small (S (length (la h) + length l)) -> small (S (length (ca h) + length l)) ->
  dj_get (fold_left dj_add l h) key = dj_get h key \/
  exists x, dj_get (fold_left dj_add l h) key = Some x /\ In x l /\ ~ In x (ca h).
Proof.
  induction l as [|x l IH]; intros h key Hi Hs1 Hs2; cbn [fold_left]; [left; reflexivity|].
  unfold small in *. cbn [length] in Hs1, Hs2.
  pose proof (la_length_add h x). pose proof (ca_length_add h x).
  destruct (IH (dj_add h x) key (inv_add h x Hi) ltac:(unfold small; lia) ltac:(unfold small; lia)) as [E|(y & E & Hy & Hn)].
  - rewrite E. destruct (in_dec Nat.eq_dec x (ca h)) as [Hx|Hx].
    + left. rewrite dj_add_member by assumption. reflexivity.
    + destruct (add_monotone h x key Hi Hx ltac:(unfold small; lia) ltac:(unfold small; lia)) as [E2|E2].
      * left. exact E2.
      * right. exists x. split; [exact E2|]. split; [left; reflexivity|exact Hx].
  - right. exists y. split; [exact E|]. split; [right; exact Hy|].
    intros Hc. apply Hn. apply members_add. left. exact Hc.
Qed.

Theorem ch_update_additions_monotone s keys key : SelInv s ->
  (forall o, In o (ch_servers s) -> In o keys) ->
  small (S (length (la (ch_h s)) + length keys)) -> small (S (length (ca (ch_h s)) + length keys)) ->
  ch_servers s <> [] ->
  ch_select (ch_update s keys) key = ch_select s key \/
  exists x, ch_select (ch_update s keys) key = Some x /\ In x keys /\ ~ In x (ch_servers s).
Proof.
  intros [Hi Hm] Hsup Hs1 Hs2 Hne. unfold ch_update, ch_select. cbn [ch_h ch_servers].
  change (fun h k => if existsb (Nat.eqb k) keys then h else dj_remove h k) with (rm_step keys).
  rewrite fold_rm_id by exact Hsup.
  assert (Hins : forall x t, length (insert_sorted x t) = S (length t)).
  { intros x t. induction t as [|y t IHt]; cbn; [reflexivity|].
    destruct (x <=? y); cbn; [reflexivity|]. rewrite IHt. reflexivity. }
  assert (Hlen : length (sort_nat keys) = length keys).
  { clear - Hins. induction keys as [|x l IH]; [reflexivity|].
    change (sort_nat (x :: l)) with (insert_sorted x (sort_nat l)). rewrite Hins, IH. reflexivity. }
  pose proof (fold_add_monotone (sort_nat keys) (ch_h s) key Hi
                ltac:(rewrite Hlen; exact Hs1) ltac:(rewrite Hlen; exact Hs2)) as Hmono.
  destruct (ch_servers s) as [|b l'] eqn:E2; [congruence|].
  destruct (sort_nat keys) as [|a l] eqn:E1.
  { exfalso. assert (In b keys) by (apply Hsup; left; reflexivity).
    apply sort_nat_in in H. rewrite E1 in H. exact H. }
  destruct Hmono as [E|(x & E & Hx & Hn)].
  - left. exact E.
  - right. exists x. split; [exact E|]. split; [apply sort_nat_in; rewrite E1; exact Hx|].
    intros Hc. apply Hn, Hm, Hc.
Qed.
