From Coq Require Import List ZArith Arith Bool Lia Permutation.
From RPCX Require Import Select.Jump Select.JumpProofs Select.DoubleJump.
Import ListNotations.
Close Scope Z_scope.
Open Scope nat_scope.

(* ---------- list helpers ---------- *)
Lemma oeqb_eq a b : oeqb a b = true <-> a = b.
Proof.
  destruct a as [x|], b as [y|]; cbn; try (split; [discriminate|intros H; discriminate H]); try tauto.
  rewrite Nat.eqb_eq. split; [intros ->; reflexivity|intros H; injection H; auto].
Qed.

Section Find.
  Context {A : Type} (eqb : A -> A -> bool) (eqb_eq : forall a b, eqb a b = true <-> a = b).

  Lemma find_idx_some x l i : find_idx eqb x l = Some i -> nth_error l i = Some x.
  Proof.
    revert i. induction l as [|y l IH]; intros i; cbn; [discriminate|].
    destruct (eqb x y) eqn:E.
    - intros H. injection H as <-. apply eqb_eq in E. subst. reflexivity.
    - destruct (find_idx eqb x l) as [k|]; cbn; [|discriminate].
      intros H. injection H as <-. cbn. apply IH. reflexivity.
  Qed.

  Lemma find_idx_none x l : find_idx eqb x l = None -> ~ In x l.
  Proof.
    induction l as [|y l IH]; cbn; [tauto|].
    destruct (eqb x y) eqn:E; [discriminate|].
    destruct (find_idx eqb x l); cbn; [discriminate|].
    intros _ [H|H].
    - subst. rewrite (proj2 (eqb_eq x x) eq_refl) in E. discriminate.
    - apply (IH eq_refl H).
  Qed.

  Lemma find_idx_in x l : In x l -> exists i, find_idx eqb x l = Some i.
  Proof.
    intros H. destruct (find_idx eqb x l) as [i|] eqn:E; [eauto|].
    exfalso. exact (find_idx_none x l E H).
  Qed.
End Find.

Lemma set_nth_length {A} i (x : A) l : length (set_nth i x l) = length l.
Proof. revert i. induction l as [|y l IH]; intros [|i]; cbn; auto. Qed.

Lemma nth_set_nth_same {A} i (x d : A) l : i < length l -> nth i (set_nth i x l) d = x.
Proof. revert i. induction l as [|y l IH]; intros [|i] H; cbn in *; try lia; auto. apply IH. lia. Qed.

Lemma nth_set_nth_other {A} i j (x d : A) l : i <> j -> nth j (set_nth i x l) d = nth j l d.
Proof. revert i j. induction l as [|y l IH]; intros [|i] [|j] H; cbn; auto; try lia. Qed.

Lemma nth_error_nth {A} (l : list A) i x d : nth_error l i = Some x -> nth i l d = x /\ i < length l.
Proof.
  intros H. split; [apply nth_error_nth; exact H|]. apply nth_error_Some. rewrite H. discriminate.
Qed.

Lemma In_nth_opt (l : list (option nat)) o : In (Some o) l <-> exists i, nth i l None = Some o.
Proof.
  split.
  - intros H. destruct (In_nth l (Some o) None H) as (i & _ & Hi). eauto.
  - intros (i & Hi). destruct (Nat.lt_ge_cases i (length l)) as [H|H].
    + rewrite <- Hi. apply nth_In. exact H.
    + rewrite nth_overflow in Hi by lia. discriminate.
Qed.

(* ---------- the representation invariant ---------- *)
Record Inv (h : djhash) : Prop := {
  inv_nodup_c : NoDup (ca h);
  inv_mem : forall o, In (Some o) (la h) <-> In o (ca h);
  inv_uniq : forall i j o, nth i (la h) None = Some o -> nth j (la h) None = Some o -> i = j;
  inv_free : forall idx, In idx (lf h) -> idx < length (la h) /\ nth idx (la h) None = None;
  inv_nodup_f : NoDup (lf h) }.

Lemma inv_new : Inv dj_new.
Proof. constructor; cbn; try constructor; try tauto. intros i j o H. destruct i; discriminate. Qed.

(* ---------- compact holder ---------- *)
Lemma compact_add_in ca x o : In o (compact_add ca x) <-> In o ca \/ o = x.
Proof.
  unfold compact_add. destruct (find_idx Nat.eqb x ca) as [i|] eqn:E.
  - apply (find_idx_some Nat.eqb Nat.eqb_eq) in E. apply nth_error_In in E.
    split; [tauto|]. intros [H| ->]; assumption.
  - rewrite in_app_iff. cbn. intuition.
Qed.

Lemma compact_add_nodup ca x : NoDup ca -> NoDup (compact_add ca x).
Proof.
  intros H. unfold compact_add. destruct (find_idx Nat.eqb x ca) as [i|] eqn:E; [exact H|].
  apply (find_idx_none Nat.eqb Nat.eqb_eq) in E.
  apply (Permutation_NoDup (Permutation_cons_append ca x)). constructor; assumption.
Qed.

Lemma set_nth_app {A} (pre post : list A) y v :
  set_nth (length pre) v (pre ++ y :: post) = pre ++ v :: post.
Proof. induction pre as [|p pre IH]; cbn; [reflexivity|]. rewrite IH. reflexivity. Qed.

Lemma nth_last {A} (l : list A) z d : nth (length (l ++ [z]) - 1) (l ++ [z]) d = z.
Proof.
  rewrite app_length. cbn. replace (length l + 1 - 1) with (length l) by lia.
  rewrite app_nth2 by lia. rewrite Nat.sub_diag. reflexivity.
Qed.

Lemma compact_remove_perm ca x : NoDup ca ->
  (~ In x ca /\ compact_remove ca x = ca) \/
  (exists pre post, ca = pre ++ x :: post /\ Permutation (compact_remove ca x) (pre ++ post)).
Proof.
  intros Hnd. unfold compact_remove.
  destruct (find_idx Nat.eqb x ca) as [idx|] eqn:E.
  2:{ left. split; [apply (find_idx_none Nat.eqb Nat.eqb_eq); exact E|reflexivity]. }
  right. apply (find_idx_some Nat.eqb Nat.eqb_eq) in E.
  destruct (nth_error_split ca idx E) as (pre & post & -> & Hlen). subst idx.
  exists pre, post. split; [reflexivity|].
  destruct (exists_last (l := x :: post)) as (body & z & Hz); [discriminate|].
  destruct post as [|p post].
  - (* x is the last element *)
    replace (nth (length (pre ++ [x]) - 1) (pre ++ [x]) 0) with x by (symmetry; apply nth_last).
    rewrite set_nth_app, removelast_last, app_nil_r. reflexivity.
  - destruct (exists_last (l := p :: post)) as (post' & z' & Hz'); [discriminate|].
    rewrite Hz'.
    replace (pre ++ x :: post' ++ [z']) with ((pre ++ x :: post') ++ [z']) by (rewrite <- app_assoc; reflexivity).
    rewrite nth_last. rewrite <- app_assoc. cbn [app].
    rewrite set_nth_app.
    replace (pre ++ z' :: post' ++ [z']) with ((pre ++ z' :: post') ++ [z']) by (rewrite <- app_assoc; reflexivity).
    rewrite removelast_last.
    apply Permutation_app_head. apply Permutation_cons_append.
Qed.

Lemma compact_remove_in ca x o : NoDup ca -> (In o (compact_remove ca x) <-> In o ca /\ o <> x).
Proof.
  intros Hnd. destruct (compact_remove_perm ca x Hnd) as [[Hn ->]|(pre & post & -> & Hp)].
  - split; [intros H; split; [exact H|intros ->; contradiction]|tauto].
  - pose proof (NoDup_remove_2 _ _ _ Hnd) as Hx.
    split.
    + intros H. apply (Permutation_in _ Hp) in H. split.
      * apply in_app_iff in H. apply in_app_iff. cbn. tauto.
      * intros ->. contradiction.
    + intros [H Hne]. apply (Permutation_in _ (Permutation_sym Hp)).
      apply in_app_iff in H. apply in_app_iff. cbn in H. destruct H as [H|[H|H]]; [tauto|congruence|tauto].
Qed.

Lemma compact_remove_nodup ca x : NoDup ca -> NoDup (compact_remove ca x).
Proof.
  intros Hnd. destruct (compact_remove_perm ca x Hnd) as [[Hn ->]|(pre & post & -> & Hp)]; [exact Hnd|].
  apply (Permutation_NoDup (Permutation_sym Hp)). apply (NoDup_remove_1 _ _ _ Hnd).
Qed.


(* ---------- loose holder ---------- *)
Lemma find_some_nth la x idx :
  find_idx oeqb (Some x) la = Some idx -> nth idx la None = Some x /\ idx < length la.
Proof. intros E. apply (find_idx_some oeqb oeqb_eq) in E. apply nth_error_nth. exact E. Qed.

Lemma nth_app_single (la : list (option nat)) x i o :
  nth i (la ++ [Some x]) None = Some o -> (i < length la /\ nth i la None = Some o) \/ (i = length la /\ o = x).
Proof.
  intros H. destruct (Nat.lt_ge_cases i (length la)) as [Hl|Hl].
  - left. split; [exact Hl|]. rewrite app_nth1 in H by exact Hl. exact H.
  - right. rewrite app_nth2 in H by lia.
    destruct (i - length la) as [|k] eqn:Ek; cbn in H.
    + split; [lia|]. injection H; auto.
    + destruct k; discriminate.
Qed.

Theorem inv_add h x : Inv h -> Inv (dj_add h x).
Proof.
  intros [Hc Hm Hu Hf Hnf]. unfold dj_add, loose_add.
  destruct (find_idx oeqb (Some x) (la h)) as [i0|] eqn:El.
  - (* already present: nothing changes *)
    assert (Hin : In x (ca h)).
    { apply Hm. apply (find_idx_some oeqb oeqb_eq) in El. apply nth_error_In in El. exact El. }
    assert (Ec : compact_add (ca h) x = ca h).
    { unfold compact_add. destruct (find_idx_in Nat.eqb Nat.eqb_eq x (ca h) Hin) as (i & ->). reflexivity. }
    rewrite Ec. constructor; assumption.
  - assert (Hxl : ~ In (Some x) (la h)) by (apply (find_idx_none oeqb oeqb_eq); exact El).
    assert (Hxc : ~ In x (ca h)) by (intros H; apply Hxl, Hm, H).
    destruct (lf h) as [|idx rest] eqn:Elf.
    + (* append *)
      constructor; cbn [la lf ca].
      * apply compact_add_nodup, Hc.
      * intros o. rewrite in_app_iff, compact_add_in, <- Hm. cbn. split.
        -- intros [H|[H|[]]]; [left; exact H|right; injection H; auto].
        -- intros [H| ->]; [left; exact H|right; left; reflexivity].
      * intros i j o Hi Hj.
        apply nth_app_single in Hi. apply nth_app_single in Hj.
        destruct Hi as [[Hi1 Hi2]|[Hi1 Hi2]], Hj as [[Hj1 Hj2]|[Hj1 Hj2]].
        -- eapply Hu; eassumption.
        -- subst o. exfalso. apply Hxl. rewrite <- Hi2. apply nth_In. exact Hi1.
        -- subst o. exfalso. apply Hxl. rewrite <- Hj2. apply nth_In. exact Hj1.
        -- lia.
      * intros idx [].
      * constructor.
    + (* reuse the free slot idx *)
      destruct (Hf idx ltac:(left; reflexivity)) as [Hil Hin].
      assert (Hnd : ~ In idx rest /\ NoDup rest) by (inversion Hnf; auto).
      constructor; cbn [la lf ca].
      * apply compact_add_nodup, Hc.
      * intros o. rewrite compact_add_in, <- Hm, !In_nth_opt. split.
        -- intros (i & Hi). destruct (Nat.eq_dec idx i) as [->|Hne].
           ++ rewrite nth_set_nth_same in Hi by exact Hil. right. injection Hi; auto.
           ++ rewrite nth_set_nth_other in Hi by exact Hne. left. eauto.
        -- intros [(i & Hi)| ->].
           ++ exists i. rewrite nth_set_nth_other; [exact Hi|]. intros ->. congruence.
           ++ exists idx. apply nth_set_nth_same. exact Hil.
      * intros i j o Hi Hj.
        destruct (Nat.eq_dec idx i) as [Ei|Ei], (Nat.eq_dec idx j) as [Ej|Ej]; try congruence.
        -- subst i. rewrite nth_set_nth_same in Hi by exact Hil. injection Hi as <-.
           rewrite nth_set_nth_other in Hj by exact Ej. exfalso. apply Hxl. apply In_nth_opt. eauto.
        -- subst j. rewrite nth_set_nth_same in Hj by exact Hil. injection Hj as <-.
           rewrite nth_set_nth_other in Hi by exact Ei. exfalso. apply Hxl. apply In_nth_opt. eauto.
        -- rewrite nth_set_nth_other in Hi, Hj by assumption. eapply Hu; eassumption.
      * intros k Hk. rewrite set_nth_length.
        destruct (Hf k ltac:(right; exact Hk)) as [Hkl Hkn].
        split; [exact Hkl|]. rewrite nth_set_nth_other; [exact Hkn|]. intros ->. apply Hnd, Hk.
      * apply Hnd.
Qed.

Theorem inv_remove h x : Inv h -> Inv (dj_remove h x).
Proof.
  intros [Hc Hm Hu Hf Hnf]. unfold dj_remove, loose_remove.
  destruct (find_idx oeqb (Some x) (la h)) as [idx|] eqn:El.
  - destruct (find_some_nth _ _ _ El) as [Hnx Hil].
    constructor; cbn [la lf ca].
    + apply compact_remove_nodup, Hc.
    + intros o. rewrite (compact_remove_in _ _ _ Hc), <- Hm, !In_nth_opt. split.
      * intros (i & Hi). destruct (Nat.eq_dec idx i) as [->|Hne].
        -- rewrite nth_set_nth_same in Hi by exact Hil. discriminate.
        -- rewrite nth_set_nth_other in Hi by exact Hne. split; [eauto|].
           intros ->. apply Hne. eapply Hu; eassumption.
      * intros [(i & Hi) Hne]. exists i. rewrite nth_set_nth_other; [exact Hi|].
        intros ->. congruence.
    + intros i j o Hi Hj.
      destruct (Nat.eq_dec idx i) as [->|Ei]; [rewrite nth_set_nth_same in Hi by exact Hil; discriminate|].
      destruct (Nat.eq_dec idx j) as [->|Ej]; [rewrite nth_set_nth_same in Hj by exact Hil; discriminate|].
      rewrite nth_set_nth_other in Hi, Hj by assumption. eapply Hu; eassumption.
    + intros k [<-|Hk]; rewrite set_nth_length.
      * split; [exact Hil|]. apply nth_set_nth_same. exact Hil.
      * destruct (Hf k Hk) as [Hkl Hkn]. split; [exact Hkl|].
        rewrite nth_set_nth_other; [exact Hkn|]. intros ->. congruence.
    + constructor; [|exact Hnf]. intros Hk. destruct (Hf idx Hk) as [_ Hn]. congruence.
  - assert (Hxl : ~ In (Some x) (la h)) by (apply (find_idx_none oeqb oeqb_eq); exact El).
    assert (Hxc : ~ In x (ca h)) by (intros H; apply Hxl, Hm, H).
    assert (Ec : compact_remove (ca h) x = ca h).
    { destruct (compact_remove_perm (ca h) x Hc) as [[_ E]|(pre & post & E & _)]; [exact E|].
      exfalso. apply Hxc. rewrite E. apply in_app_iff. right. left. reflexivity. }
    rewrite Ec. constructor; assumption.
Qed.

(* membership after add / remove *)
Theorem members_add h x o : In o (ca (dj_add h x)) <-> In o (ca h) \/ o = x.
Proof.
  unfold dj_add. destruct (loose_add (la h) (lf h) x). cbn [ca]. apply compact_add_in.
Qed.

Theorem members_remove h x o : Inv h -> (In o (ca (dj_remove h x)) <-> In o (ca h) /\ o <> x).
Proof.
  intros Hi. unfold dj_remove. destruct (loose_remove (la h) (lf h) x). cbn [ca].
  apply compact_remove_in. apply Hi.
Qed.

(* ---------- Get ---------- *)
Definition loose_get (l : list (option nat)) (key : Z) : option nat :=
  match l with
  | [] => None
  | _ => nth (Z.to_nat (jump key (Z.of_nat (length l)))) l None
  end.
Definition compact_get (c : list nat) (key : Z) : option nat :=
  match c with
  | [] => None
  | d :: _ => Some (nth (Z.to_nat (jump (mul64 key 14313749767032793493) (Z.of_nat (length c)))) c d)
  end.

Lemma dj_get_split h key :
  dj_get h key = match loose_get (la h) key with Some o => Some o | None => compact_get (ca h) key end.
Proof. reflexivity. Qed.

Definition small (n : nat) : Prop := (Z.of_nat n < 2^31)%Z.

Lemma jump_idx key n : n <> 0 -> small n -> Z.to_nat (jump key (Z.of_nat n)) < n.
Proof.
  intros Hn Hs. unfold small in Hs. pose proof (jump_range key (Z.of_nat n) ltac:(lia)). lia.
Qed.

Lemma compact_get_in c key o : small (length c) -> compact_get c key = Some o -> In o c.
Proof.
  intros Hs. unfold compact_get. destruct c as [|d c'] eqn:E; [discriminate|]. rewrite <- E in *.
  intros H. injection H as <-. apply nth_In. apply jump_idx; [subst; discriminate|exact Hs].
Qed.

Lemma compact_get_nonempty c key : c <> [] -> compact_get c key <> None.
Proof. destruct c; [congruence|discriminate]. Qed.

Theorem get_member h key o :
  Inv h -> small (length (la h)) -> small (length (ca h)) -> dj_get h key = Some o -> In o (ca h).
Proof.
  intros Hi Hl Hc. rewrite dj_get_split.
  destruct (loose_get (la h) key) as [o'|] eqn:E.
  - intros H. injection H as <-. apply (inv_mem h Hi). unfold loose_get in E.
    destruct (la h) as [|a l'] eqn:El; [discriminate|]. rewrite <- El in *. rewrite <- E.
    apply nth_In. apply jump_idx; [rewrite El; discriminate|exact Hl].
  - apply compact_get_in. exact Hc.
Qed.

Theorem get_nonempty h key : ca h <> [] -> dj_get h key <> None.
Proof.
  intros Hne. rewrite dj_get_split. destruct (loose_get (la h) key); [discriminate|].
  apply compact_get_nonempty. exact Hne.
Qed.

Theorem get_empty h key : Inv h -> small (length (la h)) -> ca h = [] -> dj_get h key = None.
Proof.
  intros Hi Hs He. rewrite dj_get_split, He. cbn [compact_get].
  destruct (loose_get (la h) key) as [o|] eqn:E; [|reflexivity].
  exfalso. unfold loose_get in E. destruct (la h) as [|a l'] eqn:El; [discriminate|]. rewrite <- El in *.
  assert (In (Some o) (la h)).
  { rewrite <- E. apply nth_In. apply jump_idx; [rewrite El; discriminate|exact Hs]. }
  apply (inv_mem h Hi) in H. rewrite He in H. exact H.
Qed.

(* ---------- adding a new member moves a key only onto the new member ---------- *)
Lemma compact_get_nth c key d : c <> [] -> small (length c) ->
  compact_get c key = Some (nth (Z.to_nat (jump (mul64 key 14313749767032793493) (Z.of_nat (length c)))) c d).
Proof.
  intros Hne Hs. destruct c as [|d0 c']; [congruence|].
  unfold compact_get. f_equal. apply nth_indep. apply jump_idx; [discriminate|exact Hs].
Qed.

Lemma loose_get_nth l key : l <> [] ->
  loose_get l key = nth (Z.to_nat (jump key (Z.of_nat (length l)))) l None.
Proof. intros Hne. destruct l; [congruence|reflexivity]. Qed.

Lemma small_S n : small (S n) -> small n. Proof. unfold small. lia. Qed.

Lemma compact_get_add c x key : ~ In x c -> small (S (length c)) ->
  compact_get (c ++ [x]) key = compact_get c key \/ compact_get (c ++ [x]) key = Some x.
Proof.
  intros Hx Hs.
  assert (Hne' : c ++ [x] <> []) by (destruct c; discriminate).
  assert (Hs' : small (length (c ++ [x]))) by (rewrite app_length; cbn; replace (length c + 1) with (S (length c)) by lia; exact Hs).
  rewrite (compact_get_nth (c ++ [x]) key x Hne' Hs').
  destruct c as [|d c'] eqn:E.
  - right. cbn. destruct (Z.to_nat _) as [|[|k]]; reflexivity.
  - rewrite <- E in *. assert (Hne : c <> []) by (subst; discriminate).
    assert (Hl : length c <> 0) by (subst; discriminate).
    rewrite (compact_get_nth c key x Hne (small_S _ Hs)).
    rewrite app_length. cbn [length].
    replace (Z.of_nat (length c + 1)) with (Z.of_nat (length c) + 1)%Z by lia.
    unfold small in Hs.
    destruct (jump_mono (mul64 key 14313749767032793493) (Z.of_nat (length c)) ltac:(lia) ltac:(lia)) as [Hj|Hj];
      rewrite Hj.
    + left. f_equal. apply app_nth1. apply jump_idx; [exact Hl|unfold small; lia].
    + right. f_equal. rewrite Nat2Z.id. rewrite app_nth2 by lia. rewrite Nat.sub_diag. reflexivity.
Qed.

Theorem add_monotone h x key :
  Inv h -> ~ In x (ca h) -> small (S (length (la h))) -> small (S (length (ca h))) ->
  dj_get (dj_add h x) key = dj_get h key \/ dj_get (dj_add h x) key = Some x.
Proof.
  intros Hi Hx Hsl Hsc.
  assert (Hxl : ~ In (Some x) (la h)) by (intros H; apply Hx, (inv_mem h Hi), H).
  assert (Ec : compact_add (ca h) x = ca h ++ [x]).
  { unfold compact_add. destruct (find_idx Nat.eqb x (ca h)) as [i|] eqn:E; [|reflexivity].
    apply (find_idx_some Nat.eqb Nat.eqb_eq), nth_error_In in E. contradiction. }
  assert (El : find_idx oeqb (Some x) (la h) = None).
  { destruct (find_idx oeqb (Some x) (la h)) as [i|] eqn:E; [|reflexivity].
    apply (find_idx_some oeqb oeqb_eq), nth_error_In in E. contradiction. }
  rewrite !dj_get_split. unfold dj_add, loose_add. rewrite El, Ec.
  pose proof (compact_get_add (ca h) x key Hx Hsc) as Hcg.
  destruct (lf h) as [|idx rest] eqn:Elf; cbn [la ca].
  - (* appended to loose.a *)
    assert (Hne' : la h ++ [Some x] <> []) by (destruct (la h); discriminate).
    rewrite (loose_get_nth _ key Hne'). rewrite app_length. cbn [length].
    destruct (la h) as [|a0 l0] eqn:Ela.
    + (* empty hash *) right. cbn [length app Nat.add].
      assert (Hz : Z.to_nat (jump key (Z.of_nat 1)) = 0).
      { pose proof (jump_idx key 1 ltac:(lia) ltac:(unfold small; lia)). lia. }
      rewrite Hz. reflexivity.
    + rewrite <- Ela in *. assert (Hne : la h <> []) by (rewrite Ela; discriminate).
      assert (Hl : length (la h) <> 0) by (rewrite Ela; discriminate).
      rewrite (loose_get_nth _ key Hne).
      replace (Z.of_nat (length (la h) + 1)) with (Z.of_nat (length (la h)) + 1)%Z by lia.
      unfold small in Hsl.
      destruct (jump_mono key (Z.of_nat (length (la h))) ltac:(lia) ltac:(lia)) as [Hj|Hj]; rewrite Hj.
      * rewrite app_nth1 by (apply jump_idx; [exact Hl|unfold small; lia]).
        destruct (nth (Z.to_nat (jump key (Z.of_nat (length (la h))))) (la h) None); [left; reflexivity|exact Hcg].
      * right. rewrite Nat2Z.id, app_nth2 by lia. rewrite Nat.sub_diag. reflexivity.
  - (* a free slot is reused *)
    destruct (inv_free h Hi idx ltac:(rewrite Elf; left; reflexivity)) as [Hil Hin].
    assert (Hne : la h <> []) by (destruct (la h); [cbn in Hil; lia|discriminate]).
    assert (Hne' : set_nth idx (Some x) (la h) <> []).
    { intros E. assert (length (set_nth idx (Some x) (la h)) = 0) by (rewrite E; reflexivity).
      rewrite set_nth_length in H. lia. }
    rewrite (loose_get_nth _ key Hne'), (loose_get_nth _ key Hne), set_nth_length.
    set (j := Z.to_nat (jump key (Z.of_nat (length (la h))))).
    destruct (Nat.eq_dec idx j) as [Ej|Ej].
    + right. rewrite <- Ej. rewrite nth_set_nth_same by exact Hil. reflexivity.
    + rewrite nth_set_nth_other by exact Ej.
      destruct (nth j (la h) None); [left; reflexivity|exact Hcg].
Qed.
