(* Model of the fail-backup arm of xClient.Call (client/xclient.go, after the repair that keeps waiting
   for the first request when the backup cannot be sent).  The environment is the one of FailMode.v
   (per-server dial and call scripts, round-robin selector); two booleans script the timing: whether the
   first request is answered before the backup latency, and, once both requests are in flight, which of
   them completes first.  Definitions only. *)
From Coq Require Import List Arith Bool.
From RPCX Require Import XClient.FailMode.
Import ListNotations.

Record bscript := mkB {
  b_early : bool;            (* the first request completes before the backup latency has passed *)
  b_first_primary : bool }.  (* both in flight: the first request completes before the backup *)

(* xClient.Go: select a client; if that works the request is sent, and completes later with the
   server's next scripted outcome *)
Definition go_attempt (en : env) : env * option errk * option (option errk * option nat) :=
  let '(en1, _, cl, e) := select_client en in
  match e with
  | Some ee => (en1, Some ee, None)
  | None => let '(en2, cerr, rep) := wrap_call en1 cl in (en2, None, Some (cerr, rep))
  end.

(* what the caller gets from the attempt that decides the call *)
Definition decided (en : env) (a : option errk * option nat) : xres :=
  match a with
  | (None, r) => mkRes en None r
  | (Some e, _) => mkRes en (Some e) None
  end.

Definition xcall_backup (sc : bscript) (en : env) : xres :=
  let '(en0, k, _, err0) := select_client en in     (* the selection at the top of Call; its client is not used *)
  if (match err0 with Some ee => ctx_canceled ee | None => false end) then mkRes en0 err0 None
  else
    let '(en1, err1, a1) := go_attempt en0 in
    match a1, b_early sc with
    | Some a, true => decided en1 a
    | _, _ =>
      (* the timer fired *)
      let '(en2, err2, a2) := go_attempt en1 in
      let en3 := match err2 with
                 | Some ee => if uncover ee then remove_client en2 k else en2
                 | None => en2
                 end in
      match a1, a2 with
      | None, None => mkRes en3 err1 None
      | Some a, None => decided en3 a             (* the backup could not be sent: wait for the first request *)
      | None, Some b => decided en3 b
      | Some a, Some b => decided en3 (if b_first_primary sc then a else b)
      end
    end.
