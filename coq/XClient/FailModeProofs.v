From Coq Require Import List Arith Bool Lia.
From RPCX Require Import XClient.FailMode.
Import ListNotations.

Definition terminal (o : outcome) : Prop := o <> OLost.
Definition is_ok (o : outcome) : Prop := exists r, o = OOk r.

(* ---- the environment primitives only ever append to the attempt log ---- *)
Lemma get_client_attempts en k : attempts (fst (fst (get_client en k))) = attempts en.
Proof.
  unfold get_client. destruct k as [s|]; [|reflexivity].
  destruct (nth_error (servers en) s) as [sv|]; [|reflexivity].
  destruct (s_cached sv); [reflexivity|]. destruct (s_dials sv) as [|[|] rest]; reflexivity.
Qed.

Lemma get_client_some en k en' s e : get_client en k = (en', Some s, e) -> k = Some s /\ e = None.
Proof.
  unfold get_client. destruct k as [s0|]; [|discriminate].
  destruct (nth_error (servers en) s0) as [sv|]; [|discriminate].
  destruct (s_cached sv); [intros H; injection H as <- <- <-; auto|].
  destruct (s_dials sv) as [|[|] rest]; intros H; try discriminate; injection H as <- <- <-; auto.
Qed.

Lemma get_client_none en k en' e : get_client en k = (en', None, e) -> e <> None.
Proof.
  unfold get_client. destruct k as [s0|]; [|intros H; injection H as <- <-; discriminate].
  destruct (nth_error (servers en) s0) as [sv|]; [|intros H; injection H as <- <-; discriminate].
  destruct (s_cached sv); [discriminate|].
  destruct (s_dials sv) as [|[|] rest]; intros H; try discriminate; injection H as <- <-; discriminate.
Qed.

Lemma select_client_attempts en : attempts (fst (fst (fst (select_client en)))) = attempts en.
Proof.
  unfold select_client. destruct (length (servers en)) as [|n]; [reflexivity|].
  set (en1 := mkEnv _ _ _). pose proof (get_client_attempts en1 (Some (rr en mod S n))) as H.
  destruct (get_client en1 (Some (rr en mod S n))) as [[en2 cl] e]. cbn in *. exact H.
Qed.

Lemma select_client_some en en' k s e : select_client en = (en', k, Some s, e) -> k = Some s /\ e = None.
Proof.
  unfold select_client. destruct (length (servers en)) as [|n]; [discriminate|].
  set (en1 := mkEnv _ _ _). destruct (get_client en1 (Some (rr en mod S n))) as [[en2 cl] e2] eqn:E.
  intros H. injection H as E1 E2 E3 E4. subst. apply get_client_some in E. exact E.
Qed.

Lemma select_client_none en en' k e : select_client en = (en', k, None, e) -> e <> None.
Proof.
  unfold select_client. destruct (length (servers en)) as [|n]; [intros H; injection H as <- <- <-; discriminate|].
  set (en1 := mkEnv _ _ _). destruct (get_client en1 (Some (rr en mod S n))) as [[en2 cl] e2] eqn:E.
  intros H. injection H as E1 E2 E3 E4. subst. apply get_client_none in E. exact E.
Qed.

Lemma remove_client_attempts en k : attempts (remove_client en k) = attempts en.
Proof. destruct k; reflexivity. Qed.

(* wrapCall on a real client appends exactly one attempt, on that server *)
Lemma wrap_call_spec en s :
  let en' := fst (fst (wrap_call en (Some s))) in
  let cerr := snd (fst (wrap_call en (Some s))) in
  let rep := snd (wrap_call en (Some s)) in
  (attempts en' = attempts en /\ cerr = Some XUnavailable /\ rep = None) \/
  exists o, attempts en' = attempts en ++ [(s, o)] /\
            match o with
            | OOk r => cerr = None /\ rep = Some r
            | OSvc => cerr = Some XSvc /\ rep = None
            | OLost => cerr = Some XLost /\ rep = None
            | OCtx => cerr = Some XCtx /\ rep = None
            | ODeadline => cerr = Some XDeadline /\ rep = None
            end.
Proof.
  cbv zeta. unfold wrap_call. destruct (nth_error (servers en) s) as [sv|]; [|left; auto].
  right. set (o := match s_calls sv with o :: _ => o | [] => OOk 0 end).
  exists o. destruct o; cbn; auto.
Qed.

(* ---- the retry loop ---- *)
Record loop_post (over : bool) (iters : nat) (en : env) (k : option nat) (r : xres) : Prop := {
  lp_log : exists l, attempts (x_env r) = attempts en ++ l /\ length l <= iters /\
      (* success exactly when the attempt the call ends with succeeded, with that attempt's reply *)
      (x_err r = None -> exists pre s rp, l = pre ++ [(s, OOk rp)] /\ x_reply r = Some rp) /\
      (forall pre s rp, l = pre ++ [(s, OOk rp)] -> x_err r = None /\ x_reply r = Some rp) /\
      (* a service error, a cancelled context, an expired deadline (and a success) end the call *)
      (forall pre s o post, l = pre ++ (s, o) :: post -> terminal o -> post = []) /\
      (* fail-try: every attempt goes to the server chosen at the start *)
      (over = false -> forall s o, In (s, o) l -> k = Some s) }.

Lemma app_cons_last {A} (pre : list A) x post y : pre ++ x :: post = [y] -> pre = [] /\ x = y /\ post = [].
Proof.
  destruct pre as [|p pre]; cbn; intros H.
  - injection H as -> ->. auto.
  - injection H as _ H. destruct pre; discriminate.
Qed.

Lemma single_post over iters en k s o r :
  attempts (x_env r) = attempts en ++ [(s, o)] -> k = Some s -> terminal o ->
  (x_err r = None -> exists rp, o = OOk rp /\ x_reply r = Some rp) ->
  (forall rp, o = OOk rp -> x_err r = None /\ x_reply r = Some rp) ->
  loop_post over (S iters) en k r.
Proof.
  intros Ha Hk Ht H1 H2. constructor. exists [(s, o)].
  split; [exact Ha|]. split; [cbn; lia|].
  split.
  { intros Hn. destruct (H1 Hn) as (rp & -> & Hr). exists [], s, rp. auto. }
  split.
  { intros pre s0 rp H. symmetry in H. apply app_cons_last in H. destruct H as (_ & H & _).
    injection H as _ Ho. apply H2. symmetry. exact Ho. }
  split.
  { intros pre s0 o0 post H _. symmetry in H. apply app_cons_last in H. tauto. }
  intros _ s0 o0 [H|[]]. injection H as <- _. exact Hk.
Qed.

Lemma retry_loop_spec over iters : forall en k cl err e,
  (cl = None -> err <> None) -> (forall s, cl = Some s -> k = Some s) ->
  (iters = 0 -> err <> None) ->
  loop_post over iters en k (retry_loop over iters en k cl err e).
Proof.
  induction iters as [|iters IH]; intros en k cl err e Hcl Hk H0.
  - cbn [retry_loop]. constructor. exists []. rewrite app_nil_r. cbn.
    destruct err as [ee|]; [|exfalso; apply H0; reflexivity].
    split; [reflexivity|]. split; [lia|]. split; [discriminate|].
    split; [intros pre s rp H; destruct pre; discriminate|].
    split; [intros pre s o post H; destruct pre; discriminate|].
    intros _ s o [].
  - cbn [retry_loop].
    destruct cl as [s|].
    + (* an attempt is made *)
      pose proof (wrap_call_spec en s) as Hw. cbv zeta in Hw.
      destruct (wrap_call en (Some s)) as [[en1 cerr] rep]. cbn [fst snd] in Hw.
      destruct Hw as [(Ha & -> & ->)|(o & Ha & Ho)].
      * (* unreachable server index: ErrServerUnavailable, treated as a connection-class error *)
        cbn [ctx_canceled is_svc orb uncover].
        assert (Hrm : attempts (remove_client en1 k) = attempts en) by (rewrite remove_client_attempts; exact Ha).
        destruct over.
        -- destruct (select_client (remove_client en1 k)) as [[[en3 k'] cl'] e'] eqn:Es.
           pose proof (select_client_attempts (remove_client en1 k)) as Hs. rewrite Es in Hs. cbn in Hs.
           destruct (IH en3 k' cl' (Some XUnavailable) e') as [(l & L1 & L2 & L3 & L4 & L5 & L6)].
           { intros _. discriminate. }
           { intros s' ->. apply select_client_some in Es. tauto. }
           { intros _. discriminate. }
           constructor. exists l. rewrite L1, Hs, Hrm.
           split; [reflexivity|]. split; [lia|]. split; [exact L3|]. split; [exact L4|]. split; [exact L5|]. intros Hf; discriminate.
        -- destruct (get_client (remove_client en1 k) k) as [[en3 cl'] e'] eqn:Eg.
           pose proof (get_client_attempts (remove_client en1 k) k) as Hg. rewrite Eg in Hg. cbn in Hg.
           destruct (IH en3 k cl' (Some XUnavailable) e') as [(l & L1 & L2 & L3 & L4 & L5 & L6)].
           { intros _. discriminate. }
           { intros s' ->. apply get_client_some in Eg. tauto. }
           { intros _. discriminate. }
           constructor. exists l. rewrite L1, Hg, Hrm.
           split; [reflexivity|]. split; [lia|]. split; [exact L3|]. split; [exact L4|]. split; [exact L5|]. exact L6.
      * assert (Hks : k = Some s) by (apply Hk; reflexivity).
        destruct o as [r| | | |]; destruct Ho as [-> ->].
        -- (* success: return nil *)
           eapply single_post; [exact Ha|exact Hks|discriminate| |]; cbn.
           ++ intros _. exists r. auto.
           ++ intros rp H. injection H as ->. auto.
        -- (* service error: return it *)
           cbn [ctx_canceled is_svc orb].
           eapply single_post; [exact Ha|exact Hks|discriminate| |]; cbn; [discriminate|intros rp H; discriminate].
        -- (* connection lost: go round again *)
           cbn [ctx_canceled is_svc orb uncover].
           assert (Hrm : attempts (remove_client en1 k) = attempts en ++ [(s, OLost)]) by (rewrite remove_client_attempts; exact Ha).
           assert (Hfin : forall en3 k' cl' e', attempts en3 = attempts en ++ [(s, OLost)] ->
                     (forall s', cl' = Some s' -> k' = Some s') -> (over = false -> k' = k) ->
                     loop_post over (S iters) en k (retry_loop over iters en3 k' cl' (Some XLost) e')).
           { intros en3 k' cl' e' Hatt Hk' Hsame.
             destruct (IH en3 k' cl' (Some XLost) e') as [(l & L1 & L2 & L3 & L4 & L5 & L6)];
               [intros _; discriminate|exact Hk'|intros _; discriminate|].
             constructor. exists ((s, OLost) :: l). rewrite L1, Hatt, <- app_assoc. cbn [app length].
             split; [reflexivity|]. split; [lia|].
             split.
             { intros Hn. destruct (L3 Hn) as (pre & s0 & rp & -> & Hrp). exists ((s, OLost) :: pre), s0, rp. auto. }
             split.
             { intros pre s0 rp H. destruct pre as [|p pre]; cbn in H.
               - discriminate H.
               - injection H as _ H. eapply L4; eauto. }
             split.
             { intros pre s0 o post H Ht. destruct pre as [|p pre]; cbn in H.
               - injection H as _ Ho _. exfalso. apply Ht. symmetry. exact Ho.
               - injection H as _ H. eapply L5; eauto. }
             intros Ho s0 o [H|H]; [injection H as <- _; exact Hks|].
             rewrite <- (Hsame Ho). eapply L6; eauto. }
           destruct over.
           ++ destruct (select_client (remove_client en1 k)) as [[[en3 k'] cl'] e'] eqn:Es.
              pose proof (select_client_attempts (remove_client en1 k)) as Hs. rewrite Es in Hs. cbn in Hs.
              apply Hfin; [rewrite Hs; exact Hrm| |discriminate].
              intros s' ->. apply select_client_some in Es. tauto.
           ++ destruct (get_client (remove_client en1 k) k) as [[en3 cl'] e'] eqn:Eg.
              pose proof (get_client_attempts (remove_client en1 k) k) as Hg. rewrite Eg in Hg. cbn in Hg.
              apply Hfin; [rewrite Hg; exact Hrm| |reflexivity].
              intros s' ->. apply get_client_some in Eg. tauto.
        -- (* context cancelled: return it *)
           cbn [ctx_canceled is_svc orb].
           eapply single_post; [exact Ha|exact Hks|discriminate| |]; cbn; [discriminate|intros rp H; discriminate].
        -- (* deadline: return it *)
           cbn [ctx_canceled is_svc orb].
           eapply single_post; [exact Ha|exact Hks|discriminate| |]; cbn; [discriminate|intros rp H; discriminate].
    + (* no client in this round: no attempt; try to get one for the next round *)
      destruct err as [ee|]; [|exfalso; apply Hcl; reflexivity].
      set (en2 := if uncover ee then remove_client en k else en).
      assert (Hen2 : attempts en2 = attempts en) by (unfold en2; destruct (uncover ee); [apply remove_client_attempts|reflexivity]).
      destruct over.
      * destruct (select_client en2) as [[[en3 k'] cl'] e'] eqn:Es.
        pose proof (select_client_attempts en2) as Hs. rewrite Es in Hs. cbn in Hs.
        destruct (IH en3 k' cl' (Some ee) e') as [(l & L1 & L2 & L3 & L4 & L5 & L6)].
        { intros _. discriminate. }
        { intros s' ->. apply select_client_some in Es. tauto. }
        { intros _. discriminate. }
        constructor. exists l. rewrite L1, Hs, Hen2.
        split; [reflexivity|]. split; [lia|]. split; [exact L3|]. split; [exact L4|]. split; [exact L5|]. intros Hf; discriminate.
      * destruct (get_client en2 k) as [[en3 cl'] e'] eqn:Eg.
        pose proof (get_client_attempts en2 k) as Hg. rewrite Eg in Hg. cbn in Hg.
        destruct (IH en3 k cl' (Some ee) e') as [(l & L1 & L2 & L3 & L4 & L5 & L6)].
        { intros _. discriminate. }
        { intros s' ->. apply get_client_some in Eg. tauto. }
        { intros _. discriminate. }
        constructor. exists l. rewrite L1, Hg, Hen2.
        split; [reflexivity|]. split; [lia|]. split; [exact L3|]. split; [exact L4|]. split; [exact L5|]. exact L6.
Qed.

(* ---- the whole call ---- *)
Definition max_attempts (m : mode) (retries : nat) : nat :=
  match m with Failfast => 1 | _ => S retries end.

Theorem xcall_contract m retries en :
  let r := xcall m retries en in
  exists l, attempts (x_env r) = attempts en ++ l /\
    length l <= max_attempts m retries /\
    (x_err r = None -> exists pre s rp, l = pre ++ [(s, OOk rp)] /\ x_reply r = Some rp) /\
    (forall pre s rp, l = pre ++ [(s, OOk rp)] -> x_err r = None /\ x_reply r = Some rp) /\
    (forall pre s o post, l = pre ++ (s, o) :: post -> terminal o -> post = []) /\
    (m = Failtry -> forall s1 o1 s2 o2, In (s1, o1) l -> In (s2, o2) l -> s1 = s2).
Proof.
  cbv zeta. unfold xcall.
  destruct (select_client en) as [[[en1 k] cl] err] eqn:Es.
  pose proof (select_client_attempts en) as Hs. rewrite Es in Hs. cbn in Hs.
  assert (Hk : forall s, cl = Some s -> k = Some s).
  { intros s ->. apply select_client_some in Es. tauto. }
  assert (Hcl : cl = None -> err <> None).
  { intros ->. apply select_client_none in Es. exact Es. }
  assert (Hnone : forall r0 : xres, attempts (x_env r0) = attempts en -> x_err r0 <> None ->
            exists l, attempts (x_env r0) = attempts en ++ l /\ length l <= max_attempts m retries /\
              (x_err r0 = None -> exists pre s rp, l = pre ++ [(s, OOk rp)] /\ x_reply r0 = Some rp) /\
              (forall pre s rp, l = pre ++ [(s, OOk rp)] -> x_err r0 = None /\ x_reply r0 = Some rp) /\
              (forall pre s o post, l = pre ++ (s, o) :: post -> terminal o -> post = []) /\
              (m = Failtry -> forall s1 o1 s2 o2, In (s1, o1) l -> In (s2, o2) l -> s1 = s2)).
  { intros r0 Ha He. exists []. rewrite app_nil_r. split; [exact Ha|]. split; [cbn; lia|].
    split; [intros H; congruence|]. split; [intros pre s rp H; destruct pre; discriminate|].
    split; [intros pre s o post H; destruct pre; discriminate|]. intros _ s1 o1 s2 o2 []. }
  assert (Hloop : forall over, (over = false <-> m = Failtry) -> max_attempts m retries = S retries ->
            let r0 := retry_loop over (S retries) en1 k cl err None in
            exists l, attempts (x_env r0) = attempts en ++ l /\ length l <= max_attempts m retries /\
              (x_err r0 = None -> exists pre s rp, l = pre ++ [(s, OOk rp)] /\ x_reply r0 = Some rp) /\
              (forall pre s rp, l = pre ++ [(s, OOk rp)] -> x_err r0 = None /\ x_reply r0 = Some rp) /\
              (forall pre s o post, l = pre ++ (s, o) :: post -> terminal o -> post = []) /\
              (m = Failtry -> forall s1 o1 s2 o2, In (s1, o1) l -> In (s2, o2) l -> s1 = s2)).
  { intros over Hov Hmax. cbv zeta.
    destruct (retry_loop_spec over (S retries) en1 k cl err None Hcl Hk ltac:(discriminate))
      as [(l & L1 & L2 & L3 & L4 & L5 & L6)].
    exists l. rewrite L1, Hs. split; [reflexivity|]. split; [lia|]. split; [exact L3|]. split; [exact L4|].
    split; [exact L5|]. intros Hm s1 o1 s2 o2 H1 H2.
    pose proof (L6 (proj2 Hov Hm) s1 o1 H1) as E1. pose proof (L6 (proj2 Hov Hm) s2 o2 H2) as E2. congruence. }
  destruct err as [ee|].
  - destruct m.
    + apply Hnone; [exact Hs|discriminate].
    + destruct (ctx_canceled ee); [apply Hnone; [exact Hs|discriminate]|].
      apply (Hloop false); [tauto|reflexivity].
    + destruct (ctx_canceled ee); [apply Hnone; [exact Hs|discriminate]|].
      apply (Hloop true); [split; discriminate|reflexivity].
  - destruct m.
    + (* fail-fast: exactly one wrapCall *)
      destruct cl as [s|]; [|exfalso; apply Hcl; reflexivity].
      pose proof (wrap_call_spec en1 s) as Hw. cbv zeta in Hw.
      destruct (wrap_call en1 (Some s)) as [[en2 cerr] rep]. cbn [fst snd] in Hw.
      assert (H3 : attempts (match cerr with Some ee => if uncover ee then remove_client en2 k else en2 | None => en2 end)
                   = attempts en2).
      { destruct cerr as [ee|]; [|reflexivity]. destruct (uncover ee); [apply remove_client_attempts|reflexivity]. }
      remember (match cerr with Some ee => if uncover ee then remove_client en2 k else en2 | None => en2 end) as en3 eqn:E3.
      clear E3.
      destruct Hw as [(Ha & -> & ->)|(o & Ha & Ho)].
      * apply Hnone; [cbn; rewrite H3, Ha; exact Hs|discriminate].
      * exists [(s, o)]. cbn [x_env x_err x_reply]. rewrite H3, Ha, Hs.
        split; [reflexivity|]. split; [cbn; lia|].
        split.
        { intros Hn. destruct o; destruct Ho as [-> ->]; try discriminate. exists [], s, reply. auto. }
        split.
        { intros pre s0 rp H. symmetry in H. apply app_cons_last in H. destruct H as (_ & H & _).
          injection H as _ Heq. subst o. destruct Ho as [-> ->]. auto. }
        split.
        { intros pre s0 o0 post H _. symmetry in H. apply app_cons_last in H. tauto. }
        intros Hm; discriminate.
    + apply (Hloop false); [tauto|reflexivity].
    + apply (Hloop true); [split; discriminate|reflexivity].
Qed.

Lemma upd_length {A} i (f : A -> A) (l : list A) : length (upd i f l) = length l.
Proof. revert i. induction l as [|x l IH]; intros [|i]; cbn; auto. Qed.

(* fail-over asks the selector again: under round-robin with more than one server the next selection
   differs from the previous one *)
Theorem next_selection_differs en :
  2 <= length (servers en) ->
  let '(en1, k1, _, _) := select_client en in
  let '(_, k2, _, _) := select_client en1 in
  k1 <> k2 /\ k1 <> None /\ k2 <> None.
Proof.
  intros Hn. unfold select_client at 1.
  destruct (length (servers en)) as [|n] eqn:El; [lia|].
  set (k := rr en mod S n).
  set (en0 := mkEnv (servers en) (k + 1) (attempts en)).
  destruct (get_client en0 (Some k)) as [[en1 cl] e] eqn:Eg.
  assert (Hsrv : length (servers en1) = S n /\ rr en1 = k + 1).
  { unfold get_client in Eg. destruct (nth_error (servers en0) k) as [sv|]; [|injection Eg as <- _ _; cbn; auto].
    assert (Hu : forall f, length (upd k f (servers en0)) = S n).
    { intros f. rewrite upd_length. cbn. exact El. }
    destruct (s_cached sv); [injection Eg as <- _ _; cbn; auto|].
    destruct (s_dials sv) as [|[|] rest]; injection Eg as <- _ _; cbn; rewrite Hu; auto. }
  destruct Hsrv as [Hl Hr]. unfold select_client. rewrite Hl, Hr.
  destruct (get_client _ (Some ((k + 1) mod S n))) as [[en2 cl2] e2].
  assert (Hk : k < S n) by (apply Nat.mod_upper_bound; lia).
  assert (Hne : k <> (k + 1) mod S n).
  { destruct (Nat.eq_dec (k + 1) (S n)) as [E|E].
    - rewrite E, Nat.mod_same by lia. lia.
    - rewrite Nat.mod_small by lia. lia. }
  split; [|split; discriminate]. intros H. apply Hne. congruence.
Qed.
