(* Model of client/circuit_breaker.go ConsecCircuitBreaker and of its use in xclient
   (getCachedClient consults Ready before dialling, generateClient records Fail on a dial error).
   Time is an explicit integer carried by the events; nothing reads a clock.  Definitions only. *)
From Coq Require Import List ZArith Bool.
Import ListNotations.
Open Scope Z_scope.

Record breaker := mkB { b_failures : Z; b_last : Z }.   (* failures, lastFailureTime *)
Record bcfg := mkCfg { threshold : Z; window : Z }.

Definition b_init : breaker := mkB 0 0.

(* reset(): failures = 0; lastFailureTime = now *)
Definition b_reset (t : Z) : breaker := mkB 0 t.

(* ready(): if time.Since(last) > window { reset(); return true }; return failures < threshold *)
Definition b_ready (c : bcfg) (b : breaker) (t : Z) : bool * breaker :=
  if window c <? t - b_last b then (true, b_reset t)
  else (b_failures b <? threshold c, b).

Definition b_fail (b : breaker) (t : Z) : breaker := mkB (b_failures b + 1) t.
Definition b_success (t : Z) : breaker := b_reset t.

(* events of a timed trace.  ECall t ok t': Call at time t whose protected function (if it is
   invoked) finishes at t' >= t with success or failure (an error or a timeout). *)
Inductive bevent :=
  | EReady (t : Z)
  | ECall (t : Z) (ok : bool) (t' : Z)
  | EFail (t : Z)
  | ESuccess (t : Z).

(* observable outcome of an event *)
Inductive bout := OReady (r : bool) | OInvoked (ok : bool) | ORefused | ONone.

Definition b_step (c : bcfg) (b : breaker) (e : bevent) : breaker * bout :=
  match e with
  | EReady t => let (r, b') := b_ready c b t in (b', OReady r)
  | ECall t ok t' =>
      let (r, b') := b_ready c b t in
      if r then ((if ok then b_success t' else b_fail b' t'), OInvoked ok) else (b', ORefused)
  | EFail t => (b_fail b t, ONone)
  | ESuccess t => (b_success t, ONone)
  end.

Fixpoint b_run (c : bcfg) (b : breaker) (tr : list bevent) : breaker * list bout :=
  match tr with
  | [] => (b, [])
  | e :: r => let (b', o) := b_step c b e in let (b'', os) := b_run c b' r in (b'', o :: os)
  end.

(* ---- trace specification, written without the state machine: read the history backwards ---- *)
Definition ev_time (e : bevent) : Z :=
  match e with EReady t => t | ECall t _ _ => t | EFail t => t | ESuccess t => t end.

(* history = list of events, most recent FIRST.
   touch h: the time of the most recent failure, success or window-elapsed observation (0 if none).
   fails h: the number of failures since the most recent success or window-elapsed observation. *)
Fixpoint touch (c : bcfg) (h : list bevent) : Z :=
  match h with
  | [] => 0
  | EFail t :: _ => t
  | ESuccess t :: _ => t
  | EReady t :: r => if window c <? t - touch c r then t else touch c r
  | ECall t ok t' :: r =>
      if window c <? t - touch c r then t'                       (* observed an elapsed window: invoked *)
      else if fails_aux c r <? threshold c then t'               (* closed: invoked *)
      else touch c r                                             (* refused: nothing changes *)
  end
with fails_aux (c : bcfg) (h : list bevent) : Z :=
  match h with
  | [] => 0
  | EFail _ :: r => fails_aux c r + 1
  | ESuccess _ :: _ => 0
  | EReady t :: r => if window c <? t - touch c r then 0 else fails_aux c r
  | ECall t ok t' :: r =>
      if window c <? t - touch c r then (if ok then 0 else 1)
      else if fails_aux c r <? threshold c then (if ok then 0 else fails_aux c r + 1)
      else fails_aux c r
  end.

(* the breaker is open for an observation at time t after history h *)
Definition is_open (c : bcfg) (h : list bevent) (t : Z) : bool :=
  (threshold c <=? fails_aux c h) && (t - touch c h <=? window c).

(* ---- xclient wiring: one server's dial attempts ---- *)
(* EDial t ok: getCachedClient at time t; the dial (if attempted) succeeds or is refused.
   The breaker of a server is created by the first generateClient (LoadOrStore), so the very first
   attempt is never refused. *)
Record xb := mkXB { xb_exists : bool; xb_b : breaker }.
Inductive dial_out := Dialed (ok : bool) | DialSkipped.

Definition xb_dial (c : bcfg) (s : xb) (t : Z) (ok : bool) : xb * dial_out :=
  let (r, b') := if xb_exists s then b_ready c (xb_b s) t else (true, xb_b s) in
  if r then (mkXB true (if ok then b' else b_fail b' t), Dialed ok)
  else (mkXB true b', DialSkipped).

Fixpoint xb_run (c : bcfg) (s : xb) (tr : list (Z * bool)) : xb * list dial_out :=
  match tr with
  | [] => (s, [])
  | (t, ok) :: r => let (s', o) := xb_dial c s t ok in let (s'', os) := xb_run c s' r in (s'', o :: os)
  end.
