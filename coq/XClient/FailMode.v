(* Model of xClient.Call / xClient.SendRaw fail modes (client/xclient.go after the C10 repair),
   mirroring the switch arms and their err / e variables.  The environment is scripted per server:
   what each dial and each call attempt does.  Definitions only. *)
From Coq Require Import List Arith Bool.
Import ListNotations.

Inductive outcome := OOk (reply : nat) | OSvc | OLost | OCtx | ODeadline.
Inductive errk := XSvc | XLost | XCtx | XDeadline | XDial | XNoServer | XUnavailable.
Inductive mode := Failfast | Failtry | Failover.

Definition uncover (e : errk) : bool := match e with XSvc | XCtx | XDeadline => false | _ => true end.
Definition ctx_canceled (e : errk) : bool := match e with XCtx | XDeadline => true | _ => false end.
Definition is_svc (e : errk) : bool := match e with XSvc => true | _ => false end.

(* per-server script and cache state *)
Record srv := mkSrv { s_cached : bool; s_dials : list bool; s_calls : list outcome }.

Record env := mkEnv {
  servers : list srv;        (* indexed by server id *)
  rr : nat;                  (* round-robin cursor of the selector *)
  attempts : list (nat * outcome) }.  (* log: which server received a request and what it did *)

Fixpoint upd {A} (i : nat) (f : A -> A) (l : list A) : list A :=
  match l, i with
  | [], _ => []
  | x :: r, O => f x :: r
  | x :: r, S i' => x :: upd i' f r
  end.

(* getCachedClient(k): reuse a live cached client, else dial (consuming the next scripted dial) *)
Definition get_client (en : env) (k : option nat) : env * option nat * option errk :=
  match k with
  | None => (en, None, Some XDial)      (* the empty address: the dial fails *)
  | Some s =>
    match nth_error (servers en) s with
    | None => (en, None, Some XDial)
    | Some sv =>
      if s_cached sv then (en, Some s, None)
      else match s_dials sv with
           | false :: rest =>
               (mkEnv (upd s (fun x => mkSrv false rest (s_calls x)) (servers en)) (rr en) (attempts en), None, Some XDial)
           | true :: rest =>
               (mkEnv (upd s (fun x => mkSrv true rest (s_calls x)) (servers en)) (rr en) (attempts en), Some s, None)
           | [] =>
               (mkEnv (upd s (fun x => mkSrv true [] (s_calls x)) (servers en)) (rr en) (attempts en), Some s, None)
           end
    end
  end.

(* selectClient: round-robin Select, then getCachedClient *)
Definition select_client (en : env) : env * option nat * option nat * option errk :=
  match length (servers en) with
  | O => (en, None, None, Some XNoServer)
  | n =>
    let k := rr en mod n in
    let en1 := mkEnv (servers en) (k + 1) (attempts en) in
    let '(en2, cl, e) := get_client en1 (Some k) in
    (en2, Some k, cl, e)
  end.

(* wrapCall(client): nil client -> ErrServerUnavailable; else the server's next scripted outcome *)
Definition wrap_call (en : env) (cl : option nat) : env * option errk * option nat :=
  match cl with
  | None => (en, Some XUnavailable, None)
  | Some s =>
    match nth_error (servers en) s with
    | None => (en, Some XUnavailable, None)
    | Some sv =>
      let o := match s_calls sv with o :: _ => o | [] => OOk 0 end in
      let rest := tl (s_calls sv) in
      let alive := match o with OLost => false | _ => s_cached sv end in
      let en' := mkEnv (upd s (fun x => mkSrv alive (s_dials x) rest) (servers en)) (rr en) (attempts en ++ [(s, o)]) in
      match o with
      | OOk r => (en', None, Some r)
      | OSvc => (en', Some XSvc, None)
      | OLost => (en', Some XLost, None)
      | OCtx => (en', Some XCtx, None)
      | ODeadline => (en', Some XDeadline, None)
      end
    end
  end.

(* removeClient(k, client): drop the cached client *)
Definition remove_client (en : env) (k : option nat) : env :=
  match k with
  | Some s => mkEnv (upd s (fun x => mkSrv false (s_dials x) (s_calls x)) (servers en)) (rr en) (attempts en)
  | None => en
  end.

(* result of the whole call: None error = success *)
Record xres := mkRes { x_env : env; x_err : option errk; x_reply : option nat }.

(* the body of the Failtry / Failover loops: `retries` iterations remain (retries+1 in total) *)
Fixpoint retry_loop (over : bool) (iters : nat) (en : env) (k : option nat) (cl : option nat)
         (err e : option errk) : xres :=
  match iters with
  | O => mkRes en (match err with None => e | Some _ => err end) None     (* if err == nil { err = e }; return err *)
  | S iters' =>
    let '(en1, err1, fin) :=
      match cl with
      | Some _ =>
        let '(en1, cerr, rep) := wrap_call en cl in
        match cerr with
        | None => (en1, None, Some (mkRes en1 None rep))                              (* return nil *)
        | Some ce => if ctx_canceled ce || is_svc ce then (en1, cerr, Some (mkRes en1 cerr None))
                     else (en1, cerr, None)
        end
      | None => (en, err, None)
      end in
    match fin with
    | Some r => r
    | None =>
      let en2 := match err1 with
                 | Some ee => if uncover ee then remove_client en1 k else en1
                 | None => remove_client en1 k     (* uncoverError(nil) is true *)
                 end in
      if over then
        let '(en3, k', cl', e') := select_client en2 in
        retry_loop over iters' en3 k' cl' err1 e'
      else
        let '(en3, cl', e') := get_client en2 k in
        retry_loop over iters' en3 k cl' err1 e'
    end
  end.

Definition xcall (m : mode) (retries : nat) (en : env) : xres :=
  let '(en1, k, cl, err) := select_client en in
  let stop := match err with
              | Some ee => match m with Failfast => true | _ => ctx_canceled ee end
              | None => false
              end in
  if stop then mkRes en1 err None
  else match m with
       | Failfast =>
           let '(en2, cerr, rep) := wrap_call en1 cl in
           let en3 := match cerr with Some ee => if uncover ee then remove_client en2 k else en2 | None => en2 end in
           mkRes en3 cerr rep
       | Failtry => retry_loop false (S retries) en1 k cl err None
       | Failover => retry_loop true (S retries) en1 k cl err None
       end.
