From Coq Require Import List Arith Bool Lia.
From RPCX Require Import XClient.Discovery.
Import ListNotations.

Section DiscP.
Context {snapshot : Type}.
Notation wst := (@wstate snapshot).

(* the newest snapshot is always at the tail of the channel; when the channel is empty it has been applied *)
Definition DInv (s : wst) : Prop :=
  match lastpub s with
  | None => q s = []
  | Some u => (q s <> [] /\ last (q s) u = u /\ exists pre, q s = pre ++ [u]) \/ (q s = [] /\ applied s = Some u)
  end.

Lemma notify_tail (qu : list snapshot) x : exists pre, notify qu x = pre ++ [x].
Proof. unfold notify. destruct (length qu <? qcap); eauto. Qed.

Lemma dstep_inv (s : wst) e : DInv s -> DInv (dstep s e).
Proof.
  intros H. destruct e as [u|]; unfold DInv in *; cbn [dstep lastpub q applied].
  - destruct (notify_tail (q s) u) as (pre & E). left. rewrite E.
    split; [destruct pre; discriminate|]. split; [apply last_last|eauto].
  - destruct (q s) as [|x r] eqn:Eq; [rewrite Eq; exact H|]. cbn [lastpub q applied].
    destruct (lastpub s) as [u|]; [|discriminate].
    destruct H as [(Hne & Hl & pre & Hp)|[H _]]; [|discriminate].
    destruct r as [|y r'].
    + right. split; [reflexivity|]. destruct pre as [|p pre]; cbn in Hp.
      * injection Hp as ->. reflexivity.
      * injection Hp as _ Hp. destruct pre; discriminate.
    + left. destruct pre as [|p pre]; cbn in Hp; [discriminate|]. injection Hp as _ Hp.
      split; [discriminate|]. rewrite Hp. split; [apply last_last|eauto].
Qed.

Lemma drun_inv es : forall s : wst, DInv s -> DInv (drun s es).
Proof. induction es as [|e r IH]; intros s H; [exact H|]. cbn. apply IH, dstep_inv, H. Qed.

Lemma drain_inv fuel : forall s : wst, DInv s -> DInv (drain fuel s).
Proof.
  induction fuel as [|f IH]; intros s H; [exact H|]. cbn [drain].
  destruct (q s) eqn:E; [exact H|]. apply IH. apply dstep_inv. exact H.
Qed.

Lemma drain_empties fuel : forall s : wst, length (q s) <= fuel -> q (drain fuel s) = [].
Proof.
  induction fuel as [|f IH]; intros s H; cbn [drain].
  - destruct (q s); [reflexivity|cbn in H; lia].
  - destruct (q s) as [|x r] eqn:E; [exact E|]. apply IH. cbn [dstep]. rewrite E. cbn in *. lia.
Qed.

Lemma drain_lastpub fuel : forall s : wst, lastpub (drain fuel s) = lastpub s.
Proof.
  induction fuel as [|f IH]; intros s; [reflexivity|]. cbn [drain].
  destruct (q s) as [|x r] eqn:E; [reflexivity|]. rewrite IH. cbn [dstep]. rewrite E. reflexivity.
Qed.

(* For every interleaving of publications and of the watch loop's receptions: once updates stop and
   the loop has emptied its channel, what it applied last is the LAST published snapshot - an older
   update never overwrites a newer one, however many were dropped from a full channel on the way. *)
Theorem converges_to_last_published (es : list devent) (u0 : option snapshot) :
  let s := drun (mkW [] u0 None) es in
  forall u, lastpub s = Some u ->
  applied (drain (length (q s)) s) = Some u.
Proof.
  intros s u Hu.
  assert (Hi : DInv s) by (apply drun_inv; reflexivity).
  pose proof (drain_inv (length (q s)) s Hi) as Hd.
  pose proof (drain_empties (length (q s)) s (le_n _)) as He.
  unfold DInv in Hd. rewrite drain_lastpub, Hu in Hd.
  destruct Hd as [(Hne & _)|[_ Ha]]; [congruence|exact Ha].
Qed.

Lemma lastpub_drun es : forall (s : wst),
  lastpub (drun s es) = fold_left (fun acc e => match e with Pub u => Some u | Consume => acc end) es (lastpub s).
Proof.
  induction es as [|e r IH]; intros s; [reflexivity|]. cbn [drun fold_left]. unfold drun in IH. rewrite IH.
  destruct e as [u|]; cbn [dstep lastpub]; [reflexivity|]. destruct (q s); reflexivity.
Qed.
End DiscP.

(* ---- the filter ---- *)
Lemma filter_servers_spec group servers k p :
  In (k, p) (filter_servers group servers) <-> In (k, p) servers /\ keep_server group p = true.
Proof. unfold filter_servers. rewrite filter_In. cbn. tauto. Qed.

Lemma keep_server_spec group kvs :
  keep_server group (Some kvs) = true <->
  first_val K_STATE kvs <> Some V_INACTIVE /\ (group = 0 \/ In group (all_vals K_GROUP kvs)).
Proof.
  unfold keep_server. rewrite andb_true_iff, negb_true_iff, orb_true_iff, Nat.eqb_eq. split.
  - intros [H1 H2]. split.
    + intros E. rewrite E in H1. rewrite Nat.eqb_refl in H1. discriminate.
    + destruct H2 as [H2|H2]; [left; exact H2|right]. apply existsb_exists in H2.
      destruct H2 as (x & Hx & E). apply Nat.eqb_eq in E. subst. exact Hx.
  - intros [H1 H2]. split.
    + destruct (first_val K_STATE kvs) as [v|]; [|reflexivity]. apply Nat.eqb_neq. congruence.
    + destruct H2 as [H2|H2]; [left; exact H2|right]. apply existsb_exists. exists group.
      split; [exact H2|apply Nat.eqb_refl].
Qed.
