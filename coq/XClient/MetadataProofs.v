(* Proofs about server metadata as the client reads it (XClient/Metadata.v): the keep rule of
   filterByStateAndGroup on raw query strings, its refinement to the interned model of XClient/Discovery.v, and
   the weight createWeighted derives. *)
From Coq Require Import List NArith ZArith Bool Lia Arith.
From RPCX Require Import Wire.Bytes Server.Gateway Server.GatewayProofs XClient.Discovery Select.SWRR.
From RPCX Require Import XClient.Metadata.
Import ListNotations.

Lemma beq_refl : forall a, beq a a = true.
Proof. intro a. apply beq_eq. reflexivity. Qed.
Lemma beq_false : forall a b, beq a b = false <-> a <> b.
Proof.
  intros a b. split.
  - intros H E. apply beq_eq in E. rewrite E in H. discriminate.
  - intros H. destruct (beq a b) eqn:E; [apply beq_eq in E; contradiction|reflexivity].
Qed.

Lemma existsb_beq : forall g l, existsb (beq g) l = true <-> In g l.
Proof. intros g l. apply existsb_beq_in. Qed.

(* the keep rule, on the raw metadata string *)
Theorem keep_raw_spec : forall group meta,
  keep_raw group meta = true <->
  match parse_meta meta with
  | None => True
  | Some kvs => q_get S_STATE kvs <> S_INACTIVE /\ (group = [] \/ In group (q_all S_GROUP kvs))
  end.
Proof.
  intros group meta. unfold keep_raw. destruct (parse_meta meta) as [kvs|]; [|tauto].
  rewrite andb_true_iff, negb_true_iff, beq_false.
  destruct group as [|c g].
  - split; [intros [H _]; split; [exact H|left; reflexivity] | intros [H _]; split; [exact H|reflexivity]].
  - rewrite existsb_beq. split.
    + intros [H1 H2]. split; [exact H1|right; exact H2].
    + intros [H1 [H2|H2]]; [discriminate|split; assumption].
Qed.

Theorem filter_raw_spec : forall group servers k m,
  In (k, m) (filter_raw group servers) <-> In (k, m) servers /\ keep_raw group m = true.
Proof. intros. unfold filter_raw. rewrite filter_In. reflexivity. Qed.

(* refinement: interning the strings as numbers (any injective numbering that gives the reserved words the
   numbers Discovery.v uses) turns the raw rule into the model's rule *)
Section Intern.
Variable intern : bytes -> nat.
Hypothesis intern_inj : forall a b, intern a = intern b -> a = b.
Hypothesis intern_state : intern S_STATE = K_STATE.
Hypothesis intern_group : intern S_GROUP = K_GROUP.
Hypothesis intern_inactive : intern S_INACTIVE = V_INACTIVE.
Hypothesis intern_empty : intern [] = 0%nat.

Definition imap (kvs : list (bytes * bytes)) : list (nat * nat) :=
  map (fun kv => (intern (fst kv), intern (snd kv))) kvs.

Lemma eqb_intern : forall a b, Nat.eqb (intern a) (intern b) = beq a b.
Proof.
  intros a b. destruct (beq a b) eqn:E.
  - apply beq_eq in E. subst. apply Nat.eqb_refl.
  - apply Nat.eqb_neq. intro H. apply intern_inj in H. apply beq_false in E. contradiction.
Qed.

Lemma first_val_intern : forall k x kvs, x <> [] ->
  match first_val (intern k) (imap kvs) with Some v => Nat.eqb v (intern x) | None => false end = beq (q_get k kvs) x.
Proof.
  intros k x kvs Hx. induction kvs as [|[k' v] r IH]; cbn [imap map first_val q_get fst snd].
  - destruct x; [contradiction|reflexivity].
  - rewrite eqb_intern. destruct (beq k k'); [apply eqb_intern | exact IH].
Qed.

Lemma all_vals_intern : forall k g kvs,
  existsb (Nat.eqb (intern g)) (all_vals (intern k) (imap kvs)) = existsb (beq g) (q_all k kvs).
Proof.
  intros k g kvs. unfold all_vals, q_all. induction kvs as [|[k' v] r IH]; [reflexivity|].
  cbn [imap map filter fst snd]. rewrite eqb_intern. fold (imap r).
  destruct (beq k k'); cbn [map existsb snd]; [rewrite eqb_intern, IH; reflexivity | exact IH].
Qed.

Theorem keep_raw_refines : forall group meta,
  keep_raw group meta = keep_server (intern group) (option_map imap (parse_meta meta)).
Proof.
  intros group meta. unfold keep_raw, keep_server. destruct (parse_meta meta) as [kvs|]; [|reflexivity].
  cbn [option_map]. rewrite <- intern_state, <- intern_group, <- intern_inactive.
  rewrite first_val_intern by discriminate. f_equal.
  rewrite all_vals_intern. destruct group as [|c g].
  - rewrite intern_empty. reflexivity.
  - destruct (Nat.eqb (intern (c :: g)) 0) eqn:E; [|reflexivity].
    apply Nat.eqb_eq in E. rewrite <- intern_empty in E. apply intern_inj in E. discriminate.
Qed.
End Intern.

(* the weight of a server is the clamp of its weight field; it is never negative *)
Theorem weight_raw_is_clamped_field : forall meta, weight_raw meta = clamp_weight (weight_field meta).
Proof. intro meta. unfold weight_raw, clamp_weight. destruct (weight_field meta); reflexivity. Qed.

Theorem weight_raw_nonneg : forall meta, (0 <= weight_raw meta)%Z.
Proof.
  intro meta. unfold weight_raw. destruct (weight_field meta) as [w|]; [|lia].
  destruct (Z.ltb_spec w 0); lia.
Qed.

(* metadata that does not parse: the server is kept whatever the group, and weighs 1 *)
Theorem unparsable_metadata_is_left_alone : forall group meta,
  snd (parse_query meta) = true -> keep_raw group meta = true /\ weight_raw meta = 1%Z.
Proof.
  intros group meta H. unfold keep_raw, weight_raw, weight_field, parse_meta.
  destruct (parse_query meta) as [kvs err]. cbn [snd] in H. subst err. split; reflexivity.
Qed.
