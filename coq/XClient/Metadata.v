(* Server metadata as the client reads it: the query string a registry publishes for a server, parsed with
   url.ParseQuery (Server/Gateway.v), and what filterByStateAndGroup (client/xclient.go) and createWeighted
   (client/selector.go) make of it.  Definitions only. *)
From Coq Require Import List NArith ZArith Bool.
From RPCX Require Import Wire.Bytes Server.Gateway.
Import ListNotations.
Open Scope N_scope.

Definition S_STATE : bytes := [115;116;97;116;101].              (* "state" *)
Definition S_GROUP : bytes := [103;114;111;117;112].             (* "group" *)
Definition S_INACTIVE : bytes := [105;110;97;99;116;105;118;101]. (* "inactive" *)
Definition S_WEIGHT : bytes := [119;101;105;103;104;116].        (* "weight" *)

(* url.Values.Get: the first value of a key, "" when there is none *)
Fixpoint q_get (k : bytes) (kvs : list (bytes * bytes)) : bytes :=
  match kvs with
  | [] => []
  | (k', v) :: r => if beq k k' then v else q_get k r
  end.
(* values[k]: all values of a key, in order *)
Definition q_all (k : bytes) (kvs : list (bytes * bytes)) : list bytes :=
  map snd (filter (fun kv => beq k (fst kv)) kvs).

(* `if values, err := url.ParseQuery(v); err == nil { ... }`: metadata that does not parse is left alone *)
Definition parse_meta (s : bytes) : option (list (bytes * bytes)) :=
  let '(kvs, err) := parse_query s in if err then None else Some kvs.

(* filterByStateAndGroup keeps a server unless its state is "inactive" or, when the client has a group, none of
   its group values is that group *)
Definition keep_raw (group : bytes) (meta : bytes) : bool :=
  match parse_meta meta with
  | None => true
  | Some kvs =>
    negb (beq (q_get S_STATE kvs) S_INACTIVE) &&
    (match group with [] => true | _ => existsb (beq group) (q_all S_GROUP kvs) end)
  end.

Definition filter_raw (group : bytes) (servers : list (bytes * bytes)) : list (bytes * bytes) :=
  filter (fun s => keep_raw group (snd s)) servers.

(* createWeighted: weight 1 unless the metadata parses, has a non-empty weight value, and that value is an
   integer (strconv.Atoi); a negative weight counts as 0 *)
Definition weight_field (meta : bytes) : option Z :=
  match parse_meta meta with
  | None => None
  | Some kvs => match q_get S_WEIGHT kvs with [] => None | w => atoi w end
  end.
Definition weight_raw (meta : bytes) : Z :=
  match weight_field meta with
  | None => 1%Z
  | Some w => if (w <? 0)%Z then 0%Z else w
  end.
