(* Proofs about the fail-backup model (XClient/Backup.v). *)
From Coq Require Import List Arith Bool Lia.
From RPCX Require Import XClient.FailMode XClient.Backup.
Import ListNotations.

(* selecting and dialling never logs an attempt *)
Lemma get_client_attempts en k : attempts (fst (fst (get_client en k))) = attempts en.
Proof.
  unfold get_client. destruct k as [s|]; [|reflexivity].
  destruct (nth_error (servers en) s) as [sv|]; [|reflexivity].
  destruct (s_cached sv); [reflexivity|]. destruct (s_dials sv) as [|[|] rest]; reflexivity.
Qed.

Lemma select_client_attempts en :
  attempts (fst (fst (fst (select_client en)))) = attempts en.
Proof.
  unfold select_client. destruct (length (servers en)) eqn:E; [reflexivity|].
  set (k := rr en mod S n).
  pose proof (get_client_attempts (mkEnv (servers en) (k + 1) (attempts en)) (Some k)) as H.
  destruct (get_client (mkEnv (servers en) (k + 1) (attempts en)) (Some k)) as [[en2 cl] e]. exact H.
Qed.

(* a sent request logs exactly one attempt, with the outcome the caller is given; a request that cannot
   be sent (no client) fails without an attempt *)
Lemma wrap_call_log en cl :
  exists l, attempts (fst (fst (wrap_call en cl))) = attempts en ++ l /\ (length l <= 1)%nat /\
    (snd (fst (wrap_call en cl)) = None ->
     exists s r, l = [(s, OOk r)] /\ snd (wrap_call en cl) = Some r).
Proof.
  unfold wrap_call. destruct cl as [s|].
  2:{ exists []. cbn. rewrite app_nil_r. split; [reflexivity|]. split; [lia|discriminate]. }
  destruct (nth_error (servers en) s) as [sv|].
  2:{ exists []. cbn. rewrite app_nil_r. split; [reflexivity|]. split; [lia|discriminate]. }
  destruct (s_calls sv) as [|o rest]; cbn [tl].
  - exists [(s, OOk 0)]. cbn. split; [reflexivity|]. split; [lia|]. intros _. exists s, 0. split; reflexivity.
  - exists [(s, o)]. destruct o; cbn; (split; [reflexivity|]); (split; [lia|]); try discriminate.
    intros _. exists s, reply. split; reflexivity.
Qed.

(* what one xClient.Go does to the attempt log *)
Lemma go_attempt_log en :
  exists l, attempts (fst (fst (go_attempt en))) = attempts en ++ l /\ (length l <= 1)%nat /\
    match snd (go_attempt en) with
    | None => l = [] /\ snd (fst (go_attempt en)) <> None
    | Some (cerr, rep) => snd (fst (go_attempt en)) = None /\
                          (cerr = None -> exists s r, l = [(s, OOk r)] /\ rep = Some r)
    end.
Proof.
  unfold go_attempt. pose proof (select_client_attempts en) as Hs.
  destruct (select_client en) as [[[en1 k] cl] e]. cbn [fst] in Hs.
  destruct e as [ee|].
  - exists []. cbn. rewrite app_nil_r. split; [exact Hs|]. split; [lia|]. split; [reflexivity|discriminate].
  - destruct (wrap_call_log en1 cl) as (l & H1 & H2 & H3).
    destruct (wrap_call en1 cl) as [[en2 cerr] rep]. cbn [fst snd] in *.
    exists l. rewrite <- Hs. split; [exact H1|]. split; [exact H2|]. split; [reflexivity|exact H3].
Qed.

Lemma remove_client_attempts en k : attempts (remove_client en k) = attempts en.
Proof. destruct k; reflexivity. Qed.

(* the attempts a call adds to the log *)
Definition added (before after : env) : list (nat * outcome) :=
  skipn (length (attempts before)) (attempts after).

Lemma added_is before after l : attempts after = attempts before ++ l -> added before after = l.
Proof.
  intros H. unfold added. rewrite H, skipn_app, skipn_all, Nat.sub_diag. reflexivity.
Qed.

Lemma decided_env en a : x_env (decided en a) = en.
Proof. destruct a as [[e|] r]; reflexivity. Qed.

Lemma decided_ok en a : x_err (decided en a) = None -> fst a = None /\ x_reply (decided en a) = snd a.
Proof. destruct a as [[e|] r]; simpl; [discriminate|tauto]. Qed.

(* fail-backup: at most two requests are delivered; when the first is answered within the backup latency
   no second one is; success is reported only for a delivered request that was answered successfully, with
   that request's reply; and when nothing was delivered an error is returned *)
Theorem backup_contract sc en :
  let r := xcall_backup sc en in
  (length (added en (x_env r)) <= 2)%nat /\
  (b_early sc = true -> added en (x_env r) <> [] -> hd_error (added en (x_env r)) <> None ->
     (length (added en (x_env r)) <= 1)%nat \/ snd (go_attempt (fst (fst (fst (select_client en))))) = None) /\
  (x_err r = None -> exists s rep, In (s, OOk rep) (added en (x_env r)) /\ x_reply r = Some rep) /\
  (added en (x_env r) = [] -> x_err r <> None).
Proof.
  cbv zeta. unfold xcall_backup.
  pose proof (select_client_attempts en) as H0.
  destruct (select_client en) as [[[en0 k] cl0] err0]. cbn [fst] in H0 |- *.
  destruct (match err0 with Some ee => ctx_canceled ee | None => false end) eqn:Ec.
  { cbn [x_env x_err x_reply]. rewrite (added_is en en0 []) by (now rewrite app_nil_r).
    destruct err0 as [ee|]; [|discriminate].
    split; [simpl; lia|]. split; [intros _ H; congruence|]. split; [discriminate|intros _; discriminate]. }
  destruct (go_attempt_log en0) as (l1 & L1 & N1 & S1).
  destruct (go_attempt en0) as [[en1 err1] a1]. cbn [fst snd] in L1, S1 |- *.
  rewrite H0 in L1.
  assert (Hearly : forall a, a1 = Some a -> b_early sc = true ->
            let r := decided en1 a in
            (length (added en (x_env r)) <= 2)%nat /\
            (length (added en (x_env r)) <= 1)%nat /\
            (x_err r = None -> exists s rep, In (s, OOk rep) (added en (x_env r)) /\ x_reply r = Some rep) /\
            (added en (x_env r) = [] -> x_err r <> None)).
  { intros [cerr rep] -> _. cbv zeta. rewrite decided_env, (added_is en en1 l1 L1).
    destruct S1 as [_ S1]. split; [lia|]. split; [lia|]. split.
    - intros Hok. apply decided_ok in Hok as [Hc Hr]. cbn [fst snd] in Hc, Hr.
      destruct (S1 Hc) as (s & r & -> & ->). exists s, r. split; [now left|exact Hr].
    - intros ->. destruct cerr as [e|]; [discriminate|].
      destruct (S1 eq_refl) as (s & r & Hl & _). discriminate. }
  destruct a1 as [a|] eqn:Ea1; destruct (b_early sc) eqn:Eb.
  - destruct (Hearly a eq_refl eq_refl) as (B1 & B2 & B3 & B4).
    split; [exact B1|]. split; [intros _ _ _; now left|]. split; [exact B3|exact B4].
  - (* first request sent, not answered in time: the backup *)
    destruct (go_attempt_log en1) as (l2 & L2 & N2 & S2).
    destruct (go_attempt en1) as [[en2 err2] a2]. cbn [fst snd] in L2, S2 |- *.
    set (en3 := match err2 with Some ee => if uncover ee then remove_client en2 k else en2 | None => en2 end).
    assert (L3 : attempts en3 = attempts en ++ (l1 ++ l2)).
    { unfold en3. destruct err2 as [ee|]; [destruct (uncover ee)|]; rewrite ?remove_client_attempts, L2, L1, app_assoc; reflexivity. }
    destruct a as [c1 r1]. destruct S1 as [_ S1].
    destruct a2 as [[c2 r2]|].
    + destruct S2 as [_ S2]. rewrite decided_env, (added_is en en3 _ L3).
      split; [rewrite app_length; lia|]. split; [discriminate|]. split.
      * intros Hok. apply decided_ok in Hok as [Hc Hr].
        destruct (b_first_primary sc); cbn [fst snd] in Hc, Hr.
        -- destruct (S1 Hc) as (s & r & -> & ->). exists s, r. split; [now left|exact Hr].
        -- destruct (S2 Hc) as (s & r & -> & ->). exists s, r. split; [apply in_or_app; right; now left|exact Hr].
      * intros E. apply app_eq_nil in E as [-> ->].
        destruct (b_first_primary sc).
        -- destruct c1 as [e|]; [discriminate|]. destruct (S1 eq_refl) as (s & r & Hl & _). discriminate.
        -- destruct c2 as [e|]; [discriminate|]. destruct (S2 eq_refl) as (s & r & Hl & _). discriminate.
    + destruct S2 as [-> _]. rewrite decided_env, (added_is en en3 _ L3), app_nil_r.
      split; [lia|]. split; [discriminate|]. split.
      * intros Hok. apply decided_ok in Hok as [Hc Hr]. cbn [fst snd] in Hc, Hr.
        destruct (S1 Hc) as (s & r & -> & ->). exists s, r. split; [now left|exact Hr].
      * intros ->. destruct c1 as [e|]; [discriminate|]. destruct (S1 eq_refl) as (s & r & Hl & _). discriminate.
  - (* the first request could not be sent *)
    destruct S1 as [-> Herr1].
    destruct (go_attempt_log en1) as (l2 & L2 & N2 & S2).
    destruct (go_attempt en1) as [[en2 err2] a2]. cbn [fst snd] in L2, S2 |- *.
    set (en3 := match err2 with Some ee => if uncover ee then remove_client en2 k else en2 | None => en2 end).
    assert (L3 : attempts en3 = attempts en ++ l2).
    { unfold en3. destruct err2 as [ee|]; [destruct (uncover ee)|]; rewrite ?remove_client_attempts, L2, L1, app_nil_r; reflexivity. }
    destruct a2 as [[c2 r2]|].
    + destruct S2 as [_ S2]. rewrite decided_env, (added_is en en3 _ L3).
      split; [lia|]. split; [intros _ _ _; now right|]. split.
      * intros Hok. apply decided_ok in Hok as [Hc Hr]. cbn [fst snd] in Hc, Hr.
        destruct (S2 Hc) as (s & r & -> & ->). exists s, r. split; [now left|exact Hr].
      * intros ->. destruct c2 as [e|]; [discriminate|]. destruct (S2 eq_refl) as (s & r & Hl & _). discriminate.
    + destruct S2 as [-> _]. cbn [x_env x_err x_reply]. rewrite (added_is en en3 _ L3).
      split; [simpl; lia|]. split; [intros _ H; congruence|]. split; [intros H; congruence|intros _; exact Herr1].
  - destruct S1 as [-> Herr1].
    destruct (go_attempt_log en1) as (l2 & L2 & N2 & S2).
    destruct (go_attempt en1) as [[en2 err2] a2]. cbn [fst snd] in L2, S2 |- *.
    set (en3 := match err2 with Some ee => if uncover ee then remove_client en2 k else en2 | None => en2 end).
    assert (L3 : attempts en3 = attempts en ++ l2).
    { unfold en3. destruct err2 as [ee|]; [destruct (uncover ee)|]; rewrite ?remove_client_attempts, L2, L1, app_nil_r; reflexivity. }
    destruct a2 as [[c2 r2]|].
    + destruct S2 as [_ S2]. rewrite decided_env, (added_is en en3 _ L3).
      split; [lia|]. split; [discriminate|]. split.
      * intros Hok. apply decided_ok in Hok as [Hc Hr]. cbn [fst snd] in Hc, Hr.
        destruct (S2 Hc) as (s & r & -> & ->). exists s, r. split; [now left|exact Hr].
      * intros ->. destruct c2 as [e|]; [discriminate|]. destruct (S2 eq_refl) as (s & r & Hl & _). discriminate.
    + destruct S2 as [-> _]. cbn [x_env x_err x_reply]. rewrite (added_is en en3 _ L3).
      split; [simpl; lia|]. split; [discriminate|]. split; [intros H; congruence|intros _; exact Herr1].
Qed.

(* the second request is sent only when the first was not answered within the backup latency *)
Corollary backup_no_second_when_early sc en :
  b_early sc = true ->
  snd (go_attempt (fst (fst (fst (select_client en))))) <> None ->
  (length (added en (x_env (xcall_backup sc en))) <= 1)%nat.
Proof.
  intros He Hs. destruct (backup_contract sc en) as (H2 & H1 & _ & _). cbv zeta in *.
  destruct (added en (x_env (xcall_backup sc en))) as [|x l] eqn:E; [simpl; lia|].
  destruct (H1 He) as [H|H]; [discriminate|discriminate|exact H|contradiction].
Qed.

Corollary backup_contract_short sc en :
  let r := xcall_backup sc en in
  (length (added en (x_env r)) <= 2)%nat /\
  (x_err r = None -> exists s rep, In (s, OOk rep) (added en (x_env r)) /\ x_reply r = Some rep) /\
  (added en (x_env r) = [] -> x_err r <> None).
Proof.
  destruct (backup_contract sc en) as (H1 & _ & H3 & H4). exact (conj H1 (conj H3 H4)).
Qed.
