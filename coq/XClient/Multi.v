(* Model of xClient.Broadcast / Fork / Inform (client/xclient.go after the C17 repair): one
   goroutine per contacted server, a `done` channel consumed by the caller's loop, replyOnce.
   v = the outcome of each contacted server; order = the order in which the goroutines complete
   (a permutation of the server indices).  Definitions only. *)
From Coq Require Import List Arith Bool.
Import ListNotations.

Inductive mo := MOk (r : nat) | MFail (e : nat).   (* e: which error (service error, connection lost, slow/timeout) *)

Definition is_mok (o : mo) : bool := match o with MOk _ => true | MFail _ => false end.
Definition out_at (v : list mo) (i : nat) : mo := nth i v (MFail 0).

(* replyOnce: the reply of the first goroutine, in completion order, that succeeded *)
Fixpoint first_ok (v : list mo) (order : list nat) : option nat :=
  match order with
  | [] => None
  | i :: r => match out_at v i with MOk x => Some x | MFail _ => first_ok v r end
  end.

(* errors appended to the shared MultiError by the goroutines that have completed *)
Definition errs_of (v : list mo) (done : list nat) : list nat :=
  flat_map (fun i => match out_at v i with MOk _ => [] | MFail e => [e] end) done.

(* Broadcast: l := n; for each completion: l--; if l == 0 || !result { break }; return err.ErrorOrNil().
   Returns (errors reported (nil iff empty), reply). *)
Fixpoint bcast_loop (v : list mo) (order processed : list nat) (l : nat) : list nat :=
  match order with
  | [] => errs_of v processed
  | i :: r =>
    let processed' := processed ++ [i] in
    if Nat.eqb (l - 1) 0 || negb (is_mok (out_at v i)) then errs_of v processed'
    else bcast_loop v r processed' (l - 1)
  end.
Definition broadcast (v : list mo) (order : list nat) : list nat * option nat :=
  (bcast_loop v order [] (length v), first_ok v order).

(* Fork: for each completion: l--; if result { return nil }; if l == 0 { break }; return err.ErrorOrNil() *)
Fixpoint fork_loop (v : list mo) (order processed : list nat) (l : nat) : list nat :=
  match order with
  | [] => errs_of v processed
  | i :: r =>
    let processed' := processed ++ [i] in
    if is_mok (out_at v i) then []
    else if Nat.eqb (l - 1) 0 then errs_of v processed'
    else fork_loop v r processed' (l - 1)
  end.
Definition fork (v : list mo) (order : list nat) : list nat * option nat :=
  (fork_loop v order [] (length v), first_ok v order).

(* Inform: one receipt per contacted server, appended as each goroutine completes:
   (server, its own reply if it succeeded, its own error if it failed) *)
Definition receipt := (nat * option nat * option nat)%type.
Definition inform (v : list mo) (order : list nat) : list receipt * list nat * option nat :=
  (map (fun i => match out_at v i with
                 | MOk r => (i, Some r, None)
                 | MFail e => (i, None, Some e)
                 end) order,
   errs_of v order, first_ok v order).
