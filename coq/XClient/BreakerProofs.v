From Coq Require Import List ZArith Bool Lia.
From RPCX Require Import XClient.Breaker.
Import ListNotations.
Open Scope Z_scope.

Definition out_spec (c : bcfg) (h : list bevent) (e : bevent) : bout :=
  match e with
  | EReady t => OReady (negb (is_open c h t))
  | ECall t ok _ => if is_open c h t then ORefused else OInvoked ok
  | EFail _ | ESuccess _ => ONone
  end.

Definition st_of (c : bcfg) (h : list bevent) : breaker := mkB (fails_aux c h) (touch c h).

Lemma ready_is_not_open c h t :
  fst (b_ready c (st_of c h) t) = negb (is_open c h t).
Proof.
  unfold b_ready, is_open, st_of. cbn [b_last b_failures].
  destruct (Z.ltb_spec (window c) (t - touch c h)) as [H|H]; cbn [fst].
  - destruct (Z.leb_spec (t - touch c h) (window c)); [lia|]. rewrite andb_false_r. reflexivity.
  - destruct (Z.leb_spec (t - touch c h) (window c)); [|lia]. rewrite andb_true_r.
    destruct (Z.ltb_spec (fails_aux c h) (threshold c)), (Z.leb_spec (threshold c) (fails_aux c h)); try lia; reflexivity.
Qed.

(* one step of the machine from the state the history determines = the history extended *)
Lemma step_spec c h e :
  b_step c (st_of c h) e = (st_of c (e :: h), out_spec c h e).
Proof.
  pose proof (ready_is_not_open c h) as Hr.
  destruct e as [t|t ok t'|t|t]; cbn [b_step out_spec].
  - specialize (Hr t). unfold b_ready, st_of in *. cbn [b_last b_failures] in *.
    cbn [touch fails_aux].
    destruct (Z.ltb_spec (window c) (t - touch c h)); cbn [fst] in *; rewrite <- Hr; reflexivity.
  - specialize (Hr t). unfold b_ready, st_of, is_open in *. cbn [b_last b_failures] in *.
    cbn [touch fails_aux].
    destruct (Z.ltb_spec (window c) (t - touch c h)) as [H|H]; cbn [fst] in *.
    + destruct (Z.leb_spec (t - touch c h) (window c)); [lia|]. rewrite andb_false_r.
      destruct ok; reflexivity.
    + destruct (Z.leb_spec (t - touch c h) (window c)); [|lia]. rewrite andb_true_r in *.
      destruct (Z.ltb_spec (fails_aux c h) (threshold c)), (Z.leb_spec (threshold c) (fails_aux c h)); try lia.
      * destruct ok; reflexivity.
      * reflexivity.
  - reflexivity.
  - reflexivity.
Qed.

Fixpoint outs_spec (c : bcfg) (h : list bevent) (tr : list bevent) : list bout :=
  match tr with
  | [] => []
  | e :: r => out_spec c h e :: outs_spec c (e :: h) r
  end.

(* the machine computes exactly the trace specification, for every timed trace *)
Theorem run_spec c tr : forall h,
  b_run c (st_of c h) tr = (st_of c (rev tr ++ h), outs_spec c h tr).
Proof.
  induction tr as [|e r IH]; intros h; cbn [b_run rev app outs_spec]; [reflexivity|].
  rewrite step_spec, IH, <- app_assoc. reflexivity.
Qed.

Corollary run_spec_init c tr :
  b_run c b_init tr = (st_of c (rev tr), outs_spec c [] tr).
Proof. rewrite <- (app_nil_r (rev tr)). apply (run_spec c tr []). Qed.

(* ---- consequences ---- *)
(* a refused call changes nothing *)
Lemma refused_changes_nothing c h t ok t' :
  is_open c h t = true -> st_of c (ECall t ok t' :: h) = st_of c h.
Proof.
  unfold is_open, st_of. intros H. apply andb_true_iff in H. destruct H as [H1 H2].
  cbn [touch fails_aux].
  destruct (Z.ltb_spec (window c) (t - touch c h)); [lia|].
  destruct (Z.ltb_spec (fails_aux c h) (threshold c)); [lia|]. reflexivity.
Qed.

(* one success closes it *)
Lemma success_closes c h t0 t : 0 < threshold c -> is_open c (ESuccess t0 :: h) t = false.
Proof. intros H. unfold is_open. cbn [fails_aux]. destruct (Z.leb_spec (threshold c) 0); [lia|reflexivity]. Qed.

(* an elapsed window closes it *)
Lemma elapsed_window_closes c h t : window c < t - touch c h -> is_open c h t = false.
Proof.
  intros H. unfold is_open. destruct (Z.leb_spec (t - touch c h) (window c)); [lia|]. apply andb_false_r.
Qed.

(* k failures in a row (Fail events, or failing calls that were let through) raise the count by k *)
Lemma fails_after_failures c ts : forall h,
  fails_aux c (map EFail ts ++ h) = fails_aux c h + Z.of_nat (length ts).
Proof.
  induction ts as [|t ts IH]; intros h; cbn [map app fails_aux length]; [lia|]. rewrite IH. lia.
Qed.

(* threshold failures with no success in between, observed within the window of the last one: open *)
Theorem threshold_failures_open c h t0 ts t :
  threshold c <= Z.of_nat (length (t0 :: ts)) -> 0 <= fails_aux c h ->
  t - t0 <= window c ->
  is_open c (map EFail (t0 :: ts) ++ h) t = true.
Proof.
  intros Hk Hh Ht. unfold is_open. rewrite fails_after_failures. cbn [map app touch].
  apply andb_true_iff. split; [apply Z.leb_le; lia|apply Z.leb_le; exact Ht].
Qed.

Lemma fails_nonneg c h : 0 <= fails_aux c h.
Proof.
  induction h as [|e h IH]; cbn [fails_aux]; [lia|].
  destruct e as [t|t ok t'|t|t]; try lia.
  - destruct (window c <? t - touch c h); lia.
  - destruct (window c <? t - touch c h); [destruct ok; lia|].
    destruct (fails_aux c h <? threshold c); [destruct ok; lia|lia].
Qed.

(* ---- xclient: a server that keeps refusing the dial is left alone while the breaker is open ---- *)
Theorem open_breaker_skips_dial c s t ok :
  xb_exists s = true -> threshold c <= b_failures (xb_b s) -> t - b_last (xb_b s) <= window c ->
  xb_dial c s t ok = (s, DialSkipped).
Proof.
  intros He Hf Ht. unfold xb_dial, b_ready. rewrite He.
  destruct (Z.ltb_spec (window c) (t - b_last (xb_b s))); [lia|].
  destruct (Z.ltb_spec (b_failures (xb_b s)) (threshold c)); [lia|].
  destruct s; cbn in *; subst; reflexivity.
Qed.

Theorem refused_dial_counts c s t :
  (xb_exists s = false \/ b_failures (xb_b s) < threshold c \/ window c < t - b_last (xb_b s)) ->
  exists s', xb_dial c s t false = (s', Dialed false) /\ xb_exists s' = true /\ b_last (xb_b s') = t /\
             (xb_exists s = true -> t - b_last (xb_b s) <= window c ->
              b_failures (xb_b s') = b_failures (xb_b s) + 1).
Proof.
  intros H. unfold xb_dial, b_ready.
  destruct (xb_exists s) eqn:He.
  - destruct (Z.ltb_spec (window c) (t - b_last (xb_b s))) as [Hw|Hw].
    + eexists. split; [reflexivity|]. cbn [xb_exists xb_b b_fail b_last b_failures b_reset].
      split; [reflexivity|]. split; [reflexivity|]. intros _ Hle. lia.
    + destruct (Z.ltb_spec (b_failures (xb_b s)) (threshold c)) as [Hf|Hf].
      * eexists. split; [reflexivity|]. cbn [xb_exists xb_b b_fail b_last b_failures].
        split; [reflexivity|]. split; [reflexivity|]. intros _ _. reflexivity.
      * destruct H as [H|[H|H]]; [discriminate|lia|lia].
  - eexists. split; [reflexivity|]. cbn [xb_exists xb_b b_fail b_last b_failures].
    split; [reflexivity|]. split; [reflexivity|]. intros Hc. discriminate.
Qed.
