(* Model of discovery updates reaching a client (client/multiple_servers_discovery.go after the C14
   repair, xClient.watch, filterByStateAndGroup).  A snapshot is a complete server list.
   Definitions only. *)
From Coq Require Import List Arith Bool.
Import ListNotations.

Section Disc.
Context {snapshot : Type}.

Definition qcap : nat := 10.   (* WatchService: make(chan []*KVPair, 10) *)

Record wstate := mkW {
  q : list snapshot;            (* the watcher's channel, oldest first *)
  applied : option snapshot;    (* the snapshot the watch loop applied last *)
  lastpub : option snapshot }.  (* ghost: the last published snapshot *)

(* notifyWatcher: never blocks; when the channel is full the oldest queued snapshot is dropped *)
Definition notify (qu : list snapshot) (x : snapshot) : list snapshot :=
  if length qu <? qcap then qu ++ [x] else tl qu ++ [x].

Inductive devent := Pub (u : snapshot) | Consume.

Definition dstep (s : wstate) (e : devent) : wstate :=
  match e with
  | Pub u => mkW (notify (q s) u) (applied s) (Some u)
  | Consume => match q s with
               | [] => s
               | x :: r => mkW r (Some x) (lastpub s)
               end
  end.

Definition drun (s : wstate) (es : list devent) : wstate := fold_left dstep es s.

(* the watch loop keeps consuming until the channel is empty *)
Fixpoint drain (fuel : nat) (s : wstate) : wstate :=
  match fuel with
  | O => s
  | S f => match q s with [] => s | _ => drain f (dstep s Consume) end
  end.
End Disc.

(* ---- filterByStateAndGroup over parsed metadata ---- *)
(* url.ParseQuery result: None = parse error; Some = (key, value) pairs in order of appearance *)
Definition parsed := option (list (nat * nat)).   (* keys/values interned as numbers *)
Definition K_STATE := 1.
Definition K_GROUP := 2.
Definition V_INACTIVE := 1.

Fixpoint first_val (k : nat) (kvs : list (nat * nat)) : option nat :=
  match kvs with
  | [] => None
  | (k', v) :: r => if Nat.eqb k k' then Some v else first_val k r
  end.
Definition all_vals (k : nat) (kvs : list (nat * nat)) : list nat :=
  map snd (filter (fun kv => Nat.eqb k (fst kv)) kvs).

(* group = 0 is the empty group setting *)
Definition keep_server (group : nat) (p : parsed) : bool :=
  match p with
  | None => true      (* unparsable metadata: the entry is left alone *)
  | Some kvs =>
    negb (match first_val K_STATE kvs with Some v => Nat.eqb v V_INACTIVE | None => false end) &&
    (Nat.eqb group 0 || existsb (Nat.eqb group) (all_vals K_GROUP kvs))
  end.

Definition filter_servers (group : nat) (servers : list (nat * parsed)) : list (nat * parsed) :=
  filter (fun s => keep_server group (snd s)) servers.
