From Coq Require Import List Arith Bool Lia Permutation.
From RPCX Require Import XClient.Multi.
Import ListNotations.

Definition all_ok (v : list mo) : Prop := forall i, i < length v -> is_mok (out_at v i) = true.
Definition some_ok (v : list mo) : Prop := exists i, i < length v /\ is_mok (out_at v i) = true.
Definition is_order (v : list mo) (order : list nat) : Prop := Permutation order (seq 0 (length v)).

Lemma order_in v order i : is_order v order -> (In i order <-> i < length v).
Proof.
  intros H. split; intros Hi.
  - apply (Permutation_in _ H) in Hi. apply in_seq in Hi. lia.
  - apply (Permutation_in _ (Permutation_sym H)). apply in_seq. lia.
Qed.

Lemma errs_of_nil_iff v done : errs_of v done = [] <-> forall i, In i done -> is_mok (out_at v i) = true.
Proof.
  induction done as [|i r IH]; cbn; [split; [intros _ i []|reflexivity]|].
  destruct (out_at v i) eqn:E; cbn.
  - rewrite IH. split; [intros H j [<-|Hj]; [rewrite E; reflexivity|auto]|intros H j Hj; apply H; right; exact Hj].
  - split; [discriminate|]. intros H. specialize (H i (or_introl eq_refl)). rewrite E in H. discriminate.
Qed.

(* ---- Broadcast ---- *)
Lemma bcast_loop_spec v : forall order processed l,
  (forall i, In i processed -> is_mok (out_at v i) = true) -> l = length order -> 
  (bcast_loop v order processed l = [] <-> forall i, In i order -> is_mok (out_at v i) = true).
Proof.
  induction order as [|i r IH]; intros processed l Hp Hl; cbn [bcast_loop].
  - rewrite errs_of_nil_iff. split; [intros _ j []|intros _; exact Hp].
  - destruct (is_mok (out_at v i)) eqn:Ei; cbn [negb orb].
    + destruct (Nat.eqb_spec (l - 1) 0) as [E0|E0]; cbn [orb].
      * assert (r = []) by (destruct r; [reflexivity|cbn in Hl; lia]). subst r.
        rewrite errs_of_nil_iff. split.
        -- intros _ j [<-|[]]. exact Ei.
        -- intros _ j Hj. apply in_app_iff in Hj. destruct Hj as [Hj|[<-|[]]]; auto.
      * rewrite IH.
        -- split; [intros H j [<-|Hj]; auto|intros H j Hj; apply H; right; exact Hj].
        -- intros j Hj. apply in_app_iff in Hj. destruct Hj as [Hj|[<-|[]]]; auto.
        -- cbn in Hl. lia.
    + rewrite orb_true_r. split.
      * intros H. exfalso. apply errs_of_nil_iff with (i := i) in H; [congruence|].
        apply in_app_iff. right. left. reflexivity.
      * intros H. specialize (H i (or_introl eq_refl)). congruence.
Qed.

Theorem broadcast_success_iff_all v order : is_order v order ->
  (fst (broadcast v order) = [] <-> all_ok v).
Proof.
  intros Ho. unfold broadcast. cbn [fst].
  rewrite bcast_loop_spec; [|intros i []|].
  - unfold all_ok. split; intros H i Hi; apply H; apply (order_in v order i Ho); exact Hi.
  - rewrite (Permutation_length Ho), seq_length. reflexivity.
Qed.

(* ---- Fork ---- *)
Lemma fork_loop_spec v : forall order processed l,
  (forall i, In i processed -> is_mok (out_at v i) = false) -> l = length order -> l <> 0 \/ order = [] ->
  (fork_loop v order processed l = [] <-> (exists i, In i order /\ is_mok (out_at v i) = true) \/ (order = [] /\ processed = [])).
Proof.
  induction order as [|i r IH]; intros processed l Hp Hl Hne; cbn [fork_loop].
  - split.
    + intros H. right. split; [reflexivity|]. destruct processed as [|p ps]; [reflexivity|].
      exfalso. apply errs_of_nil_iff with (i := p) in H; [|left; reflexivity].
      rewrite (Hp p (or_introl eq_refl)) in H. discriminate.
    + intros [(i & [] & _)|[_ ->]]. reflexivity.
  - destruct (is_mok (out_at v i)) eqn:Ei.
    + split; [intros _; left; exists i; split; [left; reflexivity|exact Ei]|reflexivity].
    + assert (Hp' : forall j, In j (processed ++ [i]) -> is_mok (out_at v j) = false).
      { intros j Hj. apply in_app_iff in Hj. destruct Hj as [Hj|[<-|[]]]; auto. }
      destruct (Nat.eqb_spec (l - 1) 0) as [E0|E0].
      * assert (r = []) by (destruct r; [reflexivity|cbn in Hl; lia]). subst r.
        split.
        -- intros H. exfalso. apply errs_of_nil_iff with (i := i) in H; [congruence|].
           apply in_app_iff. right. left. reflexivity.
        -- intros [(j & [<-|[]] & Hj)|[H _]]; [congruence|discriminate].
      * rewrite IH; [|exact Hp'|cbn in Hl; lia|left; exact E0].
        split.
        -- intros [(j & Hj & Hok)|[-> H]]; [left; exists j; split; [right; exact Hj|exact Hok]|].
           destruct processed; discriminate.
        -- intros [(j & [<-|Hj] & Hok)|[H _]]; [congruence|left; exists j; auto|discriminate].
Qed.

Theorem fork_success_iff_some v order : is_order v order -> v <> [] ->
  (fst (fork v order) = [] <-> some_ok v).
Proof.
  intros Ho Hne. unfold fork. cbn [fst].
  assert (Hlen : length order = length v) by (rewrite (Permutation_length Ho), seq_length; reflexivity).
  rewrite fork_loop_spec; [|intros i []|symmetry; exact Hlen|left; destruct v; [congruence|cbn; lia]].
  unfold some_ok. split.
  - intros [(i & Hi & Hok)|[-> _]].
    + exists i. split; [apply (order_in v order i Ho); exact Hi|exact Hok].
    + destruct v; [congruence|discriminate].
  - intros (i & Hi & Hok). left. exists i. split; [apply (order_in v order i Ho); exact Hi|exact Hok].
Qed.

(* ---- the reply: a value produced by a server that succeeded ---- *)
Theorem reply_from_a_successful_server v order r :
  first_ok v order = Some r -> exists i, In i order /\ out_at v i = MOk r.
Proof.
  induction order as [|i rest IH]; cbn; [discriminate|].
  destruct (out_at v i) eqn:E.
  - intros H. injection H as <-. exists i. split; [left; reflexivity|exact E].
  - intros H. destruct (IH H) as (j & Hj & Ej). exists j. split; [right; exact Hj|exact Ej].
Qed.

Theorem reply_present_when_some_ok v order : is_order v order -> some_ok v -> first_ok v order <> None.
Proof.
  intros Ho (i & Hi & Hok). apply (order_in v order i Ho) in Hi. clear Ho.
  induction order as [|j rest IH]; [destruct Hi|]. cbn.
  destruct (out_at v j) eqn:E; [discriminate|]. destruct Hi as [->|Hi]; [rewrite E in Hok; discriminate|auto].
Qed.

(* ---- Inform ---- *)
Theorem inform_receipts v order : is_order v order ->
  let '(rs, errs, _) := inform v order in
  length rs = length v /\
  (forall i, i < length v ->
     exists rep er, In (i, rep, er) rs /\
       match out_at v i with
       | MOk r => rep = Some r /\ er = None           (* its own reply, nil error *)
       | MFail e => rep = None /\ er = Some e          (* its own error *)
       end) /\
  (errs = [] <-> all_ok v).
Proof.
  intros Ho. unfold inform.
  split; [rewrite map_length, (Permutation_length Ho), seq_length; reflexivity|]. split.
  - intros i Hi. apply (order_in v order i Ho) in Hi.
    destruct (out_at v i) eqn:E.
    + exists (Some r), None. split; [|auto]. apply in_map_iff. exists i. rewrite E. auto.
    + exists None, (Some e). split; [|auto]. apply in_map_iff. exists i. rewrite E. auto.
  - rewrite errs_of_nil_iff. unfold all_ok.
    split; intros H i Hi; apply H; apply (order_in v order i Ho); exact Hi.
Qed.
