(* Proofs about writers sharing one connection and the pool of frame buffers (Wire/Shared.v). *)
From Coq Require Import List NArith Arith Bool Lia.
From RPCX Require Import Wire.Bytes Wire.Header Wire.Codec Wire.CodecSpec Wire.CodecRoundTrip Wire.EncodeProofs Wire.Shared.
Import ListNotations.
Close Scope N_scope.
Open Scope nat_scope.

Lemma updf_same {A} (f : nat -> A) k v : updf f k v k = v.
Proof. unfold updf. now rewrite Nat.eqb_refl. Qed.
Lemma updf_other {A} (f : nat -> A) k v x : x <> k -> updf f k v x = f x.
Proof. unfold updf. intros H. destruct (Nat.eqb_spec x k); congruence. Qed.

Lemma remove_nth_in {A} (l : list A) : forall n x, In x (remove_nth n l) -> In x l.
Proof.
  induction l as [|h t IH]; intros n x H; [destruct n; exact H|].
  destruct n as [|n]; simpl in H; [now right|]. destruct H as [->|H]; [now left|right; eapply IH; eassumption].
Qed.

Lemma remove_nth_nodup {A} (l : list A) : forall n, NoDup l -> NoDup (remove_nth n l).
Proof.
  induction l as [|h t IH]; intros n H; [destruct n; exact H|].
  inversion H as [|? ? Hh Ht]; subst. destruct n as [|n]; simpl; [assumption|].
  constructor; [intros Hin; apply Hh; eapply remove_nth_in; eassumption|now apply IH].
Qed.

Lemma remove_nth_notin {A} (l : list A) : forall n b, NoDup l -> nth_error l n = Some b -> ~ In b (remove_nth n l).
Proof.
  induction l as [|h t IH]; intros n b Hn He; [destruct n; discriminate|].
  inversion Hn as [|? ? Hh Ht]; subst. destruct n as [|n]; simpl in *.
  - injection He as <-. assumption.
  - intros [->|Hin]; [apply Hh; eapply nth_error_In; eassumption|]. eapply IH; eassumption.
Qed.

Lemma resize_len old n : lenN (resize old n) = n.
Proof.
  unfold resize, lenN. rewrite firstn_length, app_length, repeat_length. lia.
Qed.

Section Proofs.
Variable env : comp_env.
Variable maxlen : N.
Variable msg : nat -> message.
Hypothesis frames_ok : forall t, frame_ok env maxlen (msg t).

Notation wstep := (wstep env msg).
Notation wrun := (wrun env msg).

Definition frame (t : nat) : bytes := frame_bytes env (msg t).

(* EncodeSlicePointer into a pooled buffer gives the frame, whatever the buffer held *)
Lemma fill_is_frame t old : encode_pooled env (resize old (encode_len env (msg t))) (msg t) = frame t.
Proof.
  destruct (frames_ok t) as (Hh & Hm & Hc & _).
  destruct (enc_payload_comp env (msg t) Hc) as [Hhw _].
  rewrite encode_pooled_is_frame.
  - rewrite Hhw. reflexivity.
  - rewrite Hhw. apply Hh.
  - apply resize_len.
Qed.

Record WInv (s : ws) : Prop := {
  W_own : forall t, mode s t <> 0 -> exists b, own s t = Some b /\ b < nextb s /\ ~ In b (free s);
  W_excl : forall t1 t2 b, t1 <> t2 -> mode s t1 <> 0 -> mode s t2 <> 0 ->
           own s t1 = Some b -> own s t2 <> Some b;
  W_free : NoDup (free s) /\ forall b, In b (free s) -> b < nextb s;
  W_fill : forall t b, mode s t = 2 -> own s t = Some b -> bufs s b = frame t;
  W_stream : stream s = flat_map frame (wlog s);
  W_safe : forall t, safe_from (mode s t) (rest s t) = true }.

Lemma WInv_init prog0 : (forall t, safe_from 0 (prog0 t) = true) -> WInv (ws_init prog0).
Proof.
  intros H. split; simpl; try (intros; congruence); try apply H.
  split; [constructor|intros b []].
Qed.

Lemma mode_cases m o m' : next_mode m o = Some m' ->
  (m = 0 /\ o = OGet /\ m' = 1) \/ (m = 1 /\ o = OFill /\ m' = 2) \/ (m = 2 /\ o = OWrite /\ m' = 2) \/
  ((m = 1 \/ m = 2) /\ o = OPut /\ m' = 0).
Proof.
  destruct m as [|[|[|m]]]; destruct o; simpl; intros H; inversion H; subst; tauto.
Qed.

Ltac uo := repeat match goal with
  | H : context [updf _ ?k _ ?x] |- _ => rewrite (updf_other _ k _ x) in H by assumption
  | |- context [updf _ ?k _ ?x] => rewrite (updf_other _ k _ x) by assumption
  end.
Ltac us := repeat match goal with
  | H : context [updf _ ?k _ ?k] |- _ => rewrite (updf_same _ k) in H
  | |- context [updf _ ?k _ ?k] => rewrite (updf_same _ k)
  end.

Lemma WInv_step s tp : WInv s -> WInv (wstep s tp).
Proof.
  intros HI. destruct tp as [t pick]. unfold wstep, Shared.wstep.
  destruct (rest s t) as [|o p] eqn:Er; [assumption|].
  pose proof (W_safe s HI t) as Hs. rewrite Er in Hs. simpl in Hs.
  destruct (next_mode (mode s t) o) as [m'|] eqn:En; [|discriminate].
  unfold adv. rewrite En.
  assert (Hsafe' : forall x, safe_from (updf (mode s) t m' x) (updf (rest s) t p x) = true).
  { intros x. destruct (Nat.eq_dec x t) as [->|Hx]; [us; assumption|].
    uo. apply (W_safe s HI). }
  destruct HI as [Hown Hexcl [Hnd Hlt] Hfill Hstream Hsafe].
  apply mode_cases in En.
  destruct En as [(Hm & -> & ->)|[(Hm & -> & ->)|[(Hm & -> & ->)|(Hm & -> & ->)]]].
  - (* Get *)
    destruct (nth_error (free s) pick) as [b|] eqn:Ep.
    + assert (Hbin : In b (free s)) by (eapply nth_error_In; eassumption).
      split; simpl; try assumption.
      * intros x Hx. destruct (Nat.eq_dec x t) as [->|Hne].
        -- us. exists b. split; [reflexivity|]. split; [now apply Hlt|].
           now apply remove_nth_notin.
        -- uo. destruct (Hown x Hx) as (b' & E1 & E2 & E3).
           exists b'. split; [assumption|]. split; [assumption|].
           intros Hin. apply E3. eapply remove_nth_in; eassumption.
      * intros t1 t2 b0 Hne H1 H2 E1.
        destruct (Nat.eq_dec t1 t) as [->|N1]; destruct (Nat.eq_dec t2 t) as [->|N2]; try congruence.
        -- us. injection E1 as <-. uo.
           intros E2. destruct (Hown t2 H2) as (b' & E3 & _ & E4). congruence.
        -- uo. us. intros E2. injection E2 as <-.
           destruct (Hown t1 H1) as (b' & E3 & _ & E4). congruence.
        -- uo. now apply Hexcl with (t1 := t1).
      * split; [now apply remove_nth_nodup|]. intros b0 Hin. apply Hlt. eapply remove_nth_in; eassumption.
      * intros x b0 Hx E. destruct (Nat.eq_dec x t) as [->|Hne]; [us; discriminate|].
        uo. now apply Hfill.
    + split; simpl; try assumption.
      * intros x Hx. destruct (Nat.eq_dec x t) as [->|Hne].
        -- us. exists (nextb s). split; [reflexivity|]. split; [lia|].
           intros Hin. apply Hlt in Hin. lia.
        -- uo. destruct (Hown x Hx) as (b' & E1 & E2 & E3).
           exists b'. split; [assumption|]. split; [lia|assumption].
      * intros t1 t2 b0 Hne H1 H2 E1.
        destruct (Nat.eq_dec t1 t) as [->|N1]; destruct (Nat.eq_dec t2 t) as [->|N2]; try congruence.
        -- us. injection E1 as <-. uo.
           intros E2. destruct (Hown t2 H2) as (b' & E3 & E4 & _). assert (b' = nextb s) by congruence. lia.
        -- uo. us. intros E2. injection E2 as <-.
           destruct (Hown t1 H1) as (b' & E3 & E4 & _). assert (b' = nextb s) by congruence. lia.
        -- uo. now apply Hexcl with (t1 := t1).
      * split; [assumption|]. intros b0 Hin. apply Hlt in Hin. lia.
      * intros x b0 Hx E. destruct (Nat.eq_dec x t) as [->|Hne]; [us; discriminate|].
        uo. now apply Hfill.
  - (* Fill *)
    assert (Hmt : mode s t <> 0) by lia.
    destruct (Hown t Hmt) as (b & Eo & Eb & Ef). rewrite Eo.
    split; simpl; try assumption.
    + intros x Hx. apply Hown. destruct (Nat.eq_dec x t) as [->|Hne]; [assumption|].
      now uo.
    + intros t1 t2 b0 Hne H1 H2. apply Hexcl; try assumption.
      * destruct (Nat.eq_dec t1 t) as [->|N1]; [assumption|now uo].
      * destruct (Nat.eq_dec t2 t) as [->|N2]; [assumption|now uo].
    + split; assumption.
    + intros x b0 Hx E. destruct (Nat.eq_dec x t) as [->|Hne].
      * assert (b0 = b) by congruence. subst b0. us. apply fill_is_frame.
      * uo.
        assert (b0 <> b).
        { intros ->. apply (Hexcl x t b Hne); try assumption. lia. }
        uo. now apply Hfill.
  - (* Write *)
    assert (Hmt : mode s t <> 0) by lia.
    destruct (Hown t Hmt) as (b & Eo & Eb & Ef). rewrite Eo.
    assert (Hmm : forall x, updf (mode s) t 2 x = mode s x).
    { intros x. destruct (Nat.eq_dec x t) as [->|Hne]; [now rewrite updf_same|now apply updf_other]. }
    split; simpl; try assumption.
    + intros x. rewrite Hmm. apply Hown.
    + intros t1 t2 b0. rewrite !Hmm. apply Hexcl.
    + split; assumption.
    + intros x b0. rewrite Hmm. apply Hfill.
    + rewrite flat_map_app. simpl. rewrite app_nil_r, Hstream, (Hfill t b Hm Eo). reflexivity.
  - (* Put *)
    assert (Hmt : mode s t <> 0) by lia.
    destruct (Hown t Hmt) as (b & Eo & Eb & Ef). rewrite Eo.
    split; simpl; try assumption.
    + intros x Hx. destruct (Nat.eq_dec x t) as [->|Hne]; [us; congruence|].
      uo. destruct (Hown x Hx) as (b' & E1 & E2 & E3).
      exists b'. split; [assumption|]. split; [assumption|].
      intros [->|Hin]; [|contradiction]. apply (Hexcl x t b' Hne); assumption.
    + intros t1 t2 b0 Hne H1 H2.
      destruct (Nat.eq_dec t1 t) as [->|N1]; [us; congruence|].
      destruct (Nat.eq_dec t2 t) as [->|N2]; [us; congruence|].
      uo. now apply Hexcl.
    + split; [constructor; assumption|]. intros b0 [<-|Hin]; [assumption|now apply Hlt].
    + intros x b0 Hx E. destruct (Nat.eq_dec x t) as [->|Hne]; [us; discriminate|].
      uo. now apply Hfill.
Qed.

Lemma WInv_run prog0 sched : (forall t, safe_from 0 (prog0 t) = true) -> WInv (wrun prog0 sched).
Proof.
  intros H. unfold wrun, Shared.wrun.
  assert (G : forall s, WInv s -> WInv (fold_left wstep sched s)).
  { induction sched as [|tp sched IH]; intros s Hs; [exact Hs|]. simpl. apply IH. now apply WInv_step. }
  apply G. now apply WInv_init.
Qed.

(* the stream is the concatenation of whole frames, one per write, in the order of the writes *)
Theorem shared_stream_is_frames prog0 sched :
  (forall t, safe_from 0 (prog0 t) = true) ->
  stream (wrun prog0 sched) = flat_map frame (wlog (wrun prog0 sched)).
Proof. intros H. apply (W_stream _ (WInv_run prog0 sched H)). Qed.

(* ... and an independent decoder reading that stream, however it is segmented, recovers exactly the
   messages that were sent, in that order *)
Theorem shared_stream_decodes prog0 sched old fuel :
  (forall t, safe_from 0 (prog0 t) = true) ->
  length (wlog (wrun prog0 sched)) <= fuel ->
  decode_all fuel env maxlen old (stream (wrun prog0 sched)) = (map msg (wlog (wrun prog0 sched)), None).
Proof.
  intros H Hf. rewrite shared_stream_is_frames by assumption.
  assert (E : forall l, flat_map frame l = flat_map (frame_bytes env) (map msg l)).
  { induction l as [|x l IH]; [reflexivity|]. simpl. now rewrite IH. }
  rewrite E. apply decode_all_frames.
  - apply Forall_forall. intros m Hin. apply in_map_iff in Hin as (t & <- & _). apply frames_ok.
  - now rewrite map_length.
Qed.

(* each thread's frame appears once per Write of its program: nothing is duplicated or dropped *)
Lemma writes_step s tp t :
  count_occ Nat.eq_dec (wlog (wstep s tp)) t + count_writes (rest (wstep s tp) t) <=
  count_occ Nat.eq_dec (wlog s) t + count_writes (rest s t).
Proof.
  destruct tp as [t0 pick]. unfold wstep, Shared.wstep.
  destruct (rest s t0) as [|o p] eqn:Er; [lia|]. unfold adv.
  destruct (Nat.eq_dec t t0) as [->|Hne].
  - destruct o; simpl;
      repeat match goal with |- context [match ?x with _ => _ end] => destruct x end;
      simpl; rewrite ?updf_same, ?Er; unfold count_writes; simpl; try lia.
    all: rewrite count_occ_app; simpl; destruct (Nat.eq_dec t0 t0); [|congruence]; lia.
  - destruct o; simpl;
      repeat match goal with |- context [match ?x with _ => _ end] => destruct x end;
      simpl; rewrite ?updf_other by assumption; try lia.
    all: rewrite count_occ_app; simpl; destruct (Nat.eq_dec t0 t); [congruence|]; lia.
Qed.

Theorem frames_written_at_most_programmed prog0 sched t :
  count_occ Nat.eq_dec (wlog (wrun prog0 sched)) t <= count_writes (prog0 t).
Proof.
  unfold wrun, Shared.wrun.
  assert (G : forall s, count_occ Nat.eq_dec (wlog (fold_left wstep sched s)) t +
                        count_writes (rest (fold_left wstep sched s) t) <=
                        count_occ Nat.eq_dec (wlog s) t + count_writes (rest s t)).
  { induction sched as [|tp sched IH]; intros s; [simpl; lia|]. simpl.
    specialize (IH (wstep s tp)). pose proof (writes_step s tp t) as H. lia. }
  specialize (G (ws_init prog0)). simpl in G. lia.
Qed.

End Proofs.
