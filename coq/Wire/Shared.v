(* Writers sharing one connection (client/client.go send, SendRaw; server/server.go sendResponse, the
   heartbeat echo, SendMessage; server/context.go Write, WriteError) and sharing the pool of frame
   buffers (protocol/message.go bufferPool, EncodeSlicePointer, PutData).
   A writer is a thread running a program over four operations; the transport appends the bytes of one
   Write call contiguously (net.Conn's own guarantee: its write lock is held for the whole call) and the
   reader sees the concatenation, however it is split into segments.  A schedule is a list of
   (thread, pick): the thread that moves next and which pooled buffer sync.Pool hands out if it moves
   by a Get.  Programs that break the discipline are executed too (a second Put puts the buffer twice,
   a Write after a Put writes whatever the buffer holds then).  Definitions only. *)
From Coq Require Import List NArith Arith Bool.
From RPCX Require Import Wire.Bytes Wire.Header Wire.Codec.
Import ListNotations.
Close Scope N_scope.
Open Scope nat_scope.

Inductive op :=
  | OGet     (* bufferPool.Get(total) inside EncodeSlicePointer *)
  | OFill    (* the rest of EncodeSlicePointer: every byte of the buffer is written *)
  | OWrite   (* conn.Write( *data ) : one transport write of the whole buffer *)
  | OPut.    (* protocol.PutData(data) *)

Definition op_eqb (a b : op) : bool :=
  match a, b with OGet, OGet | OFill, OFill | OWrite, OWrite | OPut, OPut => true | _, _ => false end.

(* the discipline, as an automaton: 0 = no buffer, 1 = holding an unfilled buffer, 2 = holding the frame *)
Definition next_mode (m : nat) (o : op) : option nat :=
  match m, o with
  | 0, OGet => Some 1
  | 1, OFill => Some 2
  | 2, OWrite => Some 2
  | 1, OPut | 2, OPut => Some 0
  | _, _ => None
  end.

Fixpoint safe_from (m : nat) (p : list op) : bool :=
  match p with
  | [] => true
  | o :: p' => match next_mode m o with Some m' => safe_from m' p' | None => false end
  end.

Definition count_writes (p : list op) : nat := length (filter (op_eqb OWrite) p).

Record ws := mkWs {
  bufs : nat -> bytes;        (* contents of buffer b *)
  free : list nat;            (* the pool *)
  nextb : nat;                (* next fresh buffer *)
  own : nat -> option nat;    (* the buffer a thread's [data] variable points to *)
  rest : nat -> list op;      (* what remains of each thread's program *)
  stream : bytes;             (* what the transport has carried *)
  wlog : list nat;            (* threads, in the order of their writes *)
  mode : nat -> nat }.        (* ghost: the automaton state of each thread *)

Definition updf {A} (f : nat -> A) (k : nat) (v : A) : nat -> A :=
  fun x => if Nat.eqb x k then v else f x.

Fixpoint remove_nth {A} (n : nat) (l : list A) : list A :=
  match l, n with
  | [], _ => []
  | _ :: t, O => t
  | h :: t, S n' => h :: remove_nth n' t
  end.

(* bufferPool.Get(n): a buffer of length n whose contents are whatever it held before *)
Definition resize (old : bytes) (n : N) : bytes := firstn (N.to_nat n) (old ++ repeat 0%N (N.to_nat n)).

Section Shared.
Variable env : comp_env.
Variable msg : nat -> message.   (* the message thread t sends *)

Definition ws_init (prog0 : nat -> list op) : ws :=
  mkWs (fun _ => []) [] 0 (fun _ => None) prog0 [] [] (fun _ => 0).

Definition adv (s : ws) (t : nat) (o : op) (p : list op) : (nat -> list op) * (nat -> nat) :=
  (updf (rest s) t p,
   match next_mode (mode s t) o with Some m' => updf (mode s) t m' | None => mode s end).

Definition wstep (s : ws) (tp : nat * nat) : ws :=
  let (t, pick) := tp in
  match rest s t with
  | [] => s
  | o :: p =>
    let (rest', mode') := adv s t o p in
    match o with
    | OGet =>
        match nth_error (free s) pick with
        | Some b => mkWs (bufs s) (remove_nth pick (free s)) (nextb s) (updf (own s) t (Some b)) rest'
                         (stream s) (wlog s) mode'
        | None => mkWs (bufs s) (free s) (S (nextb s)) (updf (own s) t (Some (nextb s))) rest'
                       (stream s) (wlog s) mode'
        end
    | OFill =>
        match own s t with
        | Some b => mkWs (updf (bufs s) b (encode_pooled env (resize (bufs s b) (encode_len env (msg t))) (msg t)))
                         (free s) (nextb s) (own s) rest' (stream s) (wlog s) mode'
        | None => mkWs (bufs s) (free s) (nextb s) (own s) rest' (stream s) (wlog s) mode'
        end
    | OWrite =>
        match own s t with
        | Some b => mkWs (bufs s) (free s) (nextb s) (own s) rest' (stream s ++ bufs s b) (wlog s ++ [t]) mode'
        | None => mkWs (bufs s) (free s) (nextb s) (own s) rest' (stream s) (wlog s) mode'
        end
    | OPut =>
        match own s t with
        | Some b => mkWs (bufs s) (b :: free s) (nextb s) (own s) rest' (stream s) (wlog s) mode'
        | None => mkWs (bufs s) (free s) (nextb s) (own s) rest' (stream s) (wlog s) mode'
        end
    end
  end.

Definition wrun (prog0 : nat -> list op) (sched : list (nat * nat)) : ws :=
  fold_left wstep sched (ws_init prog0).

End Shared.
