(* Byte-level vocabulary: a byte is an N (< 256 when well-formed); big-endian length fields;
   slice helpers.  Definitions only. *)
From Coq Require Import List NArith Arith.
Import ListNotations.
Open Scope N_scope.

Definition bytes := list N.

Definition lenN {A} (l : list A) : N := N.of_nat (length l).

(* binary.BigEndian.PutUint32(b, uint32(v)): the conversion to uint32 truncates *)
Definition put32 (v : N) : bytes :=
  [ (v / 16777216) mod 256; (v / 65536) mod 256; (v / 256) mod 256; v mod 256 ].

(* binary.BigEndian.Uint32(b[0:4]) *)
Definition get32 (b : bytes) : N :=
  match b with
  | b0 :: b1 :: b2 :: b3 :: _ => b0 * 16777216 + b1 * 65536 + b2 * 256 + b3
  | _ => 0
  end.

Definition put64 (v : N) : bytes := put32 ((v / 4294967296) mod 4294967296) ++ put32 (v mod 4294967296).
Definition get64 (b : bytes) : N := get32 b * 4294967296 + get32 (skipn 4 b).

Definition takeN (n : N) (l : bytes) : bytes := firstn (N.to_nat n) l.
Definition dropN (n : N) (l : bytes) : bytes := skipn (N.to_nat n) l.

(* l[i] := v *)
Fixpoint upd (i : nat) (v : N) (l : bytes) : bytes :=
  match l, i with
  | [], _ => []
  | _ :: r, O => v :: r
  | x :: r, S i' => x :: upd i' v r
  end.

Definition byte_at (l : bytes) (i : nat) : N := nth i l 0.

(* byte-typed shifts: Go's uint8 << k truncates *)
Definition shl8 (a k : N) : N := N.land (N.shiftl a k) 255.
Definition b8 (a : N) : N := a mod 256.

Definition wf_bytes (l : bytes) : Prop := Forall (fun b => b < 256) l.
Definition wf_bytesb (l : bytes) : bool := forallb (fun b => b <? 256) l.
