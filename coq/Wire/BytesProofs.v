From Coq Require Import List NArith ZArith Arith Bool Lia ZifyN ZifyNat ZifyBool.
From RPCX Require Import Wire.Bytes.
Import ListNotations.
Open Scope N_scope.

Ltac Zify.zify_post_hook ::= Z.div_mod_to_equations.

Lemma lenN_app {A} (a b : list A) : lenN (a ++ b) = lenN a + lenN b.
Proof. unfold lenN. rewrite app_length. lia. Qed.

Lemma lenN_nil {A} : lenN (@nil A) = 0.
Proof. reflexivity. Qed.

Lemma lenN_cons {A} (x : A) l : lenN (x :: l) = 1 + lenN l.
Proof. unfold lenN. cbn [length]. lia. Qed.

Lemma lenN_length {A} (l : list A) : N.to_nat (lenN l) = length l.
Proof. unfold lenN. lia. Qed.

Lemma takeN_app (a b : bytes) : takeN (lenN a) (a ++ b) = a.
Proof.
  unfold takeN. rewrite lenN_length. rewrite firstn_app, Nat.sub_diag, firstn_all. cbn. apply app_nil_r.
Qed.

Lemma dropN_app (a b : bytes) : dropN (lenN a) (a ++ b) = b.
Proof.
  unfold dropN. rewrite lenN_length. rewrite skipn_app, Nat.sub_diag, skipn_all. reflexivity.
Qed.

Lemma takeN_app_le n (a b : bytes) : n <= lenN a -> takeN n (a ++ b) = takeN n a.
Proof.
  intros H. unfold takeN. rewrite firstn_app.
  replace (N.to_nat n - length a)%nat with O by (unfold lenN in H; lia).
  cbn. apply app_nil_r.
Qed.

Lemma dropN_app_le n (a b : bytes) : n <= lenN a -> dropN n (a ++ b) = dropN n a ++ b.
Proof.
  intros H. unfold dropN. rewrite skipn_app.
  replace (N.to_nat n - length a)%nat with O by (unfold lenN in H; lia). reflexivity.
Qed.

Lemma lenN_takeN n (l : bytes) : lenN (takeN n l) = N.min n (lenN l).
Proof. unfold lenN, takeN. rewrite firstn_length. lia. Qed.

Lemma lenN_dropN n (l : bytes) : lenN (dropN n l) = lenN l - n.
Proof. unfold lenN, dropN. rewrite skipn_length. lia. Qed.

Lemma dropN_dropN n m (l : bytes) : dropN n (dropN m l) = dropN (m + n) l.
Proof.
  unfold dropN. replace (N.to_nat (m + n)) with (N.to_nat n + N.to_nat m)%nat by lia.
  revert l. induction (N.to_nat m) as [|k IH]; intros l.
  - rewrite Nat.add_0_r. reflexivity.
  - destruct l as [|x l]; [rewrite !skipn_nil; reflexivity|].
    rewrite Nat.add_succ_r. cbn [skipn]. apply IH.
Qed.

Lemma dropN_0 (l : bytes) : dropN 0 l = l.
Proof. reflexivity. Qed.

Lemma takeN_all n (l : bytes) : lenN l <= n -> takeN n l = l.
Proof. intros H. unfold takeN. apply firstn_all2. unfold lenN in H. lia. Qed.

Lemma dropN_all n (l : bytes) : lenN l <= n -> dropN n l = [].
Proof. intros H. unfold dropN. apply skipn_all2. unfold lenN in H. lia. Qed.

Lemma takeN_dropN_split n (l : bytes) : takeN n l ++ dropN n l = l.
Proof. unfold takeN, dropN. apply firstn_skipn. Qed.

Lemma takeN_takeN n m (l : bytes) : takeN n (takeN m l) = takeN (N.min n m) l.
Proof.
  unfold takeN. rewrite firstn_firstn. f_equal. lia.
Qed.

(* take after drop inside a prefix: the bytes past the prefix do not matter *)
Lemma takeN_dropN_app off len (a b : bytes) :
  off + len <= lenN a -> takeN len (dropN off (a ++ b)) = takeN len (dropN off a).
Proof.
  intros H. rewrite dropN_app_le by lia. apply takeN_app_le. rewrite lenN_dropN. lia.
Qed.

(* ---- 32-bit big-endian fields ---- *)
Lemma put32_length v : length (put32 v) = 4%nat.
Proof. reflexivity. Qed.

Lemma lenN_put32 v : lenN (put32 v) = 4.
Proof. reflexivity. Qed.

Lemma get32_put32 v r : get32 (put32 v ++ r) = v mod 4294967296.
Proof. unfold put32, get32. cbn [app]. lia. Qed.

Lemma get32_put32_small v r : v < 4294967296 -> get32 (put32 v ++ r) = v.
Proof. intros H. rewrite get32_put32. apply N.mod_small. exact H. Qed.

Lemma get32_app4 (a r : bytes) : length a = 4%nat -> get32 (a ++ r) = get32 a.
Proof.
  intros H. destruct a as [|a0 [|a1 [|a2 [|a3 [|a4 a]]]]]; simpl in H; try discriminate. reflexivity.
Qed.

Lemma get32_takeN4 (l : bytes) : get32 (takeN 4 l) = get32 l.
Proof.
  destruct l as [|a0 [|a1 [|a2 [|a3 l]]]]; reflexivity.
Qed.

Lemma put32_wf v : wf_bytes (put32 v).
Proof. unfold wf_bytes, put32. repeat constructor; lia. Qed.

Lemma get32_bound (l : bytes) : wf_bytes l -> get32 l < 4294967296.
Proof.
  unfold wf_bytes. intros H.
  destruct l as [|a0 [|a1 [|a2 [|a3 l]]]]; cbn [get32]; try lia.
  inversion H as [|? ? H0 Hr0]; subst. inversion Hr0 as [|? ? H1 Hr1]; subst.
  inversion Hr1 as [|? ? H2 Hr2]; subst. inversion Hr2 as [|? ? H3 Hr3]; subst. lia.
Qed.

Lemma upd_length i v (l : bytes) : length (upd i v l) = length l.
Proof.
  revert i. induction l as [|x l IH]; intros [|i]; cbn; auto.
Qed.

Lemma nth_upd_same i v (l : bytes) : (i < length l)%nat -> nth i (upd i v l) 0 = v.
Proof.
  revert i. induction l as [|x l IH]; intros [|i] H; cbn in *; try lia; auto. apply IH. lia.
Qed.

Lemma nth_upd_other i j v (l : bytes) : i <> j -> nth j (upd i v l) 0 = nth j l 0.
Proof.
  revert i j. induction l as [|x l IH]; intros [|i] [|j] H; cbn; auto; try lia.
Qed.

Lemma dropN4_put32 v (r : bytes) : dropN 4 (put32 v ++ r) = r.
Proof. reflexivity. Qed.

Lemma dropN4_len4 (a r : bytes) : length a = 4%nat -> dropN 4 (a ++ r) = r.
Proof.
  intros H. destruct a as [|a0 [|a1 [|a2 [|a3 [|a4 a]]]]]; simpl in H; try discriminate. reflexivity.
Qed.
