From Coq Require Import List NArith ZArith Arith Bool Lia ZifyN ZifyNat ZifyBool.
From RPCX Require Import Wire.Bytes Wire.BytesProofs Wire.Header Wire.Codec Wire.CodecSpec.
Import ListNotations.
Open Scope N_scope.
Ltac Zify.zify_post_hook ::= Z.div_mod_to_equations.

(* ================= Go slices ================= *)
Definition wf_slice (s : slice) : Prop :=
  s_len s <= s_cap s /\ s_off s + s_cap s <= lenN (s_back s).

Lemma dropN_takeN_comm a n (l : bytes) : dropN a (takeN n l) = takeN (n - a) (dropN a l).
Proof.
  unfold dropN, takeN. rewrite skipn_firstn_comm. f_equal. lia.
Qed.

Lemma reslice_ok s a b :
  wf_slice s -> a <= b -> b <= s_len s ->
  exists s', reslice s a b = Some s' /\ wf_slice s' /\ s_len s' = b - a /\
             contents s' = takeN (b - a) (dropN a (contents s)).
Proof.
  intros [Hlc Hcap] Hab Hb. unfold reslice.
  assert (E : (a <=? b) && (b <=? s_cap s) = true) by lia. rewrite E.
  eexists. split; [reflexivity|]. split; [|split].
  - unfold wf_slice. cbn. lia.
  - reflexivity.
  - unfold contents. cbn [s_back s_off s_len].
    rewrite dropN_takeN_comm, takeN_takeN, dropN_dropN. f_equal. lia.
Qed.

Lemma be32_ok s : 4 <= s_len s -> be32 s = Some (get32 (contents s)).
Proof. intros H. unfold be32. assert (E : (4 <=? s_len s) = true) by lia. rewrite E. reflexivity. Qed.

Lemma lenN_contents s : wf_slice s -> lenN (contents s) = s_len s.
Proof.
  intros [H1 H2]. unfold contents. rewrite lenN_takeN, lenN_dropN. lia.
Qed.

(* ================= section refines sect ================= *)
Lemma section_refines data n :
  wf_slice data -> n <= s_len data ->
  match sect (dropN n (contents data)) with
  | Ok (sec, rest) =>
      exists s, section data n = Ok (s, n + 4 + lenN sec) /\ wf_slice s /\ contents s = sec /\
                s_len s = lenN sec /\ rest = dropN (n + 4 + lenN sec) (contents data) /\
                n + 4 + lenN sec <= s_len data
  | Err e => section data n = Err e
  | Panic => False
  end.
Proof.
  intros Hwf Hn. pose proof (lenN_contents data Hwf) as HL.
  unfold sect, section. rewrite lenN_dropN, HL.
  destruct (N.ltb_spec (s_len data - n) 4) as [H4|H4]; [reflexivity|].
  destruct (reslice_ok data n (n + 4) Hwf ltac:(lia) ltac:(lia)) as (s4 & E4 & W4 & L4 & C4).
  rewrite E4. cbn [of_opt bind].
  rewrite be32_ok by lia. cbn [of_opt bind].
  replace (n + 4 - n) with 4 in C4 by lia.
  rewrite C4, get32_takeN4.
  rewrite lenN_dropN, lenN_dropN, HL.
  set (sl := get32 (dropN n (contents data))).
  replace (s_len data - (n + 4)) with (s_len data - n - 4) by lia.
  destruct (N.ltb_spec (s_len data - n - 4) sl) as [Hs|Hs]; [reflexivity|].
  destruct (reslice_ok data (n + 4) (n + 4 + sl) Hwf ltac:(lia) ltac:(lia)) as (sc & Ec & Wc & Lc & Cc).
  rewrite Ec. cbn [of_opt bind].
  replace (n + 4 + sl - (n + 4)) with sl in * by lia.
  assert (Hlen : lenN (takeN sl (dropN 4 (dropN n (contents data)))) = sl).
  { rewrite lenN_takeN, !lenN_dropN, HL. lia. }
  exists sc. rewrite Hlen. split; [reflexivity|]. split; [exact Wc|]. split.
  - rewrite Cc, dropN_dropN. reflexivity.
  - split; [lia|]. split; [|lia]. rewrite !dropN_dropN. f_equal. lia.
Qed.

(* ================= decodeMetadata refines meta_spec ================= *)
Lemma dropN_nil_iff n (l : bytes) : n <= lenN l -> (dropN n l = [] <-> n = lenN l).
Proof.
  intros H. split.
  - intros E. assert (lenN (dropN n l) = 0) by (rewrite E; reflexivity). rewrite lenN_dropN in *. lia.
  - intros ->. apply dropN_all. lia.
Qed.

Lemma dec_meta_refines fuel : forall data n acc,
  wf_slice data -> n <= s_len data ->
  dec_meta fuel (s_len data) data n acc = meta_spec fuel (dropN n (contents data)) acc.
Proof.
  induction fuel as [|fuel IH]; intros data n acc Hwf Hn;
    pose proof (lenN_contents data Hwf) as HL.
  - cbn [dec_meta meta_spec].
    destruct (N.ltb_spec n (s_len data)) as [Hlt|Hge].
    + destruct (dropN n (contents data)) eqn:E; [|reflexivity].
      apply dropN_nil_iff in E; lia.
    + rewrite (proj2 (dropN_nil_iff n (contents data) ltac:(lia))) by lia. reflexivity.
  - cbn [dec_meta meta_spec].
    destruct (N.ltb_spec n (s_len data)) as [Hlt|Hge].
    2:{ rewrite (proj2 (dropN_nil_iff n (contents data) ltac:(lia))) by lia. reflexivity. }
    destruct (dropN n (contents data)) as [|x0 xs] eqn:E.
    { apply dropN_nil_iff in E; lia. }
    rewrite <- E. clear E x0 xs.
    set (l := s_len data) in *. set (M := contents data) in *.
    rewrite lenN_dropN, HL.
    destruct (N.ltb_spec (l - n) 4) as [H4|H4]; [reflexivity|].
    destruct (reslice_ok data n (n + 4) Hwf ltac:(lia) ltac:(lia)) as (s4 & E4 & W4 & L4 & C4).
    rewrite E4. cbn [of_opt bind]. rewrite be32_ok by lia. cbn [of_opt bind].
    replace (n + 4 - n) with 4 in C4 by lia. rewrite C4, get32_takeN4. fold M.
    set (sl := get32 (dropN n M)).
    rewrite !lenN_dropN, HL. fold l.
    replace (l - n - 4) with (l - (n + 4)) by lia.
    destruct ((l - (n + 4) <? sl) || (l - (n + 4) - sl <? 4)) eqn:Ek; [reflexivity|].
    assert (Hk1 : sl <= l - (n + 4)) by lia. assert (Hk2 : 4 <= l - (n + 4) - sl) by lia.
    destruct (reslice_ok data (n + 4) (n + 4 + sl) Hwf ltac:(lia) ltac:(lia)) as (ks & Eks & Wks & Lks & Cks).
    rewrite Eks. cbn [of_opt bind].
    destruct (reslice_ok data (n + 4 + sl) (n + 4 + sl + 4) Hwf ltac:(lia) ltac:(lia))
      as (s4' & E4' & W4' & L4' & C4').
    rewrite E4'. cbn [of_opt bind]. rewrite be32_ok by lia. cbn [of_opt bind].
    replace (n + 4 + sl + 4 - (n + 4 + sl)) with 4 in C4' by lia.
    rewrite C4', get32_takeN4. fold M.
    rewrite !dropN_dropN, ?N.add_assoc.
    set (sl' := get32 (dropN (n + 4 + sl) M)).
    replace (l - (n + 4) - sl - 4) with (l - (n + 4 + sl + 4)) by lia.
    destruct (N.ltb_spec (l - (n + 4 + sl + 4)) sl') as [Hv|Hv]; [reflexivity|].
    destruct (reslice_ok data (n + 4 + sl + 4) (n + 4 + sl + 4 + sl') Hwf ltac:(lia) ltac:(lia))
      as (vs & Evs & Wvs & Lvs & Cvs).
    rewrite Evs. cbn [of_opt bind].
    change l with (s_len data).
    rewrite (IH data (n + 4 + sl + 4 + sl') _ Hwf) by (unfold l in *; lia).
    replace (n + 4 + sl - (n + 4)) with sl in Cks by lia.
    replace (n + 4 + sl + 4 + sl' - (n + 4 + sl + 4)) with sl' in Cvs by lia.
    rewrite Cks, Cvs. fold M. reflexivity.
Qed.

(* ================= decode_body refines body_spec ================= *)
Lemma bind_ok {A B} (x : outcome A) (f : A -> outcome B) a : x = Ok a -> bind x f = f a.
Proof. intros ->. reflexivity. Qed.

Theorem decode_body_refines env h data :
  wf_slice data -> s_off data = 0 ->
  decode_body env h data = body_spec env h (contents data).
Proof.
  intros Hwf Hoff. unfold decode_body, body_spec.
  (* section 1 *)
  pose proof (section_refines data 0 Hwf ltac:(lia)) as S1. rewrite dropN_0 in S1.
  destruct (sect (contents data)) as [[sp r1]| e |]; [|rewrite S1; reflexivity|contradiction].
  destruct S1 as (s1 & E1 & W1 & C1 & L1 & R1 & B1). rewrite E1. cbn [bind fst snd].
  pose proof (section_refines data (0 + 4 + lenN sp) Hwf B1) as S2. rewrite <- R1 in S2.
  destruct (sect r1) as [[sm r2]| e |]; [|rewrite S2; reflexivity|contradiction].
  destruct S2 as (s2 & E2 & W2 & C2 & L2 & R2 & B2). rewrite E2. cbn [bind fst snd].
  pose proof (section_refines data (0 + 4 + lenN sp + 4 + lenN sm) Hwf B2) as S3. rewrite <- R2 in S3.
  destruct (sect r2) as [[mb r3]| e |]; [|rewrite S3; reflexivity|contradiction].
  destruct S3 as (s3 & E3 & W3 & C3 & L3 & R3 & B3). rewrite E3. cbn [bind fst snd].
  rewrite L3.
  assert (Hm : (if 0 <? lenN mb then dec_meta (S (N.to_nat (lenN mb))) (lenN mb) s3 0 [] else Ok [])
             = (if 0 <? lenN mb then meta_spec (S (N.to_nat (lenN mb))) mb [] else Ok [])).
  { destruct (0 <? lenN mb); [|reflexivity].
    rewrite <- L3 at 2. rewrite dec_meta_refines by (assumption || lia).
    rewrite dropN_0, C3. reflexivity. }
  rewrite Hm. clear Hm.
  destruct (if 0 <? lenN mb then meta_spec (S (N.to_nat (lenN mb))) mb [] else Ok []) as [meta| e |];
    cbn [bind]; try reflexivity.
  pose proof (section_refines data (0 + 4 + lenN sp + 4 + lenN sm + 4 + lenN mb) Hwf B3) as S4.
  rewrite <- R3 in S4.
  destruct (sect r3) as [[pl r4]| e |]; [|rewrite S4; reflexivity|contradiction].
  destruct S4 as (s4 & E4 & W4 & C4 & L4 & R4 & B4). rewrite E4. cbn [bind fst snd].
  rewrite C1, C2, C4. unfold unzip_spec. reflexivity.
Qed.
