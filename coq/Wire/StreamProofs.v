From Coq Require Import List NArith ZArith Arith Bool Lia ZifyN ZifyNat ZifyBool.
From RPCX Require Import Wire.Bytes Wire.BytesProofs Wire.Header Wire.Codec Wire.CodecSpec
  Wire.CodecProofs Wire.CodecRoundTrip.
Import ListNotations.
Open Scope N_scope.
Ltac Zify.zify_post_hook ::= Z.div_mod_to_equations.

Definition out_msg (o : outcome msgobj) : outcome message :=
  match o with Ok x => Ok (o_msg x) | Err e => Err e | Panic => Panic end.

Definition lift_body (o : outcome message) : outcome message :=
  match o with Ok m => Ok m | Err e => Err e | Panic => Err RecoveredPanic end.

Lemma get32_put32_only v : v < 4294967296 -> get32 (put32 v) = v.
Proof. intros H. rewrite <- (app_nil_r (put32 v)). apply get32_put32_small. exact H. Qed.

(* ---------- io.ReadFull ---------- *)
Lemma read_full_app n (a b : bytes) : lenN a = n -> read_full n (a ++ b) = (Ok a, b).
Proof.
  intros <-. unfold read_full.
  destruct (N.eqb_spec (lenN a) 0) as [E|E].
  - destruct a; [reflexivity|rewrite lenN_cons in E; lia].
  - rewrite lenN_app. destruct (N.leb_spec (lenN a) (lenN a + lenN b)); [|lia].
    rewrite takeN_app, dropN_app. reflexivity.
Qed.

Lemma read_full_ok_inv n s b r : read_full n s = (Ok b, r) -> s = b ++ r /\ lenN b = n.
Proof.
  unfold read_full. destruct (N.eqb_spec n 0) as [->|E].
  - intros H. injection H as <- <-. split; reflexivity.
  - destruct (N.leb_spec n (lenN s)) as [Hle|Hgt].
    + intros H. injection H as <- <-. split; [symmetry; apply takeN_dropN_split|].
      rewrite lenN_takeN. lia.
    + destruct s; discriminate.
Qed.

Lemma read_full_no_panic n s r : read_full n s <> (Panic, r).
Proof.
  unfold read_full. destruct (n =? 0); [discriminate|]. destruct (n <=? lenN s); [discriminate|].
  destruct s; discriminate.
Qed.

(* the data slice Decode builds is well formed and its contents are exactly the body *)
Lemma data_slice_ok (bodyb old : bytes) :
  let l := lenN bodyb in
  let backing := if l <=? lenN old then bodyb ++ dropN l old else bodyb in
  let data := mkSlice backing 0 l (lenN backing) in
  wf_slice data /\ s_off data = 0 /\ contents data = bodyb.
Proof.
  cbv zeta. destruct (N.leb_spec (lenN bodyb) (lenN old)) as [H|H]; unfold wf_slice, contents; cbn.
  - rewrite lenN_app. split; [lia|]. split; [reflexivity|].
    change (dropN 0 (bodyb ++ dropN (lenN bodyb) old)) with (bodyb ++ dropN (lenN bodyb) old).
    apply takeN_app.
  - split; [lia|]. split; [reflexivity|]. change (dropN 0 bodyb) with bodyb. apply takeN_all. lia.
Qed.

(* ---------- Decode on a stream that starts with a frame ---------- *)
Theorem decode_frame env maxlen old (h body rest : bytes) :
  length h = 12%nat -> byte_at h 0 = magic -> lenN body < U32 ->
  (maxlen = 0 \/ lenN body <= maxlen) ->
  let r := decode env maxlen old (h ++ put32 (lenN body) ++ body ++ rest) in
  out_msg (fst r) = lift_body (body_spec env h body) /\ snd r = rest.
Proof.
  intros Hh Hm Hb Hmax. cbv zeta.
  destruct h as [|h0 h11]; [discriminate|]. cbn in Hm. subst h0.
  assert (Hh11 : lenN h11 = 11) by (unfold lenN; simpl in Hh; lia).
  unfold decode.
  change ((magic :: h11) ++ put32 (lenN body) ++ body ++ rest)
    with ([magic] ++ h11 ++ put32 (lenN body) ++ body ++ rest).
  rewrite (read_full_app 1 [magic]) by reflexivity.
  cbn [byte_at nth]. rewrite N.eqb_refl. cbn [negb].
  rewrite (read_full_app 11 h11) by exact Hh11.
  rewrite (read_full_app 4 (put32 (lenN body))) by reflexivity.
  rewrite get32_put32_only by exact Hb.
  assert (E : (0 <? maxlen) && (maxlen <? lenN body) = false) by lia. rewrite E.
  rewrite (read_full_app (lenN body) body) by reflexivity.
  destruct (data_slice_ok body (o_backing old)) as (W & O & C). cbv zeta in W, O, C.
  rewrite (decode_body_refines env _ _ W O), C.
  cbn [fst snd]. split; [|reflexivity].
  change ([magic] ++ h11) with (magic :: h11).
  destruct (body_spec env (magic :: h11) body); reflexivity.
Qed.

(* ---------- confinement: a successful Decode consumed exactly one well-delimited frame ---------- *)
Theorem decode_ok_inv env maxlen old stream o rest :
  decode env maxlen old stream = (Ok o, rest) ->
  exists h lb body,
    stream = h ++ lb ++ body ++ rest /\ length h = 12%nat /\ byte_at h 0 = magic /\
    length lb = 4%nat /\ lenN body = get32 lb /\ (maxlen = 0 \/ get32 lb <= maxlen) /\
    body_spec env h body = Ok (o_msg o).
Proof.
  unfold decode.
  destruct (read_full 1 stream) as [[b0| |] r1] eqn:R1; try discriminate.
  destruct (negb (byte_at b0 0 =? magic)) eqn:Em; [discriminate|].
  destruct (read_full 11 r1) as [[b1| |] r2] eqn:R2; try discriminate.
  destruct (read_full 4 r2) as [[lb| |] r3] eqn:R3; try discriminate.
  destruct ((0 <? maxlen) && (maxlen <? get32 lb)) eqn:Emax; [discriminate|].
  destruct (read_full (get32 lb) r3) as [[bodyb| |] r4] eqn:R4; try discriminate.
  apply read_full_ok_inv in R1, R2, R3, R4.
  destruct R1 as [-> L0], R2 as [-> L1], R3 as [-> L3], R4 as [-> L4].
  pose proof (data_slice_ok bodyb (o_backing old)) as D. cbv zeta in D. rewrite L4 in D.
  destruct D as (W & O & C).
  rewrite (decode_body_refines env _ _ W O), C.
  destruct (body_spec env (b0 ++ b1) bodyb) as [m| |] eqn:Eb; try discriminate.
  intros H. injection H as <- <-.
  exists (b0 ++ b1), lb, bodyb. rewrite <- !app_assoc.
  split; [reflexivity|]. split; [rewrite app_length; unfold lenN in *; lia|].
  split.
  { destruct b0 as [|x b0]; [cbn in L0; lia|]. cbn in *. destruct (N.eqb_spec x magic); [assumption|discriminate]. }
  split; [unfold lenN in *; lia|]. split; [exact L4|]. split; [lia|]. exact Eb.
Qed.

(* ---------- the decoded message does not depend on the object's past ---------- *)
Theorem decode_independent_of_past env maxlen old1 old2 stream :
  out_msg (fst (decode env maxlen old1 stream)) = out_msg (fst (decode env maxlen old2 stream)) /\
  snd (decode env maxlen old1 stream) = snd (decode env maxlen old2 stream).
Proof.
  unfold decode.
  destruct (read_full 1 stream) as [[b0|e|] r1]; cbn [fst snd]; try (split; reflexivity).
  destruct (negb (byte_at b0 0 =? magic)); cbn [fst snd]; try (split; reflexivity).
  destruct (read_full 11 r1) as [[b1|e|] r2]; cbn [fst snd]; try (split; reflexivity).
  destruct (read_full 4 r2) as [[lb|e|] r3]; cbn [fst snd]; try (split; reflexivity).
  destruct ((0 <? maxlen) && (maxlen <? get32 lb)); cbn [fst snd]; try (split; reflexivity).
  destruct (read_full (get32 lb) r3) as [[bodyb|e|] r4] eqn:R4; cbn [fst snd]; try (split; reflexivity).
  apply read_full_ok_inv in R4. destruct R4 as [_ L4].
  pose proof (data_slice_ok bodyb (o_backing old1)) as D1.
  pose proof (data_slice_ok bodyb (o_backing old2)) as D2.
  cbv zeta in D1, D2. rewrite L4 in D1, D2.
  destruct D1 as (W1 & O1 & C1), D2 as (W2 & O2 & C2).
  rewrite (decode_body_refines env _ _ W1 O1), C1.
  rewrite (decode_body_refines env _ _ W2 O2), C2.
  split; [|reflexivity]. destruct (body_spec env (b0 ++ b1) bodyb); reflexivity.
Qed.

(* ---------- a recovered panic is not a reachable outcome ---------- *)
Theorem decode_never_panics env maxlen old stream :
  fst (decode env maxlen old stream) <> Panic /\
  fst (decode env maxlen old stream) <> Err RecoveredPanic.
Proof.
  unfold decode.
  destruct (read_full 1 stream) as [[b0|e|] r1] eqn:R1; cbn [fst];
    [| split; [discriminate|]; unfold read_full in R1;
       destruct (1 =? 0); [discriminate|]; destruct (1 <=? lenN stream); [discriminate|];
       destruct stream; injection R1 as <- _; discriminate
     | exfalso; exact (read_full_no_panic _ _ _ R1)].
  destruct (negb (byte_at b0 0 =? magic)); cbn [fst]; [split; discriminate|].
  destruct (read_full 11 r1) as [[b1|e|] r2] eqn:R2; cbn [fst];
    [| split; [discriminate|]; unfold read_full in R2;
       destruct (11 =? 0); [discriminate|]; destruct (11 <=? lenN r1); [discriminate|];
       destruct r1; injection R2 as <- _; discriminate
     | exfalso; exact (read_full_no_panic _ _ _ R2)].
  destruct (read_full 4 r2) as [[lb|e|] r3] eqn:R3; cbn [fst];
    [| split; [discriminate|]; unfold read_full in R3;
       destruct (4 =? 0); [discriminate|]; destruct (4 <=? lenN r2); [discriminate|];
       destruct r2; injection R3 as <- _; discriminate
     | exfalso; exact (read_full_no_panic _ _ _ R3)].
  destruct ((0 <? maxlen) && (maxlen <? get32 lb)); cbn [fst]; [split; discriminate|].
  destruct (read_full (get32 lb) r3) as [[bodyb|e|] r4] eqn:R4; cbn [fst];
    [| split; [discriminate|]; unfold read_full in R4;
       destruct (get32 lb =? 0); [discriminate|]; destruct (get32 lb <=? lenN r3); [discriminate|];
       destruct r3; injection R4 as <- _; discriminate
     | exfalso; exact (read_full_no_panic _ _ _ R4)].
  apply read_full_ok_inv in R4. destruct R4 as [_ L4].
  pose proof (data_slice_ok bodyb (o_backing old)) as D. cbv zeta in D. rewrite L4 in D.
  destruct D as (W & O & C).
  rewrite (decode_body_refines env _ _ W O), C.
  pose proof (body_spec_no_panic env (b0 ++ b1) bodyb) as NP.
  destruct (body_spec env (b0 ++ b1) bodyb) as [m|e|] eqn:Eb; [split; discriminate| |congruence].
  split; [discriminate|]. intros H. injection H as ->.
  (* an Err RecoveredPanic could only come from body_spec itself, which never produces it *)
  revert Eb. unfold body_spec.
  assert (Hs : forall r e', sect r = Err e' -> e' = InvalidFrame).
  { intros r e' Hr. unfold sect in Hr. destruct (lenN r <? 4); [congruence|].
    destruct (lenN (dropN 4 r) <? get32 r); congruence. }
  assert (Hms : forall f r a, meta_spec f r a <> Err RecoveredPanic).
  { induction f as [|f IHf]; intros r a; destruct r as [|x xs] eqn:Er; cbn [meta_spec]; try discriminate.
    rewrite <- Er.
    destruct (lenN r <? 4); [discriminate|].
    destruct ((lenN (dropN 4 r) <? get32 r) || (lenN (dropN 4 r) - get32 r <? 4)); [discriminate|].
    destruct (lenN (dropN 4 (dropN (get32 r) (dropN 4 r))) <? get32 (dropN (get32 r) (dropN 4 r))); [discriminate|].
    apply IHf. }
  destruct (sect bodyb) as [[x1 q1]|e1|] eqn:E1; cbn [bind fst snd];
    [|intros H; injection H as ->; apply Hs in E1; discriminate|discriminate].
  destruct (sect q1) as [[x2 q2]|e2|] eqn:E2; cbn [bind fst snd];
    [|intros H; injection H as ->; apply Hs in E2; discriminate|discriminate].
  destruct (sect q2) as [[x3 q3]|e3|] eqn:E3; cbn [bind fst snd];
    [|intros H; injection H as ->; apply Hs in E3; discriminate|discriminate].
  destruct (if 0 <? lenN x3 then meta_spec (S (N.to_nat (lenN x3))) x3 [] else Ok []) as [meta|em|] eqn:Em;
    cbn [bind]; [| |discriminate].
  2:{ intros H. injection H as ->. destruct (0 <? lenN x3); [exact (Hms _ _ _ Em)|discriminate]. }
  destruct (sect q3) as [[x4 q4]|e4|] eqn:E4; cbn [bind fst snd];
    [|intros H; injection H as ->; apply Hs in E4; discriminate|discriminate].
  unfold unzip_spec. destruct (CompressType (b0 ++ b1) =? 0); cbn [bind]; [discriminate|].
  destruct (env (CompressType (b0 ++ b1))) as [c|]; cbn [bind]; [|discriminate].
  destruct (c_unzip c x4); cbn [bind]; discriminate.
Qed.

(* ---------- maximum length: rejected before the body is read ---------- *)
Theorem decode_too_long env maxlen old (h lb tail : bytes) :
  length h = 12%nat -> byte_at h 0 = magic -> length lb = 4%nat ->
  0 < maxlen -> maxlen < get32 lb ->
  decode env maxlen old (h ++ lb ++ tail) = (Err TooLong, tail).
Proof.
  intros Hh Hm Hl H0 Hgt.
  destruct h as [|h0 h11]; [discriminate|]. cbn in Hm. subst h0.
  assert (Hh11 : lenN h11 = 11) by (unfold lenN; simpl in Hh; lia).
  unfold decode.
  change ((magic :: h11) ++ lb ++ tail) with ([magic] ++ h11 ++ lb ++ tail).
  rewrite (read_full_app 1 [magic]) by reflexivity.
  cbn [byte_at nth]. rewrite N.eqb_refl. cbn [negb].
  rewrite (read_full_app 11 h11) by exact Hh11.
  rewrite (read_full_app 4 lb) by (unfold lenN; lia).
  assert (E : (0 <? maxlen) && (maxlen <? get32 lb) = true) by lia. rewrite E. reflexivity.
Qed.
