(* Obligations about the write sites regenerated from /repo's source (Wire/SharedGen.v): every
   control-flow path of every site follows the buffer discipline and writes its frame at most once.
   If a change to the code breaks one of them, this file stops compiling. *)
From Coq Require Import List String NArith Arith Bool Lia.
From RPCX Require Import Wire.Bytes Wire.Header Wire.Codec Wire.EncodeProofs Wire.Shared Wire.SharedProofs Wire.SharedGen.
Import ListNotations.
Close Scope N_scope.
Close Scope string_scope.
Open Scope nat_scope.

Lemma all_sites_safe : forallb (fun sp => safe_from 0 (snd sp)) site_paths = true.
Proof. vm_compute. reflexivity. Qed.

Lemma all_sites_write_once : forallb (fun sp => Nat.leb (count_writes (snd sp)) 1) site_paths = true.
Proof. vm_compute. reflexivity. Qed.

Lemma some_site_writes : existsb (fun sp => Nat.eqb (count_writes (snd sp)) 1) site_paths = true.
Proof. vm_compute. reflexivity. Qed.

(* the program of a thread that executes path number i of the generated list (idle if out of range) *)
Definition prog_of (i : nat) : list op := nth i (map snd site_paths) [].

Lemma prog_of_safe i : safe_from 0 (prog_of i) = true.
Proof.
  unfold prog_of. pose proof all_sites_safe as H. rewrite forallb_forall in H.
  destruct (Nat.lt_ge_cases i (List.length (map snd site_paths))) as [Hlt|Hge].
  - pose proof (nth_In (map snd site_paths) [] Hlt) as Hin. apply in_map_iff in Hin as (sp & E & Hin).
    rewrite <- E. now apply H.
  - rewrite nth_overflow by assumption. reflexivity.
Qed.

Lemma prog_of_writes_once i : count_writes (prog_of i) <= 1.
Proof.
  unfold prog_of. pose proof all_sites_write_once as H. rewrite forallb_forall in H.
  destruct (Nat.lt_ge_cases i (List.length (map snd site_paths))) as [Hlt|Hge].
  - pose proof (nth_In (map snd site_paths) [] Hlt) as Hin. apply in_map_iff in Hin as (sp & E & Hin).
    rewrite <- E. apply Nat.leb_le. now apply H.
  - rewrite nth_overflow by assumption. unfold count_writes. simpl. lia.
Qed.

Section Sites.
Variable env : comp_env.
Variable maxlen : N.
Variable msg : nat -> message.
Hypothesis frames_ok : forall t, frame_ok env maxlen (msg t).
Variable site : nat -> nat.     (* which path of which site thread t executes *)

Definition progs (t : nat) : list op := prog_of (site t).

Theorem sites_stream_is_frames sched :
  stream (wrun env msg progs sched) = flat_map (fun t => frame_bytes env (msg t)) (wlog (wrun env msg progs sched)).
Proof. apply (shared_stream_is_frames env maxlen msg frames_ok). intros t. apply prog_of_safe. Qed.

Theorem sites_stream_decodes sched old fuel :
  List.length (wlog (wrun env msg progs sched)) <= fuel ->
  decode_all fuel env maxlen old (stream (wrun env msg progs sched)) = (map msg (wlog (wrun env msg progs sched)), None).
Proof. apply (shared_stream_decodes env maxlen msg frames_ok). intros t. apply prog_of_safe. Qed.

Theorem sites_frame_at_most_once sched t :
  count_occ Nat.eq_dec (wlog (wrun env msg progs sched)) t <= 1.
Proof.
  pose proof (frames_written_at_most_programmed env maxlen msg frames_ok progs sched t) as H.
  pose proof (prog_of_writes_once (site t)) as H1. unfold progs in *. lia.
Qed.

End Sites.
