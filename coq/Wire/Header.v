(* Hand-written model of protocol.Header (a [12]byte) and its twelve accessors, written as the Go
   one-liners of protocol/message.go.  Wire/HeaderGen.v holds the same definitions regenerated
   from the Go source by tools/goheader2v on every run; Wire/HeaderGenProofs.v proves them equal. *)
From Coq Require Import List NArith Arith Bool.
From RPCX Require Import Wire.Bytes.
Import ListNotations.
Open Scope N_scope.

Definition header := bytes.   (* length 12 *)
Definition magic : N := 8.

Definition CheckMagicNumber (h : header) : bool := byte_at h 0 =? magic.
Definition Version (h : header) : N := byte_at h 1.
Definition SetVersion (h : header) (v : N) : header := upd 1 (b8 v) h.
Definition MessageType (h : header) : N := N.shiftr (N.land (byte_at h 2) 128) 7.
Definition SetMessageType (h : header) (mt : N) : header :=
  upd 2 (N.lor (N.ldiff (byte_at h 2) 128) (shl8 (b8 mt) 7)) h.
Definition IsHeartbeat (h : header) : bool := N.land (byte_at h 2) 64 =? 64.
Definition SetHeartbeat (h : header) (hb : bool) : header :=
  if hb then upd 2 (N.lor (byte_at h 2) 64) h else upd 2 (N.ldiff (byte_at h 2) 64) h.
Definition IsOneway (h : header) : bool := N.land (byte_at h 2) 32 =? 32.
Definition SetOneway (h : header) (ow : bool) : header :=
  if ow then upd 2 (N.lor (byte_at h 2) 32) h else upd 2 (N.ldiff (byte_at h 2) 32) h.
Definition CompressType (h : header) : N := N.shiftr (N.land (byte_at h 2) 28) 2.
Definition SetCompressType (h : header) (ct : N) : header :=
  upd 2 (N.lor (N.ldiff (byte_at h 2) 28) (N.land (shl8 (b8 ct) 2) 28)) h.
Definition MessageStatusType (h : header) : N := N.land (byte_at h 2) 3.
Definition SetMessageStatusType (h : header) (mt : N) : header :=
  upd 2 (N.lor (N.ldiff (byte_at h 2) 3) (N.land (b8 mt) 3)) h.
Definition SerializeType (h : header) : N := N.shiftr (N.land (byte_at h 3) 240) 4.
Definition SetSerializeType (h : header) (st : N) : header :=
  upd 3 (N.lor (N.ldiff (byte_at h 3) 240) (shl8 (b8 st) 4)) h.
Definition Seq (h : header) : N := get64 (skipn 4 h).
Definition SetSeq (h : header) (s : N) : header := firstn 4 h ++ put64 s.
