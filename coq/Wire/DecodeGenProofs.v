(* The two bounds-checked readers of the decoder as regenerated from protocol/message.go on every run
   (Wire/DecodeGen.v, by tools/godecode2v) are the ones the decoder model of Wire/Codec.v is built from: every
   theorem about [decode] is therefore a theorem about the code as it reads now. *)
From Coq Require Import List NArith Bool.
From RPCX Require Import Wire.Bytes Wire.Codec Wire.DecodeGen.
Import ListNotations.
Open Scope N_scope.

Theorem gen_section_is_section : forall data n, gen_section data n = section data n.
Proof.
  intros data n. unfold gen_section, section.
  destruct (s_len data - n <? 4); [reflexivity|].
  destruct (reslice data n (n + 4)) as [s4|]; [|reflexivity]. cbn [of_opt bind].
  destruct (be32 s4) as [sl|]; [|reflexivity]. cbn [of_opt bind].
  destruct (s_len data - (n + 4) <? sl); [reflexivity|].
  destruct (reslice data (n + 4) (n + 4 + sl)) as [sec|]; reflexivity.
Qed.

Theorem gen_dec_meta_is_dec_meta : forall fuel l data n acc,
  gen_dec_meta fuel l data n acc = dec_meta fuel l data n acc.
Proof.
  induction fuel as [|fuel IH]; intros l data n acc; cbn [gen_dec_meta dec_meta].
  - reflexivity.
  - destruct (n <? l); [|reflexivity].
    destruct (l - n <? 4); [reflexivity|].
    destruct (reslice data n (n + 4)) as [s4|]; [|reflexivity]. cbn [of_opt bind].
    destruct (be32 s4) as [sl|]; [|reflexivity]. cbn [of_opt bind].
    destruct ((l - (n + 4) <? sl) || (l - (n + 4) - sl <? 4)); [reflexivity|].
    destruct (reslice data (n + 4) (n + 4 + sl)) as [k|]; [|reflexivity]. cbn [of_opt bind].
    destruct (reslice data (n + 4 + sl) (n + 4 + sl + 4)) as [s4'|]; [|reflexivity]. cbn [of_opt bind].
    destruct (be32 s4') as [sl'|]; [|reflexivity]. cbn [of_opt bind].
    destruct (l - (n + 4 + sl + 4) <? sl'); [reflexivity|].
    destruct (reslice data (n + 4 + sl + 4) (n + 4 + sl + 4 + sl')) as [v|]; [|reflexivity]. cbn [of_opt bind].
    apply IH.
Qed.
