(* List-level specification of the frame body parse (no slices, no capacity, no panics by
   construction of [sect]); Wire/CodecProofs.v proves the slice-level decoder refines it.
   Definitions only. *)
From Coq Require Import List NArith Arith Bool.
From RPCX Require Import Wire.Bytes Wire.Header Wire.Codec.
Import ListNotations.
Open Scope N_scope.

(* next length-prefixed section of [rest]: (section bytes, what follows) *)
Definition sect (rest : bytes) : outcome (bytes * bytes) :=
  if lenN rest <? 4 then Err InvalidFrame else
  let sl := get32 rest in
  let r := dropN 4 rest in
  if lenN r <? sl then Err InvalidFrame else Ok (takeN sl r, dropN sl r).

Fixpoint meta_spec (fuel : nat) (rest : bytes) (acc : list (bytes * bytes))
  : outcome (list (bytes * bytes)) :=
  match rest with
  | [] => Ok acc
  | _ =>
    match fuel with
    | O => Panic
    | S fuel' =>
      if lenN rest <? 4 then Err MetaKVMissing else
      let sl := get32 rest in
      let r1 := dropN 4 rest in
      if (lenN r1 <? sl) || (lenN r1 - sl <? 4) then Err MetaKVMissing else
      let r2 := dropN sl r1 in
      let sl' := get32 r2 in
      let r3 := dropN 4 r2 in
      if lenN r3 <? sl' then Err MetaKVMissing else
      meta_spec fuel' (dropN sl' r3) (acc ++ [(takeN sl r1, takeN sl' r3)])
    end
  end.

Definition unzip_spec (env : comp_env) (h : header) (raw : bytes) : outcome bytes :=
  let ct := CompressType h in
  if ct =? 0 then Ok raw
  else match env ct with
       | None => Err UnsupportedCompressor
       | Some c => match c_unzip c raw with Some p => Ok p | None => Err UnzipError end
       end.

Definition body_spec (env : comp_env) (h : header) (body : bytes) : outcome message :=
  p1 <- sect body ;;
  p2 <- sect (snd p1) ;;
  p3 <- sect (snd p2) ;;
  meta <- (if 0 <? lenN (fst p3) then meta_spec (S (N.to_nat (lenN (fst p3)))) (fst p3) [] else Ok []) ;;
  p4 <- sect (snd p3) ;;
  payload <- unzip_spec env h (fst p4) ;;
  Ok (mkMsg h (fst p1) (fst p2) meta payload).

(* Go map semantics of the decoded metadata: later duplicate key wins *)
Fixpoint bytes_eqb (a b : bytes) : bool :=
  match a, b with
  | [], [] => true
  | x :: a', y :: b' => (x =? y) && bytes_eqb a' b'
  | _, _ => false
  end.

Fixpoint meta_lookup (k : bytes) (kvs : list (bytes * bytes)) : option bytes :=
  match kvs with
  | [] => None
  | (k', v) :: r => match meta_lookup k r with
                    | Some v' => Some v'
                    | None => if bytes_eqb k k' then Some v else None
                    end
  end.
