(* Model of the rpcx wire codec (protocol/message.go after the C01/C02 repairs):
   Encode / EncodeSlicePointer (offset arithmetic over a pooled buffer with arbitrary old
   contents), WriteTo (sequence of writes), Decode / decodeMetadata with Go's slice semantics
   (backing array, len, cap; an out-of-range slice expression is a panic; bytes between len and
   cap are the previous frame's).  Definitions only. *)
From Coq Require Import List NArith Arith Bool.
From RPCX Require Import Wire.Bytes Wire.Header.
Import ListNotations.
Open Scope N_scope.

Record message := mkMsg {
  m_hdr : header; m_path : bytes; m_meth : bytes;
  m_meta : list (bytes * bytes);   (* in wire order; Go map: later duplicate wins *)
  m_payload : bytes }.

(* protocol.Compressors: compress type -> registered compressor (zip/unzip may fail) *)
Record compressor := { c_zip : bytes -> option bytes; c_unzip : bytes -> option bytes }.
Definition comp_env := N -> option compressor.

(* ---------- encoding ---------- *)
Definition enc_kv (kv : bytes * bytes) : bytes :=
  put32 (lenN (fst kv)) ++ fst kv ++ put32 (lenN (snd kv)) ++ snd kv.
Definition enc_meta (kvs : list (bytes * bytes)) : bytes := flat_map enc_kv kvs.

Definition body_of (sp sm meta pl : bytes) : bytes :=
  put32 (lenN sp) ++ sp ++ put32 (lenN sm) ++ sm ++ put32 (lenN meta) ++ meta ++ put32 (lenN pl) ++ pl.

(* the specification of a frame *)
Definition frame_of (h : header) (sp sm meta pl : bytes) : bytes :=
  h ++ put32 (lenN (body_of sp sm meta pl)) ++ body_of sp sm meta pl.

(* EncodeSlicePointer's compression step.  m is a value receiver but m.Header is a pointer:
   SetCompressType(None) is visible in the header that is then copied into the frame. *)
Definition enc_payload (env : comp_env) (m : message) : header * bytes :=
  let ct := CompressType (m_hdr m) in
  if ct =? 0 then (m_hdr m, m_payload m)
  else match env ct with
       | None => (SetCompressType (m_hdr m) 0, m_payload m)
       | Some c => match c_zip c (m_payload m) with
                   | Some z => (m_hdr m, z)
                   | None => (SetCompressType (m_hdr m) 0, m_payload m)
                   end
       end.

(* copy(buf[off:...], src) *)
Definition copy_at (off : N) (src buf : bytes) : bytes :=
  firstn (length buf) (takeN off buf ++ src ++ dropN (off + lenN src) buf).

(* EncodeSlicePointer: data := bufferPool.Get(l) has arbitrary old contents [garbage] *)
Definition encode_pooled (env : comp_env) (garbage : bytes) (m : message) : bytes :=
  let (h, payload) := enc_payload env m in
  let meta := enc_meta (m_meta m) in
  let spL := lenN (m_path m) in
  let smL := lenN (m_meth m) in
  let totalL := (4 + spL) + (4 + smL) + (4 + lenN meta) + (4 + lenN payload) in
  let metaStart := 12 + 4 + (4 + spL) + (4 + smL) in
  let payLoadStart := metaStart + (4 + lenN meta) in
  let d0 := garbage in
  let d1 := copy_at 0 h d0 in
  let d2 := copy_at 12 (put32 totalL) d1 in
  let d3 := copy_at 16 (put32 spL) d2 in
  let d4 := copy_at 20 (m_path m) d3 in
  let d5 := copy_at (20 + spL) (put32 smL) d4 in
  let d6 := copy_at (24 + spL) (m_meth m) d5 in
  let d7 := copy_at metaStart (put32 (lenN meta)) d6 in
  let d8 := copy_at (metaStart + 4) meta d7 in
  let d9 := copy_at payLoadStart (put32 (lenN payload)) d8 in
  copy_at (payLoadStart + 4) payload d9.

Definition encode_len (env : comp_env) (m : message) : N :=
  let (h, payload) := enc_payload env m in
  16 + lenN (body_of (m_path m) (m_meth m) (enc_meta (m_meta m)) payload).

Inductive werr := WUnsupportedCompressor | WZipError.

(* WriteTo: the header is written first; an unregistered compressor is an error after it *)
Definition encode_stream (env : comp_env) (m : message) : bytes * option werr :=
  let ct := CompressType (m_hdr m) in
  let finish payload :=
    let meta := enc_meta (m_meta m) in
    (m_hdr m ++ put32 ((4 + lenN (m_path m)) + (4 + lenN (m_meth m)) + (4 + lenN meta) + (4 + lenN payload))
       ++ put32 (lenN (m_path m)) ++ m_path m ++ put32 (lenN (m_meth m)) ++ m_meth m
       ++ put32 (lenN meta) ++ meta ++ put32 (lenN payload) ++ payload, None) in
  if ct =? 0 then finish (m_payload m)
  else match env ct with
       | None => (m_hdr m, Some WUnsupportedCompressor)
       | Some c => match c_zip c (m_payload m) with
                   | Some z => finish z
                   | None => (m_hdr m, Some WZipError)
                   end
       end.

(* ---------- Go slices ---------- *)
Record slice := mkSlice { s_back : bytes; s_off : N; s_len : N; s_cap : N }.

Definition contents (s : slice) : bytes := takeN (s_len s) (dropN (s_off s) (s_back s)).

(* s[a:b] : legal iff a <= b <= cap(s); otherwise a run-time panic *)
Definition reslice (s : slice) (a b : N) : option slice :=
  if (a <=? b) && (b <=? s_cap s)
  then Some (mkSlice (s_back s) (s_off s + a) (b - a) (s_cap s - a))
  else None.

(* binary.BigEndian.Uint32(s): bounds check b[3] against len *)
Definition be32 (s : slice) : option N :=
  if 4 <=? s_len s then Some (get32 (contents s)) else None.

(* ---------- decoding ---------- *)
Inductive derr :=
  | EOF | UnexpectedEOF | BadMagic | TooLong | InvalidFrame | MetaKVMissing
  | UnsupportedCompressor | UnzipError
  | RecoveredPanic.       (* the deferred recover() turned a panic into an error *)

Inductive outcome (A : Type) := Ok (a : A) | Err (e : derr) | Panic.
Arguments Ok {A} a. Arguments Err {A} e. Arguments Panic {A}.

Definition bind {A B} (x : outcome A) (f : A -> outcome B) : outcome B :=
  match x with Ok a => f a | Err e => Err e | Panic => Panic end.
Definition of_opt {A} (x : option A) : outcome A := match x with Some a => Ok a | None => Panic end.
Notation "x <- e1 ;; e2" := (bind e1 (fun x => e2)) (at level 61, e1 at next level, right associativity).

(* the bounds-checked helper of Decode: the next length-prefixed section of data, from offset n *)
Definition section (data : slice) (n : N) : outcome (slice * N) :=
  if s_len data - n <? 4 then Err InvalidFrame else
  s4 <- of_opt (reslice data n (n + 4)) ;;
  sl <- of_opt (be32 s4) ;;
  let n := n + 4 in
  if s_len data - n <? sl then Err InvalidFrame else
  sec <- of_opt (reslice data n (n + sl)) ;;
  Ok (sec, n + sl).

(* decodeMetadata(l, data): l = len(data) as passed by Decode *)
Fixpoint dec_meta (fuel : nat) (l : N) (data : slice) (n : N) (acc : list (bytes * bytes))
  : outcome (list (bytes * bytes)) :=
  if n <? l then
    match fuel with
    | O => Panic  (* unreachable: fuel = l + 1 and every round consumes at least 8 bytes *)
    | S fuel' =>
      if l - n <? 4 then Err MetaKVMissing else
      s4 <- of_opt (reslice data n (n + 4)) ;;
      sl <- of_opt (be32 s4) ;;
      let n := n + 4 in
      if (l - n <? sl) || (l - n - sl <? 4) then Err MetaKVMissing else
      ks <- of_opt (reslice data n (n + sl)) ;;
      let n := n + sl in
      s4' <- of_opt (reslice data n (n + 4)) ;;
      sl' <- of_opt (be32 s4') ;;
      let n := n + 4 in
      if l - n <? sl' then Err MetaKVMissing else
      vs <- of_opt (reslice data n (n + sl')) ;;
      dec_meta fuel' l data (n + sl') (acc ++ [(contents ks, contents vs)])
    end
  else Ok acc.

(* a Message object that may be reused: its fields and the backing array of m.data (cap) *)
Record msgobj := mkObj { o_msg : message; o_backing : bytes }.

Definition fresh_obj : msgobj := mkObj (mkMsg (magic :: repeat 0 11) [] [] [] []) [].

(* io.ReadFull(r, buf[:n]) on the remaining stream *)
Definition read_full (n : N) (stream : bytes) : outcome bytes * bytes :=
  if n =? 0 then (Ok [], stream)
  else if n <=? lenN stream then (Ok (takeN n stream), dropN n stream)
  else match stream with
       | [] => (Err EOF, [])
       | _ => (Err UnexpectedEOF, [])
       end.

(* parse of the frame body, after the body bytes have been read into m.data *)
Definition decode_body (env : comp_env) (h : header) (data : slice) : outcome message :=
  p1 <- section data 0 ;;
  p2 <- section data (snd p1) ;;
  p3 <- section data (snd p2) ;;
  meta <- (if 0 <? s_len (fst p3)
           then dec_meta (S (N.to_nat (s_len (fst p3)))) (s_len (fst p3)) (fst p3) 0 []
           else Ok []) ;;
  p4 <- section data (snd p3) ;;
  let raw := contents (fst p4) in
  payload <- (let ct := CompressType h in
              if ct =? 0 then Ok raw
              else match env ct with
                   | None => Err UnsupportedCompressor
                   | Some c => match c_unzip c raw with Some p => Ok p | None => Err UnzipError end
                   end) ;;
  Ok (mkMsg h (contents (fst p1)) (contents (fst p2)) meta payload).

(* Message.Decode.  Returns the outcome (the object after a successful decode) and the rest of
   the stream (what the reader still holds). *)
Definition decode (env : comp_env) (maxlen : N) (old : msgobj) (stream : bytes)
  : outcome msgobj * bytes :=
  match read_full 1 stream with
  | (Ok b0, r1) =>
    if negb (byte_at b0 0 =? magic) then (Err BadMagic, r1) else
    match read_full 11 r1 with
    | (Ok b1, r2) =>
      let h := b0 ++ b1 in
      match read_full 4 r2 with
      | (Ok lb, r3) =>
        let l := get32 lb in
        if (0 <? maxlen) && (maxlen <? l) then (Err TooLong, r3) else
        match read_full l r3 with
        | (Ok bodyb, r4) =>
          (* reuse m.data when its capacity suffices: the bytes past len are the old ones *)
          let backing := if l <=? lenN (o_backing old)
                         then bodyb ++ dropN l (o_backing old) else bodyb in
          let data := mkSlice backing 0 l (lenN backing) in
          (match decode_body env h data with
           | Ok m => Ok (mkObj m backing)
           | Err e => Err e
           | Panic => Err RecoveredPanic
           end, r4)
        | (Err e, r4) => (Err e, r4)
        | (Panic, r4) => (Err RecoveredPanic, r4)
        end
      | (Err e, r3) => (Err e, r3)
      | (Panic, r3) => (Err RecoveredPanic, r3)
      end
    | (Err e, r2) => (Err e, r2)
    | (Panic, r2) => (Err RecoveredPanic, r2)
    end
  | (Err e, r1) => (Err e, r1)
  | (Panic, r1) => (Err RecoveredPanic, r1)
  end.

(* decode frames until the stream ends or a decode fails; fuel bounds the number of frames *)
Fixpoint decode_all (fuel : nat) (env : comp_env) (maxlen : N) (old : msgobj) (stream : bytes)
  : list message * option derr :=
  match fuel with
  | O => ([], None)
  | S fuel' =>
    match stream with
    | [] => ([], None)
    | _ =>
      match decode env maxlen old stream with
      | (Ok o, rest) => let (ms, e) := decode_all fuel' env maxlen o rest in (o_msg o :: ms, e)
      | (Err e, _) => ([], Some e)
      | (Panic, _) => ([], Some RecoveredPanic)
      end
    end
  end.
