From Coq Require Import List NArith ZArith Arith Bool Lia ZifyN ZifyNat ZifyBool.
From RPCX Require Import Wire.Bytes Wire.BytesProofs Wire.Header Wire.Codec Wire.CodecSpec
  Wire.CodecProofs Wire.CodecRoundTrip Wire.StreamProofs.
Import ListNotations.
Open Scope N_scope.
Ltac Zify.zify_post_hook ::= Z.div_mod_to_equations.

Lemma body_len sp sm meta pl :
  lenN (body_of sp sm meta pl) = (4 + lenN sp) + (4 + lenN sm) + (4 + lenN meta) + (4 + lenN pl).
Proof. unfold body_of. rewrite !lenN_app, !lenN_put32. lia. Qed.

Lemma copy_at_mid off (src a g b : bytes) :
  lenN a = off -> length g = length src -> copy_at off src (a ++ g ++ b) = a ++ src ++ b.
Proof.
  intros Ha Hg. unfold copy_at. subst off.
  rewrite takeN_app.
  replace (lenN a + lenN src) with (lenN (a ++ g)) by (rewrite lenN_app; unfold lenN; lia).
  rewrite app_assoc, dropN_app, <- app_assoc.
  apply firstn_all2. rewrite !app_length. lia.
Qed.

Lemma copy_at_head (src g b : bytes) :
  length g = length src -> copy_at 0 src (g ++ b) = src ++ b.
Proof. intros H. apply (copy_at_mid 0 src [] g b eq_refl H). Qed.

Lemma split_at (l : bytes) n : n <= lenN l -> exists a b, l = a ++ b /\ lenN a = n.
Proof.
  intros H. exists (takeN n l), (dropN n l). split; [symmetry; apply takeN_dropN_split|].
  rewrite lenN_takeN. lia.
Qed.

Lemma len_eq (a b : bytes) : lenN a = lenN b -> length a = length b.
Proof. unfold lenN. lia. Qed.

(* EncodeSlicePointer overwrites every byte of the pooled buffer: the result is the frame
   specification whatever the buffer held before. *)
Theorem encode_pooled_is_frame env (garbage : bytes) m :
  length (header_on_wire env m) = 12%nat ->
  lenN garbage = encode_len env m ->
  encode_pooled env garbage m =
    frame_of (header_on_wire env m) (m_path m) (m_meth m) (enc_meta (m_meta m)) (payload_on_wire env m).
Proof.
  unfold header_on_wire, payload_on_wire, encode_pooled, encode_len, frame_of.
  destruct (enc_payload env m) as [h pl]. cbn [fst snd]. intros Hh Hg.
  set (sp := m_path m) in *. set (sm := m_meth m) in *. set (meta := enc_meta (m_meta m)) in *.
  rewrite body_len in *.
  assert (Hh' : lenN h = 12) by (unfold lenN; lia).
  destruct (split_at garbage 12 ltac:(lia)) as (g0 & r0 & -> & L0). rewrite lenN_app in Hg.
  destruct (split_at r0 4 ltac:(lia)) as (g1 & r1 & -> & L1). rewrite lenN_app in Hg.
  destruct (split_at r1 4 ltac:(lia)) as (g2 & r2 & -> & L2). rewrite lenN_app in Hg.
  destruct (split_at r2 (lenN sp) ltac:(lia)) as (g3 & r3 & -> & L3). rewrite lenN_app in Hg.
  destruct (split_at r3 4 ltac:(lia)) as (g4 & r4 & -> & L4). rewrite lenN_app in Hg.
  destruct (split_at r4 (lenN sm) ltac:(lia)) as (g5 & r5 & -> & L5). rewrite lenN_app in Hg.
  destruct (split_at r5 4 ltac:(lia)) as (g6 & r6 & -> & L6). rewrite lenN_app in Hg.
  destruct (split_at r6 (lenN meta) ltac:(lia)) as (g7 & r7 & -> & L7). rewrite lenN_app in Hg.
  destruct (split_at r7 4 ltac:(lia)) as (g8 & g9 & -> & L8). rewrite lenN_app in Hg.
  assert (L9 : lenN g9 = lenN pl) by lia.
  (* header *)
  rewrite (copy_at_head h g0) by (apply len_eq; lia).
  (* total length *)
  rewrite (copy_at_mid 12 (put32 _) h g1) by (assumption || (apply len_eq; rewrite lenN_put32; lia)).
  rewrite (app_assoc h).
  rewrite (copy_at_mid 16 (put32 (lenN sp)) _ g2)
    by (rewrite ?lenN_app, ?lenN_put32; try lia; apply len_eq; rewrite lenN_put32; lia).
  rewrite (app_assoc (h ++ _)).
  rewrite (copy_at_mid 20 sp _ g3)
    by (rewrite ?lenN_app, ?lenN_put32; try lia; apply len_eq; lia).
  rewrite (app_assoc ((h ++ _) ++ _)).
  rewrite (copy_at_mid (20 + lenN sp) (put32 (lenN sm)) _ g4)
    by (rewrite ?lenN_app, ?lenN_put32; try lia; apply len_eq; rewrite lenN_put32; lia).
  rewrite (app_assoc (((h ++ _) ++ _) ++ _)).
  rewrite (copy_at_mid (24 + lenN sp) sm _ g5)
    by (rewrite ?lenN_app, ?lenN_put32; try lia; apply len_eq; lia).
  rewrite (app_assoc ((((h ++ _) ++ _) ++ _) ++ _)).
  rewrite (copy_at_mid (12 + 4 + (4 + lenN sp) + (4 + lenN sm)) (put32 (lenN meta)) _ g6)
    by (rewrite ?lenN_app, ?lenN_put32; try lia; apply len_eq; rewrite lenN_put32; lia).
  rewrite (app_assoc (((((h ++ _) ++ _) ++ _) ++ _) ++ _)).
  rewrite (copy_at_mid (12 + 4 + (4 + lenN sp) + (4 + lenN sm) + 4) meta _ g7)
    by (rewrite ?lenN_app, ?lenN_put32; try lia; apply len_eq; lia).
  rewrite (app_assoc ((((((h ++ _) ++ _) ++ _) ++ _) ++ _) ++ _)).
  rewrite (copy_at_mid (12 + 4 + (4 + lenN sp) + (4 + lenN sm) + (4 + lenN meta)) (put32 (lenN pl)) _ g8)
    by (rewrite ?lenN_app, ?lenN_put32; try lia; apply len_eq; rewrite lenN_put32; lia).
  rewrite (app_assoc (((((((h ++ _) ++ _) ++ _) ++ _) ++ _) ++ _) ++ _)).
  rewrite <- (app_nil_r g9).
  rewrite (copy_at_mid (12 + 4 + (4 + lenN sp) + (4 + lenN sm) + (4 + lenN meta) + 4) pl _ g9 [])
    by (rewrite ?lenN_app, ?lenN_put32; try lia; apply len_eq; lia).
  rewrite app_nil_r. unfold body_of. rewrite <- !app_assoc. reflexivity.
Qed.

(* WriteTo emits the same bytes when the compressor is registered and succeeds *)
Theorem encode_stream_is_frame env m : comp_ok env m ->
  encode_stream env m =
    (frame_of (m_hdr m) (m_path m) (m_meth m) (enc_meta (m_meta m)) (payload_on_wire env m), None).
Proof.
  intros Hc. unfold encode_stream, payload_on_wire, enc_payload, frame_of.
  destruct Hc as [H0|(c & z & Hc & Hz & Hu)].
  - rewrite H0. cbn [N.eqb snd]. rewrite body_len. unfold body_of. rewrite <- ?app_assoc. reflexivity.
  - destruct (CompressType (m_hdr m) =? 0); cbn [snd].
    + rewrite body_len. unfold body_of. rewrite <- ?app_assoc. reflexivity.
    + rewrite Hc, Hz. cbn [snd]. rewrite body_len. unfold body_of. rewrite <- ?app_assoc. reflexivity.
Qed.

(* ---------- round trip: Decode (Encode m) = m, for both encoders ---------- *)
Definition hdr_ok (h : header) : Prop := length h = 12%nat /\ byte_at h 0 = magic.

Theorem roundtrip_frame env maxlen old m rest :
  hdr_ok (m_hdr m) -> msg_ok env m -> comp_ok env m ->
  lenN (body_of (m_path m) (m_meth m) (enc_meta (m_meta m)) (payload_on_wire env m)) < U32 ->
  (maxlen = 0 \/
   lenN (body_of (m_path m) (m_meth m) (enc_meta (m_meta m)) (payload_on_wire env m)) <= maxlen) ->
  let r := decode env maxlen old
             (frame_of (m_hdr m) (m_path m) (m_meth m) (enc_meta (m_meta m)) (payload_on_wire env m) ++ rest) in
  out_msg (fst r) = Ok m /\ snd r = rest.
Proof.
  intros [Hl Hm] Hok Hc Hb Hmax. cbv zeta. unfold frame_of. rewrite <- !app_assoc.
  destruct (decode_frame env maxlen old (m_hdr m) _ rest Hl Hm Hb Hmax) as [E1 E2]. cbv zeta in E1, E2.
  rewrite E1, E2, (body_spec_roundtrip env m Hok Hc). split; reflexivity.
Qed.

Theorem roundtrip_pooled env maxlen old garbage m rest :
  hdr_ok (m_hdr m) -> msg_ok env m -> comp_ok env m ->
  encode_len env m < 16 + U32 -> (maxlen = 0 \/ encode_len env m <= 16 + maxlen) ->
  lenN garbage = encode_len env m ->
  let r := decode env maxlen old (encode_pooled env garbage m ++ rest) in
  out_msg (fst r) = Ok m /\ snd r = rest.
Proof.
  intros Hh Hok Hc Hlen Hmax Hg.
  destruct (enc_payload_comp env m Hc) as [Hhw _].
  assert (El : encode_len env m =
               16 + lenN (body_of (m_path m) (m_meth m) (enc_meta (m_meta m)) (payload_on_wire env m))).
  { unfold encode_len, payload_on_wire. destruct (enc_payload env m); reflexivity. }
  rewrite encode_pooled_is_frame by (rewrite ?Hhw; (apply Hh || exact Hg)).
  rewrite Hhw. apply roundtrip_frame; auto; lia.
Qed.

Theorem roundtrip_stream env maxlen old m rest :
  hdr_ok (m_hdr m) -> msg_ok env m -> comp_ok env m ->
  encode_len env m < 16 + U32 -> (maxlen = 0 \/ encode_len env m <= 16 + maxlen) ->
  snd (encode_stream env m) = None /\
  let r := decode env maxlen old (fst (encode_stream env m) ++ rest) in
  out_msg (fst r) = Ok m /\ snd r = rest.
Proof.
  intros Hh Hok Hc Hlen Hmax.
  assert (El : encode_len env m =
               16 + lenN (body_of (m_path m) (m_meth m) (enc_meta (m_meta m)) (payload_on_wire env m))).
  { unfold encode_len, payload_on_wire. destruct (enc_payload env m); reflexivity. }
  rewrite encode_stream_is_frame by exact Hc. cbn [fst snd]. split; [reflexivity|].
  apply roundtrip_frame; auto; lia.
Qed.

(* the two encoders agree byte for byte *)
Theorem encoders_agree env garbage m :
  hdr_ok (m_hdr m) -> comp_ok env m -> lenN garbage = encode_len env m ->
  encode_pooled env garbage m = fst (encode_stream env m).
Proof.
  intros Hh Hc Hg. destruct (enc_payload_comp env m Hc) as [Hhw _].
  rewrite encode_pooled_is_frame by (rewrite ?Hhw; (apply Hh || exact Hg)).
  rewrite encode_stream_is_frame by exact Hc. rewrite Hhw. reflexivity.
Qed.

(* ---------- resynchronisation: concatenated frames decode to the same sequence ---------- *)
Definition frame_bytes env (m : message) : bytes :=
  frame_of (m_hdr m) (m_path m) (m_meth m) (enc_meta (m_meta m)) (payload_on_wire env m).

Definition frame_ok env maxlen (m : message) : Prop :=
  hdr_ok (m_hdr m) /\ msg_ok env m /\ comp_ok env m /\
  lenN (body_of (m_path m) (m_meth m) (enc_meta (m_meta m)) (payload_on_wire env m)) < U32 /\
  (maxlen = 0 \/
   lenN (body_of (m_path m) (m_meth m) (enc_meta (m_meta m)) (payload_on_wire env m)) <= maxlen).

Lemma frame_bytes_nonempty env m : hdr_ok (m_hdr m) -> frame_bytes env m <> [].
Proof.
  intros [Hl _]. unfold frame_bytes, frame_of. destruct (m_hdr m); [discriminate|discriminate].
Qed.

Theorem decode_all_frames env maxlen ms : forall old fuel,
  Forall (frame_ok env maxlen) ms -> (length ms <= fuel)%nat ->
  decode_all fuel env maxlen old (flat_map (frame_bytes env) ms) = (ms, None).
Proof.
  induction ms as [|m ms IH]; intros old fuel Hok Hf.
  - destruct fuel; reflexivity.
  - inversion Hok as [|? ? (Hh & Hm & Hc & Hb & Hmax) Hr]; subst.
    destruct fuel as [|fuel]; [simpl in Hf; lia|].
    cbn [flat_map decode_all].
    pose proof (frame_bytes_nonempty env m Hh) as Hne.
    destruct (frame_bytes env m ++ flat_map (frame_bytes env) ms) as [|x xs] eqn:Es.
    { destruct (frame_bytes env m); [congruence|discriminate]. }
    rewrite <- Es. clear Es x xs.
    destruct (roundtrip_frame env maxlen old m (flat_map (frame_bytes env) ms) Hh Hm Hc Hb Hmax) as [E1 E2].
    cbv zeta in E1, E2. fold (frame_bytes env m) in E1, E2.
    destruct (decode env maxlen old (frame_bytes env m ++ flat_map (frame_bytes env) ms)) as [[o|e|] rest];
      cbn [fst snd out_msg] in E1, E2; try discriminate.
    injection E1 as E1. subst rest.
    rewrite IH by (assumption || (simpl in Hf; lia)). rewrite E1. reflexivity.
Qed.
