(* Accessor laws of protocol.Header, proved about the definitions REGENERATED from the Go source
   (Wire/HeaderGen.v), and their agreement with the hand-written Wire/Header.v that the codec
   model and the extraction use.  The flag-byte domain is finite (a byte x a field value), so
   those laws are proved by exhaustive vm_compute sweeps lifted with forallb_forall; the bounds
   are part of the statements. *)
From Coq Require Import List NArith ZArith Arith Bool Lia ZifyN ZifyNat ZifyBool.
From RPCX Require Import Wire.Bytes Wire.BytesProofs.
From RPCX Require Wire.Header Wire.HeaderGen.
Import ListNotations.
Open Scope N_scope.
Ltac Zify.zify_post_hook ::= Z.div_mod_to_equations.

Module G := HeaderGen.
Module H := Header.

Definition nseq (n : N) : list N := map N.of_nat (seq 0 (N.to_nat n)).

Lemma in_nseq n x : x < n -> In x (nseq n).
Proof.
  intros Hx. unfold nseq. apply in_map_iff. exists (N.to_nat x). split; [lia|].
  apply in_seq. lia.
Qed.

Section Sweep.
  Context {A : Type} (eqb : A -> A -> bool) (eqb_ok : forall x y, eqb x y = true -> x = y).

  Lemma sweep2_eq (f g : N -> N -> A) nb nv :
    forallb (fun b => forallb (fun v => eqb (f b v) (g b v)) (nseq nv)) (nseq nb) = true ->
    forall b, b < nb -> forall v, v < nv -> f b v = g b v.
  Proof.
    intros Hs b Hb v Hv. rewrite forallb_forall in Hs. specialize (Hs b (in_nseq nb b Hb)).
    rewrite forallb_forall in Hs. apply eqb_ok. apply Hs. apply in_nseq. exact Hv.
  Qed.

  Lemma sweep1_eq (f g : N -> A) nb :
    forallb (fun b => eqb (f b) (g b)) (nseq nb) = true ->
    forall b, b < nb -> f b = g b.
  Proof.
    intros Hs b Hb. rewrite forallb_forall in Hs. apply eqb_ok. apply Hs. apply in_nseq. exact Hb.
  Qed.
End Sweep.

Lemma Neqb_ok x y : N.eqb x y = true -> x = y. Proof. apply N.eqb_eq. Qed.
Lemma beqb_ok x y : Bool.eqb x y = true -> x = y. Proof. apply Bool.eqb_prop. Qed.

Ltac sweepN2 b Hb v Hv :=
  revert v Hv; revert b Hb;
  match goal with
  | |- forall b', b' < ?nb -> forall v', v' < ?nv -> @?f b' v' = @?g b' v' =>
      first [ apply (sweep2_eq N.eqb Neqb_ok f g nb nv); vm_compute; reflexivity
            | apply (sweep2_eq Bool.eqb beqb_ok f g nb nv); vm_compute; reflexivity ]
  end.
Ltac sweepN1 b Hb :=
  revert b Hb;
  match goal with
  | |- forall b', b' < ?nb -> @?f b' = @?g b' =>
      first [ apply (sweep1_eq N.eqb Neqb_ok f g nb); vm_compute; reflexivity
            | apply (sweep1_eq Bool.eqb beqb_ok f g nb); vm_compute; reflexivity ]
  end.

(* a well-formed header: 12 bytes, each < 256 *)
Definition wf_header (h : bytes) : Prop := length h = 12%nat /\ wf_bytes h.

Ltac destruct_header h Hwf :=
  let Hl := fresh "Hl" in let Hb := fresh "Hb" in
  destruct Hwf as [Hl Hb];
  destruct h as [|h0 h]; [discriminate Hl|]; destruct h as [|h1 h]; [discriminate Hl|];
  destruct h as [|b2 h]; [discriminate Hl|]; destruct h as [|b3 h]; [discriminate Hl|];
  do 8 (destruct h as [|?x h]; [discriminate Hl|]); destruct h; [|discriminate Hl]; clear Hl;
  unfold wf_bytes in Hb;
  assert (Hb2 : b2 < 256) by (inversion Hb as [|? ? ? Hq1]; inversion Hq1 as [|? ? ? Hq2]; inversion Hq2; assumption);
  assert (Hb3 : b3 < 256) by (inversion Hb as [|? ? ? Hq1]; inversion Hq1 as [|? ? ? Hq2];
                              inversion Hq2 as [|? ? ? Hq3]; inversion Hq3; assumption);
  clear Hb.

(* everything the accessors can observe of a header *)
Record hview := mkView {
  v_magic : N; v_version : N; v_type : N; v_hb : bool; v_ow : bool; v_compress : N; v_status : N;
  v_serialize : N; v_reserved : N; v_seq : N }.

Definition gview (h : bytes) : hview :=
  mkView (byte_at h 0) (G.Version h) (G.MessageType h) (G.IsHeartbeat h) (G.IsOneway h)
         (G.CompressType h) (G.MessageStatusType h) (G.SerializeType h) (N.land (byte_at h 3) 15) (G.Seq h).

Ltac view_eq := unfold gview; f_equal.

Ltac open_setter :=
  cbn [byte_at nth upd G.Version G.MessageType G.IsHeartbeat G.IsOneway G.CompressType G.MessageStatusType
       G.SerializeType G.Seq G.SetVersion G.SetMessageType G.SetHeartbeat G.SetOneway G.SetCompressType
       G.SetMessageStatusType G.SetSerializeType G.SetSeq skipn firstn app].

(* ---- each setter changes its own field, to the value set, and nothing else ---- *)
Theorem SetVersion_law h v : wf_header h -> v < 256 ->
  gview (G.SetVersion h v) =
    let w := gview h in mkView (v_magic w) v (v_type w) (v_hb w) (v_ow w) (v_compress w) (v_status w)
                          (v_serialize w) (v_reserved w) (v_seq w).
Proof.
  intros Hwf Hv. destruct_header h Hwf. cbv zeta. unfold gview. open_setter. cbn [v_magic v_type v_hb v_ow v_compress v_status v_serialize v_reserved v_seq].
  f_equal. unfold b8. apply N.mod_small. exact Hv.
Qed.

Theorem SetMessageType_law h v : wf_header h -> v < 2 ->
  gview (G.SetMessageType h v) =
    let w := gview h in mkView (v_magic w) (v_version w) v (v_hb w) (v_ow w) (v_compress w) (v_status w)
                          (v_serialize w) (v_reserved w) (v_seq w).
Proof.
  intros Hwf Hv. destruct_header h Hwf. cbv zeta. unfold gview. open_setter.
  cbn [v_magic v_version v_hb v_ow v_compress v_status v_serialize v_reserved v_seq].
  f_equal; try reflexivity; sweepN2 b2 Hb2 v Hv.
Qed.

Theorem SetCompressType_law h v : wf_header h -> v < 8 ->
  gview (G.SetCompressType h v) =
    let w := gview h in mkView (v_magic w) (v_version w) (v_type w) (v_hb w) (v_ow w) v (v_status w)
                          (v_serialize w) (v_reserved w) (v_seq w).
Proof.
  intros Hwf Hv. destruct_header h Hwf. cbv zeta. unfold gview. open_setter.
  cbn [v_magic v_version v_type v_hb v_ow v_status v_serialize v_reserved v_seq].
  f_equal; try reflexivity; sweepN2 b2 Hb2 v Hv.
Qed.

Theorem SetMessageStatusType_law h v : wf_header h -> v < 4 ->
  gview (G.SetMessageStatusType h v) =
    let w := gview h in mkView (v_magic w) (v_version w) (v_type w) (v_hb w) (v_ow w) (v_compress w) v
                          (v_serialize w) (v_reserved w) (v_seq w).
Proof.
  intros Hwf Hv. destruct_header h Hwf. cbv zeta. unfold gview. open_setter.
  cbn [v_magic v_version v_type v_hb v_ow v_compress v_serialize v_reserved v_seq].
  f_equal; try reflexivity; sweepN2 b2 Hb2 v Hv.
Qed.

Theorem SetSerializeType_law h v : wf_header h -> v < 16 ->
  gview (G.SetSerializeType h v) =
    let w := gview h in mkView (v_magic w) (v_version w) (v_type w) (v_hb w) (v_ow w) (v_compress w) (v_status w)
                          v (v_reserved w) (v_seq w).
Proof.
  intros Hwf Hv. destruct_header h Hwf. cbv zeta. unfold gview. open_setter.
  cbn [v_magic v_version v_type v_hb v_ow v_compress v_status v_reserved v_seq].
  f_equal; try reflexivity; sweepN2 b3 Hb3 v Hv.
Qed.

Theorem SetHeartbeat_law h (hb : bool) : wf_header h ->
  gview (G.SetHeartbeat h hb) =
    let w := gview h in mkView (v_magic w) (v_version w) (v_type w) hb (v_ow w) (v_compress w) (v_status w)
                          (v_serialize w) (v_reserved w) (v_seq w).
Proof.
  intros Hwf. destruct_header h Hwf. cbv zeta. unfold gview.
  destruct hb; open_setter;
  cbn [v_magic v_version v_type v_ow v_compress v_status v_serialize v_reserved v_seq];
  f_equal; try reflexivity; sweepN1 b2 Hb2.
Qed.

Theorem SetOneway_law h (ow : bool) : wf_header h ->
  gview (G.SetOneway h ow) =
    let w := gview h in mkView (v_magic w) (v_version w) (v_type w) (v_hb w) ow (v_compress w) (v_status w)
                          (v_serialize w) (v_reserved w) (v_seq w).
Proof.
  intros Hwf. destruct_header h Hwf. cbv zeta. unfold gview.
  destruct ow; open_setter;
  cbn [v_magic v_version v_type v_hb v_compress v_status v_serialize v_reserved v_seq];
  f_equal; try reflexivity; sweepN1 b2 Hb2.
Qed.

Lemma get64_put64 s : s < 18446744073709551616 -> get64 (put64 s) = s.
Proof.
  intros Hs. unfold get64, put64.
  rewrite get32_put32.
  replace (skipn 4 (put32 ((s / 4294967296) mod 4294967296) ++ put32 (s mod 4294967296)))
    with (put32 (s mod 4294967296)) by reflexivity.
  rewrite <- (app_nil_r (put32 (s mod 4294967296))), get32_put32. lia.
Qed.

Theorem SetSeq_law h s : wf_header h -> s < 18446744073709551616 ->
  gview (G.SetSeq h s) =
    let w := gview h in mkView (v_magic w) (v_version w) (v_type w) (v_hb w) (v_ow w) (v_compress w) (v_status w)
                          (v_serialize w) (v_reserved w) s.
Proof.
  intros Hwf Hs. destruct_header h Hwf. cbv zeta. unfold gview.
  unfold G.SetSeq, G.Seq. cbn [firstn app skipn byte_at nth G.Version G.MessageType G.IsHeartbeat G.IsOneway
    G.CompressType G.MessageStatusType G.SerializeType v_magic v_version v_type v_hb v_ow v_compress v_status v_serialize v_reserved].
  f_equal. apply get64_put64. exact Hs.
Qed.

(* every setter keeps a header a header *)
Lemma b8_lt x : b8 x < 256. Proof. unfold b8. lia. Qed.

(* ---- the regenerated definitions agree with the hand-written model used by the codec ---- *)
Definition hview_of (h : bytes) : hview :=
  mkView (byte_at h 0) (H.Version h) (H.MessageType h) (H.IsHeartbeat h) (H.IsOneway h)
         (H.CompressType h) (H.MessageStatusType h) (H.SerializeType h) (N.land (byte_at h 3) 15) (H.Seq h).

Theorem getters_agree h : wf_header h -> gview h = hview_of h.
Proof.
  intros Hwf. destruct_header h Hwf. unfold gview, hview_of.
  cbn [byte_at nth G.Version G.MessageType G.IsHeartbeat G.IsOneway G.CompressType G.MessageStatusType
       G.SerializeType G.Seq H.Version H.MessageType H.IsHeartbeat H.IsOneway H.CompressType H.MessageStatusType
       H.SerializeType H.Seq skipn].
  f_equal; try reflexivity; first [sweepN1 b2 Hb2 | sweepN1 b3 Hb3].
Qed.

Theorem setters_agree h v (f : bool) : wf_header h -> v < 256 ->
  G.SetVersion h v = H.SetVersion h v /\
  G.SetMessageType h v = H.SetMessageType h v /\
  G.SetCompressType h v = H.SetCompressType h v /\
  G.SetMessageStatusType h v = H.SetMessageStatusType h v /\
  G.SetSerializeType h v = H.SetSerializeType h v /\
  G.SetHeartbeat h f = H.SetHeartbeat h f /\
  G.SetOneway h f = H.SetOneway h f /\
  (forall s, G.SetSeq h s = H.SetSeq h s).
Proof.
  intros Hwf Hv. destruct_header h Hwf.
  split; [reflexivity|]. split; [|split; [|split; [|split; [|split; [|split]]]]].
  - unfold G.SetMessageType, H.SetMessageType. cbn [upd byte_at nth]. do 3 f_equal. sweepN2 b2 Hb2 v Hv.
  - unfold G.SetCompressType, H.SetCompressType. cbn [upd byte_at nth]. do 3 f_equal. sweepN2 b2 Hb2 v Hv.
  - unfold G.SetMessageStatusType, H.SetMessageStatusType. cbn [upd byte_at nth]. do 3 f_equal. sweepN2 b2 Hb2 v Hv.
  - unfold G.SetSerializeType, H.SetSerializeType. cbn [upd byte_at nth]. do 4 f_equal. sweepN2 b3 Hb3 v Hv.
  - unfold G.SetHeartbeat, H.SetHeartbeat. destruct f; cbn [upd byte_at nth]; do 3 f_equal; try reflexivity; sweepN1 b2 Hb2.
  - unfold G.SetOneway, H.SetOneway. destruct f; cbn [upd byte_at nth]; do 3 f_equal; try reflexivity; sweepN1 b2 Hb2.
  - intros s. reflexivity.
Qed.
