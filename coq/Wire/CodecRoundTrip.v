From Coq Require Import List NArith ZArith Arith Bool Lia ZifyN ZifyNat ZifyBool.
From RPCX Require Import Wire.Bytes Wire.BytesProofs Wire.Header Wire.Codec Wire.CodecSpec Wire.CodecProofs.
Import ListNotations.
Open Scope N_scope.
Ltac Zify.zify_post_hook ::= Z.div_mod_to_equations.

Definition U32 : N := 4294967296.

(* ================= sect ================= *)
Lemma sect_frame (x rest : bytes) :
  lenN x < U32 -> sect (put32 (lenN x) ++ x ++ rest) = Ok (x, rest).
Proof.
  intros Hx. unfold sect, U32 in *.
  rewrite !lenN_app, lenN_put32.
  destruct (N.ltb_spec (4 + (lenN x + lenN rest)) 4) as [H|H]; [lia|].
  rewrite get32_put32_small by exact Hx.
  rewrite !dropN4_put32, lenN_app.
  destruct (N.ltb_spec (lenN x + lenN rest) (lenN x)) as [H'|H']; [lia|].
  rewrite takeN_app, dropN_app. reflexivity.
Qed.

Lemma sect_ok_inv rest x r :
  sect rest = Ok (x, r) ->
  exists lb, rest = lb ++ x ++ r /\ length lb = 4%nat /\ get32 lb = lenN x.
Proof.
  unfold sect. destruct (N.ltb_spec (lenN rest) 4) as [H|H]; [discriminate|].
  destruct (N.ltb_spec (lenN (dropN 4 rest)) (get32 rest)) as [H'|H']; [discriminate|].
  intros E. injection E as Ex Er. subst x r.
  exists (takeN 4 rest). split; [|split].
  - rewrite takeN_dropN_split, takeN_dropN_split. reflexivity.
  - assert (lenN (takeN 4 rest) = 4) by (rewrite lenN_takeN; lia). unfold lenN in *. lia.
  - rewrite get32_takeN4, lenN_takeN. lia.
Qed.

Lemma sect_no_panic rest : sect rest <> Panic.
Proof.
  unfold sect. destruct (lenN rest <? 4); [discriminate|].
  destruct (lenN (dropN 4 rest) <? get32 rest); discriminate.
Qed.

(* ================= metadata ================= *)
Definition kv_ok (kv : bytes * bytes) : Prop := lenN (fst kv) < U32 /\ lenN (snd kv) < U32.

Lemma enc_meta_cons k v kvs :
  enc_meta ((k, v) :: kvs) = put32 (lenN k) ++ k ++ put32 (lenN v) ++ v ++ enc_meta kvs.
Proof. unfold enc_meta. cbn [flat_map]. unfold enc_kv. cbn [fst snd]. rewrite <- !app_assoc. reflexivity. Qed.

Lemma meta_spec_step fuel (k v rest : bytes) acc :
  lenN k < U32 -> lenN v < U32 ->
  meta_spec (S fuel) (put32 (lenN k) ++ k ++ put32 (lenN v) ++ v ++ rest) acc =
  meta_spec fuel rest (acc ++ [(k, v)]).
Proof.
  intros Hk Hv. unfold U32 in *.
  remember (put32 (lenN k) ++ k ++ put32 (lenN v) ++ v ++ rest) as all eqn:Hall.
  assert (Hne : all <> []) by (subst all; discriminate).
  cbn [meta_spec]. destruct all as [|r0 rs] eqn:Er; [congruence|]. rewrite <- Er in *. clear Er r0 rs Hne.
  subst all.
  rewrite !lenN_app, !lenN_put32.
  destruct (N.ltb_spec (4 + (lenN k + (4 + (lenN v + lenN rest)))) 4) as [H|_]; [lia|].
  rewrite get32_put32_small by exact Hk.
  rewrite !dropN4_put32. rewrite !lenN_app, !lenN_put32.
  assert (E1 : (lenN k + (4 + (lenN v + lenN rest)) <? lenN k) ||
               (lenN k + (4 + (lenN v + lenN rest)) - lenN k <? 4) = false) by lia.
  rewrite E1. rewrite takeN_app, !dropN_app.
  rewrite get32_put32_small by exact Hv.
  rewrite !dropN4_put32, lenN_app.
  destruct (N.ltb_spec (lenN v + lenN rest) (lenN v)) as [H|_]; [lia|].
  rewrite takeN_app, dropN_app. reflexivity.
Qed.

Lemma meta_spec_roundtrip kvs : forall fuel acc,
  Forall kv_ok kvs -> (length kvs <= fuel)%nat ->
  meta_spec fuel (enc_meta kvs) acc = Ok (acc ++ kvs).
Proof.
  induction kvs as [|[k v] kvs IH]; intros fuel acc Hok Hf.
  - cbn. destruct fuel; rewrite app_nil_r; reflexivity.
  - inversion Hok as [|? ? [Hk Hv] Hr]; subst. cbn [fst snd] in *.
    destruct fuel as [|fuel]; [simpl in Hf; lia|].
    rewrite enc_meta_cons, meta_spec_step by assumption.
    rewrite IH by (assumption || (simpl in Hf; lia)).
    rewrite <- app_assoc. reflexivity.
Qed.

Lemma meta_spec_no_panic fuel : forall rest acc,
  (length rest < fuel)%nat -> meta_spec fuel rest acc <> Panic.
Proof.
  induction fuel as [|fuel IH]; intros rest acc Hf; [lia|].
  destruct rest as [|r0 rs] eqn:Er; [cbn; discriminate|]. rewrite <- Er in *.
  assert (Hne : rest <> []) by (subst; discriminate). clear Er.
  cbn [meta_spec]. destruct rest as [|x xs] eqn:Er; [congruence|]. rewrite <- Er in *. clear Er x xs r0 rs Hne.
  destruct (N.ltb_spec (lenN rest) 4) as [|E0]; [discriminate|].
  destruct ((lenN (dropN 4 rest) <? get32 rest) || (lenN (dropN 4 rest) - get32 rest <? 4)) eqn:E1; [discriminate|].
  destruct (lenN (dropN 4 (dropN (get32 rest) (dropN 4 rest))) <?
            get32 (dropN (get32 rest) (dropN 4 rest))) eqn:E2; [discriminate|].
  apply IH.
  assert (H : lenN (dropN (get32 (dropN (get32 rest) (dropN 4 rest)))
                 (dropN 4 (dropN (get32 rest) (dropN 4 rest)))) < lenN rest).
  { rewrite !lenN_dropN in *. lia. }
  unfold lenN in H, Hf. lia.
Qed.

(* layout of a metadata section that decodes to kvs *)
Inductive meta_layout : list (bytes * bytes) -> bytes -> Prop :=
  | ML_nil : meta_layout [] []
  | ML_cons k v kvs rest lk lv :
      length lk = 4%nat -> get32 lk = lenN k -> length lv = 4%nat -> get32 lv = lenN v ->
      meta_layout kvs rest -> meta_layout ((k, v) :: kvs) (lk ++ k ++ lv ++ v ++ rest).

Lemma len4_split (l : bytes) : 4 <= lenN l -> l = takeN 4 l ++ dropN 4 l /\ length (takeN 4 l) = 4%nat.
Proof.
  intros H. split; [symmetry; apply takeN_dropN_split|].
  assert (lenN (takeN 4 l) = 4) by (rewrite lenN_takeN; lia). unfold lenN in *. lia.
Qed.

Lemma meta_spec_ok_inv fuel : forall rest acc kvs,
  meta_spec fuel rest acc = Ok kvs ->
  exists kvs', kvs = acc ++ kvs' /\ meta_layout kvs' rest.
Proof.
  induction fuel as [|fuel IH]; intros rest acc kvs H.
  - destruct rest; cbn in H; [|discriminate]. injection H as <-. exists []. rewrite app_nil_r. split; constructor.
  - destruct rest as [|r0 rs] eqn:Er.
    { cbn in H. injection H as <-. exists []. rewrite app_nil_r. split; constructor. }
    rewrite <- Er in *. assert (Hne : rest <> []) by (subst; discriminate). clear Er r0 rs.
    cbn [meta_spec] in H. destruct rest as [|x xs] eqn:Er; [congruence|]. rewrite <- Er in *. clear Er x xs Hne.
    destruct (N.ltb_spec (lenN rest) 4) as [|H4]; [discriminate|].
    set (sl := get32 rest) in *. set (r1 := dropN 4 rest) in *.
    destruct ((lenN r1 <? sl) || (lenN r1 - sl <? 4)) eqn:E1; [discriminate|].
    set (r2 := dropN sl r1) in *. set (sl' := get32 r2) in *. set (r3 := dropN 4 r2) in *.
    destruct (N.ltb_spec (lenN r3) sl') as [|H3]; [discriminate|].
    apply IH in H. destruct H as (kvs' & -> & Hl).
    exists ((takeN sl r1, takeN sl' r3) :: kvs'). split; [rewrite <- app_assoc; reflexivity|].
    assert (Hr2 : 4 <= lenN r2) by (unfold r2; rewrite lenN_dropN; lia).
    destruct (len4_split rest H4) as [S1 L1]. destruct (len4_split r2 Hr2) as [S2 L2].
    assert (Erest : rest = takeN 4 rest ++ takeN sl r1 ++ takeN 4 r2 ++ takeN sl' r3 ++ dropN sl' r3).
    { rewrite (takeN_dropN_split sl' r3). unfold r3. rewrite (takeN_dropN_split 4 r2).
      unfold r2. rewrite (takeN_dropN_split sl r1). exact S1. }
    rewrite Erest at 1. constructor; auto.
    + rewrite get32_takeN4. fold sl. rewrite lenN_takeN. lia.
    + rewrite get32_takeN4. fold sl'. rewrite lenN_takeN. lia.
Qed.

(* ================= body ================= *)
Definition payload_on_wire (env : comp_env) (m : message) : bytes := snd (enc_payload env m).
Definition header_on_wire (env : comp_env) (m : message) : header := fst (enc_payload env m).

(* compression round trip premise: the registered compressor of the message's type inverts *)
Definition comp_ok (env : comp_env) (m : message) : Prop :=
  CompressType (m_hdr m) = 0 \/
  exists c z, env (CompressType (m_hdr m)) = Some c /\ c_zip c (m_payload m) = Some z /\
              c_unzip c z = Some (m_payload m).

Definition msg_ok (env : comp_env) (m : message) : Prop :=
  lenN (m_path m) < U32 /\ lenN (m_meth m) < U32 /\ Forall kv_ok (m_meta m) /\
  lenN (enc_meta (m_meta m)) < U32 /\ lenN (payload_on_wire env m) < U32.

Lemma length_enc_meta kvs : (length kvs <= N.to_nat (lenN (enc_meta kvs)))%nat.
Proof.
  induction kvs as [|[k v] kvs IH]; [cbn; lia|].
  rewrite enc_meta_cons. rewrite !lenN_app, !lenN_put32. cbn [length]. lia.
Qed.

Lemma enc_meta_nil_iff kvs : lenN (enc_meta kvs) = 0 <-> kvs = [].
Proof.
  split; [|intros ->; reflexivity].
  destruct kvs as [|[k v] kvs]; [reflexivity|].
  rewrite enc_meta_cons. rewrite !lenN_app, !lenN_put32. lia.
Qed.

Lemma enc_payload_comp env m : comp_ok env m ->
  header_on_wire env m = m_hdr m /\
  unzip_spec env (m_hdr m) (payload_on_wire env m) = Ok (m_payload m).
Proof.
  unfold header_on_wire, payload_on_wire, enc_payload, unzip_spec.
  intros [H0|(c & z & Hc & Hz & Hu)].
  - rewrite H0. cbn. split; reflexivity.
  - destruct (CompressType (m_hdr m) =? 0) eqn:E; [cbn; split; reflexivity|].
    rewrite Hc, Hz. cbn [fst snd]. rewrite Hu. split; reflexivity.
Qed.

Theorem body_spec_roundtrip env m :
  msg_ok env m -> comp_ok env m ->
  body_spec env (m_hdr m)
    (body_of (m_path m) (m_meth m) (enc_meta (m_meta m)) (payload_on_wire env m)) = Ok m.
Proof.
  intros (Hp & Hm & Hkv & Hme & Hpl) Hc. unfold body_spec, body_of.
  rewrite sect_frame by exact Hp. cbn [bind fst snd].
  rewrite sect_frame by exact Hm. cbn [bind fst snd].
  rewrite sect_frame by exact Hme. cbn [bind fst snd].
  assert (Hmeta : (if 0 <? lenN (enc_meta (m_meta m))
                   then meta_spec (S (N.to_nat (lenN (enc_meta (m_meta m))))) (enc_meta (m_meta m)) []
                   else Ok []) = Ok (m_meta m)).
  { destruct (N.ltb_spec 0 (lenN (enc_meta (m_meta m)))) as [H|H].
    - rewrite meta_spec_roundtrip; [reflexivity|exact Hkv|]. pose proof (length_enc_meta (m_meta m)). lia.
    - assert (E : m_meta m = []) by (apply enc_meta_nil_iff; lia). rewrite E. reflexivity. }
  rewrite Hmeta. cbn [bind].
  rewrite <- (app_nil_r (payload_on_wire env m)) at 2.
  rewrite sect_frame by exact Hpl. cbn [bind fst snd].
  destruct (enc_payload_comp env m Hc) as [_ Hu]. rewrite Hu. cbn [bind].
  destruct m; reflexivity.
Qed.

Lemma bind_no_panic {A B} (x : outcome A) (f : A -> outcome B) :
  x <> Panic -> (forall a, f a <> Panic) -> bind x f <> Panic.
Proof. intros Hx Hf. destruct x; cbn; [apply Hf|discriminate|congruence]. Qed.

Lemma unzip_spec_no_panic env h raw : unzip_spec env h raw <> Panic.
Proof.
  unfold unzip_spec. destruct (CompressType h =? 0); [discriminate|].
  destruct (env (CompressType h)) as [c|]; [|discriminate].
  destruct (c_unzip c raw); discriminate.
Qed.

Lemma body_spec_no_panic env h body : body_spec env h body <> Panic.
Proof.
  unfold body_spec.
  apply bind_no_panic; [apply sect_no_panic|intros p1].
  apply bind_no_panic; [apply sect_no_panic|intros p2].
  apply bind_no_panic; [apply sect_no_panic|intros p3].
  apply bind_no_panic.
  { destruct (0 <? lenN (fst p3)); [|discriminate].
    apply meta_spec_no_panic. unfold lenN. lia. }
  intros meta.
  apply bind_no_panic; [apply sect_no_panic|intros p4].
  apply bind_no_panic; [apply unzip_spec_no_panic|intros pl]. discriminate.
Qed.

(* confinement: a successful body parse delimits exactly these consecutive ranges *)
Theorem body_spec_ok_inv env h body m :
  body_spec env h body = Ok m ->
  exists l1 l2 l3 mb l4 raw slack,
    body = l1 ++ m_path m ++ l2 ++ m_meth m ++ l3 ++ mb ++ l4 ++ raw ++ slack /\
    length l1 = 4%nat /\ get32 l1 = lenN (m_path m) /\
    length l2 = 4%nat /\ get32 l2 = lenN (m_meth m) /\
    length l3 = 4%nat /\ get32 l3 = lenN mb /\
    length l4 = 4%nat /\ get32 l4 = lenN raw /\
    meta_layout (m_meta m) mb /\
    unzip_spec env h raw = Ok (m_payload m) /\ m_hdr m = h.
Proof.
  unfold body_spec.
  destruct (sect body) as [[x1 r1]|e|] eqn:E1; cbn [bind fst snd]; try discriminate.
  destruct (sect r1) as [[x2 r2]|e|] eqn:E2; cbn [bind fst snd]; try discriminate.
  destruct (sect r2) as [[x3 r3]|e|] eqn:E3; cbn [bind fst snd]; try discriminate.
  destruct (if 0 <? lenN x3 then meta_spec (S (N.to_nat (lenN x3))) x3 [] else Ok []) as [meta|e|] eqn:Em;
    cbn [bind]; try discriminate.
  destruct (sect r3) as [[x4 r4]|e|] eqn:E4; cbn [bind fst snd]; try discriminate.
  destruct (unzip_spec env h x4) as [pl|e|] eqn:Eu; cbn [bind]; try discriminate.
  intros E. injection E as <-. cbn [m_path m_meth m_meta m_payload m_hdr].
  apply sect_ok_inv in E1. destruct E1 as (l1 & -> & L1 & G1).
  apply sect_ok_inv in E2. destruct E2 as (l2 & -> & L2 & G2).
  apply sect_ok_inv in E3. destruct E3 as (l3 & -> & L3 & G3).
  apply sect_ok_inv in E4. destruct E4 as (l4 & -> & L4 & G4).
  exists l1, l2, l3, x3, l4, x4, r4.
  rewrite <- ?app_assoc. repeat split; auto.
  destruct (N.ltb_spec 0 (lenN x3)) as [Hz|Hz].
  - apply meta_spec_ok_inv in Em. destruct Em as (kvs' & -> & Hl). exact Hl.
  - injection Em as <-. assert (x3 = []) by (destruct x3; [reflexivity|rewrite lenN_cons in Hz; lia]).
    subst x3. constructor.
Qed.
