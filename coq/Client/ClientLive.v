(* C05 (ii)/(iii): no call is left hanging once the connection is gone, and new calls are rejected
   promptly.  C06: steps of one call are local to it. *)
From Coq Require Import List NArith Arith Bool Lia.
From RPCX Require Import Client.ClientSM Client.ClientProofs.
Import ListNotations.

Definition sig_ne (x : call) : Prop := c_signals x <> [].

(* ---- what fail_all does to the call table ---- *)
Lemma fail_all_keeps cz r p : forall cs c x, nth_error cs c = Some x ->
  exists x', nth_error (fail_all p cz r cs) c = Some x' /\ c_spc x' = c_spc x /\
             (sig_ne x -> sig_ne x') /\ (In c (map snd p) -> sig_ne x').
Proof.
  unfold sig_ne. induction p as [|[k c0] p IH]; intros cs c x Hx; cbn [fail_all].
  - exists x. split; [exact Hx|]. split; [reflexivity|]. split; [auto|intros []].
  - destruct (Nat.eqb_spec c0 c) as [->|Hne].
    + destruct (IH (upd_nth c (add_signal cz r) cs) c (add_signal cz r x)) as (x' & H1 & H2 & H3 & H4).
      { rewrite nth_error_upd_nth, Nat.eqb_refl, Hx. reflexivity. }
      assert (Hs : c_signals (add_signal cz r x) <> []) by (cbn; destruct (c_signals x); discriminate).
      exists x'. split; [exact H1|]. split; [exact H2|]. split; intros _; apply H3, Hs.
    + destruct (IH (upd_nth c0 (add_signal cz r) cs) c x) as (x' & H1 & H2 & H3 & H4).
      { rewrite nth_error_upd_nth. destruct (Nat.eqb_spec c0 c); [congruence|exact Hx]. }
      exists x'. split; [exact H1|]. split; [exact H2|]. split; [exact H3|].
      intros [H|H]; [cbn in H; congruence|exact (H4 H)].
Qed.

Lemma fail_all_back cz r p : forall cs c x', nth_error (fail_all p cz r cs) c = Some x' ->
  exists x, nth_error cs c = Some x.
Proof.
  induction p as [|[k c0] p IH]; intros cs c x' H; cbn [fail_all] in H; [eauto|].
  apply IH in H. destruct H as (y & Hy). rewrite nth_error_upd_nth in Hy.
  destruct (Nat.eqb c0 c); [|eauto]. destruct (nth_error cs c); [eauto|discriminate].
Qed.

(* ---- liveness invariants ---- *)
Definition gone (st : state) : bool := closing st || shutdown st.

(* registered calls are pending or completed (as long as no registration overwrote another) *)
Definition Reg3 (col : bool) (p : pmap) (cs : list call) : Prop :=
  col = false -> forall c x, nth_error cs c = Some x -> c_spc x <> SNew ->
  (exists k, In (k, c) p) \/ sig_ne x.

Lemma reg3_upd col p cs c g :
  (forall x, c_signals (g x) = c_signals x) ->
  (forall x, nth_error cs c = Some x -> c_spc x <> SNew \/ c_spc (g x) = c_spc x) ->
  Reg3 col p cs -> Reg3 col p (upd_nth c g cs).
Proof.
  intros Hg Hreg H Hc c' y. rewrite nth_error_upd_nth. destruct (Nat.eqb_spec c c') as [->|Hne]; [|apply H, Hc].
  destruct (nth_error cs c') as [x|] eqn:E; cbn; [|discriminate].
  intros Hy Hs. injection Hy as <-. unfold sig_ne. rewrite Hg.
  apply (H Hc c' x E). destruct (Hreg x eq_refl) as [Hr|Hr]; [exact Hr|congruence].
Qed.

Lemma reg3_complete col p cs k c cz r :
  Inv p cs -> In (k, c) p -> Reg3 col p cs -> Reg3 col (pdel k p) (upd_nth c (add_signal cz r) cs).
Proof.
  intros Hi Hin H Hc c' y. rewrite nth_error_upd_nth. destruct (Nat.eqb_spec c c') as [->|Hne].
  - destruct (nth_error cs c') as [x|]; cbn; [|discriminate]. intros Hy _. injection Hy as <-.
    right. unfold sig_ne. cbn. destruct (c_signals x); discriminate.
  - intros Hy Hs. destruct (H Hc c' y Hy Hs) as [(k' & Hk')|Hsig]; [|right; exact Hsig].
    left. exists k'. apply In_pdel. split; [exact Hk'|]. intros ->.
    apply Hne. pose proof (inv_keys _ _ Hi) as Hnd.
    apply (plookup_In _ _ _ Hnd) in Hin. apply (plookup_In _ _ _ Hnd) in Hk'. congruence.
Qed.

Lemma reg3_complete_at st k cz r :
  Inv (pending st) (calls st) -> Reg3 (collided st) (pending st) (calls st) ->
  Reg3 (collided (complete_at st k cz r)) (pending (complete_at st k cz r)) (calls (complete_at st k cz r)).
Proof.
  intros Hi H. unfold complete_at. destruct (plookup k (pending st)) as [c|] eqn:E; [|exact H].
  cbn. apply reg3_complete; [exact Hi|apply plookup_In; [apply Hi|exact E]|exact H].
Qed.

Lemma reg3_fail_all col p cs cz r : Reg3 col p cs -> Reg3 col [] (fail_all p cz r cs).
Proof.
  intros H Hc c y Hy Hs. right.
  destruct (fail_all_back _ _ _ _ _ _ Hy) as (x & Hx).
  destruct (fail_all_keeps cz r p cs c x Hx) as (x' & H1 & H2 & H3 & H4).
  rewrite Hy in H1. injection H1 as <-.
  destruct (H Hc c x Hx ltac:(congruence)) as [(k & Hk)|Hsig]; [|exact (H3 Hsig)].
  apply H4. apply in_map_iff. exists (k, c). split; [reflexivity|exact Hk].
Qed.

Lemma pdel_absent k (p : pmap) : plookup k p = None -> pdel k p = p.
Proof.
  induction p as [|[k0 v0] p IH]; cbn; [reflexivity|].
  destruct (N.eqb_spec k k0); [discriminate|]. intros H. rewrite IH by exact H. reflexivity.
Qed.

Lemma reg3_register col p cs c s g :
  (forall x, c_signals (g x) = c_signals x) ->
  Reg3 col p cs ->
  Reg3 (col || match plookup s p with Some _ => true | None => false end) (pset s c p) (upd_nth c g cs).
Proof.
  intros Hg H Hc. apply orb_false_iff in Hc. destruct Hc as [Hc Hl].
  destruct (plookup s p) eqn:El; [discriminate|].
  intros c' y. rewrite nth_error_upd_nth. unfold pset. rewrite (pdel_absent _ _ El).
  destruct (Nat.eqb_spec c c') as [->|Hne].
  - intros _ _. left. exists s. left. reflexivity.
  - intros Hy Hs. destruct (H Hc c' y Hy Hs) as [(k & Hk)|Hsig]; [left; exists k; right; exact Hk|right; exact Hsig].
Qed.

Lemma reg3_reject col p cs c :
  Reg3 col p cs -> Reg3 col p (upd_nth c (fun x => set_spc SDone (add_signal Rejected RShutdown x)) cs).
Proof.
  intros H Hc c' y. rewrite nth_error_upd_nth. destruct (Nat.eqb_spec c c') as [->|Hne]; [|apply H, Hc].
  destruct (nth_error cs c') as [x|]; cbn; [|discriminate]. intros Hy _. injection Hy as <-.
  right. unfold sig_ne. cbn. destruct (c_signals x); discriminate.
Qed.

Definition R3 (st : state) : Prop := Reg3 (collided st) (pending st) (calls st).

Ltac simp := cbn [pending calls collided updc set_calls set_pending].

Lemma sig_keep_spc p : forall x, c_signals (set_spc p x) = c_signals x. Proof. reflexivity. Qed.
Lemma sig_keep_ret r : forall x, c_signals (set_ret r x) = c_signals x. Proof. reflexivity. Qed.

Lemma collided_complete_at st k cz r : collided (complete_at st k cz r) = collided st.
Proof. unfold complete_at. destruct (plookup k (pending st)); reflexivity. Qed.

Lemma nth_complete_at_spc st k cz r c x :
  nth_error (calls (complete_at st k cz r)) c = Some x ->
  exists x0, nth_error (calls st) c = Some x0 /\ c_spc x = c_spc x0 /\ c_kind x = c_kind x0 /\
             c_oneway x = c_oneway x0 /\ c_seq x = c_seq x0.
Proof.
  unfold complete_at. destruct (plookup k (pending st)) as [c'|]; [|eauto 10].
  cbn. rewrite nth_error_upd_nth. destruct (Nat.eqb c' c); [|eauto 10].
  destruct (nth_error (calls st) c) as [x0|]; cbn; [|discriminate].
  intros H. injection H as <-. exists x0. auto.
Qed.

Theorem step_reg3 st e : Inv (pending st) (calls st) -> R3 st -> R3 (step st e).
Proof.
  intros Hi H. unfold R3 in *.
  destruct e as [c|c|c|c|c|c|c|c|f|eof|]; cbn [step]; unfold getc.
  - destruct (nth_error (calls st) c) as [x|] eqn:Hx; [|exact H].
    destruct (negb (is_raw x) && spc_eqb (c_spc x) SNew); [|exact H].
    destruct (shutdown st || closing st); simp.
    + apply reg3_reject, H.
    + apply reg3_register; [reflexivity|exact H].
  - destruct (nth_error (calls st) c) as [x|] eqn:Hx; [|exact H].
    destruct (is_raw x && spc_eqb (c_spc x) SNew); [|exact H]. simp.
    apply reg3_register; [reflexivity|exact H].
  - destruct (nth_error (calls st) c) as [x|] eqn:Hx; [|exact H].
    destruct (c_seq x) as [s|]; [|exact H].
    destruct (negb (is_raw x) && spc_eqb (c_spc x) SReg) eqn:E; [|exact H]. simp.
    apply andb_true_iff in E. destruct E as [_ E]. apply spc_eqb_eq in E.
    apply reg3_upd; [apply sig_keep_spc| |apply reg3_complete_at; assumption].
    intros y Hy. left. destruct (nth_complete_at_spc _ _ _ _ _ _ Hy) as (x0 & H0 & H1 & _). congruence.
  - destruct (nth_error (calls st) c) as [x|] eqn:Hx; [|exact H].
    destruct (spc_eqb (c_spc x) SReg && conn_open st) eqn:E; [|exact H]. simp.
    apply andb_true_iff in E. destruct E as [E _]. apply spc_eqb_eq in E.
    apply reg3_upd; [apply sig_keep_spc| |exact H]. intros y Hy. left. congruence.
  - destruct (nth_error (calls st) c) as [x|] eqn:Hx; [|exact H].
    destruct (c_seq x) as [s|]; [|exact H].
    destruct (spc_eqb (c_spc x) SReg) eqn:E; [|exact H]. apply spc_eqb_eq in E.
    assert (H1 : Reg3 (collided st) (pending (complete_at st s ByWrite RWriteErr))
                   (upd_nth c (set_spc SDone) (calls (complete_at st s ByWrite RWriteErr)))).
    { apply reg3_upd; [apply sig_keep_spc| |].
      - intros y Hy. left. destruct (nth_complete_at_spc _ _ _ _ _ _ Hy) as (x0 & H0 & H1 & _). congruence.
      - rewrite <- (collided_complete_at st s ByWrite RWriteErr). apply reg3_complete_at; assumption. }
    destruct (is_raw x); simp; rewrite collided_complete_at; [|exact H1].
    apply reg3_upd; [apply sig_keep_ret|intros; right; reflexivity|exact H1].
  - destruct (nth_error (calls st) c) as [x|] eqn:Hx; [|exact H].
    destruct (c_seq x) as [s|]; [|exact H].
    destruct (spc_eqb (c_spc x) SWritten && c_oneway x) eqn:E; [|exact H].
    apply andb_true_iff in E. destruct E as [E _]. apply spc_eqb_eq in E.
    assert (H1 : Reg3 (collided st) (pending (complete_at st s ByOneway ROneway))
                   (upd_nth c (set_spc SDone) (calls (complete_at st s ByOneway ROneway)))).
    { apply reg3_upd; [apply sig_keep_spc| |].
      - intros y Hy. left. destruct (nth_complete_at_spc _ _ _ _ _ _ Hy) as (x0 & H0 & H1 & _). congruence.
      - rewrite <- (collided_complete_at st s ByOneway ROneway). apply reg3_complete_at; assumption. }
    destruct (is_raw x); simp; rewrite collided_complete_at; [|exact H1].
    apply reg3_upd; [apply sig_keep_ret|intros; right; reflexivity|exact H1].
  - destruct (nth_error (calls st) c) as [x|] eqn:Hx; [|exact H].
    destruct (c_kind x); [exact H| |].
    + destruct (is_wait x); [|exact H]. simp.
      set (key := match c_seq x with Some s => s | None => 0%N end).
      destruct (plookup key (pending st)) as [c'|]; simp.
      * destruct (Nat.eqb c' c); simp.
        -- rewrite collided_complete_at. apply reg3_upd; [apply sig_keep_ret|intros; right; reflexivity|].
           rewrite <- (collided_complete_at st key ByCtx RCtx). apply reg3_complete_at; assumption.
        -- apply reg3_upd; [apply sig_keep_ret|intros; right; reflexivity|exact H].
      * apply reg3_upd; [apply sig_keep_ret|intros; right; reflexivity|exact H].
    + destruct (is_wait x && spc_eqb (c_spc x) SDone && negb (c_oneway x)); [|exact H]. simp.
      rewrite collided_complete_at. apply reg3_upd; [apply sig_keep_ret|intros; right; reflexivity|].
      rewrite <- (collided_complete_at st (c_rawseq x) ByCtx RCtx). apply reg3_complete_at; assumption.
  - destruct (nth_error (calls st) c) as [x|] eqn:Hx; [|exact H].
    destruct (is_wait x && _); [|exact H].
    destruct (c_signals x) as [|[cz r] l]; [exact H|]. simp.
    apply reg3_upd; [apply sig_keep_ret|intros; right; reflexivity|exact H].
  - destruct (reader_alive st); [|exact H].
    destruct (f_servermsg f); [destruct (chan_registered st); exact H|].
    destruct (plookup (f_seq f) (pending st)) as [c'|] eqn:El; [|exact H].
    destruct (nth_error (calls st) c') as [x|] eqn:Hx.
    + apply reg3_complete_at; assumption.
    + exfalso. apply plookup_In in El; [|apply Hi]. destruct (inv_pend _ _ Hi _ _ El) as (x & Hx' & _). congruence.
  - destruct (reader_alive st); [|exact H]. simp. apply reg3_fail_all, H.
  - simp. apply reg3_fail_all, H.
Qed.

(* ---- flags ---- *)
Definition flags (st : state) := (closing st, shutdown st, conn_open st, reader_alive st).

Lemma flags_updc st c g : flags (updc st c g) = flags st. Proof. reflexivity. Qed.
Lemma flags_complete_at st k cz r : flags (complete_at st k cz r) = flags st.
Proof. unfold complete_at. destruct (plookup k (pending st)); reflexivity. Qed.

(* only the reader's termination and Close touch the connection state: no event of a call, and no
   received frame whatever its content, sets shutdown/closing or closes the connection *)
Theorem flags_step st e :
  match e with EReadErr _ | EClose => True | _ => flags (step st e) = flags st end.
Proof.
  destruct e as [c|c|c|c|c|c|c|c|f|eof|]; cbn [step]; unfold getc; try exact I.
  - destruct (nth_error (calls st) c) as [x|]; [|reflexivity].
    destruct (negb (is_raw x) && spc_eqb (c_spc x) SNew); [|reflexivity].
    destruct (shutdown st || closing st); reflexivity.
  - destruct (nth_error (calls st) c) as [x|]; [|reflexivity].
    destruct (is_raw x && spc_eqb (c_spc x) SNew); reflexivity.
  - destruct (nth_error (calls st) c) as [x|]; [|reflexivity].
    destruct (c_seq x); [|reflexivity]. destruct (negb (is_raw x) && spc_eqb (c_spc x) SReg); [|reflexivity].
    rewrite flags_updc. apply flags_complete_at.
  - destruct (nth_error (calls st) c) as [x|]; [|reflexivity].
    destruct (spc_eqb (c_spc x) SReg && conn_open st); reflexivity.
  - destruct (nth_error (calls st) c) as [x|]; [|reflexivity].
    destruct (c_seq x); [|reflexivity]. destruct (spc_eqb (c_spc x) SReg); [|reflexivity].
    destruct (is_raw x); rewrite ?flags_updc; apply flags_complete_at.
  - destruct (nth_error (calls st) c) as [x|]; [|reflexivity].
    destruct (c_seq x); [|reflexivity]. destruct (spc_eqb (c_spc x) SWritten && c_oneway x); [|reflexivity].
    destruct (is_raw x); rewrite ?flags_updc; apply flags_complete_at.
  - destruct (nth_error (calls st) c) as [x|]; [|reflexivity].
    destruct (c_kind x); [reflexivity| |].
    + destruct (is_wait x); [|reflexivity]. rewrite flags_updc.
      destruct (plookup _ (pending st)) as [c'|]; [|reflexivity].
      destruct (Nat.eqb c' c); [apply flags_complete_at|reflexivity].
    + destruct (is_wait x && spc_eqb (c_spc x) SDone && negb (c_oneway x)); [|reflexivity].
      rewrite flags_updc. apply flags_complete_at.
  - destruct (nth_error (calls st) c) as [x|]; [|reflexivity].
    destruct (is_wait x && _); [|reflexivity]. destruct (c_signals x) as [|[cz r] l]; reflexivity.
  - destruct (reader_alive st) eqn:Er; [|reflexivity].
    destruct (f_servermsg f).
    { destruct (chan_registered st); unfold flags; cbn; rewrite ?Er; reflexivity. }
    destruct (plookup (f_seq f) (pending st)) as [c'|]; [|reflexivity].
    destruct (nth_error (calls st) c'); [apply flags_complete_at|reflexivity].
Qed.

(* gone => the connection is closed *)
Definition L1 (st : state) : Prop := gone st = true -> conn_open st = false.

Lemma flags_proj st st' : flags st' = flags st ->
  closing st' = closing st /\ shutdown st' = shutdown st /\ conn_open st' = conn_open st.
Proof. unfold flags. intros H. injection H. auto. Qed.

Lemma step_L1 st e : L1 st -> L1 (step st e).
Proof.
  intros H. unfold L1, gone in *. pose proof (flags_step st e) as Hf.
  destruct e;
    try (destruct (flags_proj _ _ Hf) as (E1 & E2 & E3); rewrite E1, E2, E3; exact H).
  - cbn [step]. destruct (reader_alive st); [cbn; reflexivity|exact H].
  - cbn [step closing shutdown conn_open]. reflexivity.
Qed.

(* gone => every entry still in pending belongs to a call whose write is outstanding *)
Definition L2 (st : state) : Prop :=
  gone st = true -> forall k c, In (k, c) (pending st) ->
  exists x, nth_error (calls st) c = Some x /\ c_spc x = SReg.

Lemma L2_upd_other st c g :
  (forall k, ~ In (k, c) (pending st)) \/ (forall x, c_spc (g x) = c_spc x) ->
  L2 st -> L2 (updc st c g).
Proof.
  intros Hc H Hg k c' Hin. cbn in *. destruct (H Hg k c' Hin) as (x & Hx & Hs).
  rewrite nth_error_upd_nth. destruct (Nat.eqb_spec c c') as [->|Hne]; [|eauto].
  rewrite Hx. cbn. destruct Hc as [Hc|Hc]; [exfalso; exact (Hc k Hin)|].
  exists (g x). split; [reflexivity|]. rewrite Hc. exact Hs.
Qed.

Lemma L2_complete_at st k cz r : Inv (pending st) (calls st) -> L2 st -> L2 (complete_at st k cz r).
Proof.
  intros Hi H. unfold complete_at. destruct (plookup k (pending st)) as [c0|] eqn:E; [|exact H].
  intros Hg k' c' Hin. cbn in *. apply In_pdel in Hin. destruct Hin as [Hin Hne].
  destruct (H Hg k' c' Hin) as (x & Hx & Hs).
  rewrite nth_error_upd_nth. destruct (Nat.eqb_spec c0 c') as [->|Hn]; [|eauto].
  exfalso. apply Hne. apply plookup_In in E; [|apply Hi]. eapply inv_pend_unique; eauto.
Qed.

Lemma not_pending_after_complete st s cz r c x :
  Inv (pending st) (calls st) -> nth_error (calls st) c = Some x -> c_seq x = Some s ->
  forall k, ~ In (k, c) (pending (complete_at st s cz r)).
Proof.
  intros Hi Hx Hs k Hin.
  assert (Hk : In (k, c) (pending st) -> k = s).
  { intros H. destruct (inv_pend _ _ Hi _ _ H) as (x' & Hx' & Hs' & _). congruence. }
  unfold complete_at in Hin. destruct (plookup s (pending st)) as [c0|] eqn:E.
  - cbn in Hin. apply In_pdel in Hin. destruct Hin as [Hin Hne]. apply Hne, Hk, Hin.
  - pose proof (Hk Hin) as ->. exact (plookup_none_In _ _ E c Hin).
Qed.

Lemma inv_complete_at' st k cz r : (forall f, cz <> ByResp f) ->
  Inv (pending st) (calls st) -> Inv (pending (complete_at st k cz r)) (calls (complete_at st k cz r)).
Proof. intros Hcz Hi. apply inv_complete_at; [exact Hi|]. intros f Hf. exfalso. exact (Hcz f Hf). Qed.

Lemma gone_complete_at st k cz r : gone (complete_at st k cz r) = gone st.
Proof.
  destruct (flags_proj _ _ (flags_complete_at st k cz r)) as (E1 & E2 & _). unfold gone. rewrite E1, E2. reflexivity.
Qed.

Theorem step_L2 st e : Inv (pending st) (calls st) -> L1 st -> L2 st -> L2 (step st e).
Proof.
  intros Hi H1 H. destruct e as [c|c|c|c|c|c|c|c|f|eof|]; cbn [step]; unfold getc.
  - destruct (nth_error (calls st) c) as [x|] eqn:Hx; [|exact H].
    destruct (negb (is_raw x) && spc_eqb (c_spc x) SNew) eqn:E; [|exact H].
    apply andb_true_iff in E. destruct E as [_ E]. apply spc_eqb_eq in E.
    destruct (shutdown st || closing st) eqn:Eg.
    + apply L2_upd_other; [|exact H]. left. intros k Hin.
      destruct (inv_pend _ _ Hi _ _ Hin) as (x' & Hx' & _ & Hn & _). congruence.
    + intros Hg. exfalso. unfold gone in Hg. cbn in Hg. rewrite orb_comm in Hg. congruence.
  - destruct (nth_error (calls st) c) as [x|] eqn:Hx; [|exact H].
    destruct (is_raw x && spc_eqb (c_spc x) SNew) eqn:E; [|exact H].
    intros Hg k c' Hin. cbn in *. unfold pset in Hin. destruct Hin as [Hin|Hin].
    + injection Hin as <- <-. rewrite nth_error_upd_nth, Nat.eqb_refl, Hx. cbn. eexists. split; reflexivity.
    + apply In_pdel in Hin. destruct Hin as [Hin Hne]. destruct (H Hg k c' Hin) as (x' & Hx' & Hs').
      rewrite nth_error_upd_nth. destruct (Nat.eqb_spec c c') as [->|Hn]; [|eauto].
      rewrite Hx. cbn. eexists. split; reflexivity.
  - destruct (nth_error (calls st) c) as [x|] eqn:Hx; [|exact H].
    destruct (c_seq x) as [s|] eqn:Es; [|exact H].
    destruct (negb (is_raw x) && spc_eqb (c_spc x) SReg); [|exact H].
    apply L2_upd_other; [|apply L2_complete_at; assumption].
    left. eapply not_pending_after_complete; eauto.
  - destruct (nth_error (calls st) c) as [x|] eqn:Hx; [|exact H].
    destruct (spc_eqb (c_spc x) SReg && conn_open st) eqn:E; [|exact H].
    apply andb_true_iff in E. destruct E as [_ E]. intros Hg. exfalso.
    unfold gone in Hg. cbn in Hg. specialize (H1 Hg). congruence.
  - destruct (nth_error (calls st) c) as [x|] eqn:Hx; [|exact H].
    destruct (c_seq x) as [s|] eqn:Es; [|exact H].
    destruct (spc_eqb (c_spc x) SReg); [|exact H].
    assert (H2 : L2 (updc (complete_at st s ByWrite RWriteErr) c (set_spc SDone))).
    { apply L2_upd_other; [|apply L2_complete_at; assumption]. left. eapply not_pending_after_complete; eauto. }
    destruct (is_raw x); [|exact H2]. apply L2_upd_other; [right; reflexivity|exact H2].
  - destruct (nth_error (calls st) c) as [x|] eqn:Hx; [|exact H].
    destruct (c_seq x) as [s|] eqn:Es; [|exact H].
    destruct (spc_eqb (c_spc x) SWritten && c_oneway x); [|exact H].
    assert (H2 : L2 (updc (complete_at st s ByOneway ROneway) c (set_spc SDone))).
    { apply L2_upd_other; [|apply L2_complete_at; assumption]. left. eapply not_pending_after_complete; eauto. }
    destruct (is_raw x); [|exact H2]. apply L2_upd_other; [right; reflexivity|exact H2].
  - destruct (nth_error (calls st) c) as [x|] eqn:Hx; [|exact H].
    destruct (c_kind x); [exact H| |].
    + destruct (is_wait x); [|exact H]. apply L2_upd_other; [right; reflexivity|].
      destruct (plookup _ (pending st)) as [c'|]; [|exact H].
      destruct (Nat.eqb c' c); [apply L2_complete_at; assumption|exact H].
    + destruct (is_wait x && spc_eqb (c_spc x) SDone && negb (c_oneway x)); [|exact H].
      apply L2_upd_other; [right; reflexivity|apply L2_complete_at; assumption].
  - destruct (nth_error (calls st) c) as [x|] eqn:Hx; [|exact H].
    destruct (is_wait x && _); [|exact H]. destruct (c_signals x) as [|[cz r] l]; [exact H|].
    apply L2_upd_other; [right; reflexivity|exact H].
  - destruct (reader_alive st); [|exact H].
    destruct (f_servermsg f); [destruct (chan_registered st); exact H|].
    destruct (plookup (f_seq f) (pending st)) as [c'|] eqn:El; [|exact H].
    destruct (nth_error (calls st) c') as [x|] eqn:Hx; [apply L2_complete_at; assumption|].
    intros Hg k c0 Hin. cbn in *. apply In_pdel in Hin. destruct Hin as [Hin _]. exact (H Hg k c0 Hin).
  - destruct (reader_alive st); [|exact H]. intros _ k c []. 
  - intros _ k c [].
Qed.

(* ---- everything together, for every reachable state ---- *)
Record Live (st : state) : Prop := {
  live_inv : Inv (pending st) (calls st);
  live_l1 : L1 st;
  live_l2 : L2 st;
  live_r3 : R3 st }.

Lemma live_init cs chan : wf_init cs -> Live (init cs chan).
Proof.
  intros Hw. constructor.
  - apply inv_init, Hw.
  - intros H; discriminate.
  - intros H; discriminate.
  - intros _ c x Hx Hs. exfalso. unfold wf_init in Hw. rewrite Forall_forall in Hw.
    apply nth_error_In, Hw in Hx. tauto.
Qed.

Lemma step_live st e : Live st -> Live (step st e).
Proof.
  intros [H1 H2 H3 H4]. constructor.
  - apply step_inv, H1. - apply step_L1, H2. - apply step_L2; assumption. - apply step_reg3; assumption.
Qed.

Lemma run_live sched : forall st, Live st -> Live (run st sched).
Proof. induction sched as [|e r IH]; intros st H; [exact H|]. cbn [run fold_left]. apply IH, step_live, H. Qed.

(* no internal step of any call is still outstanding *)
Definition quiescent (st : state) : Prop :=
  forall c x, nth_error (calls st) c = Some x -> c_spc x <> SReg.

(* C05 (ii): once the connection is lost or the client closed, and every started write has returned,
   every call that was started has been completed (exactly once, by at_most_once) *)
Theorem no_call_left_hanging cs chan sched :
  wf_init cs ->
  let st := run (init cs chan) sched in
  gone st = true -> collided st = false -> quiescent st ->
  forall c x, nth_error (calls st) c = Some x -> c_spc x <> SNew -> length (c_signals x) = 1.
Proof.
  intros Hw st Hg Hc Hq c x Hx Hs.
  pose proof (run_live sched (init cs chan) (live_init cs chan Hw)) as [H1 H2 H3 H4]. fold st in H1, H2, H3, H4.
  pose proof (inv_once _ _ H1 c x Hx) as Hle.
  destruct (H4 Hc c x Hx Hs) as [(k & Hk)|Hne].
  - exfalso. destruct (H3 Hg k c Hk) as (x' & Hx' & Hs'). rewrite Hx in Hx'. injection Hx' as <-.
    exact (Hq c x Hx Hs').
  - unfold sig_ne in Hne. destruct (c_signals x) as [|a [|b l]]; cbn in *; [congruence|reflexivity|lia].
Qed.

(* C05 (iii): a call started after the connection is gone is rejected at once and touches nothing *)
Theorem rejected_promptly st c x :
  gone st = true -> nth_error (calls st) c = Some x -> c_kind x <> KRaw -> c_spc x = SNew ->
  pending (step st (EReg c)) = pending st /\
  exists x', nth_error (calls (step st (EReg c))) c = Some x' /\
             c_signals x' = c_signals x ++ [(Rejected, RShutdown)] /\ c_spc x' = SDone.
Proof.
  intros Hg Hx Hk Hs. cbn [step]. unfold getc. rewrite Hx.
  assert (E1 : negb (is_raw x) && spc_eqb (c_spc x) SNew = true).
  { rewrite Hs. destruct (c_kind x) eqn:E; unfold is_raw; rewrite E; cbn; try reflexivity. congruence. }
  rewrite E1. unfold gone in Hg. rewrite orb_comm in Hg. rewrite Hg. cbn.
  split; [reflexivity|]. rewrite nth_error_upd_nth, Nat.eqb_refl, Hx. cbn. eexists. split; [reflexivity|].
  cbn. split; reflexivity.
Qed.

(* ================= C06: isolation ================= *)
Definition owner (e : event) : option nat :=
  match e with
  | EReg c | ERawReg c | EEncFail c | EWriteOk c | EWriteFail c | EOneway c | ECtx c | ETake c => Some c
  | ERecv _ | EReadErr _ | EClose => None
  end.

(* the keys of the pending map an event of call a may look up / overwrite *)
Definition touch_keys (st : state) (e : event) : list N :=
  match e with
  | EReg _ => [next_seq st]
  | ERawReg c => match getc st c with Some x => [c_rawseq x] | None => [] end
  | EEncFail c | EWriteFail c | EOneway c =>
      match getc st c with Some x => match c_seq x with Some s => [s] | None => [] end | None => [] end
  | ECtx c => match getc st c with
              | Some x => match c_kind x with KRaw => [c_rawseq x] | _ => [] end   (* Call: guarded by identity *)
              | None => [] end
  | ERecv f => [f_seq f]
  | _ => []
  end.

Definition same_for (v : nat) (st st' : state) : Prop :=
  nth_error (calls st') v = nth_error (calls st) v /\
  forall k, In (k, v) (pending st') <-> In (k, v) (pending st).

Lemma same_refl v st : same_for v st st. Proof. split; [reflexivity|tauto]. Qed.
Lemma same_trans v a b c : same_for v a b -> same_for v b c -> same_for v a c.
Proof. intros [H1 H2] [H3 H4]. split; [congruence|]. intros k. rewrite H4. apply H2. Qed.

Lemma same_updc v st c g : c <> v -> same_for v st (updc st c g).
Proof.
  intros Hne. split; [|cbn; tauto]. cbn. rewrite nth_error_upd_nth.
  destruct (Nat.eqb_spec c v); [congruence|reflexivity].
Qed.

Lemma same_complete_at v xv st k cz r :
  Inv (pending st) (calls st) -> nth_error (calls st) v = Some xv -> c_seq xv <> Some k ->
  same_for v st (complete_at st k cz r).
Proof.
  intros Hi Hx Hs. unfold complete_at. destruct (plookup k (pending st)) as [c'|] eqn:E; [|apply same_refl].
  apply plookup_In in E; [|apply Hi].
  destruct (inv_pend _ _ Hi _ _ E) as (x' & Hx' & Hs' & _).
  assert (c' <> v) by (intros ->; congruence).
  split; cbn.
  - rewrite nth_error_upd_nth. destruct (Nat.eqb_spec c' v); [congruence|reflexivity].
  - intros k'. rewrite In_pdel. split; [tauto|]. intros Hin. split; [exact Hin|]. intros ->.
    destruct (inv_pend _ _ Hi _ _ Hin) as (x2 & Hx2 & Hs2 & _). congruence.
Qed.

Lemma same_register v xv st c s (g : call -> call) st1 :
  Inv (pending st) (calls st) -> nth_error (calls st) v = Some xv -> c <> v -> c_seq xv <> Some s ->
  pending st1 = pset s c (pending st) -> calls st1 = calls st ->
  same_for v st (updc st1 c g).
Proof.
  intros Hi Hx Hne Hs Hp Hc. split; cbn; rewrite ?Hc, ?Hp.
  - rewrite nth_error_upd_nth. destruct (Nat.eqb_spec c v); [congruence|reflexivity].
  - intros k. unfold pset. cbn. rewrite In_pdel. split.
    + intros [H|H]; [injection H; congruence|tauto].
    + intros Hin. right. split; [exact Hin|]. intros ->.
      destruct (inv_pend _ _ Hi _ _ Hin) as (x2 & Hx2 & Hs2 & _). congruence.
Qed.

(* An event of call a (any of its steps: registration, failed encoding, write, write failure,
   one-way completion, cancellation/deadline, receipt) leaves every other call v - its record and
   its pending entry - untouched, unless v is registered under a key that a's step uses (which
   requires a SendRaw with a clashing caller-chosen sequence number). *)
Theorem own_steps_are_local st e a v xv :
  Inv (pending st) (calls st) -> owner e = Some a -> v <> a ->
  nth_error (calls st) v = Some xv ->
  (forall k, In k (touch_keys st e) -> c_seq xv <> Some k) ->
  same_for v st (step st e).
Proof.
  intros Hi Ho Hva Hx Hk.
  assert (Hav : a <> v) by congruence.
  destruct e as [c|c|c|c|c|c|c|c|f|eof|]; cbn [owner] in Ho; try discriminate; injection Ho as ->;
    cbn [step]; cbn [touch_keys] in Hk; unfold getc in *.
  - destruct (nth_error (calls st) a) as [x|] eqn:Hxa; [|apply same_refl].
    destruct (negb (is_raw x) && spc_eqb (c_spc x) SNew); [|apply same_refl].
    destruct (shutdown st || closing st); [apply same_updc; exact Hav|].
    eapply same_register; [exact Hi|exact Hx|exact Hav| |reflexivity|reflexivity]. apply Hk. left. reflexivity.
  - destruct (nth_error (calls st) a) as [x|] eqn:Hxa; [|apply same_refl].
    destruct (is_raw x && spc_eqb (c_spc x) SNew); [|apply same_refl].
    eapply same_register; [exact Hi|exact Hx|exact Hav| |reflexivity|reflexivity]. apply Hk. left. reflexivity.
  - destruct (nth_error (calls st) a) as [x|] eqn:Hxa; [|apply same_refl].
    destruct (c_seq x) as [s|]; [|apply same_refl].
    destruct (negb (is_raw x) && spc_eqb (c_spc x) SReg); [|apply same_refl].
    eapply same_trans; [|apply same_updc; exact Hav].
    eapply same_complete_at; eauto. apply Hk. left. reflexivity.
  - destruct (nth_error (calls st) a) as [x|] eqn:Hxa; [|apply same_refl].
    destruct (spc_eqb (c_spc x) SReg && conn_open st); [|apply same_refl].
    split; cbn; [|tauto]. rewrite nth_error_upd_nth. destruct (Nat.eqb_spec a v); [congruence|reflexivity].
  - destruct (nth_error (calls st) a) as [x|] eqn:Hxa; [|apply same_refl].
    destruct (c_seq x) as [s|]; [|apply same_refl].
    destruct (spc_eqb (c_spc x) SReg); [|apply same_refl].
    assert (H1 : same_for v st (updc (complete_at st s ByWrite RWriteErr) a (set_spc SDone))).
    { eapply same_trans; [|apply same_updc; exact Hav]. eapply same_complete_at; eauto. apply Hk. left. reflexivity. }
    destruct (is_raw x); [|exact H1]. eapply same_trans; [exact H1|apply same_updc; exact Hav].
  - destruct (nth_error (calls st) a) as [x|] eqn:Hxa; [|apply same_refl].
    destruct (c_seq x) as [s|]; [|apply same_refl].
    destruct (spc_eqb (c_spc x) SWritten && c_oneway x); [|apply same_refl].
    assert (H1 : same_for v st (updc (complete_at st s ByOneway ROneway) a (set_spc SDone))).
    { eapply same_trans; [|apply same_updc; exact Hav]. eapply same_complete_at; eauto. apply Hk. left. reflexivity. }
    destruct (is_raw x); [|exact H1]. eapply same_trans; [exact H1|apply same_updc; exact Hav].
  - destruct (nth_error (calls st) a) as [x|] eqn:Hxa; [|apply same_refl].
    destruct (c_kind x) eqn:Ek; [apply same_refl| |].
    + destruct (is_wait x); [|apply same_refl].
      eapply same_trans; [|apply same_updc; exact Hav].
      set (key := match c_seq x with Some s => s | None => 0%N end).
      destruct (plookup key (pending st)) as [c'|] eqn:El; [|apply same_refl].
      destruct (Nat.eqb_spec c' a) as [->|]; [|apply same_refl].
      (* the entry found is a's own: completing it does not touch v *)
      unfold complete_at. rewrite El. apply plookup_In in El; [|apply Hi].
      split; cbn.
      * rewrite nth_error_upd_nth. destruct (Nat.eqb_spec a v); [congruence|reflexivity].
      * intros k. rewrite In_pdel. split; [tauto|]. intros Hin. split; [exact Hin|]. intros ->.
        apply Hav. pose proof (inv_keys _ _ Hi) as Hnd.
        apply (plookup_In _ _ _ Hnd) in Hin. apply (plookup_In _ _ _ Hnd) in El. congruence.
    + destruct (is_wait x && spc_eqb (c_spc x) SDone && negb (c_oneway x)); [|apply same_refl].
      eapply same_trans; [|apply same_updc; exact Hav].
      eapply same_complete_at; eauto. apply Hk. left. reflexivity.
  - destruct (nth_error (calls st) a) as [x|] eqn:Hxa; [|apply same_refl].
    destruct (is_wait x && _); [|apply same_refl].
    destruct (c_signals x) as [|[cz r] l]; [apply same_refl|]. apply same_updc. exact Hav.
Qed.

(* a received frame - whatever it carries: an error status, a reply that does not decode, an
   unknown codec - touches only the call registered under its own sequence number *)
Theorem recv_is_local st f v xv :
  Inv (pending st) (calls st) -> nth_error (calls st) v = Some xv -> c_seq xv <> Some (f_seq f) ->
  same_for v st (step st (ERecv f)).
Proof.
  intros Hi Hx Hs. cbn [step]. destruct (reader_alive st); [|apply same_refl].
  destruct (f_servermsg f); [destruct (chan_registered st); split; cbn; tauto|].
  destruct (plookup (f_seq f) (pending st)) as [c'|] eqn:El; [|apply same_refl].
  unfold getc. destruct (nth_error (calls st) c') as [x|] eqn:Hx'.
  - pose proof (same_complete_at v xv st (f_seq f) (ByResp f) (interp f x) Hi Hx Hs) as H.
    unfold complete_at in H. rewrite El in H. unfold complete_at. rewrite El. exact H.
  - exfalso. apply plookup_In in El; [|apply Hi]. destruct (inv_pend _ _ Hi _ _ El) as (x & Hx2 & _). congruence.
Qed.
