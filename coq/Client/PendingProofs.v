(* Threads whose paths obey the discipline of Client/Pending.v, interleaved in any order: no call is completed twice,
   no nil call is touched, no call is touched while it sits in the table or by two threads, and (strict paths) a
   client that has shut down has an empty table whenever the mutex is free. *)
From Coq Require Import List Arith Bool Lia.
From RPCX Require Import Client.Pending.
Import ListNotations.

(* ---------- small facts ---------- *)

Lemma upd_same {A} (f : nat -> A) k x : upd f k x k = x.
Proof. unfold upd. now rewrite Nat.eqb_refl. Qed.
Lemma upd_other {A} (f : nat -> A) k x k' : k' <> k -> upd f k x k' = f k'.
Proof. intros H. unfold upd. destruct (Nat.eqb_spec k' k); [contradiction|reflexivity]. Qed.

Lemma get_set_same l v s : get_ (set_ l v s) v = s.
Proof. unfold set_. cbn. now rewrite Nat.eqb_refl. Qed.
Lemma get_filter_other l v w : w <> v -> get_ (filter (fun p => negb (Nat.eqb (fst p) v)) l) w = get_ l w.
Proof.
  intros H. induction l as [|[u s] l IH]; cbn; [reflexivity|].
  destruct (Nat.eqb_spec u v) as [->|Huv]; cbn.
  - destruct (Nat.eqb_spec v w); [congruence|exact IH].
  - destruct (Nat.eqb_spec u w); [reflexivity|exact IH].
Qed.
Lemma get_set_other l v s w : w <> v -> get_ (set_ l v s) w = get_ l w.
Proof.
  intros H. unfold set_. cbn. destruct (Nat.eqb_spec v w); [congruence|]. now apply get_filter_other.
Qed.

Lemma get_unpeek l v : get_ (unpeek_all l) v = match get_ l v with VPeeked _ _ _ => VUnknown | s => s end.
Proof.
  induction l as [|[u s] l IH]; cbn; [reflexivity|].
  destruct (Nat.eqb_spec u v); [reflexivity|exact IH].
Qed.

Lemma get_in l v : get_ l v <> VUnknown -> exists s, In (v, s) l /\ get_ l v = s.
Proof.
  induction l as [|[u s] l IH]; cbn; [congruence|].
  destruct (Nat.eqb_spec u v) as [->|Huv]; intros H.
  - exists s. split; [now left|reflexivity].
  - destruct (IH H) as (s' & Hin & Hs). exists s'. split; [now right|exact Hs].
Qed.

Lemma get_noleak l v : forallb (fun p => negb (ownedish (snd p))) l = true -> ownedish (get_ l v) = false.
Proof.
  intros H. destruct (get_ l v) eqn:E; try reflexivity;
  (assert (Hne : get_ l v <> VUnknown) by (rewrite E; discriminate);
   destruct (get_in l v Hne) as (s & Hin & Hs); rewrite forallb_forall in H; specialize (H _ Hin); cbn in H;
   rewrite E in Hs; subst s; cbn in H; discriminate).
Qed.

Lemma noleak_get a v : noleak a = true -> ownedish (get a v) = false.
Proof. apply get_noleak. Qed.

Lemma lookup_remove_same l k : lookup (remove l k) k = None.
Proof.
  induction l as [|[k' c] l IH]; cbn; [reflexivity|].
  destruct (Nat.eqb_spec k' k); cbn; [exact IH|].
  destruct (Nat.eqb_spec k' k); [contradiction|exact IH].
Qed.
Lemma lookup_remove_other l k k' : k' <> k -> lookup (remove l k) k' = lookup l k'.
Proof.
  intros H. induction l as [|[k0 c] l IH]; cbn; [reflexivity|].
  destruct (Nat.eqb_spec k0 k) as [->|Hk]; cbn.
  - destruct (Nat.eqb_spec k k'); [congruence|exact IH].
  - destruct (Nat.eqb_spec k0 k'); [reflexivity|exact IH].
Qed.
Lemma lookup_nil_all l : (forall k, lookup l k = None) -> l = [].
Proof.
  destruct l as [|[k c] l]; [reflexivity|]. intros H. specialize (H k). cbn in H. now rewrite Nat.eqb_refl in H.
Qed.

Lemma ocall_eqb_eq a b : ocall_eqb a b = true -> a = b.
Proof.
  destruct a, b; cbn; try discriminate; try reflexivity. intros H. apply Nat.eqb_eq in H. now subst.
Qed.

(* ---------- the invariant ---------- *)

Definition own := call -> option (tid * var).

Definition srel (t : tid) (h : bool) (th : thread) (w : world) (O : own) (v : var) (s : vst) : Prop :=
  match s with
  | VFresh | VOwned => exists c, loc th v = Some c /\ O c = Some (t, v)
  | VMaybe => loc th v = None \/ exists c, loc th v = Some c /\ O c = Some (t, v)
  | VNil => loc th v = None
  | VPeeked k _ nn => h = true /\ loc th v = lookup (pend w) (env th k) /\ (nn = true -> loc th v <> None)
  | VUnknown => True
  end.
Definition vrel (t : tid) (a : ast) (th : thread) (w : world) (O : own) (v : var) : Prop :=
  srel t (held a) th w O v (get a v).

Record trel (strict : bool) (t : tid) (a : ast) (w : world) (O : own) : Prop := mkTrel {
  tr_held : held a = true <-> lock w = Some t;
  tr_vars : forall v, vrel t a (thr w t) w O v;
  tr_check : check strict a (pc (thr w t)) = true;
  tr_todo : Forall (fun ep => check strict ainit (snd ep) = true) (todo (thr w t))
}.

Record ginv (strict : bool) (w : world) (O : own) (A : tid -> ast) : Prop := mkG {
  g_bad : bad w = false;
  g_dones : forall c, dones w c <= 1;
  g_tab : forall k c, lookup (pend w) k = Some c ->
          intable w c = true /\ dones w c = 0 /\ c < next w /\ O c = None /\ holder w c = None;
  g_inj : forall k1 k2 c, lookup (pend w) k1 = Some c -> lookup (pend w) k2 = Some c -> k1 = k2;
  g_own : forall c t v, O c = Some (t, v) ->
          intable w c = false /\ dones w c = 0 /\ c < next w /\ loc (thr w t) v = Some c
          /\ ownedish (get (A t) v) = true /\ (holder w c = None \/ holder w c = Some t);
  g_fresh : forall c, next w <= c -> O c = None /\ dones w c = 0 /\ intable w c = false;
  g_j1 : strict = true -> lock w = None -> shut w || closing w = true -> pend w = [];
  g_j2 : strict = true -> forall t, lock w = Some t ->
         (isopen (A t) = true -> shut w || closing w = false)
         /\ (isempty (A t) = true -> pend w = [])
         /\ (flagset (A t) = false -> shut w || closing w = true -> pend w = [])
}.

Definition Inv (strict : bool) (w : world) : Prop :=
  exists O A, ginv strict w O A /\ forall t, trel strict t (A t) w O.

(* what the theorems are about *)
Definition safe (w : world) : Prop := bad w = false /\ forall c, dones w c <= 1.
Definition none_stranded (w : world) : Prop := lock w = None -> shut w || closing w = true -> pend w = [].

Definition tvars (t : tid) (a : ast) (w : world) (O : own) : Prop :=
  (held a = true <-> lock w = Some t) /\ forall v, vrel t a (thr w t) w O v.

Lemma tvars_frame t' a w w1 O O' :
  tvars t' a w O ->
  loc (thr w1 t') = loc (thr w t') -> env (thr w1 t') = env (thr w t') ->
  (lock w1 = Some t' <-> lock w = Some t') ->
  (lock w = Some t' -> pend w1 = pend w) ->
  (forall c v, O c = Some (t', v) -> O' c = Some (t', v)) ->
  tvars t' a w1 O'.
Proof.
  intros [Hh Hv] Hloc Henv Hlock Hpend HO. split; [rewrite Hh; symmetry; exact Hlock|].
  intros v. specialize (Hv v). unfold vrel, srel in *. rewrite Hloc, Henv.
  destruct (get a v) as [| |k s| | |]; auto.
  - destruct Hv as (c & H1 & H2). exists c. auto.
  - destruct Hv as (Hheld & Hl). split; [exact Hheld|]. rewrite Hpend; [exact Hl|]. now apply Hh.
  - destruct Hv as [Hn|(c & H1 & H2)]; [now left|right; exists c; auto].
  - destruct Hv as (c & H1 & H2). exists c. auto.
Qed.

Record shared_eq (w w1 : world) : Prop := mkSE {
  se_lock : lock w1 = lock w; se_pend : pend w1 = pend w; se_shut : shut w1 = shut w;
  se_closing : closing w1 = closing w; se_next : next w1 = next w; se_dones : dones w1 = dones w;
  se_intable : intable w1 = intable w; se_holder : holder w1 = holder w; se_bad : bad w1 = bad w
}.

Lemma shared_eq_refl w : shared_eq w w.
Proof. constructor; reflexivity. Qed.
Lemma shared_eq_set_thr w t th : shared_eq w (set_thr w t th).
Proof. constructor; reflexivity. Qed.

(* an operation that changes only the acting thread's variables *)
Lemma local_pres strict t w w1 O A a' :
  ginv strict w O A -> (forall t', tvars t' (A t') w O) ->
  shared_eq w w1 -> (forall t', t' <> t -> thr w1 t' = thr w t') ->
  held a' = held (A t) ->
  (isopen a' = true -> isopen (A t) = true \/ shut w || closing w = false) ->
  (isempty a' = true -> isempty (A t) = true \/ pend w = []) ->
  flagset a' = flagset (A t) ->
  (forall v, vrel t a' (thr w1 t) w O v) ->
  (forall c v, O c = Some (t, v) -> loc (thr w1 t) v = Some c /\ ownedish (get a' v) = true) ->
  ginv strict w1 O (upd A t a') /\ forall t', tvars t' (upd A t a' t') w1 O.
Proof.
  intros G TV [E1 E2 E3 E4 E5 E6 E7 E8 E9] Hthr Hheld Hopen Hempty Hflag Hvars Hown.
  split.
  - constructor; rewrite ?E1, ?E2, ?E3, ?E4, ?E5, ?E6, ?E7, ?E8, ?E9.
    + exact (g_bad _ _ _ _ G).
    + exact (g_dones _ _ _ _ G).
    + exact (g_tab _ _ _ _ G).
    + exact (g_inj _ _ _ _ G).
    + intros c t0 v HO. destruct (g_own _ _ _ _ G c t0 v HO) as (H1 & H2 & H3 & H4 & H5 & H6).
      repeat split; try assumption.
      * destruct (Nat.eq_dec t0 t) as [->|Hne]; [exact (proj1 (Hown _ _ HO))|]. rewrite Hthr by exact Hne. exact H4.
      * destruct (Nat.eq_dec t0 t) as [->|Hne]; [rewrite upd_same; exact (proj2 (Hown _ _ HO))|]. now rewrite upd_other.
    + exact (g_fresh _ _ _ _ G).
    + exact (g_j1 _ _ _ _ G).
    + intros Hs t0 Hl. destruct (g_j2 _ _ _ _ G Hs t0 Hl) as (J1 & J2 & J3).
      destruct (Nat.eq_dec t0 t) as [->|Hne]; [rewrite upd_same|now rewrite upd_other].
      repeat split.
      * intros Ho. destruct (Hopen Ho); auto.
      * intros He. destruct (Hempty He); auto.
      * rewrite Hflag. exact J3.
  - intros t'. destruct (Nat.eq_dec t' t) as [->|Hne].
    + rewrite upd_same. split.
      * rewrite Hheld, E1. exact (proj1 (TV t)).
      * intros v. specialize (Hvars v). unfold vrel, srel in *. rewrite E2. exact Hvars.
    + rewrite upd_other by exact Hne.
      apply tvars_frame with (w := w) (O := O); auto.
      * now rewrite Hthr.
      * now rewrite Hthr.
      * now rewrite E1.
Qed.

Lemma get_setv_same a v s : get (setv a v s) v = s.
Proof. unfold get, setv. cbn. apply get_set_same. Qed.
Lemma get_setv_other a v s w : w <> v -> get (setv a v s) w = get a w.
Proof. unfold get, setv. cbn. apply get_set_other. Qed.

(* srel does not look at the other variables *)
Lemma srel_loc_other t h th th' w O v s :
  loc th' v = loc th v -> env th' = env th -> srel t h th w O v s -> srel t h th' w O v s.
Proof. intros Hl He. unfold srel. rewrite Hl, He. auto. Qed.

(* nothing changes but the abstract state of one variable (and possibly its value) *)
Lemma var_pres strict t w w1 O A a' v s :
  ginv strict w O A -> (forall t', tvars t' (A t') w O) ->
  shared_eq w w1 -> (forall t', t' <> t -> thr w1 t' = thr w t') ->
  env (thr w1 t) = env (thr w t) -> (forall v0, v0 <> v -> loc (thr w1 t) v0 = loc (thr w t) v0) ->
  held a' = held (A t) -> isopen a' = isopen (A t) -> isempty a' = isempty (A t) -> flagset a' = flagset (A t) ->
  vars a' = set_ (vars (A t)) v s ->
  srel t (held (A t)) (thr w1 t) w O v s ->
  (forall c, O c = Some (t, v) -> loc (thr w1 t) v = Some c /\ ownedish s = true) ->
  ginv strict w1 O (upd A t a') /\ forall t', tvars t' (upd A t a' t') w1 O.
Proof.
  intros G TV SE Hthr Henv Hloc Hheld Hopen Hempty Hflag Hvars Hs Hown.
  apply local_pres with (w := w); auto.
  - rewrite Hopen. auto.
  - rewrite Hempty. auto.
  - intros v0. unfold vrel, get. rewrite Hvars, Hheld.
    destruct (Nat.eq_dec v0 v) as [->|Hne].
    + rewrite get_set_same. exact Hs.
    + rewrite get_set_other by exact Hne.
      apply srel_loc_other with (th := thr w t); auto. exact (proj2 (TV t) v0).
  - intros c v0 HO. unfold get. rewrite Hvars.
    destruct (Nat.eq_dec v0 v) as [->|Hne].
    + rewrite get_set_same. now apply Hown.
    + rewrite get_set_other by exact Hne. rewrite Hloc by exact Hne.
      destruct (g_own _ _ _ _ G c t v0 HO) as (_ & _ & _ & H4 & H5 & _). split; assumption.
Qed.

Lemma noop_pres strict t w O A :
  ginv strict w O A -> (forall t', tvars t' (A t') w O) ->
  ginv strict w O (upd A t (A t)) /\ forall t', tvars t' (upd A t (A t) t') w O.
Proof.
  intros G TV. apply local_pres with (w := w); auto using shared_eq_refl.
  - exact (proj2 (TV t)).
  - intros c v HO. destruct (g_own _ _ _ _ G c t v HO) as (_ & _ & _ & H4 & H5 & _). split; assumption.
Qed.

Lemma free_not_owned strict t w O A v c :
  ginv strict w O A -> free (A t) v = true -> O c = Some (t, v) -> False.
Proof.
  intros G Hf HO. destruct (g_own _ _ _ _ G c t v HO) as (_ & _ & _ & _ & H5 & _).
  unfold free in Hf. rewrite H5 in Hf. discriminate.
Qed.

(* v := something it does not own afterwards *)
Lemma assign_pres strict t w O A a' v s oc :
  ginv strict w O A -> (forall t', tvars t' (A t') w O) ->
  free (A t) v = true ->
  held a' = held (A t) -> isopen a' = isopen (A t) -> isempty a' = isempty (A t) -> flagset a' = flagset (A t) ->
  vars a' = set_ (vars (A t)) v s ->
  match s with
  | VUnknown => True
  | VNil => oc = None
  | VPeeked k _ nn => held (A t) = true /\ oc = lookup (pend w) (env (thr w t) k) /\ (nn = true -> oc <> None)
  | _ => False
  end ->
  let w1 := set_thr w t (set_loc (thr w t) v oc) in
  ginv strict w1 O (upd A t a') /\ forall t', tvars t' (upd A t a' t') w1 O.
Proof.
  intros G TV Hfree Hheld Hopen Hempty Hflag Hvars Hs w1.
  apply var_pres with (w := w) (v := v) (s := s); auto.
  - apply shared_eq_set_thr.
  - intros t' Hne. unfold w1, set_thr. cbn. now rewrite upd_other.
  - unfold w1, set_thr. cbn. now rewrite upd_same.
  - intros v0 Hne. unfold w1, set_thr. cbn. rewrite upd_same. cbn. now rewrite upd_other.
  - unfold w1, set_thr, srel. cbn. rewrite upd_same. cbn. rewrite upd_same.
    destruct s; try contradiction; auto.
  - intros c HO. exfalso. eapply free_not_owned; eauto.
Qed.

Ltac own_of G HO := let H1 := fresh "H1" in let H2 := fresh "H2" in let H3 := fresh "H3" in
  let H4 := fresh "H4" in let H5 := fresh "H5" in let H6 := fresh "H6" in
  destruct (g_own _ _ _ _ G _ _ _ HO) as (H1 & H2 & H3 & H4 & H5 & H6).

Lemma lock_pres strict t w O A :
  ginv strict w O A -> (forall t', tvars t' (A t') w O) ->
  held (A t) = false -> lock w = None ->
  let a' := mkA true false false false (vars (A t)) (regs (A t)) (mine (A t)) in
  let w1 := mkW (thr w) (Some t) (pend w) (shut w) (closing w) (next w) (dones w) (intable w) (holder w) (bad w) in
  ginv strict w1 O (upd A t a') /\ forall t', tvars t' (upd A t a' t') w1 O.
Proof.
  intros G TV Hheld Hlock a' w1. split.
  - constructor; cbn.
    + exact (g_bad _ _ _ _ G).
    + exact (g_dones _ _ _ _ G).
    + exact (g_tab _ _ _ _ G).
    + exact (g_inj _ _ _ _ G).
    + intros c t0 v HO. own_of G HO. repeat split; try assumption.
      destruct (Nat.eq_dec t0 t) as [->|Hne]; [rewrite upd_same; exact H5|now rewrite upd_other].
    + exact (g_fresh _ _ _ _ G).
    + discriminate.
    + intros Hs t0 Hl. injection Hl as <-. rewrite upd_same. cbn. repeat split; try discriminate.
      intros _. apply (g_j1 _ _ _ _ G Hs Hlock).
  - intros t'. destruct (Nat.eq_dec t' t) as [->|Hne].
    + rewrite upd_same. split; [cbn; tauto|].
      intros v. generalize (proj2 (TV t) v). unfold vrel, srel, get. cbn.
      destruct (get_ (vars (A t)) v); auto. rewrite Hheld. intros [? _]. discriminate.
    + rewrite upd_other by exact Hne. apply tvars_frame with (w := w) (O := O); auto.
      cbn. rewrite Hlock. split; [intros H; injection H; congruence|discriminate].
Qed.

Lemma unlock_pres strict t w O A :
  ginv strict w O A -> (forall t', tvars t' (A t') w O) ->
  held (A t) = true -> (negb strict || implb (flagset (A t)) (isempty (A t))) = true ->
  let a' := mkA false false false false (unpeek_all (vars (A t))) (regs (A t)) (mine (A t)) in
  let w1 := mkW (thr w) None (pend w) (shut w) (closing w) (next w) (dones w) (intable w) (holder w) (bad w) in
  ginv strict w1 O (upd A t a') /\ forall t', tvars t' (upd A t a' t') w1 O.
Proof.
  intros G TV Hheld Hcond a' w1.
  assert (Hlock : lock w = Some t) by (apply (proj1 (TV t)); exact Hheld).
  split.
  - constructor; cbn.
    + exact (g_bad _ _ _ _ G).
    + exact (g_dones _ _ _ _ G).
    + exact (g_tab _ _ _ _ G).
    + exact (g_inj _ _ _ _ G).
    + intros c t0 v HO. own_of G HO. repeat split; try assumption.
      destruct (Nat.eq_dec t0 t) as [->|Hne]; [rewrite upd_same|now rewrite upd_other].
      unfold get, a'. cbn. rewrite get_unpeek. unfold get in H5. destruct (get_ (vars (A t)) v); auto.
    + exact (g_fresh _ _ _ _ G).
    + intros Hs _ Hfl. destruct (g_j2 _ _ _ _ G Hs t Hlock) as (_ & J2 & J3).
      rewrite Hs in Hcond. cbn in Hcond.
      destruct (flagset (A t)); [apply J2; exact Hcond|apply J3; auto].
    + discriminate.
  - intros t'. destruct (Nat.eq_dec t' t) as [->|Hne].
    + rewrite upd_same. split; [cbn; split; discriminate|].
      intros v. generalize (proj2 (TV t) v). unfold vrel, srel, get. cbn. rewrite get_unpeek.
      destruct (get_ (vars (A t)) v); auto.
    + rewrite upd_other by exact Hne. apply tvars_frame with (w := w) (O := O); auto.
      cbn. rewrite Hlock. split; [discriminate|intros H; injection H; congruence].
Qed.

Lemma flag_pres strict t w O A (sh cl : bool) :
  ginv strict w O A -> (forall t', tvars t' (A t') w O) ->
  held (A t) = true ->
  let a' := mkA true false true (isempty (A t)) (vars (A t)) (regs (A t)) (mine (A t)) in
  let w1 := mkW (thr w) (lock w) (pend w) sh cl (next w) (dones w) (intable w) (holder w) (bad w) in
  ginv strict w1 O (upd A t a') /\ forall t', tvars t' (upd A t a' t') w1 O.
Proof.
  intros G TV Hheld a' w1.
  assert (Hlock : lock w = Some t) by (apply (proj1 (TV t)); exact Hheld).
  split.
  - constructor; cbn.
    + exact (g_bad _ _ _ _ G).
    + exact (g_dones _ _ _ _ G).
    + exact (g_tab _ _ _ _ G).
    + exact (g_inj _ _ _ _ G).
    + intros c t0 v HO. own_of G HO. repeat split; try assumption.
      destruct (Nat.eq_dec t0 t) as [->|Hne]; [rewrite upd_same; exact H5|now rewrite upd_other].
    + exact (g_fresh _ _ _ _ G).
    + rewrite Hlock. discriminate.
    + intros Hs t0 Hl. rewrite Hlock in Hl. injection Hl as <-. rewrite upd_same. cbn.
      destruct (g_j2 _ _ _ _ G Hs t Hlock) as (_ & J2 & _). repeat split; try discriminate. exact J2.
  - intros t'. destruct (Nat.eq_dec t' t) as [->|Hne].
    + rewrite upd_same. split; [cbn; rewrite Hlock; tauto|].
      intros v. generalize (proj2 (TV t) v). unfold vrel, srel, get. cbn. rewrite Hheld. auto.
    + rewrite upd_other by exact Hne. apply tvars_frame with (w := w) (O := O); auto. cbn. tauto.
Qed.

Lemma srel_own_ext t h th w O O' v s :
  (forall c, O c = Some (t, v) -> O' c = Some (t, v)) -> srel t h th w O v s -> srel t h th w O' v s.
Proof.
  intros HO. unfold srel. destruct s; auto.
  - intros (c & H1 & H2). exists c. auto.
  - intros [Hn|(c & H1 & H2)]; [now left|right; exists c; auto].
  - intros (c & H1 & H2). exists c. auto.
Qed.

Lemma new_pres strict t w O A v :
  ginv strict w O A -> (forall t', tvars t' (A t') w O) ->
  free (A t) v = true ->
  let a := A t in
  let a' := mkA (held a) (isopen a) (flagset a) (isempty a) (set_ (vars a) v VFresh) (regs a) (Some v) in
  let c := next w in
  let w1 := mkW (upd (thr w) t (set_loc (thr w t) v (Some c))) (lock w) (pend w) (shut w) (closing w) (Datatypes.S c)
                (dones w) (intable w) (upd (holder w) c (Some t)) (bad w) in
  ginv strict w1 (upd O c (Some (t, v))) (upd A t a') /\ forall t', tvars t' (upd A t a' t') w1 (upd O c (Some (t, v))).
Proof.
  intros G TV Hfree a a' c w1.
  destruct (g_fresh _ _ _ _ G c (le_n _)) as (Fo & Fd & Fi).
  assert (Hext : forall c0 p, O c0 = Some p -> upd O c (Some (t, v)) c0 = Some p).
  { intros c0 p H. rewrite upd_other; [exact H|]. intros ->. rewrite Fo in H. discriminate. }
  split.
  - constructor; cbn.
    + exact (g_bad _ _ _ _ G).
    + exact (g_dones _ _ _ _ G).
    + intros k c0 Hl. destruct (g_tab _ _ _ _ G k c0 Hl) as (T1 & T2 & T3 & T4 & T5).
      assert (c0 <> c) by (unfold c; lia). rewrite !upd_other by assumption. repeat split; auto.
    + exact (g_inj _ _ _ _ G).
    + intros c0 t0 v0 HO. destruct (Nat.eq_dec c0 c) as [->|Hc].
      * rewrite upd_same in HO. injection HO as <- <-. rewrite !upd_same. cbn. rewrite upd_same.
        repeat split; auto. unfold get, a'. cbn. now rewrite Nat.eqb_refl.
      * rewrite upd_other in HO by exact Hc. own_of G HO. rewrite (upd_other (holder w)) by exact Hc.
        repeat split; auto.
        -- destruct (Nat.eq_dec t0 t) as [->|Hne]; [rewrite upd_same|now rewrite upd_other].
           cbn. rewrite upd_other; [exact H4|]. intros ->. eapply free_not_owned; eauto.
        -- destruct (Nat.eq_dec t0 t) as [->|Hne]; [rewrite upd_same|now rewrite upd_other].
           unfold get, a'. cbn [vars]. rewrite get_set_other; [exact H5|].
           intros ->. eapply free_not_owned; eauto.
    + intros c0 Hle. assert (c0 <> c) by (unfold c; lia). rewrite upd_other by assumption.
      apply (g_fresh _ _ _ _ G). unfold c in *. lia.
    + exact (g_j1 _ _ _ _ G).
    + intros Hs t0 Hl. destruct (g_j2 _ _ _ _ G Hs t0 Hl) as (J1 & J2 & J3).
      destruct (Nat.eq_dec t0 t) as [->|Hne]; [rewrite upd_same; cbn; auto|now rewrite upd_other].
  - intros t'. destruct (Nat.eq_dec t' t) as [->|Hne].
    + rewrite upd_same. split; [exact (proj1 (TV t))|].
      intros v0. unfold vrel, get. cbn [held vars a']. unfold w1. cbn [thr]. rewrite upd_same.
      destruct (Nat.eq_dec v0 v) as [->|Hv].
      * rewrite get_set_same. cbn. exists c. rewrite !upd_same. auto.
      * rewrite get_set_other by exact Hv.
        apply srel_own_ext with (O := O); [intros; now apply Hext|].
        apply srel_loc_other with (th := thr w t); [cbn; now rewrite upd_other|reflexivity|].
        exact (proj2 (TV t) v0).
    + rewrite upd_other by exact Hne. apply tvars_frame with (w := w) (O := O); auto.
      * unfold w1. cbn. now rewrite upd_other.
      * unfold w1. cbn. now rewrite upd_other.
      * cbn. tauto.
Qed.

Lemma touch_ok t c w :
  intable w c = false -> dones w c = 0 -> (holder w c = None \/ holder w c = Some t) ->
  exists h', touch t c w = mkW (thr w) (lock w) (pend w) (shut w) (closing w) (next w) (dones w) (intable w) h' (bad w)
             /\ h' c = Some t /\ forall c0, c0 <> c -> h' c0 = holder w c0.
Proof.
  intros Hi Hd Hh. unfold touch. rewrite Hi, Hd. cbn.
  destruct Hh as [Hh|Hh]; rewrite Hh.
  - exists (upd (holder w) c (Some t)). split; [reflexivity|]. split; [apply upd_same|intros; now apply upd_other].
  - rewrite Nat.eqb_refl. exists (holder w). destruct w; cbn in *. auto.
Qed.

(* a field write or done() on a call the thread owns; n = 0: a write, n = 1: done() *)
Lemma touch_pres strict t w O A v c h' (fin : bool) :
  ginv strict w O A -> (forall t', tvars t' (A t') w O) ->
  loc (thr w t) v = Some c -> O c = Some (t, v) ->
  h' c = Some t -> (forall c0, c0 <> c -> h' c0 = holder w c0) ->
  let a' := if fin then setv (A t) v VUnknown else A t in
  let O' := if fin then upd O c None else O in
  let w1 := mkW (thr w) (lock w) (pend w) (shut w) (closing w) (next w)
                (if fin then upd (dones w) c (Datatypes.S (dones w c)) else dones w) (intable w) h' (bad w) in
  ginv strict w1 O' (upd A t a') /\ forall t', tvars t' (upd A t a' t') w1 O'.
Proof.
  intros G TV Hloc HO Hh1 Hh2 a' O' w1.
  own_of G HO.
  assert (Hvar : forall c0 v0, O c0 = Some (t, v0) -> c0 <> c -> v0 <> v).
  { intros c0 v0 HO0 Hc ->. destruct (g_own _ _ _ _ G _ _ _ HO0) as (_ & _ & _ & L & _). congruence. }
  split.
  - constructor; cbn.
    + exact (g_bad _ _ _ _ G).
    + intros c0. destruct fin; [|exact (g_dones _ _ _ _ G c0)].
      destruct (Nat.eq_dec c0 c) as [->|Hc]; [rewrite upd_same; lia|rewrite upd_other by exact Hc; exact (g_dones _ _ _ _ G c0)].
    + intros k c0 Hl. destruct (g_tab _ _ _ _ G k c0 Hl) as (T1 & T2 & T3 & T4 & T5).
      assert (Hc : c0 <> c) by (intros ->; congruence).
      rewrite Hh2 by exact Hc. unfold O'. destruct fin; rewrite ?upd_other by exact Hc; repeat split; auto.
    + exact (g_inj _ _ _ _ G).
    + intros c0 t0 v0 HO0.
      assert (Hc0 : O c0 = Some (t0, v0) /\ (fin = true -> c0 <> c)).
      { unfold O' in HO0. destruct fin; [|split; [exact HO0|discriminate]].
        destruct (Nat.eq_dec c0 c) as [->|Hc]; [rewrite upd_same in HO0; discriminate|].
        rewrite upd_other in HO0 by exact Hc. auto. }
      destruct Hc0 as (HO1 & Hc). destruct (g_own _ _ _ _ G _ _ _ HO1) as (Q1 & Q2 & Q3 & Q4 & Q5 & Q6).
      repeat split; auto.
      * destruct fin; [rewrite upd_other by auto|]; exact Q2.
      * destruct (Nat.eq_dec t0 t) as [->|Hne]; [rewrite upd_same|now rewrite upd_other].
        unfold a'. destruct fin; [|exact Q5]. rewrite get_setv_other; [exact Q5|]. eapply Hvar; eauto.
      * destruct (Nat.eq_dec c0 c) as [->|Hcc].
        -- rewrite Hh1. right. f_equal. congruence.
        -- rewrite Hh2 by exact Hcc. exact Q6.
    + intros c0 Hle. destruct (g_fresh _ _ _ _ G c0 Hle) as (F1 & F2 & F3).
      assert (Hc : c0 <> c) by lia.
      unfold O'. destruct fin; rewrite ?upd_other by exact Hc; auto.
    + exact (g_j1 _ _ _ _ G).
    + intros Hs t0 Hl. destruct (g_j2 _ _ _ _ G Hs t0 Hl) as (J1 & J2 & J3).
      destruct (Nat.eq_dec t0 t) as [->|Hne]; [rewrite upd_same|now rewrite upd_other].
      unfold a'. destruct fin; cbn; auto.
  - assert (Hext : forall t0 c0 v0, O c0 = Some (t0, v0) -> (t0, v0) <> (t, v) -> O' c0 = Some (t0, v0)).
    { intros t0 c0 v0 HO0 Hne. unfold O'. destruct fin; [|exact HO0].
      rewrite upd_other; [exact HO0|]. intros ->. congruence. }
    intros t'. destruct (Nat.eq_dec t' t) as [->|Hne].
    + rewrite upd_same. split.
      * unfold a'. destruct fin; exact (proj1 (TV t)).
      * intros v0. unfold vrel. destruct (Nat.eq_dec v0 v) as [->|Hv].
        -- unfold a'. destruct fin.
           ++ rewrite get_setv_same. exact I.
           ++ exact (proj2 (TV t) v).
        -- assert (Hg : get a' v0 = get (A t) v0 /\ held a' = held (A t)).
           { unfold a'. destruct fin; [|auto]. rewrite get_setv_other by exact Hv. auto. }
           destruct Hg as [-> ->].
           apply srel_own_ext with (O := O); [|exact (proj2 (TV t) v0)].
           intros c0 HO0. apply Hext; [exact HO0|congruence].
    + rewrite upd_other by exact Hne. apply tvars_frame with (w := w) (O := O); auto.
      * cbn. tauto.
      * intros c0 v0 HO0. apply Hext; [exact HO0|congruence].
Qed.

Definition clob (w : world) (kv : nat) : call -> bool :=
  match lookup (pend w) kv with Some c' => upd (intable w) c' false | None => intable w end.

Lemma clob_false w kv c : intable w c = false -> clob w kv c = false.
Proof.
  intros H. unfold clob. destruct (lookup (pend w) kv) as [c'|]; [|exact H].
  destruct (Nat.eq_dec c c') as [->|Hne]; [apply upd_same|now rewrite upd_other].
Qed.
Lemma clob_other strict w O A kv k0 c0 :
  ginv strict w O A -> lookup (pend w) k0 = Some c0 -> k0 <> kv -> clob w kv c0 = intable w c0.
Proof.
  intros G Hl Hne. unfold clob. destruct (lookup (pend w) kv) as [c'|] eqn:E; [|reflexivity].
  rewrite upd_other; [reflexivity|]. intros ->. apply Hne. eapply g_inj; eauto.
Qed.
Lemma clob_same w kv c' : lookup (pend w) kv = Some c' -> clob w kv c' = false.
Proof. intros H. unfold clob. rewrite H. apply upd_same. Qed.

Lemma reg_pres strict t w O A k v c :
  ginv strict w O A -> (forall t', tvars t' (A t') w O) ->
  held (A t) = true -> (negb strict || isopen (A t)) = true ->
  loc (thr w t) v = Some c -> O c = Some (t, v) ->
  let a := A t in
  let a' := mkA true (isopen a) (flagset a) false (set_ (unpeek_all (vars a)) v VUnknown) (k :: regs a) (mine a) in
  let kv := env (thr w t) k in
  let w1 := mkW (thr w) (lock w) ((kv, c) :: remove (pend w) kv) (shut w) (closing w) (next w) (dones w)
                (upd (clob w kv) c true) (upd (holder w) c None) (bad w) in
  ginv strict w1 (upd O c None) (upd A t a') /\ forall t', tvars t' (upd A t a' t') w1 (upd O c None).
Proof.
  intros G TV Hheld Hcond Hloc HO a a' kv w1.
  assert (Hlock : lock w = Some t) by (apply (proj1 (TV t)); exact Hheld).
  own_of G HO.
  assert (Hnot : forall k0, lookup (pend w) k0 <> Some c).
  { intros k0 Hl. destruct (g_tab _ _ _ _ G k0 c Hl) as (_ & _ & _ & T4 & _). congruence. }
  assert (Hvar : forall c0 v0, O c0 = Some (t, v0) -> c0 <> c -> v0 <> v).
  { intros c0 v0 HO0 Hc ->. destruct (g_own _ _ _ _ G _ _ _ HO0) as (_ & _ & _ & L & _). congruence. }
  assert (Hlk : forall k0, lookup (pend w1) k0 = if Nat.eqb kv k0 then Some c else lookup (pend w) k0).
  { intros k0. unfold w1. cbn. destruct (Nat.eqb_spec kv k0) as [->|Hk]; [reflexivity|].
    apply lookup_remove_other. congruence. }
  split.
  - constructor.
    + exact (g_bad _ _ _ _ G).
    + exact (g_dones _ _ _ _ G).
    + intros k0 c0. rewrite Hlk. cbn [intable dones next holder w1].
      destruct (Nat.eqb_spec kv k0) as [<-|Hk]; intros Hl.
      * injection Hl as <-. rewrite !upd_same. auto.
      * destruct (g_tab _ _ _ _ G k0 c0 Hl) as (T1 & T2 & T3 & T4 & T5).
        assert (Hc : c0 <> c) by (intros ->; eapply Hnot; eauto).
        rewrite !upd_other by exact Hc. rewrite (clob_other _ _ _ _ _ _ _ G Hl) by congruence. auto.
    + intros k1 k2 c0. rewrite !Hlk.
      destruct (Nat.eqb_spec kv k1) as [<-|Hk1]; destruct (Nat.eqb_spec kv k2) as [<-|Hk2]; intros L1 L2; auto.
      * injection L1 as <-. exfalso. eapply Hnot; eauto.
      * injection L2 as <-. exfalso. eapply Hnot; eauto.
      * eapply g_inj; eauto.
    + intros c0 t0 v0 HO0. cbn [intable dones next holder thr w1].
      destruct (Nat.eq_dec c0 c) as [->|Hc]; [rewrite upd_same in HO0; discriminate|].
      rewrite upd_other in HO0 by exact Hc. rewrite !upd_other by exact Hc.
      rewrite ?(upd_other (holder w)) by exact Hc.
      destruct (g_own _ _ _ _ G _ _ _ HO0) as (Q1 & Q2 & Q3 & Q4 & Q5 & Q6).
      repeat split; auto using clob_false.
      destruct (Nat.eq_dec t0 t) as [->|Hne]; [rewrite upd_same|now rewrite upd_other].
      unfold get, a'. cbn [vars]. rewrite get_set_other by (eapply Hvar; eauto).
      rewrite get_unpeek. unfold get in Q5. unfold a. destruct (get_ (vars (A t)) v0); auto.
    + intros c0 Hle. cbn [intable dones next w1] in *. destruct (g_fresh _ _ _ _ G c0 Hle) as (F1 & F2 & F3).
      assert (Hc : c0 <> c) by lia. rewrite !upd_other by exact Hc. auto using clob_false.
    + cbn. rewrite Hlock. discriminate.
    + intros Hs t0 Hl. cbn [lock w1] in Hl. rewrite Hlock in Hl. injection Hl as <-. rewrite upd_same.
      cbn [isopen isempty flagset a' shut closing pend w1].
      destruct (g_j2 _ _ _ _ G Hs t Hlock) as (J1 & J2 & J3).
      rewrite Hs in Hcond. cbn in Hcond. repeat split; auto; try discriminate.
      intros _ Hfl. rewrite (J1 Hcond) in Hfl. discriminate.
  - intros t'. destruct (Nat.eq_dec t' t) as [->|Hne].
    + rewrite upd_same. split; [cbn; rewrite Hlock; tauto|].
      intros v0. unfold vrel, get. cbn [held vars a']. destruct (Nat.eq_dec v0 v) as [->|Hv].
      * rewrite get_set_same. exact I.
      * rewrite get_set_other by exact Hv. rewrite get_unpeek.
        generalize (proj2 (TV t) v0). unfold vrel, get, srel. cbn [thr w1]. unfold a.
        destruct (get_ (vars (A t)) v0); auto.
        -- intros (c0 & L & HO0). exists c0. split; [exact L|]. rewrite upd_other; [exact HO0|]. intros ->. congruence.
        -- intros [L|(c0 & L & HO0)]; [now left|right]. exists c0. split; [exact L|].
           rewrite upd_other; [exact HO0|]. intros ->. congruence.
        -- intros (c0 & L & HO0). exists c0. split; [exact L|]. rewrite upd_other; [exact HO0|]. intros ->. congruence.
    + rewrite upd_other by exact Hne. apply tvars_frame with (w := w) (O := O); auto.
      * cbn. tauto.
      * intros Hl. rewrite Hlock in Hl. injection Hl. congruence.
      * intros c0 v0 HO0. rewrite upd_other; [exact HO0|]. intros ->. congruence.
Qed.

Lemma del_pres strict t w O A k v same nn :
  ginv strict w O A -> (forall t', tvars t' (A t') w O) ->
  held (A t) = true -> get (A t) v = VPeeked k same nn ->
  let a := A t in
  let a' := mkA true (isopen a) (flagset a) (isempty a) (set_ (unpeek_all (vars a)) v (if nn then VOwned else VMaybe))
                (regs a) (mine a) in
  let kv := env (thr w t) k in
  let w1 := mkW (thr w) (lock w) (remove (pend w) kv) (shut w) (closing w) (next w) (dones w)
                (clob w kv) (holder w) (bad w) in
  let O' := match lookup (pend w) kv with Some c' => upd O c' (Some (t, v)) | None => O end in
  ginv strict w1 O' (upd A t a') /\ forall t', tvars t' (upd A t a' t') w1 O'.
Proof.
  intros G TV Hheld Hget a a' kv w1 O'.
  assert (Hlock : lock w = Some t) by (apply (proj1 (TV t)); exact Hheld).
  assert (Hlocv : loc (thr w t) v = lookup (pend w) kv /\ (nn = true -> loc (thr w t) v <> None)).
  { generalize (proj2 (TV t) v). unfold vrel. rewrite Hget. cbn. tauto. }
  destruct Hlocv as (Hlocv & Hnn).
  assert (Hext : forall c0 p, O c0 = Some p -> O' c0 = Some p).
  { intros c0 p H. unfold O'. destruct (lookup (pend w) kv) as [c'|] eqn:E; [|exact H].
    rewrite upd_other; [exact H|]. intros ->. destruct (g_tab _ _ _ _ G _ _ E) as (_ & _ & _ & T4 & _). congruence. }
  assert (Hnew : forall c0 p, O' c0 = Some p -> O c0 = Some p \/ (lookup (pend w) kv = Some c0 /\ p = (t, v))).
  { intros c0 p. unfold O'. destruct (lookup (pend w) kv) as [c'|] eqn:E; [|auto].
    destruct (Nat.eq_dec c0 c') as [->|Hc]; [rewrite upd_same; intros H; injection H as <-; auto|].
    rewrite upd_other by exact Hc. auto. }
  assert (Hlk : forall k0, lookup (pend w1) k0 = if Nat.eqb kv k0 then None else lookup (pend w) k0).
  { intros k0. unfold w1. cbn. destruct (Nat.eqb_spec kv k0) as [->|Hk]; [apply lookup_remove_same|].
    apply lookup_remove_other. congruence. }
  assert (Hfree : forall c0 v0, O c0 = Some (t, v0) -> v0 <> v).
  { intros c0 v0 HO0 ->. destruct (g_own _ _ _ _ G _ _ _ HO0) as (_ & _ & _ & _ & Q5 & _).
    rewrite Hget in Q5. discriminate. }
  split.
  - constructor.
    + exact (g_bad _ _ _ _ G).
    + exact (g_dones _ _ _ _ G).
    + intros k0 c0. rewrite Hlk. cbn [intable dones next holder w1].
      destruct (Nat.eqb_spec kv k0) as [<-|Hk]; [discriminate|]. intros Hl.
      destruct (g_tab _ _ _ _ G k0 c0 Hl) as (T1 & T2 & T3 & T4 & T5).
      rewrite (clob_other _ _ _ _ _ _ _ G Hl) by congruence. repeat split; auto.
      unfold O'. destruct (lookup (pend w) kv) as [c'|] eqn:E; [|exact T4].
      rewrite upd_other; [exact T4|]. intros ->. apply Hk. eapply g_inj; eauto.
    + intros k1 k2 c0. rewrite !Hlk.
      destruct (Nat.eqb_spec kv k1); [discriminate|]. destruct (Nat.eqb_spec kv k2); [discriminate|].
      apply (g_inj _ _ _ _ G).
    + intros c0 t0 v0 HO0. cbn [intable dones next holder thr w1].
      destruct (Hnew _ _ HO0) as [HO1|(E & Hp)].
      * destruct (g_own _ _ _ _ G _ _ _ HO1) as (Q1 & Q2 & Q3 & Q4 & Q5 & Q6).
        repeat split; auto using clob_false.
        destruct (Nat.eq_dec t0 t) as [->|Hne]; [rewrite upd_same|now rewrite upd_other].
        unfold get, a'. cbn [vars]. rewrite get_set_other by (eapply Hfree; eauto).
        rewrite get_unpeek. unfold get in Q5. unfold a. destruct (get_ (vars (A t)) v0); auto.
      * injection Hp as -> ->. destruct (g_tab _ _ _ _ G _ _ E) as (T1 & T2 & T3 & T4 & T5).
        rewrite upd_same. repeat split; auto.
        -- now apply clob_same.
        -- rewrite Hlocv. exact E.
        -- unfold get, a'. cbn [vars]. rewrite get_set_same. now destruct nn.
    + intros c0 Hle. cbn [intable dones next w1] in *. destruct (g_fresh _ _ _ _ G c0 Hle) as (F1 & F2 & F3).
      repeat split; auto using clob_false.
      unfold O'. destruct (lookup (pend w) kv) as [c'|] eqn:E; [|exact F1].
      rewrite upd_other; [exact F1|]. intros ->. destruct (g_tab _ _ _ _ G _ _ E) as (_ & _ & T3 & _). lia.
    + cbn. rewrite Hlock. discriminate.
    + intros Hs t0 Hl. cbn [lock w1] in Hl. rewrite Hlock in Hl. injection Hl as <-. rewrite upd_same.
      cbn [isopen isempty flagset a' shut closing pend w1].
      destruct (g_j2 _ _ _ _ G Hs t Hlock) as (J1 & J2 & J3).
      repeat split; auto.
      * intros He. rewrite (J2 He). reflexivity.
      * intros Hf Hfl. rewrite (J3 Hf Hfl). reflexivity.
  - intros t'. destruct (Nat.eq_dec t' t) as [->|Hne].
    + rewrite upd_same. split; [cbn; rewrite Hlock; tauto|].
      intros v0. unfold vrel, get. cbn [held vars a']. destruct (Nat.eq_dec v0 v) as [->|Hv].
      * rewrite get_set_same. rewrite Hlocv in Hnn. unfold O'.
        destruct nn; cbn [srel thr w1]; rewrite Hlocv.
        -- destruct (lookup (pend w) kv) as [c'|]; [|exfalso; now apply Hnn]. exists c'. now rewrite upd_same.
        -- destruct (lookup (pend w) kv) as [c'|]; [right|now left]. exists c'. now rewrite upd_same.
      * rewrite get_set_other by exact Hv. rewrite get_unpeek.
        generalize (proj2 (TV t) v0). unfold vrel, get, srel. cbn [thr w1]. unfold a.
        destruct (get_ (vars (A t)) v0); auto.
        -- intros (c0 & L & HO0). exists c0. auto.
        -- intros [L|(c0 & L & HO0)]; [now left|right]. exists c0. auto.
        -- intros (c0 & L & HO0). exists c0. auto.
    + rewrite upd_other by exact Hne. apply tvars_frame with (w := w) (O := O); auto.
      * cbn. tauto.
      * intros Hl. rewrite Hlock in Hl. injection Hl. congruence.
Qed.

Ltac inv_some := repeat match goal with
  | H : Some _ = Some _ |- _ => injection H as H; try subst
  | H : None = Some _ |- _ => discriminate H
  end.

Lemma exec_pres strict t x o w w1 O A a' :
  ginv strict w O A -> (forall t', tvars t' (A t') w O) ->
  astep strict (A t) o = Some a' -> exec t x o w = Some w1 ->
  exists O', ginv strict w1 O' (upd A t a') /\ forall t', tvars t' (upd A t a' t') w1 O'.
Proof.
  intros G TV Ha He.
  pose proof (proj1 (TV t)) as Hh. pose proof (proj2 (TV t)) as Hv.
  destruct o; cbn in Ha, He.
  - (* PLock *)
    destruct (held (A t)) eqn:Hheld; [discriminate|]. destruct (lock w) eqn:Hl; [discriminate|]. inv_some.
    exists O.  now apply lock_pres.
  - (* PUnlock *)
    destruct (held (A t)) eqn:Hheld; cbn in Ha; [|discriminate].
    destruct (negb strict || implb (flagset (A t)) (isempty (A t))) eqn:Hc; [|discriminate].
    rewrite (proj1 Hh eq_refl) in He. rewrite Nat.eqb_refl in He. inv_some.
    exists O.  now apply unlock_pres.
  - (* PNew *)
    destruct (free (A t) v) eqn:Hf; [|discriminate]. inv_some.
    eexists. exact (new_pres strict t w O A v G TV Hf).
  - (* PMine *)
    destruct (free (A t) v) eqn:Hf; [|discriminate]. inv_some.
    exists O.  apply assign_pres with (s := VUnknown); auto.
  - (* PRecv *)
    destruct (free (A t) v) eqn:Hf; [|discriminate]. inv_some.
    exists O.  apply assign_pres with (s := VUnknown); auto.
  - (* PReg *)
    destruct (get (A t) v) eqn:Hg; try discriminate.
    destruct (held (A t)) eqn:Hheld; cbn in Ha; [|discriminate].
    destruct (negb strict || isopen (A t)) eqn:Hc; [|discriminate].
    generalize (Hv v). unfold vrel. rewrite Hg. cbn. intros (c & Hl & HO). rewrite Hl in He. inv_some.
    eexists. exact (reg_pres strict t w O A k v c G TV Hheld Hc Hl HO).
  - (* PPeek *)
    destruct (held (A t)) eqn:Hheld; cbn in Ha; [|discriminate].
    destruct (free (A t) v) eqn:Hf; [|discriminate]. inv_some.
    exists O.  apply assign_pres with (s := VPeeked k false false); auto. repeat split; auto. discriminate.
  - (* PDel *)
    destruct (held (A t)) eqn:Hheld; [|discriminate].
    destruct (find _ (vars (A t))) as [[v s0]|] eqn:Hf; [|discriminate].
    destruct (get (A t) v) eqn:Hg; try discriminate.
    apply find_some in Hf. destruct Hf as (_ & Hp). cbn in Hp. rewrite Hg in Hp. cbn in Hp.
    apply Nat.eqb_eq in Hp. subst k0.
    match type of Ha with (if ?c then _ else _) = _ => destruct c; [|discriminate] end. inv_some.
    eexists. exact (del_pres strict t w O A k v same nn G TV Hheld Hg).
  - (* PNil *)
    destruct (free (A t) v) eqn:Hf; [|discriminate]. inv_some.
    exists O.  apply assign_pres with (s := VNil); auto.
  - (* PIsNil *)
    destruct (loc (thr w t) v) eqn:Hl; [discriminate|]. inv_some.
    assert (a' = setv (A t) v VNil).
    { destruct (get (A t) v) as [| |? ? []| | |]; inv_some; auto; discriminate. }
    subst a'.
    exists O. apply var_pres with (w := w1) (v := v) (s := VNil); auto using shared_eq_refl.
    intros c HO. own_of G HO. congruence.
  - (* PNonNil *)
    destruct (loc (thr w t) v) as [c|] eqn:Hl; [|discriminate]. inv_some.
    exists O. destruct (get (A t) v) eqn:Hg; inv_some; try (now apply noop_pres).
    + apply var_pres with (w := w1) (v := v) (s := VPeeked k same true); auto using shared_eq_refl.
      * generalize (Hv v). unfold vrel. rewrite Hg. cbn. intros (P1 & P2 & P3). repeat split; auto. congruence.
      * intros c0 HO. own_of G HO. rewrite Hg in *. discriminate.
    + apply var_pres with (w := w1) (v := v) (s := VOwned); auto using shared_eq_refl.
      * generalize (Hv v). unfold vrel. rewrite Hg. cbn. intros [Hn|Hex]; [congruence|exact Hex].
      * intros c0 HO. own_of G HO. auto.
  - (* PSame *)
    destruct (ocall_eqb (loc (thr w t) v) (loc (thr w t) w0)) eqn:Hq; [|discriminate]. inv_some.
    exists O.
    destruct (get (A t) v) eqn:Hg.
    1,2,4,5,6: destruct (get (A t) w0) eqn:Hg0; try (inv_some; now apply noop_pres).
    1,2,3,4,5: destruct (is_mine (A t) v); inv_some; try (now apply noop_pres);
       (apply var_pres with (w := w1) (v := w0) (s := VPeeked k true nn); auto using shared_eq_refl;
        [generalize (Hv w0); unfold vrel; rewrite Hg0; auto
        |intros c HO; own_of G HO; rewrite Hg0 in *; discriminate]).
    destruct (is_mine (A t) w0); inv_some; try (now apply noop_pres).
    apply var_pres with (w := w1) (v := v) (s := VPeeked k true nn); auto using shared_eq_refl.
    + generalize (Hv v). unfold vrel. rewrite Hg. auto.
    + intros c HO. own_of G HO. rewrite Hg in *. discriminate.
  - (* PDiff *)
    destruct (ocall_eqb (loc (thr w t) v) (loc (thr w t) w0)); [discriminate|]. inv_some.
    exists O. now apply noop_pres.
  - (* PWrite *)
    assert (Hown : exists c, loc (thr w t) v = Some c /\ O c = Some (t, v)).
    { generalize (Hv v). unfold vrel. destruct (get (A t) v); try discriminate; cbn; auto. }
    destruct Hown as (c & Hl & HO). rewrite Hl in He.
    assert (a' = A t) by (destruct (get (A t) v); inv_some; auto; discriminate). subst a'.
    own_of G HO. destruct (touch_ok t c w H1 H2 H6) as (h' & Ht & Hh1 & Hh2).
    rewrite Ht in He. inv_some. exists O.
    exact (touch_pres strict t w O A v c h' false G TV Hl HO Hh1 Hh2).
  - (* PDone *)
    assert (Hown : exists c, loc (thr w t) v = Some c /\ O c = Some (t, v)).
    { generalize (Hv v). unfold vrel. destruct (get (A t) v); try discriminate; cbn; auto. }
    destruct Hown as (c & Hl & HO). rewrite Hl in He.
    assert (a' = setv (A t) v VUnknown) by (destruct (get (A t) v); inv_some; auto; discriminate). subst a'.
    own_of G HO. destruct (touch_ok t c w H1 H2 H6) as (h' & Ht & Hh1 & Hh2).
    rewrite Ht in He. cbn in He. inv_some. eexists.
    exact (touch_pres strict t w O A v c h' true G TV Hl HO Hh1 Hh2).
  - (* PEscape *) discriminate.
  - (* POpen *)
    destruct (held (A t)) eqn:Hheld; cbn in Ha; [|discriminate].
    destruct (flagset (A t)) eqn:Hfl; cbn in Ha; [discriminate|].
    destruct (shut w || closing w) eqn:Hsc; [discriminate|]. inv_some.
    exists O.  apply local_pres with (w := w1); auto using shared_eq_refl.
    + intros v. generalize (Hv v). unfold vrel, get. cbn. now rewrite Hheld.
    + intros c v HO. own_of G HO. auto.
  - (* PShut *)
    destruct (shut w || closing w); [|discriminate]. inv_some. exists O. now apply noop_pres.
  - (* PSetShutdown *)
    destruct (held (A t)) eqn:Hheld; [|discriminate]. inv_some.
    exists O.  now apply flag_pres.
  - (* PSetClosing *)
    destruct (held (A t)) eqn:Hheld; [|discriminate]. inv_some.
    exists O.  now apply flag_pres.
  - (* PSeqRead *)
    inv_some. exists O. apply local_pres with (w := w); auto.
    + apply shared_eq_set_thr.
    + intros t' Hne. unfold set_thr. cbn. now rewrite upd_other.
    + intros v0. generalize (Hv v0). unfold vrel, get, set_thr, srel. cbn. rewrite upd_same. cbn. rewrite get_unpeek.
      destruct (get_ (vars (A t)) v0); auto.
    + intros c v0 HO. own_of G HO. unfold set_thr, get. cbn. rewrite upd_same. cbn. rewrite get_unpeek.
      unfold get in H5. split; [exact H4|]. destruct (get_ (vars (A t)) v0); auto.
  - (* PSeqInc *)
    inv_some. exists O. now apply noop_pres.
  - (* PNext *)
    destruct (held (A t)) eqn:Hheld; cbn in Ha; [|discriminate].
    destruct (noleak (A t)) eqn:Hnl; [|discriminate].
    destruct (lookup (pend w) x) as [c|] eqn:Hl; [|discriminate]. inv_some.
    exists O.  apply local_pres with (w := w); auto.
    + apply shared_eq_set_thr.
    + intros t' Hne. unfold set_thr. cbn. now rewrite upd_other.
    + discriminate.
    + intros v0. unfold vrel, get, set_thr. cbn. rewrite upd_same. cbn.
      destruct (Nat.eqb_spec v v0) as [->|Hne]; cbn; [|exact I].
      rewrite !upd_same. repeat split; auto. discriminate.
    + intros c0 v0 HO. own_of G HO. rewrite noleak_get in H5 by exact Hnl. discriminate.
  - (* PEnd *)
    destruct (held (A t)) eqn:Hheld; cbn in Ha; [|discriminate].
    destruct (noleak (A t)) eqn:Hnl; [|discriminate].
    destruct (pend w) eqn:Hp; [|discriminate]. inv_some.
    exists O.  apply local_pres with (w := w1); auto using shared_eq_refl.
    + intros v0. unfold vrel, get. cbn. exact I.
    + intros c0 v0 HO. own_of G HO. rewrite noleak_get in H5 by exact Hnl. discriminate.
Qed.

Lemma touch_thr t c w : thr (touch t c w) = thr w.
Proof.
  unfold touch. destruct (intable w c || (0 <? dones w c)); [reflexivity|].
  destruct (holder w c) as [t'|]; [|reflexivity]. destruct (Nat.eqb t' t); reflexivity.
Qed.

Lemma exec_pcs t x o w w1 : exec t x o w = Some w1 ->
  forall t', pc (thr w1 t') = pc (thr w t') /\ todo (thr w1 t') = todo (thr w t').
Proof.
  intros He t'.
  assert (Hupd : forall th, pc th = pc (thr w t) -> todo th = todo (thr w t) ->
                 pc (upd (thr w) t th t') = pc (thr w t') /\ todo (upd (thr w) t th t') = todo (thr w t')).
  { intros th H1 H2. unfold upd. destruct (Nat.eqb_spec t' t) as [->|]; auto. }
  destruct o; cbn in He;
  repeat match type of He with
  | match ?e with _ => _ end = _ => destruct e eqn:?; try discriminate
  | (if ?e then _ else _) = _ => destruct e eqn:?; try discriminate
  end; inv_some; cbn; rewrite ?touch_thr; auto.
Qed.

Lemma ginv_set_pc strict w O A t r : ginv strict w O A -> ginv strict (set_pc w t r) O A.
Proof.
  intros G. constructor; cbn; try apply G.
  intros c t0 v HO. own_of G HO. repeat split; auto.
  unfold upd. destruct (Nat.eqb_spec t0 t) as [->|]; auto.
Qed.

Lemma tvars_set_pc t' a w O t r : tvars t' a w O -> tvars t' a (set_pc w t r) O.
Proof.
  intros [H1 H2]. split; [exact H1|]. intros v. specialize (H2 v). unfold vrel, srel in *. cbn.
  unfold upd. destruct (Nat.eqb_spec t' t) as [->|]; auto.
Qed.

Lemma trel_split strict t a w O :
  trel strict t a w O <-> tvars t a w O /\ check strict a (pc (thr w t)) = true
                          /\ Forall (fun ep => check strict ainit (snd ep) = true) (todo (thr w t)).
Proof.
  split.
  - intros [H1 H2 H3 H4]. unfold tvars. tauto.
  - intros ((H1 & H2) & H3 & H4). constructor; auto.
Qed.

Lemma get_ainit v : get ainit v = VUnknown.
Proof. reflexivity. Qed.

(* a branch the discipline calls infeasible cannot be taken *)
Lemma infeasible_blocked t a w O x o : tvars t a w O -> infeasible a o = true -> exec t x o w = None.
Proof.
  intros (_ & Hv) Hi. destruct o; cbn in Hi; try discriminate; cbn; generalize (Hv v); unfold vrel, srel.
  - destruct (get a v) as [| |k s []| | |]; try discriminate.
    + intros (c & -> & _). reflexivity.
    + intros (_ & _ & Hn). destruct (loc (thr w t) v); [reflexivity|]. exfalso. now apply Hn.
    + intros (c & -> & _). reflexivity.
  - destruct (get a v); try discriminate. intros ->. reflexivity.
Qed.

Lemma step_pres strict t x w w' : Inv strict w -> step t x w = Some w' -> Inv strict w'.
Proof.
  intros (O & A & G & TR) Hs. unfold step in Hs.
  assert (TV : forall t', tvars t' (A t') w O) by (intros t'; apply (proj1 (trel_split _ _ _ _ _) (TR t'))).
  destruct (proj1 (trel_split _ _ _ _ _) (TR t)) as (_ & Hck & Htodo).
  destruct (pc (thr w t)) as [|o r] eqn:Hpc.
  - (* the next path begins *)
    destruct (todo (thr w t)) as [|[e p] more] eqn:Htd; [discriminate|]. inv_some.
    cbn in Hck. unfold final_ok in Hck. apply andb_true_iff in Hck. destruct Hck as (Hnh & Hnl).
    apply negb_true_iff in Hnh.
    assert (Hnolock : lock w <> Some t).
    { intros Hl. apply (proj1 (TV t)) in Hl. congruence. }
    exists O, (upd A t ainit). split.
    + constructor; cbn; try apply G.
      * intros c t0 v HO. own_of G HO. repeat split; auto.
        -- unfold upd. destruct (Nat.eqb_spec t0 t) as [->|]; auto.
        -- destruct (Nat.eq_dec t0 t) as [->|Hne]; [|now rewrite upd_other].
           rewrite noleak_get in H5 by exact Hnl. discriminate.
      * intros Hst t0 Hl. destruct (Nat.eq_dec t0 t) as [->|Hne]; [contradiction|].
        rewrite upd_other by exact Hne. now apply (g_j2 _ _ _ _ G).
    + intros t'. apply trel_split. destruct (Nat.eq_dec t' t) as [->|Hne].
      * rewrite upd_same. unfold set_thr. cbn. rewrite upd_same. cbn.
        inversion Htodo as [|? ? Hp Hmore]; subst. repeat split; auto.
        -- discriminate.
      * rewrite upd_other by exact Hne. destruct (proj1 (trel_split _ _ _ _ _) (TR t')) as (T1 & T2 & T3).
        unfold set_thr. cbn. rewrite upd_other by exact Hne. split; [|split; auto].
        apply tvars_frame with (w := w) (O := O); auto; cbn; try rewrite upd_other by exact Hne; tauto.
  - (* the next operation of the running path *)
    destruct (exec t x o w) as [w1|] eqn:He; [|discriminate]. inv_some.
    cbn in Hck. destruct (astep strict (A t) o) as [a'|] eqn:Ha;
      [|rewrite (infeasible_blocked _ _ _ _ x _ (TV t) Hck) in He; discriminate].
    destruct (exec_pres _ _ _ _ _ _ _ _ _ G TV Ha He) as (O' & G' & TV').
    pose proof (exec_pcs _ _ _ _ _ He) as Hpcs.
    exists O', (upd A t a'). split; [now apply ginv_set_pc|].
    intros t'. apply trel_split. split; [apply tvars_set_pc; apply TV'|].
    destruct (Nat.eq_dec t' t) as [->|Hne].
    + rewrite upd_same. unfold set_pc, set_thr. cbn. rewrite upd_same. cbn.
      split; [exact Hck|]. rewrite (proj2 (Hpcs t)). exact Htodo.
    + rewrite upd_other by exact Hne. unfold set_pc, set_thr. cbn. rewrite upd_other by exact Hne.
      destruct (proj1 (trel_split _ _ _ _ _) (TR t')) as (_ & T2 & T3).
      rewrite (proj1 (Hpcs t')), (proj2 (Hpcs t')). auto.
Qed.

Lemma run_pres strict sched w : Inv strict w -> Inv strict (run sched w).
Proof.
  revert w. induction sched as [|[t x] r IH]; intros w HI; cbn; [exact HI|].
  apply IH. destruct (step t x w) as [w'|] eqn:Hs; [eapply step_pres; eauto|exact HI].
Qed.

Lemma start_inv strict progs :
  (forall t, Forall (fun ep => check strict ainit (snd ep) = true) (progs t)) -> Inv strict (start progs).
Proof.
  intros Hp. exists (fun _ => None), (fun _ => ainit). split.
  - constructor; cbn; auto; try discriminate.
  - intros t. constructor; cbn; auto.
    split; discriminate.
Qed.

Lemma inv_safe strict w : Inv strict w -> safe w.
Proof. intros (O & A & G & _). split; [apply G|apply G]. Qed.
Lemma inv_none_stranded w : Inv true w -> none_stranded w.
Proof. intros (O & A & G & _) Hl Hf. now apply (g_j1 _ _ _ _ G). Qed.

(* ---------- the theorems ---------- *)

(* threads whose paths obey the discipline, under any schedule: nothing bad happens and no call is completed twice *)
Theorem disciplined_threads_are_safe strict progs sched :
  (forall t, Forall (fun ep => check strict ainit (snd ep) = true) (progs t)) ->
  safe (run sched (start progs)).
Proof. intros Hp. eapply inv_safe. apply run_pres. now apply start_inv. Qed.

(* and if the paths are strict, a client that has shut down holds no call whenever its mutex is free *)
Theorem strict_threads_strand_no_call progs sched :
  (forall t, Forall (fun ep => check true ainit (snd ep) = true) (progs t)) ->
  none_stranded (run sched (start progs)).
Proof. intros Hp. apply inv_none_stranded. apply run_pres. now apply start_inv. Qed.

(* ---------- loops: what the translator emits against what a thread runs ---------- *)

Lemma check_app strict l1 : forall a a1 l2,
  brun strict a l1 = Some (Some a1) -> check strict a (l1 ++ l2) = check strict a1 l2.
Proof.
  induction l1 as [|o r IH]; intros a a1 l2 H; cbn in *.
  - now inv_some.
  - destruct (astep strict a o) as [a'|]; [now apply IH|].
    destruct (infeasible a o); discriminate.
Qed.
Lemma check_app_dead strict l1 : forall a l2,
  brun strict a l1 = Some None -> check strict a (l1 ++ l2) = true.
Proof.
  induction l1 as [|o r IH]; intros a l2 H; cbn in *.
  - discriminate.
  - destruct (astep strict a o) as [a'|]; [now apply IH|].
    destruct (infeasible a o); [reflexivity|discriminate].
Qed.

Lemma keys_eqb_eq a : forall b, keys_eqb a b = true -> a = b.
Proof.
  induction a as [|x a IH]; destruct b as [|y b]; cbn; try discriminate; auto.
  intros H. apply andb_true_iff in H. destruct H as (H1 & H2). apply Nat.eqb_eq in H1. subst. f_equal. auto.
Qed.

Definition frame_eq (a b : ast) : Prop :=
  isopen a = isopen b /\ flagset a = flagset b /\ regs a = regs b /\ mine a = mine b.

Lemma ast_frame_eqb_eq a b : ast_frame_eqb a b = true -> frame_eq a b.
Proof.
  unfold ast_frame_eqb, frame_eq. intros H.
  apply andb_true_iff in H. destruct H as (H & H4). apply andb_true_iff in H. destruct H as (H & H3).
  apply andb_true_iff in H. destruct H as (H1 & H2).
  apply Bool.eqb_prop in H1. apply Bool.eqb_prop in H2. apply keys_eqb_eq in H3.
  repeat split; auto.
  destruct (mine a), (mine b); try discriminate; auto. apply Nat.eqb_eq in H4. now subst.
Qed.

Lemma frame_after a b v k : frame_eq a b -> after_next a v k = after_next b v k /\ after_end a = after_end b.
Proof. intros (H1 & H2 & H3 & H4). unfold after_next, after_end. rewrite H1, H2, H3, H4. auto. Qed.

Lemma iters_check strict a v k bodies its fr :
  (forall b, In b bodies -> body_ok strict a v k b = true) ->
  iters v k bodies its ->
  check strict (after_end a) fr = true ->
  forall a0, frame_eq a a0 -> held a0 = true -> noleak a0 = true ->
  check strict a0 (its ++ fr) = true.
Proof.
  intros Hb Hi Hfr. induction Hi as [|b more Hin Hi IH]; intros a0 Hf Hh Hn.
  - cbn. rewrite Hh, Hn. cbn. now rewrite <- (proj2 (frame_after _ _ v k Hf)).
  - cbn. rewrite Hh, Hn. cbn. rewrite <- (proj1 (frame_after _ _ v k Hf)).
    specialize (Hb b Hin). unfold body_ok in Hb. apply andb_true_iff in Hb. destruct Hb as (_ & Hb).
    rewrite <- app_assoc.
    destruct (brun strict (after_next a v k) b) as [[a'|]|] eqn:Hr; [| |discriminate].
    + rewrite (check_app _ _ _ _ _ Hr).
      apply andb_true_iff in Hb. destruct Hb as (Hb & _).
      apply andb_true_iff in Hb. destruct Hb as (Hb & Hfe). apply andb_true_iff in Hb. destruct Hb as (Hh' & Hn').
      apply IH; auto. now apply ast_frame_eqb_eq.
    + apply (check_app_dead _ _ _ _ Hr).
Qed.

Lemma frame_eq_refl a : frame_eq a a.
Proof. unfold frame_eq. auto. Qed.

(* a path the translator emitted and that obeys the discipline: every run of it does *)
Theorem scheck_expands strict sp : forall a fp,
  scheck strict a sp = true -> expands sp fp -> check strict a fp = true.
Proof.
  induction sp as [|s r IH]; intros a fp Hs He; inversion He; subst; cbn in *.
  - exact Hs.
  - destruct (astep strict a o) as [a'|]; [now apply IH|exact Hs].
  - apply andb_true_iff in Hs. destruct Hs as (Hs & Hr). apply andb_true_iff in Hs. destruct Hs as (Hs & Hb).
    apply andb_true_iff in Hs. destruct Hs as (Hh & Hn).
    match goal with H : iters v k bodies ?i |- check strict a (?i ++ ?f) = true =>
      apply (iters_check strict a v k bodies i f); auto using frame_eq_refl end.
    rewrite forallb_forall in Hb. exact Hb.
Qed.
