(* The pending-call table of client/client.go as the code uses it: every control-flow path of send, SendRaw, call,
   input and Close is an operation list over client.mutex, client.pending, the *Call variables of the function and
   the shutdown / closing flags (the lists themselves are regenerated from the source on every run:
   Client/PendingGen.v).  This file defines

     - the discipline one path must obey (astep / check / scheck): what the path may do with a *Call depends on how
       it got hold of it -- a call the function was handed (fresh), a call looked up in the table (peeked), a call
       looked up AND removed within one critical section (taken: owned if not nil), nothing else may be written to
       or completed;
     - what the operations do (exec / step): threads running such paths, interleaved in any order, over one table.

   Definitions only; Client/PendingProofs.v proves that threads whose paths obey the discipline never complete a call
   twice, never touch a nil call, never touch a call that sits in the table or that another thread holds, and never
   leave a call in the table of a client that has shut down. *)
From Coq Require Import List Arith Bool.
Import ListNotations.

Definition var := nat.
Definition key := nat.    (* which expression indexes client.pending (numbered per function by the translator) *)
Definition call := nat.
Definition tid := nat.

Inductive pop :=
| PLock | PUnlock
| PNew (v : var)             (* v := new(Call), or v is the *Call parameter the function was handed *)
| PMine (v : var)            (* v := client.Go(...): this function's own call, already handed on to send *)
| PRecv (v : var)            (* v := <-ch *)
| PReg (k : key) (v : var)   (* client.pending[k] = v *)
| PPeek (v : var) (k : key)  (* v = client.pending[k] *)
| PDel (k : key)             (* delete(client.pending, k) *)
| PNil (v : var)             (* v = nil *)
| PIsNil (v : var) | PNonNil (v : var)   (* the branch taken says so *)
| PSame (v w : var) | PDiff (v w : var)  (* the branch taken says v == w / v != w *)
| PWrite (v : var)           (* v.Field = ... *)
| PDone (v : var)            (* v.done() *)
| PEscape (v : var)          (* v handed to something else *)
| POpen | PShut              (* the branch taken says !(shutdown || closing) / shutdown || closing *)
| PSetShutdown | PSetClosing
| PSeqRead (k : key)         (* k := client.seq *)
| PSeqInc                    (* client.seq++ *)
| PNext (v : var) (k : key)  (* an iteration of `for k, v := range client.pending` begins *)
| PEnd.                      (* that loop is over *)

(* a path as the translator emits it: a range loop keeps its body paths *)
Inductive sop :=
| S (o : pop)
| SLoop (v : var) (k : key) (bodies : list (list pop)).

(* ---------- the discipline ---------- *)

Inductive vst :=
| VUnknown
| VFresh                          (* handed to this function; nobody else knows it *)
| VPeeked (k : key) (same nn : bool) (* = pending[k] as of this critical section; same: compared equal to the own
                                       call, or a range entry; nn: known not to be nil *)
| VMaybe                          (* removed from the table by this path: nil, or owned *)
| VOwned
| VNil.

Record ast := mkA {
  held : bool;          (* client.mutex *)
  isopen : bool;        (* !(shutdown || closing) seen in this critical section *)
  flagset : bool;       (* shutdown or closing set in this critical section *)
  isempty : bool;       (* the table is known to be empty *)
  vars : list (var * vst);
  regs : list key;      (* keys this path registered its own call under *)
  mine : option var     (* the variable that holds this function's own call *)
}.

Definition ainit : ast := mkA false false false false [] [] None.

Fixpoint get_ (l : list (var * vst)) (v : var) : vst :=
  match l with
  | [] => VUnknown
  | (w, s) :: r => if Nat.eqb w v then s else get_ r v
  end.
Definition get (a : ast) (v : var) : vst := get_ (vars a) v.

Definition set_ (l : list (var * vst)) (v : var) (s : vst) : list (var * vst) :=
  (v, s) :: filter (fun p => negb (Nat.eqb (fst p) v)) l.
Definition setv (a : ast) (v : var) (s : vst) : ast :=
  mkA (held a) (isopen a) (flagset a) (isempty a) (set_ (vars a) v s) (regs a) (mine a).

Definition ownedish (s : vst) : bool :=
  match s with VFresh | VMaybe | VOwned => true | _ => false end.
Definition free (a : ast) (v : var) : bool := negb (ownedish (get a v)).
Definition noleak (a : ast) : bool := forallb (fun p => negb (ownedish (snd p))) (vars a).

Definition unpeek_all (l : list (var * vst)) : list (var * vst) :=
  map (fun p => (fst p, match snd p with VPeeked _ _ _ => VUnknown | s => s end)) l.
Definition peeked_at (k : key) (p : var * vst) : bool :=
  match snd p with VPeeked k' _ _ => Nat.eqb k' k | _ => false end.
Definition memk (k : key) (l : list key) : bool := existsb (Nat.eqb k) l.
Definition is_mine (a : ast) (v : var) : bool :=
  match mine a with Some m => Nat.eqb m v | None => false end.

Definition after_next (a : ast) (v : var) (k : key) : ast :=
  mkA true (isopen a) (flagset a) false [(v, VPeeked k true true)] (regs a) (mine a).
Definition after_end (a : ast) : ast :=
  mkA true (isopen a) (flagset a) true [] (regs a) (mine a).

(* strict: a call is registered only after the flags were seen clear in the same critical section, and a critical
   section that sets a flag leaves the table empty (what "no call is left in the table of a client that has shut
   down" rests on) *)
Definition astep (strict : bool) (a : ast) (o : pop) : option ast :=
  match o with
  | PLock => if held a then None
             else Some (mkA true false false false (vars a) (regs a) (mine a))
  | PUnlock => if held a && (negb strict || implb (flagset a) (isempty a))
               then Some (mkA false false false false (unpeek_all (vars a)) (regs a) (mine a))
               else None
  | PNew v => if free a v
              then Some (mkA (held a) (isopen a) (flagset a) (isempty a) (set_ (vars a) v VFresh) (regs a) (Some v))
              else None
  | PMine v => if free a v
               then Some (mkA (held a) (isopen a) (flagset a) (isempty a) (set_ (vars a) v VUnknown) (regs a) (Some v))
               else None
  | PRecv v => if free a v then Some (setv a v VUnknown) else None
  | PReg k v => match get a v with
                | VFresh => if held a && (negb strict || isopen a)
                            then Some (mkA true (isopen a) (flagset a) false
                                           (set_ (unpeek_all (vars a)) v VUnknown) (k :: regs a) (mine a))
                            else None
                | _ => None
                end
  | PPeek v k => if held a && free a v then Some (setv a v (VPeeked k false false)) else None
  | PDel k => if held a then
                match find (fun p => peeked_at k (fst p, get a (fst p))) (vars a) with
                | Some (v, _) =>
                    match get a v with
                    | VPeeked _ same nn =>
                        if memk k (regs a) || same
                           || match mine a with None => true | Some _ => false end
                        then Some (mkA true (isopen a) (flagset a) (isempty a)
                                       (set_ (unpeek_all (vars a)) v (if nn then VOwned else VMaybe)) (regs a) (mine a))
                        else None
                    | _ => None
                    end
                | None => None
                end
              else None
  | PNil v => if free a v then Some (setv a v VNil) else None
  | PIsNil v => match get a v with
                | VFresh | VOwned | VPeeked _ _ true => None      (* cannot happen: see infeasible *)
                | _ => Some (setv a v VNil)
                end
  | PNonNil v => match get a v with
                 | VMaybe => Some (setv a v VOwned)
                 | VPeeked k s _ => Some (setv a v (VPeeked k s true))
                 | VNil => None                                   (* cannot happen *)
                 | _ => Some a
                 end
  | PSame v w => match get a v with
                 | VPeeked k _ nn => if is_mine a w then Some (setv a v (VPeeked k true nn)) else Some a
                 | _ => match get a w with
                        | VPeeked k _ nn => if is_mine a v then Some (setv a w (VPeeked k true nn)) else Some a
                        | _ => Some a
                        end
                 end
  | PDiff _ _ => Some a
  | PWrite v => match get a v with VFresh | VOwned => Some a | _ => None end
  | PDone v => match get a v with VFresh | VOwned => Some (setv a v VUnknown) | _ => None end
  | PEscape _ => None
  | POpen => if held a && negb (flagset a)
             then Some (mkA true true false (isempty a) (vars a) (regs a) (mine a)) else None
  | PShut => Some a
  | PSetShutdown | PSetClosing =>
      if held a then Some (mkA true false true (isempty a) (vars a) (regs a) (mine a)) else None
  | PSeqRead _ => Some (mkA (held a) (isopen a) (flagset a) (isempty a) (unpeek_all (vars a)) (regs a) (mine a))
  | PSeqInc => Some a          (* what the counter is for: Client/PendingSeq.v *)
  | PNext v k => if held a && noleak a then Some (after_next a v k) else None
  | PEnd => if held a && noleak a then Some (after_end a) else None
  end.

Definition final_ok (a : ast) : bool := negb (held a) && noleak a.

(* a branch that contradicts what the path already knows about the variable is never taken: the rest of such a path
   (an artefact of enumerating paths syntactically) obliges to nothing *)
Definition infeasible (a : ast) (o : pop) : bool :=
  match o with
  | PIsNil v => match get a v with VFresh | VOwned | VPeeked _ _ true => true | _ => false end
  | PNonNil v => match get a v with VNil => true | _ => false end
  | _ => false
  end.

Fixpoint check (strict : bool) (a : ast) (ops : list pop) : bool :=
  match ops with
  | [] => final_ok a
  | o :: r => match astep strict a o with Some a' => check strict a' r | None => infeasible a o end
  end.

(* the abstract state a straight run of operations leads to: None: the discipline is broken; Some None: the run
   takes a branch that cannot be taken *)
Fixpoint brun (strict : bool) (a : ast) (ops : list pop) : option (option ast) :=
  match ops with
  | [] => Some (Some a)
  | o :: r => match astep strict a o with
              | Some a' => brun strict a' r
              | None => if infeasible a o then Some None else None
              end
  end.

Fixpoint keys_eqb (a b : list key) : bool :=
  match a, b with
  | [], [] => true
  | x :: a', y :: b' => Nat.eqb x y && keys_eqb a' b'
  | _, _ => false
  end.
Definition ast_frame_eqb (a b : ast) : bool :=
  Bool.eqb (isopen a) (isopen b) && Bool.eqb (flagset a) (flagset b) && keys_eqb (regs a) (regs b)
  && match mine a, mine b with Some x, Some y => Nat.eqb x y | None, None => true | _, _ => false end.

(* a loop body: one iteration leads back to where it can start again (or stop), and removes the entry it visits --
   which is also what makes "the loop ends when the table is empty" the same as Go's "every entry was visited" *)
Definition body_ok (strict : bool) (a : ast) (v : var) (k : key) (b : list pop) : bool :=
  forallb (fun o => match o with PNext _ _ | PEnd | PLock | PUnlock | PSeqRead _ | PSeqInc | PReg _ _ => false | _ => true end) b
  && match brun strict (after_next a v k) b with
     | Some (Some a') => held a' && noleak a' && ast_frame_eqb a a'
                         && existsb (fun o => match o with PDel k' => Nat.eqb k' k | _ => false end) b
     | Some None => true
     | None => false
     end.

Fixpoint scheck (strict : bool) (a : ast) (ops : list sop) : bool :=
  match ops with
  | [] => final_ok a
  | S o :: r => match astep strict a o with Some a' => scheck strict a' r | None => infeasible a o end
  | SLoop v k bodies :: r =>
      held a && noleak a && forallb (body_ok strict a v k) bodies && scheck strict (after_end a) r
  end.

(* what a thread may actually run for a path: each loop is any number of iterations, each through one of its
   bodies, then the end of the loop *)
Inductive iters (v : var) (k : key) (bodies : list (list pop)) : list pop -> Prop :=
| it_nil : iters v k bodies [PEnd]
| it_cons b more : In b bodies -> iters v k bodies more -> iters v k bodies (PNext v k :: b ++ more).

Inductive expands : list sop -> list pop -> Prop :=
| ex_nil : expands [] []
| ex_op o r fr : expands r fr -> expands (S o :: r) (o :: fr)
| ex_loop v k bodies r its fr :
    iters v k bodies its -> expands r fr -> expands (SLoop v k bodies :: r) (its ++ fr).

(* ---------- what the operations do ---------- *)

Definition upd {A : Type} (f : nat -> A) (k : nat) (x : A) : nat -> A :=
  fun k' => if Nat.eqb k' k then x else f k'.

Fixpoint lookup (l : list (nat * call)) (k : nat) : option call :=
  match l with
  | [] => None
  | (k', c) :: r => if Nat.eqb k' k then Some c else lookup r k
  end.
Definition remove (l : list (nat * call)) (k : nat) : list (nat * call) :=
  filter (fun p => negb (Nat.eqb (fst p) k)) l.

Record thread := mkT {
  env : key -> nat;                              (* what each key expression evaluates to in the running path *)
  pc : list pop;                                 (* what is left of the running path *)
  todo : list ((key -> nat) * list pop);         (* the paths it runs afterwards *)
  loc : var -> option call
}.

Record world := mkW {
  thr : tid -> thread;
  lock : option tid;
  pend : list (nat * call);      (* client.pending *)
  shut : bool; closing : bool;
  next : call;                   (* calls below next exist *)
  dones : call -> nat;           (* how often each call was completed *)
  intable : call -> bool;
  holder : call -> option tid;   (* who touched the call since it last left the table (or was created) *)
  bad : bool                     (* a nil call touched; a call completed or written after completion; a call touched
                                    while it sits in the table; a call touched by two threads; an unlock without lock *)
}.

Definition set_thr (w : world) (t : tid) (th : thread) : world :=
  mkW (upd (thr w) t th) (lock w) (pend w) (shut w) (closing w) (next w) (dones w) (intable w) (holder w) (bad w).
Definition set_loc (th : thread) (v : var) (c : option call) : thread :=
  mkT (env th) (pc th) (todo th) (upd (loc th) v c).
Definition set_bad (w : world) : world :=
  mkW (thr w) (lock w) (pend w) (shut w) (closing w) (next w) (dones w) (intable w) (holder w) true.

Definition ocall_eqb (a b : option call) : bool :=
  match a, b with Some x, Some y => Nat.eqb x y | None, None => true | _, _ => false end.

(* thread t touches call c (a field write, or done()) *)
Definition touch (t : tid) (c : call) (w : world) : world :=
  if intable w c || (0 <? dones w c) then set_bad w
  else match holder w c with
       | None => mkW (thr w) (lock w) (pend w) (shut w) (closing w) (next w) (dones w) (intable w)
                     (upd (holder w) c (Some t)) (bad w)
       | Some t' => if Nat.eqb t' t then w else set_bad w
       end.

(* one operation of thread t; x is what the environment chooses (which entry a range visits, what a receive or
   client.Go yields); None: the operation cannot be taken now (a held mutex, a branch whose condition is false) *)
Definition exec (t : tid) (x : nat) (o : pop) (w : world) : option world :=
  let th := thr w t in
  match o with
  | PLock => match lock w with
             | None => Some (mkW (thr w) (Some t) (pend w) (shut w) (closing w) (next w) (dones w) (intable w) (holder w) (bad w))
             | Some _ => None
             end
  | PUnlock => match lock w with
               | Some t' => if Nat.eqb t' t
                            then Some (mkW (thr w) None (pend w) (shut w) (closing w) (next w) (dones w) (intable w) (holder w) (bad w))
                            else Some (set_bad w)
               | None => Some (set_bad w)
               end
  | PNew v => let c := next w in
              Some (mkW (upd (thr w) t (set_loc th v (Some c))) (lock w) (pend w) (shut w) (closing w) (Datatypes.S c)
                        (dones w) (intable w) (upd (holder w) c (Some t)) (bad w))
  | PMine v | PRecv v => Some (set_thr w t (set_loc th v (if x <? next w then Some x else None)))
  | PReg k v =>
      let kv := env th k in
      match loc th v with
      | None => Some (mkW (thr w) (lock w) (remove (pend w) kv) (shut w) (closing w) (next w) (dones w)
                          (match lookup (pend w) kv with Some c' => upd (intable w) c' false | None => intable w end)
                          (holder w) (bad w))
      | Some c => Some (mkW (thr w) (lock w) ((kv, c) :: remove (pend w) kv) (shut w) (closing w) (next w) (dones w)
                            (upd (match lookup (pend w) kv with Some c' => upd (intable w) c' false | None => intable w end) c true)
                            (upd (holder w) c None) (bad w))
      end
  | PPeek v k => Some (set_thr w t (set_loc th v (lookup (pend w) (env th k))))
  | PDel k =>
      let kv := env th k in
      Some (mkW (thr w) (lock w) (remove (pend w) kv) (shut w) (closing w) (next w) (dones w)
                (match lookup (pend w) kv with Some c' => upd (intable w) c' false | None => intable w end)
                (holder w) (bad w))
  | PNil v => Some (set_thr w t (set_loc th v None))
  | PIsNil v => match loc th v with None => Some w | Some _ => None end
  | PNonNil v => match loc th v with None => None | Some _ => Some w end
  | PSame v v' => if ocall_eqb (loc th v) (loc th v') then Some w else None
  | PDiff v v' => if ocall_eqb (loc th v) (loc th v') then None else Some w
  | PWrite v => match loc th v with None => Some (set_bad w) | Some c => Some (touch t c w) end
  | PDone v => match loc th v with
               | None => Some (set_bad w)
               | Some c => let w' := touch t c w in
                           Some (mkW (thr w') (lock w') (pend w') (shut w') (closing w') (next w')
                                     (upd (dones w') c (Datatypes.S (dones w' c))) (intable w') (holder w') (bad w'))
               end
  | PEscape _ => Some w
  | POpen => if shut w || closing w then None else Some w
  | PShut => if shut w || closing w then Some w else None
  | PSetShutdown => Some (mkW (thr w) (lock w) (pend w) true (closing w) (next w) (dones w) (intable w) (holder w) (bad w))
  | PSetClosing => Some (mkW (thr w) (lock w) (pend w) (shut w) true (next w) (dones w) (intable w) (holder w) (bad w))
  | PSeqRead k => Some (set_thr w t (mkT (upd (env th) k x) (pc th) (todo th) (loc th)))   (* x: the counter's value *)
  | PSeqInc => Some w
  | PNext v k => match lookup (pend w) x with
                 | Some c => Some (set_thr w t (mkT (upd (env th) k x) (pc th) (todo th) (upd (loc th) v (Some c))))
                 | None => None
                 end
  | PEnd => match pend w with [] => Some w | _ => None end
  end.

Definition set_pc (w : world) (t : tid) (p : list pop) : world :=
  let th := thr w t in set_thr w t (mkT (env th) p (todo th) (loc th)).

(* thread t moves: its next operation, or -- between two paths -- the start of the next path *)
Definition step (t : tid) (x : nat) (w : world) : option world :=
  let th := thr w t in
  match pc th with
  | o :: r => match exec t x o w with Some w' => Some (set_pc w' t r) | None => None end
  | [] => match todo th with
          | (e, p) :: more => Some (set_thr w t (mkT e p more (loc th)))
          | [] => None
          end
  end.

(* any schedule: who moves next and what the environment chooses; a move that cannot be taken is skipped *)
Fixpoint run (sched : list (tid * nat)) (w : world) : world :=
  match sched with
  | [] => w
  | (t, x) :: r => run r (match step t x w with Some w' => w' | None => w end)
  end.

(* threads that have not started: thread t runs the paths progs t, one after another *)
Definition idle (paths : list ((key -> nat) * list pop)) : thread := mkT (fun _ => 0) [] paths (fun _ => None).
Definition start (progs : tid -> list ((key -> nat) * list pop)) : world :=
  mkW (fun t => idle (progs t)) None [] false false 0 (fun _ => 0) (fun _ => false) (fun _ => None) false.
