(* The paths tools/gopending2v regenerates from client/client.go (Client/PendingGen.v) against the discipline of
   Client/Pending.v, and what follows for any number of goroutines running them. *)
From Coq Require Import List Arith Bool.
From RPCX Require Import Client.Pending Client.PendingGen Client.PendingProofs.
Import ListNotations.

(* send, call (Client.Call / Client.Go and everything built on them), the reader and Close *)
Definition strict_paths : list (list sop) :=
  send_paths ++ call_paths ++ input_iter_paths ++ input_exit_paths ++ close_paths.
(* SendRaw registers its call without looking at the flags: after a shutdown it relies on the write to the closed
   connection failing, which takes the call out again (runtime behaviour, exercised by the harness) *)
Definition all_paths : list (list sop) := strict_paths ++ sendraw_paths.

Lemma strict_paths_are_strict : forallb (scheck true ainit) strict_paths = true.
Proof. vm_compute. reflexivity. Qed.

Lemma all_paths_are_disciplined : forallb (scheck false ainit) all_paths = true.
Proof. vm_compute. reflexivity. Qed.

(* a thread program made of runs of generated paths *)
Definition runs_of (paths : list (list sop)) (prog : list ((key -> nat) * list pop)) : Prop :=
  Forall (fun ep => exists sp, In sp paths /\ expands sp (snd ep)) prog.

Lemma runs_checked strict paths prog :
  forallb (scheck strict ainit) paths = true -> runs_of paths prog ->
  Forall (fun ep => check strict ainit (snd ep) = true) prog.
Proof.
  intros Hc Hr. rewrite forallb_forall in Hc. induction Hr as [|ep r (sp & Hin & He) _ IH]; constructor; auto.
  eapply scheck_expands; eauto.
Qed.

Theorem client_goroutines_are_safe progs sched :
  (forall t, runs_of all_paths (progs t)) -> safe (run sched (start progs)).
Proof.
  intros Hp. apply disciplined_threads_are_safe with (strict := false).
  intros t. eapply runs_checked; [exact all_paths_are_disciplined|apply Hp].
Qed.

Theorem client_goroutines_strand_no_call progs sched :
  (forall t, runs_of strict_paths (progs t)) -> none_stranded (run sched (start progs)).
Proof.
  intros Hp. apply strict_threads_strand_no_call.
  intros t. eapply runs_checked; [exact strict_paths_are_strict|apply Hp].
Qed.

Corollary client_goroutines_never_share_a_call progs sched :
  (forall t, runs_of all_paths (progs t)) -> bad (run sched (start progs)) = false.
Proof. intros Hp. exact (proj1 (client_goroutines_are_safe progs sched Hp)). Qed.

(* ---------- the statements are about something: two callers, the reader and Close, run ---------- *)

Definition flat (sp : list sop) : list pop :=
  flat_map (fun s => match s with S o => [o] | SLoop _ _ _ => [PEnd] end) sp.

(* thread 0: a send that registers under sequence number 7 and returns; thread 1: a send under 8 whose write fails,
   so it takes its call back; thread 2: the reader gets the reply to 7, then a second reply to 7 (nobody waits), then
   the connection ends: it sets shutdown and finds the table empty *)
Definition ex_progs (t : tid) : list ((key -> nat) * list pop) :=
  match t with
  | 0 => [(fun _ => 7, flat (nth 5 send_paths []))]
  | 1 => [(fun _ => 8, flat (nth 2 send_paths []))]
  | 2 => [(fun _ => 7, flat (nth 2 input_iter_paths [])); (fun _ => 7, flat (nth 0 input_iter_paths []));
          (fun _ => 0, flat (nth 0 input_exit_paths []))]
  | _ => []
  end.
Definition ex_sched : list (tid * nat) :=
  repeat (0, 0) 8 ++ repeat (1, 0) 16 ++ repeat (2, 0) 40.

Example ex_runs :
  let w := run ex_sched (start ex_progs) in
  bad w = false /\ next w = 2 /\ dones w 0 = 1 /\ dones w 1 = 1 /\ pend w = [] /\ shut w = true /\ lock w = None
  /\ pc (thr w 2) = [] /\ todo (thr w 2) = [].
Proof. vm_compute. repeat split; reflexivity. Qed.

(* what bad records: a caller that completes its call while the call is still registered, next to the reader that
   takes and completes it *)
Example ex_bad :
  let progs := fun t : tid => match t with
                 | 0 => [(fun _ : key => 7, [PNew 0; PLock; PReg 0 0; PUnlock; PDone 0])]
                 | _ => [] end in
  bad (run (repeat (0, 0) 6) (start progs)) = true.
Proof. vm_compute. reflexivity. Qed.
Example ex_bad_race :
  let progs := fun t : tid => match t with
                 | 0 => [(fun _ : key => 7, [PNew 0; PLock; PReg 0 0; PPeek 1 0; PUnlock; PNonNil 1; PWrite 1])]
                 | 1 => [(fun _ : key => 7, [PLock; PPeek 0 0; PDel 0; PUnlock; PNonNil 0; PDone 0])]
                 | _ => [] end in
  bad (run (repeat (0, 0) 6 ++ repeat (1, 0) 7 ++ repeat (0, 0) 3) (start progs)) = true.
Proof. vm_compute. reflexivity. Qed.

(* and the discipline is not trivially true: completing a call that is still in the table, taking it without the
   mutex, or completing it twice is refused *)
Example ex_refused :
  check false ainit [PNew 0; PLock; PReg 0 0; PUnlock; PDone 0] = false
  /\ check false ainit [PPeek 0 0; PDel 0; PNonNil 0; PDone 0] = false
  /\ check false ainit [PLock; PPeek 0 0; PUnlock; PLock; PDel 0; PUnlock] = false
  /\ check false ainit [PNew 0; PDone 0; PDone 0] = false
  /\ check false ainit [PLock; PPeek 0 0; PDel 0; PUnlock; PDone 0] = false
  /\ check true ainit [PNew 0; PLock; PReg 0 0; PUnlock] = false
  /\ check true ainit [PLock; PSetShutdown; PUnlock] = false.
Proof. vm_compute. repeat split; reflexivity. Qed.
