(* The paths tools/gopending2v regenerates from client/client.go (Client/PendingGen.v) against the discipline of
   Client/Pending.v, and what follows for any number of goroutines running them. *)
From Coq Require Import List Arith Bool.
From RPCX Require Import Client.Pending Client.PendingGen Client.PendingProofs Client.PendingSeq Client.PendingSeqProofs.
Import ListNotations.

(* send, call (Client.Call / Client.Go and everything built on them), the reader and Close *)
Definition strict_paths : list (list sop) :=
  send_paths ++ call_paths ++ input_iter_paths ++ input_exit_paths ++ close_paths.
(* SendRaw registers its call without looking at the flags: after a shutdown it relies on the write to the closed
   connection failing, which takes the call out again (runtime behaviour, exercised by the harness) *)
Definition all_paths : list (list sop) := strict_paths ++ sendraw_paths.

Lemma strict_paths_are_strict : forallb (scheck true ainit) strict_paths = true.
Proof. vm_compute. reflexivity. Qed.

Lemma all_paths_are_disciplined : forallb (scheck false ainit) all_paths = true.
Proof. vm_compute. reflexivity. Qed.

(* the strict paths take their sequence numbers from the counter, within the critical section that registers the call *)
Lemma strict_paths_number_their_calls : forallb (scheck2 a2init) strict_paths = true.
Proof. vm_compute. reflexivity. Qed.

(* a thread program made of runs of generated paths *)
Definition runs_of (paths : list (list sop)) (prog : list ((key -> nat) * list pop)) : Prop :=
  Forall (fun ep => exists sp, In sp paths /\ expands sp (snd ep)) prog.

Lemma runs_checked strict paths prog :
  forallb (scheck strict ainit) paths = true -> runs_of paths prog ->
  Forall (fun ep => check strict ainit (snd ep) = true) prog.
Proof.
  intros Hc Hr. rewrite forallb_forall in Hc. induction Hr as [|ep r (sp & Hin & He) _ IH]; constructor; auto.
  eapply scheck_expands; eauto.
Qed.

Theorem client_goroutines_are_safe progs sched :
  (forall t, runs_of all_paths (progs t)) -> safe (run sched (start progs)).
Proof.
  intros Hp. apply disciplined_threads_are_safe with (strict := false).
  intros t. eapply runs_checked; [exact all_paths_are_disciplined|apply Hp].
Qed.

Theorem client_goroutines_strand_no_call progs sched :
  (forall t, runs_of strict_paths (progs t)) -> none_stranded (run sched (start progs)).
Proof.
  intros Hp. apply strict_threads_strand_no_call.
  intros t. eapply runs_checked; [exact strict_paths_are_strict|apply Hp].
Qed.

Corollary client_goroutines_never_share_a_call progs sched :
  (forall t, runs_of all_paths (progs t)) -> bad (run sched (start progs)) = false.
Proof. intros Hp. exact (proj1 (client_goroutines_are_safe progs sched Hp)). Qed.

Lemma runs_checked2 paths prog :
  forallb (scheck2 a2init) paths = true -> runs_of paths prog ->
  Forall (fun ep => check2 a2init (snd ep) = true) prog.
Proof.
  intros Hc Hr. rewrite forallb_forall in Hc. induction Hr as [|ep r (sp & Hin & He) _ IH]; constructor; auto.
  eapply scheck2_expands; eauto.
Qed.

(* send, call, the reader and Close, the sequence counter included: no table entry is ever overwritten (a registered
   call stays registered until somebody takes it), every key in the table is below the counter *)
Theorem client_goroutines_never_overwrite progs sched :
  (forall t, runs_of strict_paths (progs t)) ->
  let w := run2 sched (start2 progs) in
  clob w = false /\ safe (base w) /\ none_stranded (base w) /\
  (forall key c, lookup (pend (base w)) key = Some c -> key < ctr w).
Proof.
  intros Hp. apply strict_threads_never_overwrite.
  - intros t. eapply runs_checked; [exact strict_paths_are_strict|apply Hp].
  - intros t. eapply runs_checked2; [exact strict_paths_number_their_calls|apply Hp].
Qed.

(* ---------- the statements are about something: two callers, the reader and Close, run ---------- *)

Definition flat (sp : list sop) : list pop :=
  flat_map (fun s => match s with S o => [o] | SLoop _ _ _ => [PEnd] end) sp.

(* thread 0: a send that registers (under sequence number 0) and returns; thread 1: a send (number 1) whose write fails,
   so it takes its call back; thread 2: the reader gets the reply to 0, then a second reply to 0 (nobody waits), then
   the connection ends: it sets shutdown and finds the table empty *)
Definition ex_progs (t : tid) : list ((key -> nat) * list pop) :=
  match t with
  | 0 => [(fun _ => 99, flat (nth 5 send_paths []))]
  | 1 => [(fun _ => 99, flat (nth 2 send_paths []))]
  | 2 => [(fun _ => 0, flat (nth 2 input_iter_paths [])); (fun _ => 0, flat (nth 0 input_iter_paths []));
          (fun _ => 5, flat (nth 0 input_exit_paths []))]
  | _ => []
  end.
Definition ex_sched : list (tid * nat) :=
  repeat (0, 0) 10 ++ repeat (1, 0) 18 ++ repeat (2, 0) 40.

Example ex_runs :
  let w := base (run2 ex_sched (start2 ex_progs)) in
  bad w = false /\ next w = 2 /\ dones w 0 = 1 /\ dones w 1 = 1 /\ pend w = [] /\ shut w = true /\ lock w = None
  /\ pc (thr w 2) = [] /\ todo (thr w 2) = [].
Proof. vm_compute. repeat split; reflexivity. Qed.

(* two sends and the reader under the counter: the calls get the numbers 0 and 1, nothing is overwritten *)
Example ex_runs2 :
  let progs := fun t : tid => match t with
                 | 0 => [(fun _ : key => 99, flat (nth 5 send_paths []))]
                 | 1 => [(fun _ : key => 99, flat (nth 5 send_paths []))]
                 | 2 => [(fun _ : key => 1, flat (nth 2 input_iter_paths []))]
                 | _ => [] end in
  let w := run2 (repeat (0, 0) 9 ++ repeat (1, 0) 9 ++ repeat (2, 0) 14) (start2 progs) in
  clob w = false /\ ctr w = 2 /\ pend (base w) = [(0, 0)] /\ dones (base w) 1 = 1 /\ bad (base w) = false.
Proof. vm_compute. repeat split; reflexivity. Qed.
(* ... and what clob records: two registrations under one number *)
Example ex_clob :
  let progs := fun t : tid => match t with
                 | 0 => [(fun _ : key => 7, [PNew 0; PLock; PReg 0 0; PUnlock; PNew 1; PLock; PReg 0 1; PUnlock])]
                 | _ => [] end in
  clob (run2 (repeat (0, 0) 9) (start2 progs)) = true
  /\ check2 a2init [PNew 0; PLock; PReg 0 0; PUnlock] = false
  /\ check2 a2init [PNew 0; PLock; PSeqRead 0; PReg 0 0; PSeqInc; PUnlock] = false
  /\ check2 a2init [PNew 0; PLock; PSeqRead 0; PUnlock; PLock; PSeqInc; PReg 0 0; PUnlock] = false.
Proof. vm_compute. repeat split; reflexivity. Qed.

(* what bad records: a caller that completes its call while the call is still registered, next to the reader that
   takes and completes it *)
Example ex_bad :
  let progs := fun t : tid => match t with
                 | 0 => [(fun _ : key => 7, [PNew 0; PLock; PReg 0 0; PUnlock; PDone 0])]
                 | _ => [] end in
  bad (run (repeat (0, 0) 6) (start progs)) = true.
Proof. vm_compute. reflexivity. Qed.
Example ex_bad_race :
  let progs := fun t : tid => match t with
                 | 0 => [(fun _ : key => 7, [PNew 0; PLock; PReg 0 0; PPeek 1 0; PUnlock; PNonNil 1; PWrite 1])]
                 | 1 => [(fun _ : key => 7, [PLock; PPeek 0 0; PDel 0; PUnlock; PNonNil 0; PDone 0])]
                 | _ => [] end in
  bad (run (repeat (0, 0) 6 ++ repeat (1, 0) 7 ++ repeat (0, 0) 3) (start progs)) = true.
Proof. vm_compute. reflexivity. Qed.

(* and the discipline is not trivially true: completing a call that is still in the table, taking it without the
   mutex, or completing it twice is refused *)
Example ex_refused :
  check false ainit [PNew 0; PLock; PReg 0 0; PUnlock; PDone 0] = false
  /\ check false ainit [PPeek 0 0; PDel 0; PNonNil 0; PDone 0] = false
  /\ check false ainit [PLock; PPeek 0 0; PUnlock; PLock; PDel 0; PUnlock] = false
  /\ check false ainit [PNew 0; PDone 0; PDone 0] = false
  /\ check false ainit [PLock; PPeek 0 0; PDel 0; PUnlock; PDone 0] = false
  /\ check true ainit [PNew 0; PLock; PReg 0 0; PUnlock] = false
  /\ check true ainit [PLock; PSetShutdown; PUnlock] = false.
Proof. vm_compute. repeat split; reflexivity. Qed.
