From Coq Require Import List NArith Arith Bool Lia.
From RPCX Require Import Client.ClientSM.
Import ListNotations.

(* ================= pending map ================= *)
Lemma In_pdel k k' c (m : pmap) : In (k', c) (pdel k m) <-> In (k', c) m /\ k' <> k.
Proof.
  induction m as [|[k0 v0] m IH]; cbn; [tauto|].
  destruct (N.eqb_spec k k0) as [->|Hne].
  - rewrite IH. split; [tauto|]. intros [[H|H] Hn]; [injection H as -> ->; congruence|tauto].
  - cbn. rewrite IH. split.
    + intros [H|H]; [injection H as -> ->; split; [left; reflexivity|congruence]|tauto].
    + tauto.
Qed.

Lemma keys_pdel k (m : pmap) x : In x (map fst (pdel k m)) -> In x (map fst m) /\ x <> k.
Proof.
  intros H. apply in_map_iff in H. destruct H as ([k' c] & <- & H). apply In_pdel in H.
  split; [apply in_map_iff; exists (k', c); tauto|tauto].
Qed.

Lemma NoDup_pdel k (m : pmap) : NoDup (map fst m) -> NoDup (map fst (pdel k m)).
Proof.
  induction m as [|[k0 v0] m IH]; cbn; intros H; [constructor|].
  inversion H as [|? ? Hn Hr]; subst.
  destruct (N.eqb_spec k k0); [apply IH, Hr|]. cbn. constructor; [|apply IH, Hr].
  intros Hin. apply keys_pdel in Hin. tauto.
Qed.

Lemma plookup_In k c (m : pmap) : NoDup (map fst m) -> (plookup k m = Some c <-> In (k, c) m).
Proof.
  induction m as [|[k0 v0] m IH]; cbn; intros Hnd; [split; [discriminate|tauto]|].
  inversion Hnd as [|? ? Hn Hr]; subst.
  destruct (N.eqb_spec k k0) as [->|Hne].
  - split; [intros H; injection H as ->; left; reflexivity|].
    intros [H|H]; [injection H as ->; reflexivity|]. exfalso. apply Hn. apply in_map_iff. exists (k0, c). tauto.
  - rewrite (IH Hr). split; [tauto|]. intros [H|H]; [injection H as -> ->; congruence|exact H].
Qed.

Lemma plookup_none_In k (m : pmap) : plookup k m = None -> forall c, ~ In (k, c) m.
Proof.
  induction m as [|[k0 v0] m IH]; cbn; [tauto|].
  destruct (N.eqb_spec k k0) as [->|Hne]; [discriminate|].
  intros H c [E|E]; [injection E as -> ->; congruence|exact (IH H c E)].
Qed.

(* ================= call table ================= *)
Lemma nth_error_upd_nth {A} (f : A -> A) (l : list A) i j :
  nth_error (upd_nth i f l) j = if Nat.eqb i j then option_map f (nth_error l j) else nth_error l j.
Proof.
  revert i j. induction l as [|x l IH]; intros [|i] [|j]; cbn; try reflexivity.
  - destruct (Nat.eqb _ _); reflexivity.
  - apply IH.
Qed.

(* ================= the invariant (depends on pending and calls only) ================= *)
Record Inv (p : pmap) (cs : list call) : Prop := {
  inv_keys : NoDup (map fst p);
  inv_pend : forall k c, In (k, c) p ->
      exists x, nth_error cs c = Some x /\ c_seq x = Some k /\ c_spc x <> SNew /\ c_signals x = [];
  inv_once : forall c x, nth_error cs c = Some x -> length (c_signals x) <= 1;
  inv_new : forall c x, nth_error cs c = Some x -> c_spc x = SNew -> c_signals x = [] /\ c_seq x = None;
  (* routing: a completion by a response frame is by a frame carrying the call's own seq, never
     a server message, and the result is the interpretation of that frame *)
  inv_route : forall c x f r, nth_error cs c = Some x -> In (ByResp f, r) (c_signals x) ->
      c_seq x = Some (f_seq f) /\ f_servermsg f = false /\ r = interp f x }.

Definition wf_init (cs : list call) : Prop :=
  Forall (fun x => c_spc x = SNew /\ c_signals x = [] /\ c_seq x = None) cs.

Lemma inv_init cs : wf_init cs -> Inv [] cs.
Proof.
  intros H. unfold wf_init in H. rewrite Forall_forall in H.
  constructor.
  - constructor.
  - intros k c [].
  - intros c x Hx. apply nth_error_In, H in Hx. destruct Hx as (_ & -> & _). cbn. lia.
  - intros c x Hx _. apply nth_error_In, H in Hx. tauto.
  - intros c x f r Hx Hin. apply nth_error_In, H in Hx. destruct Hx as (_ & E & _). rewrite E in Hin. destruct Hin.
Qed.

(* a pending call is registered under one key only *)
Lemma inv_pend_unique p cs k1 k2 c : Inv p cs -> In (k1, c) p -> In (k2, c) p -> k1 = k2.
Proof.
  intros Hi H1 H2. destruct (inv_pend p cs Hi k1 c H1) as (x & Hx & Hs & _).
  destruct (inv_pend p cs Hi k2 c H2) as (x' & Hx' & Hs' & _). congruence.
Qed.

Lemma interp_kind f x y : c_kind x = c_kind y -> c_oneway x = c_oneway y -> interp f x = interp f y.
Proof. intros H H2. unfold interp. rewrite H, H2. reflexivity. Qed.

(* ---- updates that keep signals and seq: set_spc (to a non-New value), set_ret ---- *)
Lemma inv_upd_keep p cs c (g : call -> call) :
  (forall x, c_signals (g x) = c_signals x /\ c_seq (g x) = c_seq x /\
             (c_kind (g x) = c_kind x /\ c_oneway (g x) = c_oneway x) /\
             (c_spc x <> SNew -> c_spc (g x) <> SNew) /\ (c_spc (g x) = SNew -> c_spc x = SNew)) ->
  Inv p cs -> Inv p (upd_nth c g cs).
Proof.
  intros Hg [Hk Hp Ho Hn Hr]. constructor; [exact Hk| | | |].
  - intros k c' Hin. destruct (Hp k c' Hin) as (x & Hx & H1 & H2 & H3).
    rewrite nth_error_upd_nth. destruct (Nat.eqb_spec c c') as [->|Hne].
    + rewrite Hx. cbn. exists (g x). destruct (Hg x) as (G1 & G2 & G3 & G4 & G5).
      split; [reflexivity|]. rewrite G1, G2. auto.
    + exists x. auto.
  - intros c' y. rewrite nth_error_upd_nth. destruct (Nat.eqb_spec c c') as [->|Hne]; [|apply Ho].
    destruct (nth_error cs c') as [x|] eqn:E; cbn; [|discriminate]. intros H. injection H as <-.
    destruct (Hg x) as (G1 & _). rewrite G1. eapply Ho; eauto.
  - intros c' y. rewrite nth_error_upd_nth. destruct (Nat.eqb_spec c c') as [->|Hne]; [|apply Hn].
    destruct (nth_error cs c') as [x|] eqn:E; cbn; [|discriminate]. intros H. injection H as <-.
    destruct (Hg x) as (G1 & G2 & G3 & G4 & G5). intros Hs. rewrite G1, G2. apply (Hn c' x E). auto.
  - intros c' y f r. rewrite nth_error_upd_nth. destruct (Nat.eqb_spec c c') as [->|Hne]; [|apply Hr].
    destruct (nth_error cs c') as [x|] eqn:E; cbn; [|discriminate]. intros H. injection H as <-.
    destruct (Hg x) as (G1 & G2 & G3 & G4 & G5). rewrite G1, G2. intros Hin.
    destruct (Hr c' x f r E Hin) as (R1 & R2 & R3). repeat split; auto.
    rewrite R3. destruct G3 as [G3a G3b]. apply interp_kind; symmetry; assumption.
Qed.

Lemma inv_set_spc p cs c s : s <> SNew -> Inv p cs -> Inv p (upd_nth c (set_spc s) cs).
Proof.
  intros Hs. apply inv_upd_keep. intros x. cbn. repeat split; auto. intros; congruence.
Qed.

Lemma inv_set_ret p cs c r : Inv p cs -> Inv p (upd_nth c (set_ret r) cs).
Proof. apply inv_upd_keep. intros x. cbn. repeat split; auto. Qed.

(* ---- completing the call registered under k (if any) ---- *)
Lemma inv_complete p cs k c cz r :
  Inv p cs -> In (k, c) p ->
  (forall f, cz = ByResp f -> f_seq f = k /\ f_servermsg f = false /\
             forall x, nth_error cs c = Some x -> r = interp f x) ->
  Inv (pdel k p) (upd_nth c (add_signal cz r) cs).
Proof.
  intros Hi Hin Hcz. pose proof Hi as [Hk Hp Ho Hn Hr].
  destruct (Hp k c Hin) as (xc & Hxc & Hsc & Hnc & Hgc).
  constructor.
  - apply NoDup_pdel, Hk.
  - intros k' c' H. apply In_pdel in H. destruct H as [H Hne].
    destruct (Hp k' c' H) as (x & Hx & H1 & H2 & H3).
    assert (c' <> c) by (intros ->; apply Hne; eapply inv_pend_unique; eauto).
    exists x. rewrite nth_error_upd_nth. destruct (Nat.eqb_spec c c'); [congruence|]. auto.
  - intros c' y. rewrite nth_error_upd_nth. destruct (Nat.eqb_spec c c') as [<-|Hne]; [|apply Ho].
    rewrite Hxc. cbn. intros H. injection H as <-. cbn. rewrite Hgc. cbn. lia.
  - intros c' y. rewrite nth_error_upd_nth. destruct (Nat.eqb_spec c c') as [<-|Hne]; [|apply Hn].
    rewrite Hxc. cbn. intros H. injection H as <-. cbn. intros. congruence.
  - intros c' y f r'. rewrite nth_error_upd_nth. destruct (Nat.eqb_spec c c') as [<-|Hne]; [|apply Hr].
    rewrite Hxc. cbn. intros H. injection H as <-. cbn. rewrite Hgc. cbn.
    intros [H|[]]. injection H as H1 H2. subst r'.
    destruct (Hcz f H1) as (F1 & F2 & F3). subst k. repeat split; auto.
    rewrite (F3 xc Hxc). apply interp_kind; reflexivity.
Qed.

Lemma inv_complete_at st k cz r :
  Inv (pending st) (calls st) ->
  (forall f, cz = ByResp f -> f_seq f = k /\ f_servermsg f = false /\
             forall c x, plookup k (pending st) = Some c -> nth_error (calls st) c = Some x -> r = interp f x) ->
  Inv (pending (complete_at st k cz r)) (calls (complete_at st k cz r)).
Proof.
  intros Hi Hcz. unfold complete_at. destruct (plookup k (pending st)) as [c|] eqn:E; [|exact Hi].
  cbn. apply inv_complete; [exact Hi|apply plookup_In; [apply Hi|exact E]|].
  intros f Hf. destruct (Hcz f Hf) as (F1 & F2 & F3). repeat split; auto. intros x Hx. eapply F3; eauto.
Qed.

(* ---- failing every pending call ---- *)
Lemma inv_fail_all cz r : (forall f, cz <> ByResp f) -> forall p cs, Inv p cs -> Inv [] (fail_all p cz r cs).
Proof.
  intros Hcz p. induction p as [|[k c] p IH]; intros cs Hi; cbn [fail_all].
  - exact Hi.
  - apply IH.
    assert (H1 : Inv (pdel k ((k, c) :: p)) (upd_nth c (add_signal cz r) cs)).
    { apply inv_complete; [exact Hi|left; reflexivity|]. intros f Hf. exfalso. exact (Hcz f Hf). }
    cbn in H1. rewrite N.eqb_refl in H1.
    (* k does not occur in p, so pdel k p = p *)
    assert (Hnk : ~ In k (map fst p)) by (pose proof (inv_keys _ _ Hi) as Hk; cbn in Hk; inversion Hk; assumption).
    assert (E : pdel k p = p).
    { clear -Hnk. induction p as [|[k0 v0] p IHp]; cbn; [reflexivity|].
      destruct (N.eqb_spec k k0) as [->|Hne]; [exfalso; apply Hnk; left; reflexivity|].
      rewrite IHp; [reflexivity|]. intros H. apply Hnk. right. exact H. }
    rewrite E in H1. exact H1.
Qed.

(* ---- registering a new call ---- *)
Lemma inv_register p cs c x s :
  Inv p cs -> nth_error cs c = Some x -> c_spc x = SNew ->
  Inv (pset s c p) (upd_nth c (fun x => set_spc SReg (set_seq s x)) cs).
Proof.
  intros Hi Hx Hnew. pose proof Hi as [Hk Hp Ho Hn Hr].
  destruct (Hn c x Hx Hnew) as [Hsig Hseq].
  assert (Hnotin : forall k, ~ In (k, c) p).
  { intros k H. destruct (Hp k c H) as (x' & Hx' & _ & H2 & _). congruence. }
  constructor.
  - unfold pset. cbn. constructor; [|apply NoDup_pdel, Hk]. intros H. apply keys_pdel in H. tauto.
  - intros k c' [H|H].
    + injection H as <- <-. rewrite nth_error_upd_nth, Nat.eqb_refl, Hx. cbn.
      eexists. split; [reflexivity|]. cbn. repeat split; auto. discriminate.
    + apply In_pdel in H. destruct H as [H Hne]. destruct (Hp k c' H) as (x' & Hx' & H1 & H2 & H3).
      assert (c' <> c) by (intros ->; exact (Hnotin k H)).
      exists x'. rewrite nth_error_upd_nth. destruct (Nat.eqb_spec c c'); [congruence|]. auto.
  - intros c' y. rewrite nth_error_upd_nth. destruct (Nat.eqb_spec c c') as [<-|Hne]; [|apply Ho].
    rewrite Hx. cbn. intros H. injection H as <-. cbn. rewrite Hsig. cbn. lia.
  - intros c' y. rewrite nth_error_upd_nth. destruct (Nat.eqb_spec c c') as [<-|Hne]; [|apply Hn].
    rewrite Hx. cbn. intros H. injection H as <-. cbn. discriminate.
  - intros c' y f r. rewrite nth_error_upd_nth. destruct (Nat.eqb_spec c c') as [<-|Hne]; [|apply Hr].
    rewrite Hx. cbn. intros H. injection H as <-. cbn. rewrite Hsig. intros [].
Qed.

(* ---- rejecting a new call ---- *)
Lemma inv_reject p cs c x :
  Inv p cs -> nth_error cs c = Some x -> c_spc x = SNew ->
  Inv p (upd_nth c (fun x => set_spc SDone (add_signal Rejected RShutdown x)) cs).
Proof.
  intros Hi Hx Hnew. pose proof Hi as [Hk Hp Ho Hn Hr].
  destruct (Hn c x Hx Hnew) as [Hsig Hseq].
  assert (Hnotin : forall k, ~ In (k, c) p).
  { intros k H. destruct (Hp k c H) as (x' & Hx' & _ & H2 & _). congruence. }
  constructor; [exact Hk| | | |].
  - intros k c' H. destruct (Hp k c' H) as (x' & Hx' & H1 & H2 & H3).
    assert (c' <> c) by (intros ->; exact (Hnotin k H)).
    exists x'. rewrite nth_error_upd_nth. destruct (Nat.eqb_spec c c'); [congruence|]. auto.
  - intros c' y. rewrite nth_error_upd_nth. destruct (Nat.eqb_spec c c') as [<-|Hne]; [|apply Ho].
    rewrite Hx. cbn. intros H. injection H as <-. cbn. rewrite Hsig. cbn. lia.
  - intros c' y. rewrite nth_error_upd_nth. destruct (Nat.eqb_spec c c') as [<-|Hne]; [|apply Hn].
    rewrite Hx. cbn. intros H. injection H as <-. cbn. discriminate.
  - intros c' y f r. rewrite nth_error_upd_nth. destruct (Nat.eqb_spec c c') as [<-|Hne]; [|apply Hr].
    rewrite Hx. cbn. intros H. injection H as <-. cbn. rewrite Hsig. cbn. intros [H|[]]. discriminate.
Qed.

Lemma spc_eqb_eq a b : spc_eqb a b = true <-> a = b.
Proof. destruct a, b; cbn; split; congruence. Qed.

Ltac inv_simpl := cbn [pending calls updc set_calls set_pending].

(* ================= every event preserves the invariant ================= *)
Theorem step_inv st e :
  Inv (pending st) (calls st) -> Inv (pending (step st e)) (calls (step st e)).
Proof.
  intros Hi. destruct e as [c|c|c|c|c|c|c|c|f|eof|]; cbn [step]; unfold getc.
  - (* EReg *)
    destruct (nth_error (calls st) c) as [x|] eqn:Hx; [|exact Hi].
    destruct (negb (is_raw x) && spc_eqb (c_spc x) SNew) eqn:E; [|exact Hi].
    apply andb_true_iff in E. destruct E as [_ E]. apply spc_eqb_eq in E.
    destruct (shutdown st || closing st); inv_simpl.
    + eapply inv_reject; eauto.
    + eapply inv_register; eauto.
  - (* ERawReg *)
    destruct (nth_error (calls st) c) as [x|] eqn:Hx; [|exact Hi].
    destruct (is_raw x && spc_eqb (c_spc x) SNew) eqn:E; [|exact Hi].
    apply andb_true_iff in E. destruct E as [_ E]. apply spc_eqb_eq in E. inv_simpl.
    eapply inv_register; eauto.
  - (* EEncFail *)
    destruct (nth_error (calls st) c) as [x|] eqn:Hx; [|exact Hi].
    destruct (c_seq x) as [s|]; [|exact Hi].
    destruct (negb (is_raw x) && spc_eqb (c_spc x) SReg); [|exact Hi]. inv_simpl.
    apply inv_set_spc; [discriminate|]. apply inv_complete_at; [exact Hi|]. intros f H; discriminate.
  - (* EWriteOk *)
    destruct (nth_error (calls st) c) as [x|] eqn:Hx; [|exact Hi].
    destruct (spc_eqb (c_spc x) SReg && conn_open st); [|exact Hi]. inv_simpl.
    apply inv_set_spc; [destruct (c_oneway x); discriminate|exact Hi].
  - (* EWriteFail *)
    destruct (nth_error (calls st) c) as [x|] eqn:Hx; [|exact Hi].
    destruct (c_seq x) as [s|]; [|exact Hi].
    destruct (spc_eqb (c_spc x) SReg); [|exact Hi].
    assert (H1 : Inv (pending (updc (complete_at st s ByWrite RWriteErr) c (set_spc SDone)))
                     (calls (updc (complete_at st s ByWrite RWriteErr) c (set_spc SDone)))).
    { inv_simpl. apply inv_set_spc; [discriminate|]. apply inv_complete_at; [exact Hi|]. intros f H; discriminate. }
    destruct (is_raw x); [|exact H1]. inv_simpl. apply inv_set_ret. exact H1.
  - (* EOneway *)
    destruct (nth_error (calls st) c) as [x|] eqn:Hx; [|exact Hi].
    destruct (c_seq x) as [s|]; [|exact Hi].
    destruct (spc_eqb (c_spc x) SWritten && c_oneway x); [|exact Hi].
    assert (H1 : Inv (pending (updc (complete_at st s ByOneway ROneway) c (set_spc SDone)))
                     (calls (updc (complete_at st s ByOneway ROneway) c (set_spc SDone)))).
    { inv_simpl. apply inv_set_spc; [discriminate|]. apply inv_complete_at; [exact Hi|]. intros f H; discriminate. }
    destruct (is_raw x); [|exact H1]. inv_simpl. apply inv_set_ret. exact H1.
  - (* ECtx *)
    destruct (nth_error (calls st) c) as [x|] eqn:Hx; [|exact Hi].
    destruct (c_kind x); [exact Hi| |].
    + destruct (is_wait x); [|exact Hi]. inv_simpl. apply inv_set_ret.
      destruct (plookup _ (pending st)) as [c'|]; [|exact Hi].
      destruct (Nat.eqb c' c); [|exact Hi]. apply inv_complete_at; [exact Hi|]. intros f H; discriminate.
    + destruct (is_wait x && spc_eqb (c_spc x) SDone && negb (c_oneway x)); [|exact Hi]. inv_simpl.
      apply inv_set_ret. apply inv_complete_at; [exact Hi|]. intros f H; discriminate.
  - (* ETake *)
    destruct (nth_error (calls st) c) as [x|] eqn:Hx; [|exact Hi].
    destruct (is_wait x && _); [|exact Hi].
    destruct (c_signals x) as [|[cz r] l]; [exact Hi|]. inv_simpl. apply inv_set_ret. exact Hi.
  - (* ERecv *)
    destruct (reader_alive st); [|exact Hi].
    destruct (f_servermsg f) eqn:Es.
    { destruct (chan_registered st); exact Hi. }
    destruct (plookup (f_seq f) (pending st)) as [c'|] eqn:El; [|exact Hi].
    destruct (nth_error (calls st) c') as [x|] eqn:Hx.
    + apply inv_complete_at; [exact Hi|]. intros f' Hf. injection Hf as <-.
      repeat split; auto. intros c2 x2 H1 H2. rewrite El in H1. injection H1 as <-. rewrite Hx in H2.
      injection H2 as <-. reflexivity.
    + exfalso. apply plookup_In in El; [|apply Hi]. destruct (inv_pend _ _ Hi _ _ El) as (x & Hx' & _). congruence.
  - (* EReadErr *)
    destruct (reader_alive st); [|exact Hi]. cbn [pending calls].
    apply inv_fail_all; [intros f H; discriminate|exact Hi].
  - (* EClose *)
    cbn [pending calls]. apply inv_fail_all; [intros f H; discriminate|exact Hi].
Qed.

Theorem run_inv sched : forall st,
  Inv (pending st) (calls st) -> Inv (pending (run st sched)) (calls (run st sched)).
Proof.
  induction sched as [|e r IH]; intros st Hi; [exact Hi|]. cbn [run fold_left]. apply IH, step_inv, Hi.
Qed.

(* ================= C05 (i): at most one completion, whatever the schedule ================= *)
Theorem at_most_once cs chan sched c x :
  wf_init cs -> nth_error (calls (run (init cs chan) sched)) c = Some x -> length (c_signals x) <= 1.
Proof.
  intros Hw Hx. eapply inv_once; [|exact Hx]. apply run_inv. cbn. apply inv_init, Hw.
Qed.

(* ================= C03: routing ================= *)
Theorem routed_to_own_seq cs chan sched c x f r :
  wf_init cs -> nth_error (calls (run (init cs chan) sched)) c = Some x ->
  In (ByResp f, r) (c_signals x) ->
  c_seq x = Some (f_seq f) /\ f_servermsg f = false /\ r = interp f x.
Proof.
  intros Hw Hx Hin. eapply inv_route; [|exact Hx|exact Hin]. apply run_inv. cbn. apply inv_init, Hw.
Qed.

(* a frame with an unknown (or already completed) seq, and any server message whatever its seq,
   leaves every call and the pending map untouched *)
Theorem stray_frames_are_inert st f :
  f_servermsg f = true \/ plookup (f_seq f) (pending st) = None ->
  calls (step st (ERecv f)) = calls st /\ pending (step st (ERecv f)) = pending st.
Proof.
  intros H. cbn [step]. destruct (reader_alive st); [|split; reflexivity].
  destruct (f_servermsg f) eqn:Es.
  - destruct (chan_registered st); split; reflexivity.
  - destruct H as [H|H]; [discriminate|]. rewrite H. split; reflexivity.
Qed.

(* server messages are handed to the registered channel in arrival order, nothing else is *)
Definition pushed (st : state) (e : event) : list nat :=
  match e with
  | ERecv f => if reader_alive st && f_servermsg f && chan_registered st then [f_id f] else []
  | _ => []
  end.

Lemma pushes_updc st c g : pushes (updc st c g) = pushes st.
Proof. reflexivity. Qed.
Lemma pushes_complete_at st k cz r : pushes (complete_at st k cz r) = pushes st.
Proof. unfold complete_at. destruct (plookup k (pending st)); reflexivity. Qed.

Theorem pushes_in_order st e : pushes (step st e) = pushes st ++ pushed st e.
Proof.
  destruct e as [c|c|c|c|c|c|c|c|f|eof|]; cbn [step pushed]; unfold getc; rewrite ?app_nil_r.
  - destruct (nth_error (calls st) c) as [x|]; [|reflexivity].
    destruct (negb (is_raw x) && spc_eqb (c_spc x) SNew); [|reflexivity].
    destruct (shutdown st || closing st); reflexivity.
  - destruct (nth_error (calls st) c) as [x|]; [|reflexivity].
    destruct (is_raw x && spc_eqb (c_spc x) SNew); reflexivity.
  - destruct (nth_error (calls st) c) as [x|]; [|reflexivity].
    destruct (c_seq x); [|reflexivity]. destruct (negb (is_raw x) && spc_eqb (c_spc x) SReg); [|reflexivity].
    rewrite pushes_updc, pushes_complete_at. reflexivity.
  - destruct (nth_error (calls st) c) as [x|]; [|reflexivity].
    destruct (spc_eqb (c_spc x) SReg && conn_open st); reflexivity.
  - destruct (nth_error (calls st) c) as [x|]; [|reflexivity].
    destruct (c_seq x); [|reflexivity]. destruct (spc_eqb (c_spc x) SReg); [|reflexivity].
    destruct (is_raw x); rewrite ?pushes_updc, pushes_complete_at; reflexivity.
  - destruct (nth_error (calls st) c) as [x|]; [|reflexivity].
    destruct (c_seq x); [|reflexivity]. destruct (spc_eqb (c_spc x) SWritten && c_oneway x); [|reflexivity].
    destruct (is_raw x); rewrite ?pushes_updc, pushes_complete_at; reflexivity.
  - destruct (nth_error (calls st) c) as [x|]; [|reflexivity].
    destruct (c_kind x); [reflexivity| |].
    + destruct (is_wait x); [|reflexivity]. rewrite pushes_updc.
      destruct (plookup _ (pending st)) as [c'|]; [|reflexivity].
      destruct (Nat.eqb c' c); [apply pushes_complete_at|reflexivity].
    + destruct (is_wait x && spc_eqb (c_spc x) SDone && negb (c_oneway x)); [|reflexivity].
      rewrite pushes_updc, pushes_complete_at. reflexivity.
  - destruct (nth_error (calls st) c) as [x|]; [|reflexivity].
    destruct (is_wait x && _); [|reflexivity]. destruct (c_signals x) as [|[cz r] l]; reflexivity.
  - destruct (reader_alive st); cbn [andb]; [|rewrite app_nil_r; reflexivity].
    destruct (f_servermsg f); cbn [andb].
    + destruct (chan_registered st); [reflexivity|rewrite app_nil_r; reflexivity].
    + rewrite app_nil_r. destruct (plookup (f_seq f) (pending st)) as [c'|]; [|reflexivity].
      destruct (nth_error (calls st) c'); [apply pushes_complete_at|reflexivity].
  - destruct (reader_alive st); reflexivity.
  - reflexivity.
Qed.
