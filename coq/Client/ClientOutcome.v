(* C05, the outcome clause: whatever the schedule, a call is completed with a result that fits what completed it - a
   response (its interpretation), the caller's context (the context's error), the loss of the connection (a connection
   error, or the shutdown error when the client itself is closing), Close (shutdown), a failed write (the write error), a
   failed encode (the encode error), a rejection (shutdown), the one-way completion.  In particular a call reported as
   successful was answered by a response carrying its own sequence number, or completed as one-way after its write. *)
From Coq Require Import List NArith Arith Bool Lia.
From RPCX Require Import Client.ClientSM Client.ClientProofs.
Import ListNotations.

Definition outcome_ok (s : cause * result) : Prop :=
  match fst s with
  | ByResp _ => True
  | ByCtx => snd s = RCtx
  | ByConn => snd s = RConnErr \/ snd s = RShutdown
  | ByClose => snd s = RShutdown
  | ByWrite => snd s = RWriteErr
  | ByEncode => snd s = REncErr
  | Rejected => snd s = RShutdown
  | ByOneway => snd s = ROneway
  end.
Definition sig_ok (x : call) : Prop := Forall outcome_ok (c_signals x).
Definition all_ok (cs : list call) : Prop := Forall sig_ok cs.

Lemma all_ok_upd g : (forall x, sig_ok x -> sig_ok (g x)) -> forall cs c, all_ok cs -> all_ok (upd_nth c g cs).
Proof.
  intros Hg cs. induction cs as [|x r IH]; intros c H; [destruct c; exact H|].
  inversion H as [|? ? Hx Hr]; subst. destruct c as [|c]; cbn; constructor; auto. now apply IH.
Qed.

Lemma sig_ok_add cz r x : outcome_ok (cz, r) -> sig_ok x -> sig_ok (add_signal cz r x).
Proof. intros Ho Hx. unfold sig_ok, add_signal; cbn. apply Forall_app. split; [exact Hx|]. constructor; [exact Ho|constructor]. Qed.
Lemma sig_ok_set_spc p x : sig_ok x -> sig_ok (set_spc p x).
Proof. intros H; exact H. Qed.
Lemma sig_ok_set_seq s x : sig_ok x -> sig_ok (set_seq s x).
Proof. intros H; exact H. Qed.
Lemma sig_ok_set_ret r x : sig_ok x -> sig_ok (set_ret r x).
Proof. intros H; exact H. Qed.

Lemma ok_complete_at st k cz r : outcome_ok (cz, r) -> all_ok (calls st) -> all_ok (calls (complete_at st k cz r)).
Proof.
  intros Ho H. unfold complete_at. destruct (plookup k (pending st)) as [c|]; [|exact H].
  inv_simpl. apply all_ok_upd; [|exact H]. intros x. now apply sig_ok_add.
Qed.

Lemma ok_fail_all cz r : outcome_ok (cz, r) -> forall p cs, all_ok cs -> all_ok (fail_all p cz r cs).
Proof.
  intros Ho p. induction p as [|[k c] rest IH]; intros cs H; cbn; [exact H|].
  apply IH. apply all_ok_upd; [|exact H]. intros x. now apply sig_ok_add.
Qed.

Ltac ok_upd := apply all_ok_upd; [intros ? ?; auto using sig_ok_set_spc, sig_ok_set_seq, sig_ok_set_ret|].

Theorem step_ok st e : all_ok (calls st) -> all_ok (calls (step st e)).
Proof.
  intros H. destruct e as [c|c|c|c|c|c|c|c|f|eof|]; cbn [step]; unfold getc.
  - destruct (nth_error (calls st) c) as [x|]; [|exact H].
    destruct (negb (is_raw x) && spc_eqb (c_spc x) SNew); [|exact H].
    destruct (shutdown st || closing st); inv_simpl.
    + apply all_ok_upd; [|exact H]. intros y Hy. apply sig_ok_set_spc, sig_ok_add; [cbn; reflexivity|exact Hy].
    + ok_upd. exact H.
  - destruct (nth_error (calls st) c) as [x|]; [|exact H].
    destruct (is_raw x && spc_eqb (c_spc x) SNew); [|exact H]. inv_simpl. ok_upd. exact H.
  - destruct (nth_error (calls st) c) as [x|]; [|exact H].
    destruct (c_seq x) as [s|]; [|exact H].
    destruct (negb (is_raw x) && spc_eqb (c_spc x) SReg); [|exact H]. inv_simpl. ok_upd.
    apply ok_complete_at; [cbn; reflexivity|exact H].
  - destruct (nth_error (calls st) c) as [x|]; [|exact H].
    destruct (spc_eqb (c_spc x) SReg && conn_open st); [|exact H]. inv_simpl. ok_upd. exact H.
  - destruct (nth_error (calls st) c) as [x|]; [|exact H].
    destruct (c_seq x) as [s|]; [|exact H].
    destruct (spc_eqb (c_spc x) SReg); [|exact H].
    assert (H1 : all_ok (calls (updc (complete_at st s ByWrite RWriteErr) c (set_spc SDone)))).
    { inv_simpl. ok_upd. apply ok_complete_at; [cbn; reflexivity|exact H]. }
    destruct (is_raw x); [|exact H1]. inv_simpl. ok_upd. exact H1.
  - destruct (nth_error (calls st) c) as [x|]; [|exact H].
    destruct (c_seq x) as [s|]; [|exact H].
    destruct (spc_eqb (c_spc x) SWritten && c_oneway x); [|exact H].
    assert (H1 : all_ok (calls (updc (complete_at st s ByOneway ROneway) c (set_spc SDone)))).
    { inv_simpl. ok_upd. apply ok_complete_at; [cbn; reflexivity|exact H]. }
    destruct (is_raw x); [|exact H1]. inv_simpl. ok_upd. exact H1.
  - destruct (nth_error (calls st) c) as [x|]; [|exact H].
    destruct (c_kind x); [exact H| |].
    + destruct (is_wait x); [|exact H]. inv_simpl. ok_upd.
      destruct (plookup _ (pending st)) as [c'|]; [|exact H].
      destruct (Nat.eqb c' c); [|exact H]. apply ok_complete_at; [cbn; reflexivity|exact H].
    + destruct (is_wait x && spc_eqb (c_spc x) SDone && negb (c_oneway x)); [|exact H]. inv_simpl. ok_upd.
      apply ok_complete_at; [cbn; reflexivity|exact H].
  - destruct (nth_error (calls st) c) as [x|]; [|exact H].
    destruct (is_wait x && _); [|exact H].
    destruct (c_signals x) as [|[cz r] l]; [exact H|]. inv_simpl. ok_upd. exact H.
  - destruct (reader_alive st); [|exact H].
    destruct (f_servermsg f). { destruct (chan_registered st); exact H. }
    destruct (plookup (f_seq f) (pending st)) as [c'|]; [|exact H].
    destruct (nth_error (calls st) c') as [x|]; [|exact H].
    apply ok_complete_at; [exact I|exact H].
  - destruct (reader_alive st); [|exact H]. cbn [calls].
    apply ok_fail_all; [|exact H]. cbn. destruct (eof && closing st); auto.
  - cbn [calls]. apply ok_fail_all; [cbn; reflexivity|exact H].
Qed.

Lemma run_ok sched : forall st, all_ok (calls st) -> all_ok (calls (run st sched)).
Proof. induction sched as [|e r IH]; intros st H; [exact H|]. cbn [run fold_left]. apply IH, step_ok, H. Qed.

Lemma init_ok cs chan : wf_init cs -> all_ok (calls (init cs chan)).
Proof.
  intros Hw. cbn. unfold all_ok. eapply Forall_impl; [|exact Hw].
  intros x (_ & Hs & _). unfold sig_ok. rewrite Hs. constructor.
Qed.

(* every completion of every call, in every reachable state, carries the result that fits its cause *)
Theorem outcomes_fit_their_cause cs chan sched c x cz r :
  wf_init cs -> nth_error (calls (run (init cs chan) sched)) c = Some x -> In (cz, r) (c_signals x) ->
  outcome_ok (cz, r).
Proof.
  intros Hw Hx Hin. pose proof (run_ok sched _ (init_ok cs chan Hw)) as H.
  unfold all_ok in H. rewrite Forall_forall in H. specialize (H x (nth_error_In _ _ Hx)).
  unfold sig_ok in H. rewrite Forall_forall in H. exact (H _ Hin).
Qed.

(* a call that was reported successful with a reply was answered by a response carrying its own sequence number, whose
   interpretation is that reply; one completed as one-way was completed by the one-way path and by nothing else *)
Theorem success_has_its_own_answer cs chan sched c x cz p :
  wf_init cs -> nth_error (calls (run (init cs chan) sched)) c = Some x -> In (cz, ROk p) (c_signals x) ->
  exists f, cz = ByResp f /\ c_seq x = Some (f_seq f) /\ f_servermsg f = false /\ interp f x = ROk p.
Proof.
  intros Hw Hx Hin. pose proof (outcomes_fit_their_cause _ _ _ _ _ _ _ Hw Hx Hin) as Ho.
  destruct cz as [f| | | | | | |]; cbn in Ho; try discriminate; try (destruct Ho; discriminate).
  exists f. destruct (routed_to_own_seq _ _ _ _ _ _ _ Hw Hx Hin) as (A & B & C). repeat split; auto.
Qed.

Lemma interp_not_oneway f x : interp f x <> ROneway.
Proof.
  unfold interp. destruct (f_error f); [destruct (f_hasmeta f); discriminate|].
  destruct (c_kind x); try discriminate;
    (destruct (Nat.eqb (f_payload f) 0); [discriminate|]; destruct (negb (f_codec_ok f)); [discriminate|];
     destruct (negb (f_decodable f) || c_oneway x); discriminate).
Qed.

Theorem oneway_completion_is_the_oneway_path cs chan sched c x cz :
  wf_init cs -> nth_error (calls (run (init cs chan) sched)) c = Some x -> In (cz, ROneway) (c_signals x) ->
  cz = ByOneway.
Proof.
  intros Hw Hx Hin. pose proof (outcomes_fit_their_cause _ _ _ _ _ _ _ Hw Hx Hin) as Ho.
  destruct cz as [f| | | | | | |]; cbn in Ho; try discriminate; try (destruct Ho; discriminate); auto.
  destruct (routed_to_own_seq _ _ _ _ _ _ _ Hw Hx Hin) as (_ & _ & C). exfalso. exact (interp_not_oneway f x (eq_sym C)).
Qed.

(* ---- the one-way completion happens only after the call's own frame was written ---- *)
Definition spc_of (cs : list call) (c : nat) : option spc := option_map c_spc (nth_error cs c).
Definition Written (st : state) : Prop := forall c, spc_of (calls st) c = Some SWritten -> In c (wire_out st).

Lemma spc_upd_keep g : (forall x, c_spc (g x) = c_spc x) -> forall cs c c', spc_of (upd_nth c g cs) c' = spc_of cs c'.
Proof.
  intros Hg cs c c'. unfold spc_of. rewrite nth_error_upd_nth. destruct (Nat.eqb c c'); [|reflexivity].
  destruct (nth_error cs c'); cbn; [now rewrite Hg|reflexivity].
Qed.
Lemma spc_upd_set p cs c c' :
  spc_of (upd_nth c (set_spc p) cs) c' = if Nat.eqb c c' then option_map (fun _ => p) (nth_error cs c') else spc_of cs c'.
Proof.
  unfold spc_of. rewrite nth_error_upd_nth. destruct (Nat.eqb c c'); [|reflexivity]. destruct (nth_error cs c'); reflexivity.
Qed.
Lemma spc_complete_at st k cz r c : spc_of (calls (complete_at st k cz r)) c = spc_of (calls st) c.
Proof.
  unfold complete_at. destruct (plookup k (pending st)); [|reflexivity]. inv_simpl. now apply spc_upd_keep.
Qed.
Lemma wire_complete_at st k cz r : wire_out (complete_at st k cz r) = wire_out st.
Proof. unfold complete_at. destruct (plookup k (pending st)); reflexivity. Qed.
Lemma spc_fail_all cz r c' : forall p cs, spc_of (fail_all p cz r cs) c' = spc_of cs c'.
Proof.
  induction p as [|[k c] rest IH]; intros cs; cbn; [reflexivity|]. rewrite IH. now apply spc_upd_keep.
Qed.

Lemma wire_updc st c g : wire_out (updc st c g) = wire_out st.
Proof. reflexivity. Qed.

Ltac wr_done Hw := intros c' Hc'; apply Hw; exact Hc'.

Theorem step_written st e : Written st -> Written (step st e).
Proof.
  intros Hw. destruct e as [c|c|c|c|c|c|c|c|f|eof|]; cbn [step]; unfold getc.
  - destruct (nth_error (calls st) c) as [x|]; [|exact Hw].
    destruct (negb (is_raw x) && spc_eqb (c_spc x) SNew); [|exact Hw].
    destruct (shutdown st || closing st); intros c'; inv_simpl; rewrite ?wire_updc; cbn [wire_out].
    + unfold spc_of. rewrite nth_error_upd_nth. destruct (Nat.eqb c c'); [|apply Hw].
      destruct (nth_error (calls st) c'); cbn; discriminate.
    + unfold spc_of. rewrite nth_error_upd_nth. destruct (Nat.eqb c c'); [|apply Hw].
      destruct (nth_error (calls st) c'); cbn; discriminate.
  - destruct (nth_error (calls st) c) as [x|]; [|exact Hw].
    destruct (is_raw x && spc_eqb (c_spc x) SNew); [|exact Hw]. intros c'; inv_simpl; rewrite ?wire_updc; cbn [wire_out].
    unfold spc_of. rewrite nth_error_upd_nth. destruct (Nat.eqb c c'); [|apply Hw].
    destruct (nth_error (calls st) c'); cbn; discriminate.
  - destruct (nth_error (calls st) c) as [x|]; [|exact Hw].
    destruct (c_seq x) as [s|]; [|exact Hw].
    destruct (negb (is_raw x) && spc_eqb (c_spc x) SReg); [|exact Hw]. intros c'; inv_simpl. rewrite ?wire_updc; cbn [wire_out].
    rewrite spc_upd_set, wire_complete_at. destruct (Nat.eqb c c').
    + destruct (nth_error _ c'); cbn; discriminate.
    + rewrite spc_complete_at. apply Hw.
  - destruct (nth_error (calls st) c) as [x|] eqn:Hx; [|exact Hw].
    destruct (spc_eqb (c_spc x) SReg && conn_open st); [|exact Hw]. intros c'; inv_simpl. rewrite ?wire_updc; cbn [wire_out].
    rewrite spc_upd_set. destruct (Nat.eqb_spec c c') as [<-|Hne].
    + intros _. apply in_or_app. right. left. reflexivity.
    + intros H. apply in_or_app. left. now apply Hw.
  - destruct (nth_error (calls st) c) as [x|]; [|exact Hw].
    destruct (c_seq x) as [s|]; [|exact Hw].
    destruct (spc_eqb (c_spc x) SReg); [|exact Hw].
    assert (H1 : Written (updc (complete_at st s ByWrite RWriteErr) c (set_spc SDone))).
    { intros c'; inv_simpl. rewrite ?wire_updc; cbn [wire_out]. rewrite spc_upd_set, wire_complete_at. destruct (Nat.eqb c c').
      - destruct (nth_error _ c'); cbn; discriminate.
      - rewrite spc_complete_at. apply Hw. }
    destruct (is_raw x); [|exact H1]. intros c'; inv_simpl. rewrite ?wire_updc; cbn [wire_out].
    rewrite spc_upd_keep by reflexivity. apply H1.
  - destruct (nth_error (calls st) c) as [x|]; [|exact Hw].
    destruct (c_seq x) as [s|]; [|exact Hw].
    destruct (spc_eqb (c_spc x) SWritten && c_oneway x); [|exact Hw].
    assert (H1 : Written (updc (complete_at st s ByOneway ROneway) c (set_spc SDone))).
    { intros c'; inv_simpl. rewrite ?wire_updc; cbn [wire_out]. rewrite spc_upd_set, wire_complete_at. destruct (Nat.eqb c c').
      - destruct (nth_error _ c'); cbn; discriminate.
      - rewrite spc_complete_at. apply Hw. }
    destruct (is_raw x); [|exact H1]. intros c'; inv_simpl. rewrite ?wire_updc; cbn [wire_out].
    rewrite spc_upd_keep by reflexivity. apply H1.
  - destruct (nth_error (calls st) c) as [x|]; [|exact Hw].
    destruct (c_kind x); [exact Hw| |].
    + destruct (is_wait x); [|exact Hw]. intros c'; inv_simpl. rewrite ?wire_updc; cbn [wire_out].
      rewrite spc_upd_keep by reflexivity.
      destruct (plookup _ (pending st)) as [c2|]; [|apply Hw].
      destruct (Nat.eqb c2 c); [|apply Hw]. rewrite spc_complete_at, wire_complete_at. apply Hw.
    + destruct (is_wait x && spc_eqb (c_spc x) SDone && negb (c_oneway x)); [|exact Hw]. intros c'; inv_simpl.
      rewrite ?wire_updc; cbn [wire_out]. rewrite spc_upd_keep by reflexivity. rewrite spc_complete_at, wire_complete_at. apply Hw.
  - destruct (nth_error (calls st) c) as [x|]; [|exact Hw].
    destruct (is_wait x && _); [|exact Hw].
    destruct (c_signals x) as [|[cz r] l]; [exact Hw|]. intros c'; inv_simpl. rewrite ?wire_updc; cbn [wire_out].
    rewrite spc_upd_keep by reflexivity. apply Hw.
  - destruct (reader_alive st); [|exact Hw].
    destruct (f_servermsg f). { destruct (chan_registered st); exact Hw. }
    destruct (plookup (f_seq f) (pending st)) as [c'|]; [|exact Hw].
    destruct (nth_error (calls st) c') as [x|]; [|exact Hw].
    intros c2. rewrite spc_complete_at, wire_complete_at. apply Hw.
  - destruct (reader_alive st); [|exact Hw]. intros c'. cbn [calls wire_out]. rewrite spc_fail_all. apply Hw.
  - intros c'. cbn [calls wire_out]. rewrite spc_fail_all. apply Hw.
Qed.

Lemma run_written sched : forall st, Written st -> Written (run st sched).
Proof. induction sched as [|e r IH]; intros st H; [exact H|]. cbn [run fold_left]. apply IH, step_written, H. Qed.

Lemma init_written cs chan : wf_init cs -> Written (init cs chan).
Proof.
  intros Hw c. cbn. unfold spc_of. destruct (nth_error cs c) as [x|] eqn:Hx; cbn; [|discriminate].
  unfold wf_init in Hw. rewrite Forall_forall in Hw. destruct (Hw x (nth_error_In _ _ Hx)) as (Hs & _).
  rewrite Hs. discriminate.
Qed.

(* in every reachable state the one-way completion of call c does something only if c's own frame went out *)
Theorem oneway_completes_only_what_was_written cs chan sched c :
  wf_init cs -> let st := run (init cs chan) sched in
  step st (EOneway c) <> st -> In c (wire_out st).
Proof.
  intros Hw st Hne. pose proof (run_written sched _ (init_written cs chan Hw)) as HW. fold st in HW.
  apply HW. unfold spc_of. cbn [step] in Hne. unfold getc in Hne.
  destruct (nth_error (calls st) c) as [x|]; [|contradiction]. cbn.
  destruct (c_seq x); [|contradiction].
  destruct (spc_eqb (c_spc x) SWritten && c_oneway x) eqn:E; [|contradiction].
  apply andb_true_iff in E. destruct E as [E _]. apply spc_eqb_eq in E. now rewrite E.
Qed.

(* ---- without SendRaw (whose callers choose their own numbers): the one-way result is only ever given to a call whose own
   frame went out ---- *)
Definition seq_of (cs : list call) (c : nat) : option (option N) := option_map c_seq (nth_error cs c).
Definition kind_of (cs : list call) (c : nat) : option kind := option_map c_kind (nth_error cs c).

Record NoRaw (st : state) : Prop := {
  nr_kind : forall c, kind_of (calls st) c <> Some KRaw;
  nr_below : forall c s, seq_of (calls st) c = Some (Some s) -> (s < next_seq st)%N;
  nr_uniq : forall c1 c2 s, seq_of (calls st) c1 = Some (Some s) -> seq_of (calls st) c2 = Some (Some s) -> c1 = c2;
  nr_sent : forall c x r, nth_error (calls st) c = Some x -> In (ByOneway, r) (c_signals x) -> In c (wire_out st) }.

Lemma seq_upd_keep g : (forall x, c_seq (g x) = c_seq x) -> forall cs c c', seq_of (upd_nth c g cs) c' = seq_of cs c'.
Proof.
  intros Hg cs c c'. unfold seq_of. rewrite nth_error_upd_nth. destruct (Nat.eqb c c'); [|reflexivity].
  destruct (nth_error cs c'); cbn; [now rewrite Hg|reflexivity].
Qed.
Lemma kind_upd_keep g : (forall x, c_kind (g x) = c_kind x) -> forall cs c c', kind_of (upd_nth c g cs) c' = kind_of cs c'.
Proof.
  intros Hg cs c c'. unfold kind_of. rewrite nth_error_upd_nth. destruct (Nat.eqb c c'); [|reflexivity].
  destruct (nth_error cs c'); cbn; [now rewrite Hg|reflexivity].
Qed.
Lemma seq_complete_at st k cz r c : seq_of (calls (complete_at st k cz r)) c = seq_of (calls st) c.
Proof. unfold complete_at. destruct (plookup k (pending st)); [|reflexivity]. inv_simpl. now apply seq_upd_keep. Qed.
Lemma kind_complete_at st k cz r c : kind_of (calls (complete_at st k cz r)) c = kind_of (calls st) c.
Proof. unfold complete_at. destruct (plookup k (pending st)); [|reflexivity]. inv_simpl. now apply kind_upd_keep. Qed.
Lemma next_complete_at st k cz r : next_seq (complete_at st k cz r) = next_seq st.
Proof. unfold complete_at. destruct (plookup k (pending st)); reflexivity. Qed.
Lemma seq_fail_all cz r c' : forall p cs, seq_of (fail_all p cz r cs) c' = seq_of cs c'.
Proof. induction p as [|[k c] rest IH]; intros cs; cbn; [reflexivity|]. rewrite IH. now apply seq_upd_keep. Qed.
Lemma kind_fail_all cz r c' : forall p cs, kind_of (fail_all p cz r cs) c' = kind_of cs c'.
Proof. induction p as [|[k c] rest IH]; intros cs; cbn; [reflexivity|]. rewrite IH. now apply kind_upd_keep. Qed.

(* signals that are not the one-way completion add no ByOneway entry *)
Lemma oneway_in_add cz r x r' : cz <> ByOneway -> In (ByOneway, r') (c_signals (add_signal cz r x)) -> In (ByOneway, r') (c_signals x).
Proof. intros Hne H. cbn in H. apply in_app_or in H. destruct H as [H|[H|[]]]; [exact H|]. congruence. Qed.

Lemma sent_upd st (g : call -> call) c :
  (forall x r, In (ByOneway, r) (c_signals (g x)) -> In (ByOneway, r) (c_signals x)) ->
  (forall c' x r, nth_error (calls st) c' = Some x -> In (ByOneway, r) (c_signals x) -> In c' (wire_out st)) ->
  forall c' x r, nth_error (upd_nth c g (calls st)) c' = Some x -> In (ByOneway, r) (c_signals x) -> In c' (wire_out st).
Proof.
  intros Hg H c' x r. rewrite nth_error_upd_nth. destruct (Nat.eqb c c'); [|apply H].
  destruct (nth_error (calls st) c') as [y|] eqn:E; cbn; [|discriminate]. intros Hx. injection Hx as <-.
  intros Hin. eapply H; [exact E|]. eapply Hg. exact Hin.
Qed.

Lemma sent_complete_at st k cz r :
  cz <> ByOneway ->
  (forall c' x r, nth_error (calls st) c' = Some x -> In (ByOneway, r) (c_signals x) -> In c' (wire_out st)) ->
  forall c' x r', nth_error (calls (complete_at st k cz r)) c' = Some x -> In (ByOneway, r') (c_signals x) ->
                 In c' (wire_out (complete_at st k cz r)).
Proof.
  intros Hne H c' x r'. rewrite wire_complete_at. unfold complete_at. destruct (plookup k (pending st)) as [c|]; [|apply H].
  inv_simpl. apply sent_upd; [|exact H]. intros y r0. now apply oneway_in_add.
Qed.

Lemma sent_fail_all cz r (w : list nat) : cz <> ByOneway -> forall p cs,
  (forall c' x r, nth_error cs c' = Some x -> In (ByOneway, r) (c_signals x) -> In c' w) ->
  forall c' x r', nth_error (fail_all p cz r cs) c' = Some x -> In (ByOneway, r') (c_signals x) -> In c' w.
Proof.
  intros Hne p. induction p as [|[k c] rest IH]; intros cs H; cbn [fail_all]; [exact H|].
  apply IH. intros c' x r0. rewrite nth_error_upd_nth. destruct (Nat.eqb c c'); [|apply H].
  destruct (nth_error cs c') as [y|] eqn:E; cbn; [|discriminate]. intros Hx. injection Hx as <-.
  intros Hin. eapply H; [exact E|]. eapply oneway_in_add; eauto.
Qed.

Lemma noraw_same st st' :
  (forall c, kind_of (calls st') c = kind_of (calls st) c) ->
  (forall c, seq_of (calls st') c = seq_of (calls st) c) ->
  next_seq st' = next_seq st ->
  (forall c x r, nth_error (calls st') c = Some x -> In (ByOneway, r) (c_signals x) -> In c (wire_out st')) ->
  NoRaw st -> NoRaw st'.
Proof.
  intros Hk Hs Hn Hsent [K B U S]. constructor.
  - intros c. rewrite Hk. apply K.
  - intros c s. rewrite Hs, Hn. apply B.
  - intros c1 c2 s. rewrite !Hs. apply U.
  - exact Hsent.
Qed.

Lemma next_updc st c g : next_seq (updc st c g) = next_seq st. Proof. reflexivity. Qed.
Lemma calls_updc st c g : calls (updc st c g) = upd_nth c g (calls st). Proof. reflexivity. Qed.

Lemma in_add_other cz r x r' : cz <> ByOneway -> In (ByOneway, r') (c_signals (set_spc SDone (add_signal cz r x))) -> In (ByOneway, r') (c_signals x).
Proof. intros Hne H. now apply (oneway_in_add cz r x r' Hne). Qed.

Theorem step_noraw st e : Inv (pending st) (calls st) -> Written st -> NoRaw st -> NoRaw (step st e).
Proof.
  intros Hi Hw Hn. pose proof Hn as [K B U S].
  assert (Hraw : forall c x, nth_error (calls st) c = Some x -> is_raw x = false).
  { intros c x Hx. specialize (K c). unfold kind_of in K. rewrite Hx in K. cbn in K.
    unfold is_raw. destruct (c_kind x); try reflexivity. exfalso. now apply K. }
  destruct e as [c|c|c|c|c|c|c|c|f|eof|]; cbn [step]; unfold getc.
  - (* EReg *)
    destruct (nth_error (calls st) c) as [x|] eqn:Hx; [|exact Hn].
    destruct (negb (is_raw x) && spc_eqb (c_spc x) SNew); [|exact Hn].
    destruct (shutdown st || closing st).
    + apply (noraw_same st); [| | |  |exact Hn].
      * intros c'. rewrite calls_updc. now apply kind_upd_keep.
      * intros c'. rewrite calls_updc. now apply seq_upd_keep.
      * reflexivity.
      * rewrite wire_updc, calls_updc. apply sent_upd; [|exact S]. intros y r0 H. eapply in_add_other; [|exact H]. discriminate.
    + set (s := next_seq st).
      constructor; rewrite ?calls_updc; cbn [calls next_seq wire_out].
      * intros c'. rewrite kind_upd_keep by reflexivity. apply K.
      * intros c' s'. unfold seq_of. rewrite nth_error_upd_nth. destruct (Nat.eqb_spec c c') as [<-|Hne].
        -- rewrite Hx. cbn. intros H. injection H as <-. apply N.lt_succ_diag_r.
        -- intros H. apply N.lt_lt_succ_r. apply (B c' s' H).
      * intros c1 c2 s'. unfold seq_of. rewrite !nth_error_upd_nth.
        destruct (Nat.eqb_spec c c1) as [<-|N1]; destruct (Nat.eqb_spec c c2) as [<-|N2]; try (intros; reflexivity).
        -- rewrite Hx. cbn. intros H1 H2. injection H1 as <-. exfalso. pose proof (B c2 s H2) as Hlt. unfold s in Hlt. lia.
        -- rewrite Hx. cbn. intros H1 H2. injection H2 as <-. exfalso. pose proof (B c1 s H1) as Hlt. unfold s in Hlt. lia.
        -- apply U.
      * apply (sent_upd (mkState (N.succ s) (pset s c (pending st)) (closing st) (shutdown st) (conn_open st) (reader_alive st)
                                 (chan_registered st) (calls st) (pushes st) (wire_out st) (collided st || match plookup s (pending st) with Some _ => true | None => false end))).
        -- intros y r0 H. exact H.
        -- exact S.
  - (* ERawReg *)
    destruct (nth_error (calls st) c) as [x|] eqn:Hx; [|exact Hn].
    rewrite (Hraw c x Hx). exact Hn.
  - (* EEncFail *)
    destruct (nth_error (calls st) c) as [x|] eqn:Hx; [|exact Hn].
    destruct (c_seq x) as [s|]; [|exact Hn].
    destruct (negb (is_raw x) && spc_eqb (c_spc x) SReg); [|exact Hn].
    apply (noraw_same st); [| | | |exact Hn].
    + intros c'. rewrite calls_updc, kind_upd_keep by reflexivity. apply kind_complete_at.
    + intros c'. rewrite calls_updc, seq_upd_keep by reflexivity. apply seq_complete_at.
    + rewrite next_updc. apply next_complete_at.
    + rewrite wire_updc, calls_updc. apply sent_upd; [intros y r0 H; exact H|]. apply sent_complete_at; [discriminate|exact S].
  - (* EWriteOk *)
    destruct (nth_error (calls st) c) as [x|] eqn:Hx; [|exact Hn].
    destruct (spc_eqb (c_spc x) SReg && conn_open st); [|exact Hn].
    apply (noraw_same st); [| | | |exact Hn]; rewrite ?calls_updc, ?wire_updc, ?next_updc; cbn [calls next_seq wire_out].
    + intros c'. now apply kind_upd_keep.
    + intros c'. now apply seq_upd_keep.
    + reflexivity.
    + intros c' y r0 H1 H2. apply in_or_app. left. revert c' y r0 H1 H2.
      apply (sent_upd st); [intros y r0 H; exact H|exact S].
  - (* EWriteFail *)
    destruct (nth_error (calls st) c) as [x|] eqn:Hx; [|exact Hn].
    destruct (c_seq x) as [s|]; [|exact Hn].
    destruct (spc_eqb (c_spc x) SReg); [|exact Hn]. rewrite (Hraw c x Hx).
    apply (noraw_same st); [| | | |exact Hn].
    + intros c'. rewrite calls_updc, kind_upd_keep by reflexivity. apply kind_complete_at.
    + intros c'. rewrite calls_updc, seq_upd_keep by reflexivity. apply seq_complete_at.
    + rewrite next_updc. apply next_complete_at.
    + rewrite wire_updc, calls_updc. apply sent_upd; [intros y r0 H; exact H|]. apply sent_complete_at; [discriminate|exact S].
  - (* EOneway *)
    destruct (nth_error (calls st) c) as [x|] eqn:Hx; [|exact Hn].
    destruct (c_seq x) as [s|] eqn:Hs; [|exact Hn].
    destruct (spc_eqb (c_spc x) SWritten && c_oneway x) eqn:E; [|exact Hn]. rewrite (Hraw c x Hx).
    apply andb_true_iff in E. destruct E as [E _]. apply spc_eqb_eq in E.
    assert (Hcw : In c (wire_out st)).
    { apply Hw. unfold spc_of. rewrite Hx. cbn. now rewrite E. }
    apply (noraw_same st); [| | | |exact Hn].
    + intros c'. rewrite calls_updc, kind_upd_keep by reflexivity. apply kind_complete_at.
    + intros c'. rewrite calls_updc, seq_upd_keep by reflexivity. apply seq_complete_at.
    + rewrite next_updc. apply next_complete_at.
    + rewrite wire_updc, calls_updc.
      apply (sent_upd (complete_at st s ByOneway ROneway)); [intros y r0 H; exact H|].
      rewrite wire_complete_at. unfold complete_at. destruct (plookup s (pending st)) as [c'|] eqn:El; [|exact S].
      inv_simpl. cbn [wire_out].
      (* the entry under s is c itself: sequence numbers are not shared *)
      assert (c' = c).
      { apply plookup_In in El; [|apply Hi]. destruct (inv_pend _ _ Hi _ _ El) as (x' & Hx' & Hs' & _).
        apply (U c' c s); unfold seq_of; [rewrite Hx'|rewrite Hx]; cbn; congruence. }
      subst c'. intros c2 y r0. rewrite nth_error_upd_nth. destruct (Nat.eqb_spec c c2) as [<-|Hne]; [|apply S].
      intros _ _. exact Hcw.
  - (* ECtx *)
    destruct (nth_error (calls st) c) as [x|] eqn:Hx; [|exact Hn].
    pose proof (Hraw c x Hx) as Hr. unfold is_raw in Hr.
    destruct (c_kind x); [exact Hn| |discriminate].
    destruct (is_wait x); [|exact Hn].
    destruct (plookup _ (pending st)) as [c'|].
    + destruct (Nat.eqb c' c).
      * apply (noraw_same st); [| | | |exact Hn].
        -- intros c2. rewrite calls_updc, kind_upd_keep by reflexivity. apply kind_complete_at.
        -- intros c2. rewrite calls_updc, seq_upd_keep by reflexivity. apply seq_complete_at.
        -- rewrite next_updc. apply next_complete_at.
        -- rewrite wire_updc, calls_updc. apply sent_upd; [intros y r0 H; exact H|]. apply sent_complete_at; [discriminate|exact S].
      * apply (noraw_same st); [| | | |exact Hn].
        -- intros c2. rewrite calls_updc. now apply kind_upd_keep.
        -- intros c2. rewrite calls_updc. now apply seq_upd_keep.
        -- reflexivity.
        -- rewrite wire_updc, calls_updc. apply sent_upd; [intros y r0 H; exact H|exact S].
    + apply (noraw_same st); [| | | |exact Hn].
      * intros c2. rewrite calls_updc. now apply kind_upd_keep.
      * intros c2. rewrite calls_updc. now apply seq_upd_keep.
      * reflexivity.
      * rewrite wire_updc, calls_updc. apply sent_upd; [intros y r0 H; exact H|exact S].
  - (* ETake *)
    destruct (nth_error (calls st) c) as [x|] eqn:Hx; [|exact Hn].
    destruct (is_wait x && _); [|exact Hn].
    destruct (c_signals x) as [|[cz r] l]; [exact Hn|].
    apply (noraw_same st); [| | | |exact Hn].
    + intros c2. rewrite calls_updc. now apply kind_upd_keep.
    + intros c2. rewrite calls_updc. now apply seq_upd_keep.
    + reflexivity.
    + rewrite wire_updc, calls_updc. apply sent_upd; [intros y r0 H; exact H|exact S].
  - (* ERecv *)
    destruct (reader_alive st); [|exact Hn].
    destruct (f_servermsg f).
    { destruct (chan_registered st); [|exact Hn]. apply (noraw_same st); try reflexivity; [|exact Hn]. exact S. }
    destruct (plookup (f_seq f) (pending st)) as [c'|]; [|exact Hn].
    destruct (nth_error (calls st) c') as [x|].
    + apply (noraw_same st); [| | | |exact Hn].
      * intros c2. apply kind_complete_at.
      * intros c2. apply seq_complete_at.
      * apply next_complete_at.
      * apply sent_complete_at; [discriminate|exact S].
    + apply (noraw_same st); try reflexivity; [|exact Hn]. exact S.
  - (* EReadErr *)
    destruct (reader_alive st); [|exact Hn].
    apply (noraw_same st); cbn [calls next_seq wire_out]; [| | | |exact Hn].
    + intros c2. apply kind_fail_all.
    + intros c2. apply seq_fail_all.
    + reflexivity.
    + apply sent_fail_all; [discriminate|exact S].
  - (* EClose *)
    apply (noraw_same st); cbn [calls next_seq wire_out]; [| | | |exact Hn].
    + intros c2. apply kind_fail_all.
    + intros c2. apply seq_fail_all.
    + reflexivity.
    + apply sent_fail_all; [discriminate|exact S].
Qed.

Lemma run_noraw sched : forall st, Inv (pending st) (calls st) -> Written st -> NoRaw st -> NoRaw (run st sched).
Proof.
  induction sched as [|e r IH]; intros st Hi Hw Hn; [exact Hn|]. cbn [run fold_left].
  apply IH; [apply step_inv, Hi|apply step_written, Hw|apply step_noraw; assumption].
Qed.

Lemma init_noraw cs chan : wf_init cs -> Forall (fun x => c_kind x <> KRaw) cs -> NoRaw (init cs chan).
Proof.
  intros Hw Hk. unfold wf_init in Hw. rewrite Forall_forall in Hw, Hk. constructor; cbn.
  - intros c. unfold kind_of. destruct (nth_error cs c) as [x|] eqn:Hx; cbn; [|discriminate].
    intros H. injection H as H. exact (Hk x (nth_error_In _ _ Hx) H).
  - intros c s. unfold seq_of. destruct (nth_error cs c) as [x|] eqn:Hx; cbn; [|discriminate].
    destruct (Hw x (nth_error_In _ _ Hx)) as (_ & _ & Hs). rewrite Hs. discriminate.
  - intros c1 c2 s. unfold seq_of. destruct (nth_error cs c1) as [x|] eqn:Hx; cbn; [|discriminate].
    destruct (Hw x (nth_error_In _ _ Hx)) as (_ & _ & Hs). rewrite Hs. discriminate.
  - intros c x r Hx Hin. destruct (Hw x (nth_error_In _ _ Hx)) as (_ & Hs & _). rewrite Hs in Hin. destruct Hin.
Qed.

(* as long as nobody uses SendRaw (whose callers choose their own numbers): in every reachable state, a call that was
   given the one-way result is a call whose own frame the transport accepted *)
Theorem oneway_success_was_written cs chan sched c x r :
  wf_init cs -> Forall (fun x => c_kind x <> KRaw) cs ->
  nth_error (calls (run (init cs chan) sched)) c = Some x -> In (ByOneway, r) (c_signals x) ->
  In c (wire_out (run (init cs chan) sched)).
Proof.
  intros Hw Hk Hx Hin.
  assert (Hn : NoRaw (run (init cs chan) sched)).
  { apply run_noraw; [cbn; apply inv_init, Hw|apply init_written, Hw|apply init_noraw; assumption]. }
  exact (nr_sent _ Hn c x r Hx Hin).
Qed.

(* why the premise: the one-way path completes whatever stands under its number.  A peer that answers a one-way request
   frees the number; a SendRaw caller who then chooses that number is given the one-way result of the first call, without
   its own frame having gone out (collided stays false: nothing was overwritten). *)
Example a_reused_number_inherits_the_oneway_result :
  let cs := [new_call KGo true 0; new_call KRaw false 0] in
  let st := run (init cs false) [EReg 0; EWriteOk 0; ERecv (mkFrame 1 0 false false false 0 0 true true); ERawReg 1; EOneway 0] in
  map (fun x => map fst (c_signals x)) (calls st) = [[ByResp (mkFrame 1 0 false false false 0 0 true true)]; [ByOneway]] /\
  wire_out st = [0] /\ collided st = false.
Proof. vm_compute. repeat split; reflexivity. Qed.
