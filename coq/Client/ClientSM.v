(* Model of the client's pending-call state machine (client/client.go after the C05/C06 repairs):
   one event per critical section / channel operation of send, call, SendRaw, input, Close.
   A schedule is an arbitrary list of events; an event that is not enabled is a no-op, so
   "for all schedules" ranges over every interleaving at the granularity of the code's own
   synchronisation (client.mutex, one Conn.Write per frame, the single reader goroutine).
   Definitions only. *)
From Coq Require Import List NArith Arith Bool.
Import ListNotations.

Inductive kind := KGo | KCall | KRaw.            (* Go (async) | Call (blocking) | SendRaw (blocking) *)
Inductive spc := SNew | SReg | SWritten | SDone. (* the sending side of a call *)
Inductive cpc := CWait | CRet.                   (* the blocked caller of Call / SendRaw *)

Inductive result :=
  | ROk (payload : nat) | RSvcErr (text : nat) | RDecodeErr | RCodecErr
  | RCtx | RConnErr | RShutdown | RWriteErr | REncErr | ROneway.

(* a frame handed to the reader *)
Record frame := mkFrame {
  f_id : nat;
  f_seq : N;
  f_servermsg : bool;   (* Request && !Heartbeat && Oneway *)
  f_error : bool;       (* MessageStatusType == Error *)
  f_hasmeta : bool;
  f_text : nat;         (* id of the __rpcx_error__ text *)
  f_payload : nat;      (* id of the payload; 0 = empty *)
  f_decodable : bool;   (* codec.Decode(payload, call.Reply) succeeds *)
  f_codec_ok : bool }.  (* share.Codecs[SerializeType] != nil *)

(* ghost: who completed the call *)
Inductive cause :=
  | ByResp (f : frame) | ByCtx | ByConn | ByClose | ByWrite | ByEncode | Rejected | ByOneway.

Record call := mkCall {
  c_kind : kind;
  c_oneway : bool;
  c_rawseq : N;                       (* SendRaw: the sequence number the caller put in the message *)
  c_seq : option N;                   (* the key under which the call was registered *)
  c_spc : spc;
  c_cpc : cpc;
  c_signals : list (cause * result);  (* every done() invocation, oldest first *)
  c_ret : option result }.            (* what the blocking Call / SendRaw returned *)

Definition new_call (k : kind) (oneway : bool) (rawseq : N) : call :=
  mkCall k oneway rawseq None SNew CWait [] None.

Definition pmap := list (N * nat).   (* client.pending : seq -> call id *)

Fixpoint plookup (k : N) (m : pmap) : option nat :=
  match m with
  | [] => None
  | (k', v) :: r => if N.eqb k k' then Some v else plookup k r
  end.
Fixpoint pdel (k : N) (m : pmap) : pmap :=
  match m with
  | [] => []
  | (k', v) :: r => if N.eqb k k' then pdel k r else (k', v) :: pdel k r
  end.
Definition pset (k : N) (v : nat) (m : pmap) : pmap := (k, v) :: pdel k m.

Record state := mkState {
  next_seq : N;
  pending : pmap;
  closing : bool;
  shutdown : bool;
  conn_open : bool;
  reader_alive : bool;
  chan_registered : bool;
  calls : list call;
  pushes : list nat;      (* frames handed to ServerMessageChan, oldest first *)
  wire_out : list nat;    (* calls whose request frame was written *)
  collided : bool }.      (* a registration overwrote an entry of pending (SendRaw seq clash) *)

Definition init (cs : list call) (chan : bool) : state :=
  mkState 0 [] false false true true chan cs [] [] false.

Definition getc (st : state) (c : nat) : option call := nth_error (calls st) c.

Fixpoint upd_nth {A} (i : nat) (f : A -> A) (l : list A) : list A :=
  match l, i with
  | [], _ => []
  | x :: r, O => f x :: r
  | x :: r, S i' => x :: upd_nth i' f r
  end.

Definition set_calls (st : state) (cs : list call) : state :=
  mkState (next_seq st) (pending st) (closing st) (shutdown st) (conn_open st) (reader_alive st)
          (chan_registered st) cs (pushes st) (wire_out st) (collided st).
Definition set_pending (st : state) (p : pmap) : state :=
  mkState (next_seq st) p (closing st) (shutdown st) (conn_open st) (reader_alive st)
          (chan_registered st) (calls st) (pushes st) (wire_out st) (collided st).

Definition updc (st : state) (c : nat) (f : call -> call) : state := set_calls st (upd_nth c f (calls st)).

(* call.Error = ...; call.done() *)
Definition add_signal (cz : cause) (r : result) (x : call) : call :=
  mkCall (c_kind x) (c_oneway x) (c_rawseq x) (c_seq x) (c_spc x) (c_cpc x) (c_signals x ++ [(cz, r)]) (c_ret x).
Definition set_spc (p : spc) (x : call) : call :=
  mkCall (c_kind x) (c_oneway x) (c_rawseq x) (c_seq x) p (c_cpc x) (c_signals x) (c_ret x).
Definition set_seq (s : N) (x : call) : call :=
  mkCall (c_kind x) (c_oneway x) (c_rawseq x) (Some s) (c_spc x) (c_cpc x) (c_signals x) (c_ret x).
Definition set_ret (r : result) (x : call) : call :=
  mkCall (c_kind x) (c_oneway x) (c_rawseq x) (c_seq x) (c_spc x) CRet (c_signals x) (Some r).

(* lock; call = pending[k]; delete(pending, k); unlock; if call != nil { call.Error = ..; call.done() } *)
Definition complete_at (st : state) (k : N) (cz : cause) (r : result) : state :=
  match plookup k (pending st) with
  | None => st
  | Some c' => updc (set_pending st (pdel k (pending st))) c' (add_signal cz r)
  end.

(* fail every pending call and empty the map *)
Fixpoint fail_all (p : pmap) (cz : cause) (r : result) (cs : list call) : list call :=
  match p with
  | [] => cs
  | (_, c) :: rest => fail_all rest cz r (upd_nth c (add_signal cz r) cs)
  end.

Inductive event :=
  | EReg (c : nat)          (* send: register under the mutex (or reject when closing / shut down) *)
  | ERawReg (c : nat)       (* SendRaw: register under the caller's own seq, no shutdown test *)
  | EEncFail (c : nat)      (* codec.Encode(args) failed *)
  | EWriteOk (c : nat)      (* Conn.Write of the whole frame succeeded *)
  | EWriteFail (c : nat)    (* Conn.Write failed *)
  | EOneway (c : nat)       (* one-way: complete locally after the write *)
  | ECtx (c : nat)          (* the blocked caller's context is done *)
  | ETake (c : nat)         (* the blocked caller receives from Done *)
  | ERecv (f : frame)       (* the reader decoded a frame and dispatched it *)
  | EReadErr (eof : bool)   (* the reader's Decode failed: termination sequence *)
  | EClose.                 (* Client.Close *)

(* the result a response frame yields for the call it is routed to *)
Definition interp (f : frame) (x : call) : result :=
  if f_error f then (if f_hasmeta f then RSvcErr (f_text f) else ROk (f_payload f))
  else match c_kind x with
       | KRaw => ROk (f_payload f)
       | _ => if Nat.eqb (f_payload f) 0 then ROk 0
              else if negb (f_codec_ok f) then RCodecErr
              else if negb (f_decodable f) || c_oneway x then RDecodeErr  (* one-way: Reply is nil *)
              else ROk (f_payload f)
       end.

Definition is_raw (x : call) : bool := match c_kind x with KRaw => true | _ => false end.
Definition is_go (x : call) : bool := match c_kind x with KGo => true | _ => false end.
Definition spc_eqb (a b : spc) : bool :=
  match a, b with SNew, SNew | SReg, SReg | SWritten, SWritten | SDone, SDone => true | _, _ => false end.
Definition is_wait (x : call) : bool := match c_cpc x with CWait => true | CRet => false end.

Definition step (st : state) (e : event) : state :=
  match e with
  | EReg c =>
    match getc st c with
    | Some x =>
      if negb (is_raw x) && spc_eqb (c_spc x) SNew then
        if shutdown st || closing st
        then updc st c (fun x => set_spc SDone (add_signal Rejected RShutdown x))
        else
          let s := next_seq st in
          let clash := match plookup s (pending st) with Some _ => true | None => false end in
          let st1 := mkState (N.succ s) (pset s c (pending st)) (closing st) (shutdown st) (conn_open st)
                             (reader_alive st) (chan_registered st) (calls st) (pushes st) (wire_out st)
                             (collided st || clash) in
          updc st1 c (fun x => set_spc SReg (set_seq s x))
      else st
    | None => st
    end
  | ERawReg c =>
    match getc st c with
    | Some x =>
      if is_raw x && spc_eqb (c_spc x) SNew then
        let s := c_rawseq x in
        let clash := match plookup s (pending st) with Some _ => true | None => false end in
        let st1 := mkState (next_seq st) (pset s c (pending st)) (closing st) (shutdown st) (conn_open st)
                           (reader_alive st) (chan_registered st) (calls st) (pushes st) (wire_out st)
                           (collided st || clash) in
        updc st1 c (fun x => set_spc SReg (set_seq s x))
      else st
    | None => st
    end
  | EEncFail c =>
    match getc st c with
    | Some x =>
      match c_seq x with
      | Some s =>
        if negb (is_raw x) && spc_eqb (c_spc x) SReg
        then updc (complete_at st s ByEncode REncErr) c (set_spc SDone)
        else st
      | None => st
      end
    | None => st
    end
  | EWriteOk c =>
    match getc st c with
    | Some x =>
      if spc_eqb (c_spc x) SReg && conn_open st then
        let st1 := mkState (next_seq st) (pending st) (closing st) (shutdown st) (conn_open st) (reader_alive st)
                           (chan_registered st) (calls st) (pushes st) (wire_out st ++ [c]) (collided st) in
        updc st1 c (set_spc (if c_oneway x then SWritten else SDone))
      else st
    | None => st
    end
  | EWriteFail c =>
    match getc st c with
    | Some x =>
      match c_seq x with
      | Some s =>
        if spc_eqb (c_spc x) SReg then
          let st1 := updc (complete_at st s ByWrite RWriteErr) c (set_spc SDone) in
          if is_raw x then updc st1 c (set_ret RWriteErr) else st1
        else st
      | None => st
      end
    | None => st
    end
  | EOneway c =>
    match getc st c with
    | Some x =>
      match c_seq x with
      | Some s =>
        if spc_eqb (c_spc x) SWritten && c_oneway x then
          let st1 := updc (complete_at st s ByOneway ROneway) c (set_spc SDone) in
          if is_raw x then updc st1 c (set_ret ROneway) else st1
        else st
      | None => st
      end
    | None => st
    end
  | ECtx c =>
    match getc st c with
    | Some x =>
      match c_kind x with
      | KGo => st
      | KCall =>
        if is_wait x then
          (* *seq is 0 until send has registered the call; remove the entry only if it is this call's own *)
          let key := match c_seq x with Some s => s | None => 0%N end in
          let st1 := match plookup key (pending st) with
                     | Some c' => if Nat.eqb c' c then complete_at st key ByCtx RCtx else st
                     | None => st
                     end in
          updc st1 c (set_ret RCtx)
        else st
      | KRaw =>
        (* SendRaw selects on ctx.Done only after a successful two-way write *)
        if is_wait x && spc_eqb (c_spc x) SDone && negb (c_oneway x) then
          updc (complete_at st (c_rawseq x) ByCtx RCtx) c (set_ret RCtx)
        else st
      end
    | None => st
    end
  | ETake c =>
    match getc st c with
    | Some x =>
      let sending_done := match c_kind x with
                          | KRaw => spc_eqb (c_spc x) SDone && negb (c_oneway x)
                          | KCall => true
                          | KGo => false
                          end in
      if is_wait x && sending_done then
        match c_signals x with
        | (_, r) :: _ => updc st c (set_ret r)
        | [] => st
        end
      else st
    | None => st
    end
  | ERecv f =>
    if reader_alive st then
      if f_servermsg f then
        if chan_registered st
        then mkState (next_seq st) (pending st) (closing st) (shutdown st) (conn_open st) (reader_alive st)
                     (chan_registered st) (calls st) (pushes st ++ [f_id f]) (wire_out st) (collided st)
        else st
      else
        match plookup (f_seq f) (pending st) with
        | Some c' =>
          match getc st c' with
          | Some x => complete_at st (f_seq f) (ByResp f) (interp f x)
          | None => set_pending st (pdel (f_seq f) (pending st))
          end
        | None => st
        end
    else st
  | EReadErr eof =>
    if reader_alive st then
      let r := if eof && closing st then RShutdown else RConnErr in
      mkState (next_seq st) [] (closing st) true false false (chan_registered st)
              (fail_all (pending st) ByConn r (calls st)) (pushes st) (wire_out st) (collided st)
    else st
  | EClose =>
    mkState (next_seq st) [] (if closing st || shutdown st then closing st else true) (shutdown st) false
            (reader_alive st) (chan_registered st) (fail_all (pending st) ByClose RShutdown (calls st))
            (pushes st) (wire_out st) (collided st)
  end.

Definition run (st : state) (sched : list event) : state := fold_left step sched st.
