From Coq Require Import List Arith Bool Lia.
From RPCX Require Import Client.Pending Client.PendingProofs Client.PendingSeq.
Import ListNotations.

(* ---------- what one operation changes ---------- *)

Lemma touch_lock t c w : lock (touch t c w) = lock w.
Proof.
  unfold touch. destruct (intable w c || (0 <? dones w c)); [reflexivity|].
  destruct (holder w c) as [t'|]; [|reflexivity]. destruct (Nat.eqb t' t); reflexivity.
Qed.
Lemma touch_pend t c w : pend (touch t c w) = pend w.
Proof.
  unfold touch. destruct (intable w c || (0 <? dones w c)); [reflexivity|].
  destruct (holder w c) as [t'|]; [|reflexivity]. destruct (Nat.eqb t' t); reflexivity.
Qed.

Definition lock_op (o : pop) : bool := match o with PLock | PUnlock => true | _ => false end.
Definition table_op (o : pop) : bool := match o with PReg _ _ | PDel _ => true | _ => false end.
Definition env_op (o : pop) : bool := match o with PNext _ _ | PSeqRead _ => true | _ => false end.

Ltac exec_cases He :=
  repeat match type of He with
  | match ?e with _ => _ end = _ => destruct e eqn:?; try discriminate
  | (if ?e then _ else _) = _ => destruct e eqn:?; try discriminate
  end; inv_some.

Lemma exec_lock t x o w w1 : exec t x o w = Some w1 -> lock_op o = false -> lock w1 = lock w.
Proof. intros He Hl. destruct o; try discriminate; cbn in He; exec_cases He; cbn; rewrite ?touch_lock; try reflexivity; congruence. Qed.

Lemma exec_pend t x o w w1 : exec t x o w = Some w1 -> table_op o = false -> pend w1 = pend w.
Proof. intros He Hl. destruct o; try discriminate; cbn in He; exec_cases He; cbn; rewrite ?touch_pend; try reflexivity; congruence. Qed.

Lemma exec_others t x o w w1 t' : exec t x o w = Some w1 -> t' <> t -> thr w1 t' = thr w t'.
Proof.
  intros He Hne. destruct o; cbn in He; exec_cases He; cbn; rewrite ?touch_thr; try reflexivity;
  unfold upd; destruct (Nat.eqb_spec t' t); congruence.
Qed.

Lemma exec_env t x o w w1 : exec t x o w = Some w1 -> env_op o = false -> env (thr w1 t) = env (thr w t).
Proof.
  intros He Hl. destruct o; try discriminate; cbn in He; exec_cases He; cbn; rewrite ?touch_thr; try reflexivity;
  unfold upd; rewrite Nat.eqb_refl; reflexivity.
Qed.

Lemma exec_del_pend t x k w w1 : exec t x (PDel k) w = Some w1 -> pend w1 = remove (pend w) (env (thr w t) k).
Proof. cbn. intros He. inv_some. reflexivity. Qed.

Lemma lookup_remove_some l k key c : lookup (remove l k) key = Some c -> lookup l key = Some c.
Proof.
  destruct (Nat.eq_dec key k) as [->|Hne]; [rewrite lookup_remove_same; discriminate|].
  now rewrite lookup_remove_other.
Qed.

Lemma exec_reg_pend t x k v w w1 : exec t x (PReg k v) w = Some w1 ->
  forall key c, lookup (pend w1) key = Some c -> key = env (thr w t) k \/ lookup (pend w) key = Some c.
Proof.
  cbn. intros He key c Hl. destruct (Nat.eq_dec key (env (thr w t) k)) as [->|Hne]; [now left|right].
  destruct (loc (thr w t) v); inv_some; cbn in Hl.
  - destruct (Nat.eqb_spec (env (thr w t) k) key); [congruence|]. eapply lookup_remove_some; eauto.
  - eapply lookup_remove_some; eauto.
Qed.

Lemma exec_seqread t x k w w1 : exec t x (PSeqRead k) w = Some w1 ->
  env (thr w1 t) k = x /\ pend w1 = pend w.
Proof. cbn. intros He. inv_some. unfold set_thr. cbn. rewrite !upd_same. cbn. now rewrite upd_same. Qed.

(* ---------- the invariant ---------- *)

Record t2rel (t : tid) (b : a2) (w : world2) : Prop := mkT2 {
  r_lock : h2 b = true <-> lock (base w) = Some t;
  r_check : check2 b (pc (thr (base w) t)) = true;
  r_todo : Forall (fun ep => check2 a2init (snd ep) = true) (todo (thr (base w) t));
  r_fh : forall k, fresh2 b = Some k -> h2 b = true;
  r_fresh : forall k, fresh2 b = Some k ->
            (forall key c, lookup (pend (base w)) key = Some c -> key < env (thr (base w) t) k) /\
            (if bumped2 b then env (thr (base w) t) k + 1 = ctr w else env (thr (base w) t) k = ctr w)
}.

Definition Inv2 (w : world2) : Prop :=
  Inv true (base w) /\ clob w = false /\
  (forall key c, lookup (pend (base w)) key = Some c -> key < ctr w) /\
  exists B, forall t, t2rel t (B t) w.

Lemma step_cons t x w o r w' : pc (thr w t) = o :: r -> step t x w = Some w' ->
  exists w1, exec t x o w = Some w1 /\ w' = set_pc w1 t r.
Proof.
  intros Hpc Hs. unfold step in Hs. rewrite Hpc in Hs.
  destruct (exec t x o w) as [w1|]; [|discriminate]. inv_some. eauto.
Qed.

Lemma set_pc_thr_same w t r : pc (thr (set_pc w t r) t) = r /\ todo (thr (set_pc w t r) t) = todo (thr w t)
  /\ env (thr (set_pc w t r) t) = env (thr w t) /\ loc (thr (set_pc w t r) t) = loc (thr w t).
Proof. unfold set_pc, set_thr. cbn. rewrite upd_same. cbn. auto. Qed.
Lemma set_pc_thr_other w t r t' : t' <> t -> thr (set_pc w t r) t' = thr w t'.
Proof. intros H. unfold set_pc, set_thr. cbn. now rewrite upd_other. Qed.

Lemma exec_lock_cases t x o w w1 : exec t x o w = Some w1 ->
  (o = PLock /\ lock w = None /\ lock w1 = Some t) \/
  (o = PUnlock /\ (lock w = Some t -> lock w1 = None)) \/
  (lock_op o = false /\ lock w1 = lock w).
Proof.
  intros He. destruct (lock_op o) eqn:E.
  - destruct o; try discriminate; cbn in He.
    + left. destruct (lock w); [discriminate|]. inv_some. auto.
    + right. left. split; [reflexivity|]. intros Hl. rewrite Hl in He. rewrite Nat.eqb_refl in He. inv_some. reflexivity.
  - right. right. split; [reflexivity|]. now apply (exec_lock _ _ _ _ _ He).
Qed.

(* the mutex as the other threads see it *)
Lemma others_lock t t' x o w w1 (b b1 b' : a2) :
  t' <> t -> exec t x o w = Some w1 -> astep2 b o = Some b1 ->
  (h2 b = true <-> lock w = Some t) -> (h2 b' = true <-> lock w = Some t') ->
  (h2 b' = true <-> lock w1 = Some t').
Proof.
  intros Hne He Ha L L'. destruct (exec_lock_cases _ _ _ _ _ He) as [(-> & Hl & Hl1)|[(-> & Hl1)|(_ & Hl1)]].
  - rewrite Hl1. rewrite Hl in L'. split; [intros H; apply L' in H; discriminate|intros H; injection H; congruence].
  - cbn in Ha. destruct (h2 b) eqn:E; [|discriminate]. pose proof (proj1 L eq_refl) as Hl. rewrite (Hl1 Hl).
    rewrite Hl in L'. split; [intros H; apply L' in H; injection H; congruence|discriminate].
  - now rewrite Hl1.
Qed.

(* the mutex as the acting thread sees it *)
Lemma own_lock t x o w w1 (b b1 : a2) :
  exec t x o w = Some w1 -> astep2 b o = Some b1 ->
  (h2 b = true <-> lock w = Some t) -> (h2 b1 = true <-> lock w1 = Some t).
Proof.
  intros He Ha L. destruct (exec_lock_cases _ _ _ _ _ He) as [(-> & Hl & Hl1)|[(-> & Hl1)|(Hlo & Hl1)]].
  - cbn in Ha. destruct (h2 b); [discriminate|]. inv_some. cbn. rewrite Hl1. tauto.
  - cbn in Ha. destruct (h2 b) eqn:E; [|discriminate]. inv_some. cbn. rewrite (Hl1 (proj1 L eq_refl)). split; discriminate.
  - rewrite Hl1. assert (h2 b1 = h2 b); [|congruence].
    destruct o; try discriminate; cbn in Ha;
    repeat match type of Ha with (if ?c then _ else _) = _ => destruct c eqn:? | match ?c with _ => _ end = _ => destruct c eqn:? end;
    try discriminate; inv_some; cbn; auto;
    repeat match goal with H : _ && _ = true |- _ => apply andb_true_iff in H; destruct H end; auto.
Qed.

Lemma step2_pres t x w w' : Inv2 w -> step2 t x w = Some w' -> Inv2 w'.
Proof.
  intros (HI & Hcl & HK & B & HB) Hs.
  destruct (pc (thr (base w) t)) as [|o r] eqn:Hpc.
  - (* the next path begins *)
    unfold step2 in Hs. rewrite Hpc in Hs.
    destruct (step t x (base w)) as [b'|] eqn:Hst; [|discriminate]. cbn in Hs. inv_some.
    pose proof (step_pres _ _ _ _ _ HI Hst) as HI'.
    unfold step in Hst. rewrite Hpc in Hst.
    destruct (todo (thr (base w) t)) as [|[e p] more] eqn:Htd; [discriminate|]. inv_some.
    destruct (HB t) as [L C T FH F]. rewrite Hpc in C. cbn in C. apply negb_true_iff in C.
    split; [exact HI'|]. split; [exact Hcl|]. split; [exact HK|].
    exists (upd B t a2init). intros t'. destruct (Nat.eq_dec t' t) as [->|Hne].
    + rewrite upd_same. rewrite Htd in T. inversion T as [|? ? Hp Hmore]; subst.
      constructor; cbn; rewrite ?upd_same; cbn; auto; try discriminate.
      split; [discriminate|]. intros Hl. cbn in Hl. apply (proj2 L) in Hl. congruence.
    + rewrite upd_other by exact Hne. destruct (HB t') as [L' C' T' FH' F'].
      constructor; cbn; rewrite ?upd_other by exact Hne; auto.
  - (* an operation *)
    assert (Hst : exists xx b', step t xx (base w) = Some b' /\
              w' = mkW2 b' (match o with PSeqInc => Datatypes.S (ctr w) | _ => ctr w end)
                        (match o with PReg k v => clob w || overwrites (base w) t k v | _ => clob w end)
              /\ (match o with PSeqRead _ => xx = ctr w | _ => True end)).
    { unfold step2 in Hs. rewrite Hpc in Hs.
      destruct o; match type of Hs with option_map _ (step t ?xx _) = _ =>
        destruct (step t xx (base w)) as [b'|] eqn:E; [|discriminate]; cbn in Hs; inv_some; exists xx, b'; auto end. }
    destruct Hst as (xx & b' & Hst & -> & Hxx).
    pose proof (step_pres _ _ _ _ _ HI Hst) as HI'.
    destruct (step_cons _ _ _ _ _ _ Hpc Hst) as (w1 & He & ->).
    destruct (HB t) as [L C T FH F]. rewrite Hpc in C. cbn in C.
    destruct (astep2 (B t) o) as [b1|] eqn:Ha; [|discriminate].
    pose proof (exec_pcs _ _ _ _ _ He) as Hpcs.
    destruct (set_pc_thr_same w1 t r) as (P1 & P2 & P3 & P4).
    (* whoever else holds a fresh number holds the mutex: then this thread moved quietly *)
    assert (Hquiet : forall t' k, t' <> t -> fresh2 (B t') = Some k ->
              lock_op o = false /\ (table_op o = false \/ exists k0, o = PDel k0) /\ o <> PSeqInc).
    { intros t' k Hne Hf. destruct (HB t') as [L' _ _ FH' _]. pose proof (proj1 L' (FH' _ Hf)) as Hl'.
      assert (Hh : h2 (B t) = false).
      { destruct (h2 (B t)) eqn:E; [|reflexivity]. pose proof (proj1 L eq_refl) as E2. congruence. }
      destruct o; cbn in Ha; rewrite ?Hh in Ha; cbn in Ha; try discriminate; repeat split; auto; try discriminate;
      try (right; eexists; reflexivity).
      cbn in He. rewrite Hl' in He. discriminate. }
    (* the other threads *)
    assert (Hoth : forall t', t' <> t ->
              t2rel t' (B t') (mkW2 (set_pc w1 t r) (match o with PSeqInc => Datatypes.S (ctr w) | _ => ctr w end)
                                    (match o with PReg k v => clob w || overwrites (base w) t k v | _ => clob w end))).
    { intros t' Hne. destruct (HB t') as [L' C' T' FH' F'].
      constructor; cbn [base ctr]; rewrite ?(set_pc_thr_other w1 t r t' Hne), ?(exec_others _ _ _ _ _ t' He Hne); auto.
      - cbn [lock set_pc set_thr]. eapply others_lock; eauto.
      - intros k Hf. destruct (Hquiet t' k Hne Hf) as (Hlo & Htab & Hinc). destruct (F' k Hf) as (F1 & F2).
        split.
        + intros key c Hl. apply (F1 key c). cbn [pend set_pc set_thr] in Hl.
          destruct Htab as [Ht|(k0 & ->)].
          * now rewrite (exec_pend _ _ _ _ _ He Ht) in Hl.
          * rewrite (exec_del_pend _ _ _ _ _ He) in Hl. eapply lookup_remove_some; eauto.
        + destruct o; try exact F2. congruence. }
    split; [exact HI'|]. cbn [base ctr clob].
    (* the acting thread, by operation *)
    pose proof (own_lock _ _ _ _ _ _ _ He Ha L) as L1.
    assert (Hfin : forall (Hc : (match o with PReg k v => clob w || overwrites (base w) t k v | _ => clob w end) = false)
                     (HK' : forall key c, lookup (pend w1) key = Some c -> key < match o with PSeqInc => Datatypes.S (ctr w) | _ => ctr w end)
                     (Hfh : forall k, fresh2 b1 = Some k -> h2 b1 = true)
                     (Hfr : forall k, fresh2 b1 = Some k ->
                            (forall key c, lookup (pend w1) key = Some c -> key < env (thr w1 t) k) /\
                            (if bumped2 b1 then env (thr w1 t) k + 1 = match o with PSeqInc => Datatypes.S (ctr w) | _ => ctr w end
                             else env (thr w1 t) k = match o with PSeqInc => Datatypes.S (ctr w) | _ => ctr w end)),
              (match o with PReg k v => clob w || overwrites (base w) t k v | _ => clob w end) = false /\
              (forall key c, lookup (pend (set_pc w1 t r)) key = Some c -> key < match o with PSeqInc => Datatypes.S (ctr w) | _ => ctr w end) /\
              exists B', forall t0, t2rel t0 (B' t0) (mkW2 (set_pc w1 t r) (match o with PSeqInc => Datatypes.S (ctr w) | _ => ctr w end)
                                    (match o with PReg k v => clob w || overwrites (base w) t k v | _ => clob w end))).
    { intros Hc HK' Hfh Hfr. split; [exact Hc|]. split; [exact HK'|].
      exists (upd B t b1). intros t0. destruct (Nat.eq_dec t0 t) as [->|Hne].
      - rewrite upd_same. constructor; cbn [base ctr]; rewrite ?P1, ?P2, ?P3; auto.
        rewrite (proj2 (Hpcs t)). exact T.
      - rewrite upd_other by exact Hne. now apply Hoth. }
    apply Hfin; clear Hfin.
    + (* no entry is overwritten *)
      destruct o; try exact Hcl. rewrite Hcl. cbn. cbn in Ha.
      destruct (h2 (B t) && okey_is (fresh2 (B t)) k && bumped2 (B t)) eqn:Hc; [|discriminate].
      apply andb_true_iff in Hc. destruct Hc as (Hc & _). apply andb_true_iff in Hc. destruct Hc as (_ & Hk).
      unfold okey_is in Hk. destruct (fresh2 (B t)) as [k'|] eqn:Hf; [|discriminate]. apply Nat.eqb_eq in Hk. subst k'.
      destruct (F k eq_refl) as (F1 & _). unfold overwrites.
      destruct (lookup (pend (base w)) (env (thr (base w) t) k)) as [c'|] eqn:El; [|reflexivity].
      specialize (F1 _ _ El). lia.
    + (* every key in the table is below the counter *)
      intros key c Hl. destruct o;
      try (rewrite (exec_pend _ _ _ _ _ He eq_refl) in Hl; specialize (HK _ _ Hl); lia).
      * destruct (exec_reg_pend _ _ _ _ _ _ He _ _ Hl) as [->|Hl']; [|eauto].
        cbn in Ha. destruct (h2 (B t) && okey_is (fresh2 (B t)) k && bumped2 (B t)) eqn:Hc; [|discriminate].
        apply andb_true_iff in Hc. destruct Hc as (Hc & Hb). apply andb_true_iff in Hc. destruct Hc as (_ & Hk).
        unfold okey_is in Hk. destruct (fresh2 (B t)) as [k'|] eqn:Hf; [|discriminate]. apply Nat.eqb_eq in Hk. subst k'.
        destruct (F k eq_refl) as (_ & F2). rewrite Hb in F2. lia.
      * rewrite (exec_del_pend _ _ _ _ _ He) in Hl. apply lookup_remove_some in Hl. eauto.
    + (* a fresh number is held under the mutex *)
      intros k0 Hf. destruct o; cbn in Ha;
      repeat match type of Ha with (if ?c then _ else _) = _ => destruct c eqn:? | match ?c with _ => _ end = _ => destruct c eqn:? end;
      try discriminate; inv_some; cbn in *; try discriminate; eauto;
      repeat match goal with H : _ && _ = true |- _ => apply andb_true_iff in H; destruct H end; auto.
    + (* what holding a fresh number means *)
      intros k0 Hf. destruct o; cbn in Ha.
      all: try (inv_some; destruct (F k0 Hf) as (F1 & F2);
                rewrite (exec_env _ _ _ _ _ He eq_refl); split; [|exact F2];
                intros key c Hl; apply (F1 key c);
                first [rewrite (exec_pend _ _ _ _ _ He eq_refl) in Hl; exact Hl
                      |rewrite (exec_del_pend _ _ _ _ _ He) in Hl; eapply lookup_remove_some; eauto]; fail).
      * destruct (h2 (B t)); inv_some; discriminate.
      * destruct (h2 (B t)); inv_some; discriminate.
      * destruct (h2 (B t) && okey_is (fresh2 (B t)) k && bumped2 (B t)); inv_some; discriminate.
      * (* PSeqRead *)
        destruct (h2 (B t)); [|discriminate]. inv_some. cbn in Hf. injection Hf as <-. cbn [bumped2].
        destruct (exec_seqread _ _ _ _ _ He) as (E1 & E2). rewrite E1, E2. split; [|reflexivity].
        intros key c Hl. eauto.
      * (* PSeqInc *)
        destruct (h2 (B t) && negb (bumped2 (B t))) eqn:Hc; [|discriminate].
        destruct (fresh2 (B t)) as [k'|] eqn:Hf'; [|discriminate]. inv_some. cbn in Hf. injection Hf as <-. cbn [bumped2].
        apply andb_true_iff in Hc. destruct Hc as (_ & Hb). apply negb_true_iff in Hb.
        destruct (F k' eq_refl) as (F1 & F2). rewrite Hb in F2.
        rewrite (exec_env _ _ _ _ _ He eq_refl), (exec_pend _ _ _ _ _ He eq_refl). split; [exact F1|lia].
      * inv_some. discriminate.
      * inv_some. discriminate.
Qed.

Lemma run2_pres sched : forall w, Inv2 w -> Inv2 (run2 sched w).
Proof.
  induction sched as [|[t x] r IH]; intros w HI; cbn; [exact HI|].
  apply IH. destruct (step2 t x w) as [w'|] eqn:Hs; [eapply step2_pres; eauto|exact HI].
Qed.

Lemma start2_inv progs :
  (forall t, Forall (fun ep => check true ainit (snd ep) = true) (progs t)) ->
  (forall t, Forall (fun ep => check2 a2init (snd ep) = true) (progs t)) ->
  Inv2 (start2 progs).
Proof.
  intros H1 H2. split; [now apply start_inv|]. split; [reflexivity|]. split; [intros key c; discriminate|].
  exists (fun _ => a2init). intros t. constructor; cbn; auto; try discriminate.
  split; discriminate.
Qed.

(* goroutines whose paths obey both disciplines: no table entry is ever overwritten, and everything
   Client/PendingProofs.v says about strict paths holds of the same runs *)
Theorem strict_threads_never_overwrite progs sched :
  (forall t, Forall (fun ep => check true ainit (snd ep) = true) (progs t)) ->
  (forall t, Forall (fun ep => check2 a2init (snd ep) = true) (progs t)) ->
  let w := run2 sched (start2 progs) in
  clob w = false /\ safe (base w) /\ none_stranded (base w) /\
  (forall key c, lookup (pend (base w)) key = Some c -> key < ctr w).
Proof.
  intros H1 H2 w. destruct (run2_pres sched _ (start2_inv progs H1 H2)) as (HI & Hc & HK & _).
  repeat split; auto.
  - exact (proj1 (inv_safe _ _ HI)).
  - exact (proj2 (inv_safe _ _ HI)).
  - now apply inv_none_stranded.
Qed.

(* ---------- loops ---------- *)
Lemma quiet_step a o : quiet o = true -> astep2 a o = Some a.
Proof. destruct o; cbn; try discriminate; reflexivity. Qed.

Lemma check2_quiet b : forall a rest, forallb quiet b = true -> check2 a (b ++ rest) = check2 a rest.
Proof.
  induction b as [|o r IH]; intros a rest H; cbn in *; [reflexivity|].
  apply andb_true_iff in H. destruct H as (Ho & Hr). rewrite (quiet_step a o Ho). now apply IH.
Qed.

Lemma iters_check2 v k bodies its fr h :
  forallb (forallb quiet) bodies = true -> iters v k bodies its ->
  forall a0, h2 a0 = h -> check2 a0 (its ++ fr) = check2 (mkA2 h None false) fr.
Proof.
  intros Hq Hi. induction Hi as [|b more Hin Hi IH]; intros a0 Hh; cbn; rewrite Hh; [reflexivity|].
  rewrite <- app_assoc. rewrite forallb_forall in Hq. rewrite (check2_quiet b _ _ (Hq b Hin)).
  now apply IH.
Qed.

Theorem scheck2_expands sp : forall a fp, scheck2 a sp = true -> expands sp fp -> check2 a fp = true.
Proof.
  induction sp as [|s r IH]; intros a fp Hs He; inversion He; subst; cbn in *.
  - exact Hs.
  - destruct (astep2 a o) as [a'|]; [now apply IH|discriminate].
  - apply andb_true_iff in Hs. destruct Hs as (Hq & Hr).
    match goal with H : iters v k bodies ?i |- check2 a (?i ++ ?f) = true =>
      rewrite (iters_check2 v k bodies i f (h2 a) Hq H a eq_refl) end.
    now apply IH.
Qed.
