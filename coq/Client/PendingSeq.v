(* The sequence numbers under which send registers its calls (client.seq), on top of Client/Pending.v: a number is
   read from the counter and the counter advanced within the critical section that registers the call under it.
   Definitions only; Client/PendingSeqProofs.v proves that goroutines whose paths obey this never overwrite an entry
   of the table (a call, once registered, stays in the table until somebody takes it out). *)
From Coq Require Import List Arith Bool.
From RPCX Require Import Client.Pending.
Import ListNotations.

Record a2 := mkA2 {
  h2 : bool;                (* client.mutex *)
  fresh2 : option key;      (* the key variable that holds a number read from the counter in this critical section *)
  bumped2 : bool }.         (* the counter has been advanced past it *)

Definition a2init : a2 := mkA2 false None false.

Definition okey_is (o : option key) (k : key) : bool :=
  match o with Some k' => Nat.eqb k' k | None => false end.

Definition astep2 (a : a2) (o : pop) : option a2 :=
  match o with
  | PLock => if h2 a then None else Some (mkA2 true None false)
  | PUnlock => if h2 a then Some (mkA2 false None false) else None
  | PSeqRead k => if h2 a then Some (mkA2 true (Some k) false) else None
  | PSeqInc => if h2 a && negb (bumped2 a) then match fresh2 a with Some _ => Some (mkA2 true (fresh2 a) true) | None => None end
               else None
  | PReg k _ => if h2 a && okey_is (fresh2 a) k && bumped2 a then Some (mkA2 true None false) else None
  | PNext _ _ | PEnd => Some (mkA2 (h2 a) None false)      (* a range loop uses its own key variable *)
  | _ => Some a
  end.

Fixpoint check2 (a : a2) (ops : list pop) : bool :=
  match ops with
  | [] => negb (h2 a)
  | o :: r => match astep2 a o with Some a' => check2 a' r | None => false end
  end.

Definition quiet (o : pop) : bool :=
  match o with PLock | PUnlock | PSeqRead _ | PSeqInc | PReg _ _ | PNext _ _ | PEnd => false | _ => true end.

Fixpoint scheck2 (a : a2) (ops : list sop) : bool :=
  match ops with
  | [] => negb (h2 a)
  | S o :: r => match astep2 a o with Some a' => scheck2 a' r | None => false end
  | SLoop _ _ bodies :: r => forallb (forallb quiet) bodies && scheck2 (mkA2 (h2 a) None false) r
  end.

(* the table, the counter, and whether an entry was ever overwritten *)
Record world2 := mkW2 { base : world; ctr : nat; clob : bool }.

Definition overwrites (w : world) (t : tid) (k : key) (v : var) : bool :=
  match lookup (pend w) (env (thr w t) k) with
  | Some c' => negb (ocall_eqb (Some c') (loc (thr w t) v))
  | None => false
  end.

Definition step2 (t : tid) (x : nat) (w : world2) : option world2 :=
  match pc (thr (base w) t) with
  | PSeqRead _ :: _ => option_map (fun b => mkW2 b (ctr w) (clob w)) (step t (ctr w) (base w))
  | PSeqInc :: _ => option_map (fun b => mkW2 b (Datatypes.S (ctr w)) (clob w)) (step t x (base w))
  | PReg k v :: _ => option_map (fun b => mkW2 b (ctr w) (clob w || overwrites (base w) t k v)) (step t x (base w))
  | _ => option_map (fun b => mkW2 b (ctr w) (clob w)) (step t x (base w))
  end.

Fixpoint run2 (sched : list (tid * nat)) (w : world2) : world2 :=
  match sched with
  | [] => w
  | (t, x) :: r => run2 r (match step2 t x w with Some w' => w' | None => w end)
  end.

Definition start2 (progs : tid -> list ((key -> nat) * list pop)) : world2 := mkW2 (start progs) 0 false.
