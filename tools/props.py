"""Per-property configuration of ./check (what is compiled, what the evidence says)."""

PROPS = {
    "C01": {
        "generated": True,
        "rule": "exhaustive sweep of header bytes 2,3 (2^16) x every field x every in-domain value on the real Header (oracle); "
                "1500 sampled header operations and 1500 (thorough 40000) random messages (all compression types incl. a second "
                "registered compressor and unregistered ones, fields from a grammar of empty/1-byte/non-UTF-8/0x00,0xFF runs/300 B/70 KiB, "
                "0-12 metadata entries, payload sizes around 512/1024/4096 and 64 KiB, thorough 1 MiB), each encoded by both encoders and "
                "decoded again; distinct = distinct model-input line; non-trivial = header op, or a message with metadata or payload",
        "theorems": ["C01_SetVersion", "C01_SetMessageType", "C01_SetHeartbeat", "C01_SetOneway", "C01_SetCompressType",
                     "C01_SetMessageStatusType", "C01_SetSerializeType", "C01_SetSeq", "C01_generated_getters_agree",
                     "C01_pooled_encoder_is_frame", "C01_encoders_agree", "C01_roundtrip_pooled", "C01_roundtrip_stream"],
        "assumptions": ["compressors are parameters of the model: the round trip is proved under unzip(zip p) = p for the message's payload; "
                        "the bytes gzip/snappy actually produced are passed to the model as a table",
                        "Go map iteration order of Metadata is an input (read back from the encoded frame)",
                        "lengths >= 2^32 are excluded by premise (the code truncates with uint32())"],
        "trusted": ["tools/goheader2v (go/ast translator of the 17 Header accessors into Wire/HeaderGen.v, regenerated on every run; "
                    "refuses constructs outside its expression language)",
                    "harness/internal/refcodec (independent reference frame parser/builder used by the oracle)"],
        "level_text": "Theorems for all messages / headers / buffer contents: accessor laws proved about definitions regenerated from "
                      "protocol/message.go on every run (finite flag-byte domain by exhaustive vm_compute sweep, seq by arithmetic), the pooled "
                      "encoder overwrites every byte of a dirty buffer, both encoders equal the frame specification, and Decode(Encode m) = m "
                      "through the slice-level decoder model. The hand-written codec model is run against Encode/WriteTo/Decode on every check.",
        "level_note": "Trusted: Coq kernel (vm_compute used for finite sweeps), the translator goheader2v, extraction (ExtrOcamlBasic only), "
                      "the correspondence harness. gzip/snappy are premises. Modelled, not verified: protocol/message.go, util/compress.go.",
    },
    "C02": {
        "generated": ["godecode2v"],
        "rule": "per base frame: every truncation point (fresh and reused object), every length field (total, path, method, metadata, "
                "each metadata key/value, payload) replaced by each of {0,1,len-1,len,len+1,2^16,2^31-1,2^31,2^32-1} (fresh and reused), "
                "MaxMessageLength in {1,total-1,total,total+1}; random sequences of 1-4 decodes on one object with/without Reset mixing valid "
                "frames, bit flips, garbage, trailing bytes, body slack; multi-frame streams through a chunking reader; distinct = distinct "
                "model-input line; non-trivial = more than 16 stream bytes or more than one decode on the object",
        "theorems": ["C02_section_is_the_source_s", "C02_decode_metadata_is_the_source_s", "C02_success_consumes_one_frame", "C02_fields_are_the_delimited_ranges", "C02_decoder_refines_spec",
                     "C02_independent_of_object_history", "C02_never_panics", "C02_too_long_rejected_before_body",
                     "C02_concatenated_frames_resynchronise"],
        "assumptions": ["io.ReadFull over bufio.Reader delivers exactly the next n bytes of the concatenated stream or EOF/ErrUnexpectedEOF "
                        "(any chunking); exercised by the chunking reader, not modelled",
                        "memory exhaustion for a declared 4 GiB body with MaxMessageLength=0 is outside the model",
                        "compressors are parameters (their Unzip result is an input)"],
        "trusted": ["harness/internal/refcodec (independent reference frame parser used as the referee of the oracle)"],
        "level_text": "Theorems for every byte stream, every previous state of the message object and every MaxMessageLength about a decoder "
                      "model with Go slice semantics (backing array/len/cap, out-of-range = panic, recover): it refines a list-level spec, "
                      "success implies exactly one well-delimited frame was consumed and the fields are its ranges, the result never depends on "
                      "the object's history, panic is unreachable, over-long frames are rejected before the body, concatenated frames "
                      "resynchronise. The model is run against Message.Decode on every truncation / boundary substitution on every check.",
        "level_note": "Trusted: Coq kernel, extraction, harness + refcodec. io.ReadFull/bufio and the compressors are premises. "
                      "Modelled, not verified: Message.Decode, decodeMetadata.",
    },
    "C11": {
        "rule": "random update/selection histories (sets of 0-8 servers out of 16 names, metadata from grammars of valid and invalid "
                "weight / latitude / longitude strings) over the five strategies random, round-robin, weighted, consistent hash, closest; "
                "plus antipodal / extreme geometry for the closest strategy; distinct = distinct model-input line; non-trivial = at least "
                "one selection with a non-empty last set",
        "theorems": ["C11_random_member", "C11_random_empty_iff", "C11_round_robin_member", "C11_round_robin_empty", "C11_weighted_ring",
                     "C11_closest_member", "C11_closest_empty_iff", "C11_hash_new", "C11_hash_update", "C11_hash_member",
                     "C11_hash_empty_iff"],
        "assumptions": ["random picks (fastrand, math/rand) are oracle values: the model accepts any index in range",
                        "url.ParseQuery / strconv.Atoi / ParseFloat results and the float64 distance getDistanceFrom returned are inputs "
                        "(no trigonometry in the model); an eligible server's distance is assumed not NaN (observed by the harness)",
                        "doublejump's object->index maps are modelled as the inverse of its arrays",
                        "fewer than 2^31 slots (premise small)",
                        "WeightedICMP needs ICMP and is outside the property's quantifier"],
        "trusted": ["/repo/client/verif_export.go: VerifNewSelector, VerifNewGeoSelector, VerifSelectorOrder, VerifGeoDistance",
                    "Flocq 4.1 (BinarySingleNaN) for the bit-exact jump hash; its correctness theorems rest on Coq.Reals axioms"],
        "level_text": "Theorems for every server set, every metadata (as parsed) and every history of updates: each strategy's model returns "
                      "a member of the most recent set that is eligible, and the empty result exactly when nothing is eligible; for the hash "
                      "strategy via the representation invariant of doublejump proved by induction over Add/Remove. Crashes are excluded by "
                      "running the real selectors on every case under recover.",
        "level_note": "Trusted: Coq kernel; stdlib real-number axioms (through Flocq) under the hash theorems; extraction; harness. "
                      "Modelled, not verified: client/selector.go, edwingeng/doublejump, dgryski/go-jump.",
    },
    "C13": {
        "rule": "600 (thorough 20000) jump-hash evaluations (random and boundary keys, 1..64 and 2^k buckets) compared bit-exactly, 100 FNV "
                "strings, and consistent-hash histories (start sets of 1-12 of 40 servers, then re-announcements, pure additions incl. names "
                "sorting before existing ones, removals, mixed) with 6 independently constructed selectors per set; distinct = distinct "
                "model-input line; non-trivial = more than one bucket / server / update",
        "theorems": ["C13_jump_in_range", "C13_jump_monotone", "C13_same_set_update_is_noop",
                     "C13_construction_independent_of_map_order", "C13_additions_are_monotone", "C13_single_add_monotone"],
        "assumptions": ["fmt.Sprintf(\"%v\", args) is an input (the key string)", "fewer than 2^31 slots",
                        "doublejump's object->index maps are modelled as the inverse of its arrays"],
        "trusted": ["Flocq 4.1 BinarySingleNaN (IEEE-754 binary64 model); Coq.Reals axioms under the jump monotonicity proof",
                    "/repo/client/verif_export.go: VerifNewSelector"],
        "level_text": "Theorems: the bit-exact jump hash never moves a key backwards when a bucket is added (Flocq proof about float64 "
                      "rounding), hence from any reachable doublejump state adding servers moves a key only onto an added server; "
                      "re-announcing the same set is a no-op; construction is a function of the set, not of map order. The executable model "
                      "agrees bit for bit with go-jump / doublejump on every check.",
        "level_note": "Trusted: Coq kernel; the four stdlib real-number axioms printed by Print Assumptions; Flocq; extraction; harness. "
                      "Modelled, not verified: consistentHashSelector, doublejump, go-jump.",
    },
    "C18": {
        "kcheck": True,
        "rule": "exhaustive success/failure call traces without sleeps up to length 5 (thorough 7) for thresholds 1..5 (pure counting), "
                "random timed traces of length 2-7 over {failing call, succeeding call, timed-out call, Ready, Fail, Success} with real "
                "sleeps of 0 / 0.6 window / 1.5 window between events (window 200 ms), and xclient dial traces against a refusing "
                "ConnFactories network with GenBreaker; traces run concurrently (one breaker each); distinct = distinct model-input line "
                "(timestamps included); non-trivial = trace at least as long as the threshold or containing a sleep",
        "theorems": ["C18_machine_meets_trace_spec", "C18_refused_call_changes_nothing", "C18_threshold_failures_open",
                     "C18_success_closes", "C18_elapsed_window_closes", "C18_xclient_open_breaker_skips_dial",
                     "C18_xclient_refused_dial_counts"],
        "assumptions": ["time.Now is not injectable: the harness reads the wall clock next to each operation and passes those "
                        "timestamps to the model; sleeps keep every comparison at least 40 ms away from the window boundary",
                        "the breaker's atomics are modelled as one step per method (sequential callers); interleavings of concurrent "
                        "callers between ready() and fail() are not modelled",
                        "reading fixed in DESIGN.md: an observation after an elapsed window clears the failure count"],
        "trusted": ["client.ConnFactories (existing extension point) used as the refusing network"],
        "level_text": "Theorem: for every timed trace, threshold and window the breaker state machine gives exactly the answers of a trace "
                      "specification defined on the history alone (open = at least threshold failures since the last success or "
                      "elapsed-window observation, and window since the most recent failure not elapsed); corollaries: refused calls change "
                      "nothing, threshold failures open, a success or an elapsed window closes, and the discovery client skips the dial "
                      "while open. The model is run on the real breaker and a real XClient with wall-clock timestamps.",
        "level_note": "Trusted: Coq kernel, extraction, harness; wall-clock margins. Modelled, not verified: client/circuit_breaker.go, "
                      "getCachedClient/generateClient breaker wiring.",
    },
    "C03": {
        "generated": ["gopending2v"],
        "kcheck": True,
        "onep": True,
        "rule": "exhaustive response permutations for k<=4 (thorough k<=5) calls mixing Go/Call/SendRaw, with pushes carrying a pending "
                "call's seq, unknown seqs and duplicates inserted, plus 350 (thorough 8000) random schedules over registration / encode / "
                "write / cancel / frames / reader termination / Close, each forced step by step on the real client; distinct = distinct "
                "model-input line; non-trivial = at least 2 calls or 4 events",
        "theorems": ["C03_completed_by_own_response", "C03_strays_and_pushes_are_inert", "C03_pushes_in_order", "C03_invariant", "C03_a_registered_call_keeps_its_number_to_itself"],
        "assumptions": ["sequentially consistent interleavings at the granularity of the client's own critical sections (client.mutex, one "
                        "Conn.Write per frame, the single reader goroutine); weak-memory effects are not modelled",
                        "Done channels have room for every call that shares them (the documented obligation of Go)",
                        "the reduction from statement-level to critical-section-level interleavings (DESIGN.md section 3) rests on: the steps after a critical section touch only the call it made private - proved for the statement-level paths regenerated from client/client.go (Client/PendingProofs.v, tools/gopending2v); that the statement-level operations mean what Client/Pending.v says (exec) is a reading of Go, not checked"],
        "trusted": ["/repo/verifhook (build tag verif): instrumentation points client.send.enter / client.send.exit gate and observe send()",
                    "/repo/client/verif_export.go: VerifPendingLen, VerifPendingSeqs",
                    "client.ConnFactories[\"vsim\"] (existing extension point): scripted transport owned by the harness",
                    "harness/internal/refcodec builds the response frames"],
        "level_text": "Theorems for every set of calls and EVERY schedule of the client state machine (one event per critical section): a "
                      "completion by a response frame is by a frame with the call's own sequence number that is not a server message, and "
                      "yields that frame's reply or service error; strays and pushes are inert; pushes arrive in order. The machine is run "
                      "against the real client under forced schedules on every check.",
        "level_note": "Trusted: Coq kernel, extraction, the forced-schedule rig and its hooks. Modelled, not verified: client/client.go "
                      "(send, call, SendRaw, input, Close). Weak-memory behaviour is outside the model.",
    },
    "C05": {
        "kcheck": True,
        "onep": True,
        "generated": ["gopending2v"],
        "rule": "350 (thorough 8000) random schedules: 1-5 calls (Go, blocking Call, SendRaw, one-way), each stepping through "
                "registration / encode ok or failure / write ok or failure, interleaved with response frames (ok, service error, wrong "
                "type, unknown codec, pushes, strays), context cancellation, Close, reader termination (clean EOF, or cut inside header / "
                "length / body); every run is driven to quiescence and every Done channel drained; distinct = distinct model-input line; "
                "non-trivial = at least 2 calls or 4 events",
        "theorems": ["C05_never_signalled_twice", "C05_no_call_left_hanging", "C05_rejected_promptly", "C05_invariants_reachable",
                     "C05_the_client_paths_obey_the_discipline", "C05_no_call_completes_twice_under_any_interleaving",
                     "C05_no_call_is_left_in_the_table_of_a_client_that_shut_down", "C05_outcomes_fit_their_cause",
                     "C05_success_has_its_own_answer", "C05_oneway_success_only_after_the_write", "C05_oneway_success_was_written"],
        "assumptions": ["sequentially consistent interleavings at the granularity of the client's own critical sections (client.mutex, one "
                        "Conn.Write per frame, the single reader goroutine); weak-memory effects are not modelled",
                        "Done channels have room for every call that shares them (the documented obligation of Go)",
                        "the reduction from statement-level to critical-section-level interleavings (DESIGN.md section 3) rests on: the steps after a critical section touch only the call it made private - proved for the statement-level paths regenerated from client/client.go (Client/PendingProofs.v, tools/gopending2v); that the statement-level operations mean what Client/Pending.v says (exec) is a reading of Go, not checked"] + ["no-hang is the safety formulation 'gone and quiescent implies completed'; real-time promptness is not modelled",
                        "premise of no-hang: no SendRaw used a caller-chosen sequence number equal to an in-flight one (collided = false)"],
        "trusted": ["/repo/verifhook (build tag verif): instrumentation points client.send.enter / client.send.exit gate and observe send()",
                    "/repo/client/verif_export.go: VerifPendingLen, VerifPendingSeqs",
                    "client.ConnFactories[\"vsim\"] (existing extension point): scripted transport owned by the harness",
                    "harness/internal/refcodec builds the response frames"],
        "level_text": "Theorems for EVERY schedule: no call is ever signalled twice (invariant: a call is completed only by the step that "
                      "removes its entry from the pending map under the mutex); once the connection is gone and no write is outstanding "
                      "every started call has been completed exactly once; new calls are rejected at once. Run against the real client "
                      "under forced schedules incl. the two schedules on which the unrepaired client signalled twice.",
        "level_note": "Trusted: Coq kernel, extraction, rig and hooks, translator tools/gopending2v (path enumeration of send, SendRaw, "
                      "call, input, Close; refuses what it does not know). Modelled, not verified: client/client.go.",
    },
    "C06": {
        "kcheck": True,
        "onep": True,
        "generated": ["gopending2v"],
        "rule": "(the scripted transport honours write deadlines; Go calls with an already expired context deadline and cancellation before registration are among the aggressors) exhaustive victim/aggressor enumeration (victim first or later x aggressor in {cancelled before registration, after "
                "registration, after write, unencodable argument, mistyped reply, one-way, service error, unknown codec, write failure} x 3 "
                "relative orders) plus 350 (thorough 8000) random schedules with 2-3 calls; distinct = distinct model-input line; "
                "non-trivial = at least 2 calls",
        "theorems": ["C06_own_steps_are_local", "C06_received_frame_is_local", "C06_connection_not_torn_down",
                     "C06_a_call_is_touched_only_by_the_goroutine_that_holds_it"],
        "assumptions": ["sequentially consistent interleavings at the granularity of the client's own critical sections (client.mutex, one "
                        "Conn.Write per frame, the single reader goroutine); weak-memory effects are not modelled",
                        "Done channels have room for every call that shares them (the documented obligation of Go)",
                        "the reduction from statement-level to critical-section-level interleavings (DESIGN.md section 3) rests on: the steps after a critical section touch only the call it made private - proved for the statement-level paths regenerated from client/client.go (Client/PendingProofs.v, tools/gopending2v); that the statement-level operations mean what Client/Pending.v says (exec) is a reading of Go, not checked"],
        "trusted": ["/repo/verifhook (build tag verif): instrumentation points client.send.enter / client.send.exit gate and observe send()",
                    "/repo/client/verif_export.go: VerifPendingLen, VerifPendingSeqs",
                    "client.ConnFactories[\"vsim\"] (existing extension point): scripted transport owned by the harness",
                    "harness/internal/refcodec builds the response frames"],
        "level_text": "Theorems for every reachable state and every event: a step of call a leaves every other call's record and pending "
                      "entry unchanged (unless sequence numbers are shared via SendRaw), a received frame touches only the call registered "
                      "under its seq whatever it carries, and only reader termination / Close change the connection state. Run against the "
                      "real client incl. the two schedules on which the unrepaired client broke isolation.",
        "level_note": "Trusted: Coq kernel, extraction, rig and hooks, translator tools/gopending2v. Modelled, not verified: client/client.go.",
    },
    "C10": {
        "onep": True,
        "kcheck": True,
        "rule": "exhaustive per-attempt outcome sequences {ok, service error, connection lost, context cancelled, deadline exceeded} up to "
                "the retry bound for modes {fail-fast, fail-try, fail-over} x retries 0..2 x 1..3 servers (quick: every third), plus "
                "160 (thorough 4000) random scripts with refused dials, 0..4 servers, retries 0..3, arbitrary round-robin cursor; every "
                "script is run through XClient.Call AND XClient.SendRaw against scripted servers; fail-backup: 2 servers x dial scripts "
                "{accept, refuse once, refuse twice}^2 x outcome pairs {ok, service error, lost}^2 x {first request answered within the "
                "backup latency or not} x {which of the two requests in flight completes first} x both cursors (quick: 30 %), plus 40 "
                "(thorough 1500) random 2-3 server scripts, the schedule forced through servers that report dials and arrivals and hold "
                "their answers; distinct = distinct model-input line; non-trivial = at least 2 attempts or 2 servers",
        "theorems": ["C10_call_contract", "C10_failover_reselects_differently", "C10_backup_contract", "C10_backup_second_only_after_latency"],
        "assumptions": ["the environment (what each dial and each attempt does) is a universally quantified per-server script",
                        "the selector is round-robin (a deterministic client.SelectByUser selector in the harness)",
                        "fail-backup: the two timing choices (answered within the latency; which request completes first) are script "
                        "booleans; context cancellation during a fail-backup call is not modelled",
                        "RetryInterval = 0; plugins and breakers absent"],
        "trusted": ["client.ConnFactories[\"vsrv\"] scripted servers (harness/cmd/vh/fakesrv.go)"],
        "level_text": "Theorem for every mode, retry count, server count and per-server script: the requests a call delivers number at "
                      "most retries+1 (one for fail-fast), success is returned exactly when the attempt the call ends with succeeded and "
                      "with its reply, a service error / cancelled context / deadline is the last attempt, fail-try stays on one server, "
                      "and the next round-robin selection differs when more than one server exists. The model mirrors the err/e variables "
                      "of the Go loops and is compared with XClient.Call and XClient.SendRaw on every script. Fail-backup (own model): at "
                      "most two requests, the second only after the latency passed unanswered, success only for a delivered request that "
                      "was answered successfully and with its reply, an error when nothing could be delivered.",
        "level_note": "Trusted: Coq kernel, extraction, scripted-server harness. Modelled, not verified: xClient.Call (all four fail "
                      "modes), xClient.SendRaw, xClient.Go, selectClient/getCachedClient/removeClient.",
    },
    "C17": {
        "onep": True,
        "rule": "exhaustive outcome vectors over {ok, service error, connection lost, slow} for 1..3 (thorough 1..4) scripted servers x "
                "every completion order (slow servers last; quick: a third of the n=3 space), each run through Broadcast, Fork and Inform "
                "with completion order forced by per-server answer delays; distinct = distinct model-input line; non-trivial = at least "
                "2 servers",
        "theorems": ["C17_broadcast_success_iff_all", "C17_fork_success_iff_some", "C17_inform_receipts",
                     "C17_reply_from_a_successful_server", "C17_reply_present"],
        "assumptions": ["the caller's context does not expire during the call except through a scripted slow server",
                        "servers whose dial fails are not 'contacted' (Broadcast/Fork/Inform skip them)",
                        "completion orders are forced by 35 ms answer slots (wall clock)"],
        "trusted": ["client.ConnFactories[\"vsrv\"] scripted servers with per-server delays"],
        "level_text": "Theorems for every number of contacted servers, every outcome vector and every completion order (permutation): "
                      "Broadcast reports success iff all succeeded, Fork iff at least one did, Inform returns one receipt per server with "
                      "that server's own reply and own error, and a reported success carries a reply produced by a server that succeeded. "
                      "The model mirrors the done-channel loops with their early exits and is compared with the real XClient under forced "
                      "completion orders.",
        "level_note": "Trusted: Coq kernel, extraction, scripted-server harness and its timing slots. Modelled, not verified: "
                      "xClient.Broadcast/Fork/Inform, errors.MultiError.",
    },
    "C14": {
        "rule": "1200 (thorough 30000) random server sets with metadata from a grammar (state in {absent, active, inactive, empty, "
                "repeated}, 0-2 repeated group values, unrelated keys, unparsable) x client group settings, filtered directly and "
                "through a new XClient; 120 (thorough 2500) publication histories of 2-15 snapshots (35%% metadata-only changes) on a "
                "running XClient over MultipleServersDiscovery, half of them with the watch loop stalled by a blocking selector so that "
                "bursts overflow the watcher channel, all four stock strategies; distinct = distinct model-input line; non-trivial = "
                "at least 2 servers / 3 snapshots",
        "theorems": ["C14_converges_to_last_published", "C14_last_published_is_last_Pub", "C14_filter_keeps_exactly", "C14_keep_rule",
                     "C14_keep_rule_on_raw_metadata", "C14_filter_on_raw_metadata", "C14_raw_rule_refines_to_the_model"],
        "assumptions": ["url.ParseQuery's result is an input to the filter model (values of state and group, in order)",
                        "a publication racing with NewXClient itself (between GetServices and WatchService) is outside the quantifier",
                        "DNSDiscovery.lookup uses the same notifyWatcher after the repair but cannot be exercised offline: its tie to the "
                        "model is by reading only",
                        "convergence is awaited by polling the client's server set for at most 2 s"],
        "trusted": ["/repo/client/verif_export.go: VerifXClientServers, VerifFilterByStateAndGroup, VerifXClientSelect",
                    "url.ParseQuery is modelled in Server/Gateway.v and tied to Go's by the raw-metadata correspondence (fltraw lines)"],
        "level_text": "Theorem for every interleaving of publications with the watch loop's receptions over a bounded channel that drops "
                      "its oldest snapshot when full: once updates stop and the loop has emptied the channel, the snapshot it applied "
                      "last is the last one published; plus the filter rule as an iff. Selection from the applied set is C11. The models "
                      "are run against MultipleServersDiscovery + XClient incl. stalled-watcher bursts that overflow the channel.",
        "level_note": "Trusted: Coq kernel, extraction, harness (polling with a 2 s bound). Modelled, not verified: "
                      "MultipleServersDiscovery.Update / notifyWatcher, xClient.watch, filterByStateAndGroup.",
    },
    "C04": {
        "kcheck": True,
        "onep": True,
        "rule": "260 (thorough 6000) random request sequences: 1-6 requests on 1-3 connections, arbitrary and repeated seqs, one-way / "
                "two-way / heartbeat, the three dispatch styles (reflected method, registered function, router handler) plus pooled "
                "(Reset-able) argument types, unknown service / method / codec, undecodable and partially filled arguments, handler "
                "errors and panics; handler completion order forced through gates (a random permutation); a quarter with the worker "
                "pool; distinct = distinct model-input line; non-trivial = at least 2 requests",
        "theorems": ["C04_two_way_exactly_one_stamped", "C04_one_way_no_response", "C04_heartbeat_echo",
                     "C04_frames_answer_own_connection", "C04_completed_requests_written_once",
                     "C04_refused_request_answered_once_stamped", "C04_refused_one_way_request_is_silent",
                     "C04_served_two_way_exactly_one_stamped", "C04_served_one_way_no_response",
                     "C04_served_frames_answer_own_connection"],
        "assumptions": ["handlers, the service table and the codecs are universally quantified Section variables; reflection "
                        "(reflect.Call) is abstracted into the handler function",
                        "router handlers call ctx.Write at most once (user code)",
                        "the result is 'computed from that request's own arguments' through the handler function of the model; that "
                        "pooled argument objects do not leak state between requests is C20 and is checked here by requests that omit "
                        "fields"],
        "trusted": ["harness/cmd/vh/srvrig.go: in-memory listener (server.ServeListener, existing extension point), raw peers over "
                    "harness/internal/refcodec, gated test services in the three dispatch styles"],
        "level_text": "Theorems for every service table, codec set, handler behaviour, request and completion order: a two-way request "
                      "gets exactly one response stamped with its seq / path / method / serialization type, a one-way request none, a "
                      "heartbeat an echo without any handler; every frame written on a connection answers a request read on that "
                      "connection, and when all requests completed - in any order - each one's frames were written exactly once. The "
                      "model is run against the real server with forced completion orders.",
        "level_note": "Trusted: Coq kernel, extraction, server rig. Modelled, not verified: processOneRequest, handleRequest(ForFunction), "
                      "Context.Write/WriteError, sendResponse.",
    },
    "C07": {
        "kcheck": True,
        "onep": True,
        "rule": "260 (thorough 6000) random request sequences biased to failures (60%): handler error texts {empty, short, multi-line, "
                "non-ASCII, 64 KiB}, panics, unknown service / method / codec, undecodable arguments, at every position of sequences "
                "of 1-6 requests incl. one-way, on 1-3 connections; a third of the cases repeat the failing requests through a real "
                "client.Client and end with a probe call; distinct = distinct model-input line; non-trivial = at least 2 requests",
        "theorems": ["C07_failures_are_reported", "C07_two_way_exactly_one_stamped", "C07_client_sees_the_text"],
        "assumptions": ["ServerErrorFunc / ClientErrorFunc unset (defaults)",
                        "the text of a codec's own decoding error is an input (XDecode)"],
        "trusted": ["harness/cmd/vh/srvrig.go: in-memory listener (server.ServeListener, existing extension point), raw peers over "
                    "harness/internal/refcodec, gated test services in the three dispatch styles"],
        "level_text": "Theorems: for every failure kind the single response has status Error and carries exactly that failure's text "
                      "(the handler's text unchanged; a message containing the panic value), and - composed with the client machine's "
                      "interpretation of an Error-status frame - the caller's call completes with a service error of that text; the "
                      "dispatch of a failing request changes nothing but its own response (no connection or server state in the model "
                      "to kill). Run against the real server and, end to end, a real client.",
        "level_note": "Trusted: Coq kernel, extraction, server rig. Modelled, not verified: handleError, service.call's recover, "
                      "client.input's error branch.",
    },
    "C20": {
        "kcheck": True,
        "onep": True,
        "generated": ["gopools2v", "gowrites2v"],
        "rule": "size classes: findPool / findPutPool compared with the exact-arithmetic model for EVERY size 0..max+2 of 40 "
                "configurations (incl. non-power-of-two min/max; one model line per configuration, ~114k sizes); 300 (thorough 8000) "
                "Get/Put histories with content fingerprints and pointer-distinctness of held buffers; 16 concurrent workers holding "
                "Encode / Zip / Unzip results across further library activity and re-checking fingerprints; server request schedules "
                "that force sync.Pool to hand back the object put last (GOMAXPROCS(1)): one-way warm-up, overlapping requests completed "
                "in reverse order, full then partial arguments, for plain and Reset-able types; distinct = distinct case; non-trivial = "
                "max > min / history / schedule with at least 2 requests",
        "theorems": ["C20_frame_buffers_follow_the_discipline_at_every_site", "C20_get_fits_its_class", "C20_put_is_big_enough", "C20_get_returns_requested_length", "C20_exclusive_ownership",
                     "C20_single_owner", "C20_handle_request_keeps_the_discipline"],
        "assumptions": ["sync.Pool is an oracle: Get may return any object that was put or a new one (the theorem holds for every choice)",
                        "float64 math.Log2 in findPool/findPutPool is tied to the exact model only by the exhaustive per-configuration "
                        "sweep (the set of configurations is sampled)",
                        "content stability of held buffers follows from exclusive ownership (only the owner writes); contents are not "
                        "modelled, they are fingerprinted by the harness"],
        "trusted": ["/repo/util/verif_export.go: VerifFindPoolIndex, VerifFindPutPoolIndex, VerifPoolClassSizes",
                    "harness/cmd/vh/srvrig.go ownership tracking of pooled objects inside the test handlers"],
        "level_text": "Theorems: for every pool configuration and size, a request fits the class it is routed to and a returned buffer is "
                      "at least as large as its class allocates (so Get returns exactly the requested length); for every Get/Put history "
                      "that keeps the discipline and every choice of the pool no object has two owners; handleRequest keeps that "
                      "discipline on every one of its paths (finite case analysis). The exact-arithmetic class functions are compared "
                      "with the float implementation exhaustively per configuration; sharing is hunted with forced pool-reuse schedules.",
        "level_note": "Trusted: Coq kernel, extraction, harness. Modelled, not verified: util.LimitedPool, util.Zip/Unzip, "
                      "protocol.EncodeSlicePointer/PutData, server typePools and handleRequest's Get/Put calls.",
    },
    "C15": {
        "onep": True,
        "generated": ["goplugins2v"],
        "rule": "exhaustive matrix: 6 stage configurations (authentication alone, + accept veto, + post-read reject, + pre-call "
                "reject, none, post-read + pre-call) x ingress {native, gateway, JSON-RPC} x token {missing, wrong, right} x "
                "{heartbeat, one-way} flag combinations x target {reflected method, registered function, unknown service}; plus every "
                "malformed gateway header and the malformed JSON-RPC method; one fresh connection per request; distinct = distinct "
                "model-input line (all are non-trivial)",
        "theorems": ["C15_rejected_never_reaches_a_handler", "C15_any_rejecting_plugin_wherever_registered", "C15_rejecting_stages_stop_at_the_first_rejection", "C15_native_auth_failure_closes", "C15_heartbeat_never_reaches_a_handler",
                     "C15_native_loop_refused_requests_reach_no_handler", "C15_only_failed_authentication_closes"],
        "assumptions": ["a post-read plugin's rejection is a generic error (the rate limiter's ErrReqReachLimit answers and continues)",
                        "the stock plugins under serverplugin/ are exercised through the same stage interfaces, not modelled one by one",
                        "net/http, cmux and httprouter are externals"],
        "trusted": ["tools/goplugins2v (go/ast translator: how each pluginContainer.Do<Stage> loop combines its plugins' verdicts, "
                    "regenerated into Server/PluginsGen.v on every run)",
                    "harness/cmd/vh/c15.go: a real server on loopback TCP (port multiplexer, HTTP gateway, JSON-RPC endpoint running), "
                    "raw TCP peers over refcodec, net/http clients with keep-alives disabled (one fresh connection per request)"],
        "level_text": "Theorem over the whole (finite) space of ingresses, stage configurations, tokens and flags, and for every service "
                      "table and handler: a rejected connection or request runs no handler and yields no result; a native connection "
                      "that failed authentication is closed; a heartbeat flag never opens a path to a handler. The model is compared "
                      "with a real server on loopback TCP over the exhaustive matrix.",
        "level_note": "Trusted: Coq kernel, extraction, TCP harness. Modelled, not verified: serveConn's auth/plugin branches, "
                      "handleGatewayRequest, handleJSONRPCRequest, the accept filter of the HTTP sub-listeners.",
    },
    "C19": {
        "onep": True,
        "kcheck": True,
        "rule": "120 (thorough 3000) random requests (existing / unknown / dotted service names, unknown methods, handler errors with "
                "header-safe texts, arguments of the wrong type, 0-3 metadata entries with URL-unsafe characters, arbitrary message ids, "
                "authentication on or off) each sent through three fresh connections - native, HTTP gateway, JSON-RPC - and compared "
                "pairwise (reply, error text, metadata seen by the handler, response metadata); plus every malformed gateway header; "
                "plus the header level: 1500 (thorough 60000) header sets drawn from grammars of valid and invalid ids, types, "
                "flags, query strings (bad escapes, semicolons, duplicates, empty keys), paths and bodies given to "
                "HTTPRequest2RpcxRequest, 250 (4000) sent through the real gateway and 120 (1500) through the real JSON-RPC endpoint, "
                "the request the server built being read at the post-read stage and compared field by field with the model's; "
                "distinct = distinct model-input line",
        "theorems": ["C19_http_ingress_equals_native", "C19_malformed_rejected",
                     "C19_gateway_builds_the_request_that_was_sent", "C19_metadata_query_round_trip",
                     "C19_gateway_rejects_missing_method", "C19_gateway_rejects_missing_serialize_type",
                     "C19_gateway_rejects_missing_path", "C19_gateway_rejects_non_numeric_id", "C19_an_id_that_parses_is_decimal",
                     "C19_gateway_rejects_non_numeric_type", "C19_gateway_rejects_unparsable_metadata",
                     "C19_header_level_malformed_never_reaches_a_handler", "C19_gateway_forwards_what_was_sent",
                     "C19_jsonrpc_split_at_last_dot", "C19_jsonrpc_rejects_no_service"],
        "assumptions": ["router handlers (AddHandler) are outside the quantifier: they write to the native connection",
                        "error texts are header-safe (no CR/LF, no leading/trailing blanks); gateway compression headers are outside "
                        "the property", "strconv.ParseUint / Atoi, url.QueryUnescape / ParseQuery / QueryEscape / Values.Encode are "
                        "modelled in Server/Gateway.v (Go 1.23 semantics) and tied to the Go library only by the correspondence runs; "
                        "net/http's own header canonicalisation and transport are outside the model"],
        "trusted": ["harness/cmd/vh/c19front.go: header-set generators, the post-read recorder plugin",
                    "harness/cmd/vh/c15.go: a real server on loopback TCP (port multiplexer, HTTP gateway, JSON-RPC endpoint running), "
                    "raw TCP peers over refcodec, net/http clients with keep-alives disabled (one fresh connection per request)"],
        "level_text": "Theorem: for every service table, handler and stage configuration, a two-way request that no stage rejects yields "
                      "through the gateway and through JSON-RPC exactly the native outcome (same reply or same error text, same handler "
                      "invocation), and malformed gateway / JSON-RPC requests are rejected without reaching a handler. Compared pairwise "
                      "on a real server over three fresh connections per request. Header level: for every request (any sequence number "
                      "below 2^64, any path / method / metadata / payload bytes) the gateway builds exactly the request whose headers a "
                      "client sent (decimal and query-string round trips proved), every malformed header set is rejected before any "
                      "stage, JSON-RPC method names are split at the last dot.",
        "level_note": "Trusted: Coq kernel, extraction, TCP harness, net/http. Modelled, not verified: gateway.go, converter.go, "
                      "jsonrpc2.go, and the strconv / net/url functions they call.",
    },
    "C16": {
        "generated": ["godone2v"],
        "onep": True,
        "kcheck": True,
        "rule": "forced schedules on the in-memory server rig: systematic part = one request of every kind (normal, one-way, "
                "heartbeat, rate-limited, failing authentication, rejected by a plugin) with Shutdown begun at every point of "
                "its path (read / dispatch / handler start / response write / un-count), goroutine-per-request and worker-pool "
                "dispatch, x {one Shutdown, two Shutdowns, a connection arriving during the shutdown}, followed by a late "
                "request and a late connection; random part = 120 (thorough 3000) schedules of 1-4 requests on 1-3 connections "
                "with Shutdown at a random point and occasional second Shutdown / Close / deadline expiry / peer disconnect; "
                "non-trivial = a Shutdown is issued with at least one request in the schedule",
        "theorems": ["C16_drains_what_was_read", "C16_drained_state", "C16_connections_closed_after_the_wait", "C16_count_exact",
                     "C16_wait_ends_when_idle", "C16_nothing_starts_after_completion", "C16_serve_returns_server_closed",
                     "C16_serve_returns_after_completion", "C16_done_closed_at_most_once", "C16_one_shutdown_runs",
                     "C16_later_shutdown_returns_at_once", "C16_every_closing_of_done_stands_under_the_mutex", "C16_shutdown_and_close_never_close_done_twice"],
        "assumptions": ["'read' is the completion of readRequest's decode-and-count step: the few instructions between the last byte "
                        "being consumed and the atomic increment (no call-out, no lock, no blocking operation) are one model event "
                        "and cannot be exhibited by the model",
                        "AsyncWrite is outside the property; TCP half-close (CloseRead) is replaced by in-memory pipes",
                        "requests read after the wait loop ended and before the connections are closed ('late' in the model) are in "
                        "neither clause of the property",
                        "the HTTP gateway / JSON-RPC servers closed inside Shutdown are externals (net/http)"],
        "trusted": ["harness/cmd/vh/c16.go: gates in PostConnAccept / PreRead / PostRead / PostWriteResponse plugins, the hook "
                    "server.process.enter (or a gated custom pool), handler entry, the connection's Write; polls of the wait loop observed "
                    "through the server's logger; shutdownPollInterval shortened through the export; the static action -> model-event "
                    "expansion (by request kind only)"],
        "level_text": "Theorems over every schedule (every interleaving of any number of connections, requests of six kinds, Shutdown "
                      "callers, Close calls, peer disconnects and deadline expiries): the in-progress count is exact; a Shutdown that "
                      "returns nil has drained everything read before its wait loop ended, each response written to a still-open "
                      "connection; nothing is read and no handler starts after completion; Serve returns ErrServerClosed after doneChan "
                      "is closed; doneChan is closed at most once and later Shutdown calls return at once. The model is compared step by "
                      "step (count, gate reached per request, responses delivered, state of every Shutdown call, Serve) with the real "
                      "server on forced schedules.",
        "level_note": "Trusted: Coq kernel, extraction, the forced-schedule rig and its hooks. Modelled, not verified: Shutdown, Close, "
                      "closeDoneChanLocked, serveListener's exit, serveConn's loop and exit, readRequest's counting, processOneRequest's "
                      "un-counting. Partial where named under assumptions (the decode-to-increment window).",
    },
    "C08": {
        "onep": True,
        "generated": ["gowrites2v"],
        "rule": "forced write schedules: every transport Write of the connection under test is held before it touches its bytes; "
                "writers (server side: responses, heartbeat echoes, server pushes, sync / async write mode, with / without worker "
                "pool; client side: Go, one-way Go, SendRaw) are started one at a time and their writes let through in a chosen "
                "order with further writers started in between; payloads 0 B - 70 KB (thorough: 1 MiB), on and off the buffer "
                "pool's size classes; the peer reads in random-sized pieces; 40 % of the cases on a single P (the pool then hands "
                "a returned buffer out again at once). systematic part: (one writer finishes, two overlap and are released in "
                "reverse order) for every triple of writer kinds; random part 150 (thorough 4000). non-trivial = at least two writes",
        "theorems": ["C08_stream_is_whole_frames", "C08_peer_decodes_what_was_sent", "C08_each_frame_at_most_once",
                     "C08_discipline_suffices", "C08_every_site_follows_the_discipline"],
        "assumptions": ["net.Conn: the bytes of one Write call are contiguous in the stream (the transport's own write lock), and "
                        "the reader sees the concatenation of the writes however it is segmented (io.ReadFull)",
                        "sync.Pool hands out only buffers that were put (any of them, or a new one)",
                        "kcp / quic / websocket transports implement net.Conn with the same guarantee (not exercised)"],
        "trusted": ["tools/gowrites2v (go/ast translator: every function that materialises a frame with EncodeSlicePointer becomes the "
                    "list of its pool / transport operations per control-flow path, helpers of the same package inlined; regenerated on "
                    "every run into Wire/SharedGen.v; refuses anything else that touches the buffer)",
                    "harness/cmd/vh/c08.go: the gate in front of the transport, the independent frame splitter (refcodec), the frame "
                    "prediction (what each writer must send, built without the library's encoder)"],
        "level_text": "Theorem for any number of writers, any messages, every schedule of their pool and transport operations and every "
                      "choice of pooled buffer: if every writer follows the discipline Get; Fill; Write; Put (checked, by computation in "
                      "the kernel, for every control-flow path of every write site regenerated from the Go source on each run), the "
                      "stream is the concatenation of whole frames, one per write, each the frame its writer sent, and the reference "
                      "decoder recovers exactly the messages sent. The stream of the real client / server under forced write orders is "
                      "compared byte for byte (hash) with the model's.",
        "level_note": "Trusted: Coq kernel (vm_compute for the finite site list), the translator gowrites2v, extraction, the harness. "
                      "Modelled, not verified: client.send / SendRaw, Server.sendResponse / SendMessage / heartbeat echo, Context.Write / "
                      "WriteError (as operation sequences), EncodeSlicePointer (byte level, shared with C01), bufferPool (as a set of "
                      "free buffers).",
    },
    "C09": {
        "onep": True,
        "generated": ["gopools2v", "gowrites2v"],
        "rule": "real client -> real server over 5 transports {in-memory, tcp, unix, http-connect, websocket} x 5 codecs {raw bytes, JSON, "
                "protobuf, MessagePack, Thrift} x compression {none, gzip}: sequential calls with argument sizes {0, 1, 700..1030 "
                "(both sides of the 1024-byte threshold for every codec's overhead), 5000, 64 Ki, 1 Mi (in-memory; all transports in the "
                "thorough tier)}, 0-3 binary-safe metadata pairs (NUL, non-UTF-8, '=&%', empty and 2000-byte values), 10 % one-way, 50 % "
                "with a Reply value that already holds something; then 6 x 4 (thorough 12 x 10) concurrent calls per client. On the "
                "in-memory transport both directions are tapped and the frames compared with the model's. every case is distinct",
        "theorems": ["C09_end_to_end", "C09_compression_is_invisible", "C09_concurrent_callers", "C09_pooled_arguments_have_one_owner"],
        "assumptions": ["the serialization codecs round-trip and only the zero value encodes to nothing (premises on encoding/json, "
                        "gogo/protobuf, vmihailenco/msgpack, apache/thrift; exercised, not proved)",
                        "compress/gzip inverts (premise; the harness checks that every compressed payload on the wire unzips to the codec's bytes)",
                        "kcp and quic transports need build tags / packages that are not available offline: not exercised",
                        "Reply / argument types are the caller's: a type whose own Unmarshal keeps old fields (omitempty JSON, optional thrift "
                        "fields) is outside the property"],
        "trusted": ["harness/cmd/vh/c09.go: the recording service, the tap on the in-memory transport, hand-written protobuf and thrift "
                    "message types with a variable-size field", "tools/gowrites2v (for the concurrent-callers theorem, shared with C08)"],
        "level_text": "Theorems for all values, metadata, codecs (as round-tripping functions), compress settings, sizes below 4 GiB and "
                      "buffer / decoder-object histories: the handler is given the caller's arguments and metadata, the caller the "
                      "handler's reply and response metadata; the views do not depend on the compress setting; under any schedule of "
                      "concurrent callers on one connection every handler is given its own caller's arguments. Built on the wire-codec "
                      "round trip (C01/C02) and the shared-connection theorem (C08). Compared with real calls over five transports; request "
                      "and response frames compared byte for byte on the tapped in-memory transport.",
        "level_note": "Trusted: Coq kernel, extraction, the harness, the codec and gzip libraries (premises). Modelled, not verified: "
                      "client.send (request construction, compress threshold), handleRequest / sendResponse / Message.Clone (response "
                      "construction), client input (reply decoding, empty payload), share metadata keys.",
    },
    "C12": {
        "kcheck": True,
        "rule": "exhaustive weight vectors (quick: n<=3,w<=4 and n=4,w<=2; thorough: n<=4,w<=6) from a random window "
                "offset, round-robin sets n=0..8 from every cursor offset, and random update/selection histories over a "
                "weight-metadata grammar; distinct = distinct model-input line; non-trivial = at least 2 servers and a "
                "selection run covering a full window",
        "theorems": ["C12_round_robin_exact", "C12_round_robin_after_any_history", "C12_weighted_ring_counts",
                     "C12_weighted_window_proportional", "C12_update_is_fresh_build", "C12_equal_weights_is_round_robin",
                     "C12_weight_from_raw_metadata"],
        "assumptions": ["Go map iteration order is an input (slice order read through client.VerifSelectorOrder)",
                        "url.ParseQuery / strconv.Atoi are modelled (Server/Gateway.v, XClient/Metadata.v) and compared with "
                        "createWeighted on raw metadata strings (wraw lines); the selection histories still take the parsed weights",
                        "weights are unbounded integers in the model; sums beyond the int range / ring allocations that "
                        "exhaust memory are not modelled"],
        "trusted": ["/repo/client/verif_export.go (build tag verif): VerifNewSelector, VerifSelectorOrder, VerifCreateWeighted"],
        "level_text": "Theorems for all n, all non-negative weight vectors with positive sum, all cursor positions and all "
                      "update/selection histories (ring count = weight by invariant induction; windows of a cyclic cursor "
                      "are rotations) about the Gallina model of roundRobinSelector / weightedRoundRobinSelector; the model "
                      "is run against the real selectors on exhaustive small scopes and random histories on every check.",
        "level_note": "Trusted: Coq kernel; extraction (ExtrOcamlBasic only); the hand-written model's fidelity is checked by "
                      "differential execution, not proved; map iteration order and url/strconv parsing are inputs.",
    },
}

NOT_APPLICABLE = {}
