"""Per-property configuration of ./check (what is compiled, what the evidence says)."""

PROPS = {
    "C12": {
        "rule": "exhaustive weight vectors (quick: n<=3,w<=4 and n=4,w<=2; thorough: n<=4,w<=6) from a random window "
                "offset, round-robin sets n=0..8 from every cursor offset, and random update/selection histories over a "
                "weight-metadata grammar; distinct = distinct model-input line; non-trivial = at least 2 servers and a "
                "selection run covering a full window",
        "theorems": ["C12_round_robin_exact", "C12_round_robin_after_any_history", "C12_weighted_ring_counts",
                     "C12_weighted_window_proportional", "C12_update_is_fresh_build"],
        "assumptions": ["Go map iteration order is an input (slice order read through client.VerifSelectorOrder)",
                        "url.ParseQuery/strconv.Atoi results are inputs to the model",
                        "weights are unbounded integers in the model; sums beyond the int range / ring allocations that "
                        "exhaust memory are not modelled"],
        "trusted": ["/repo/client/verif_export.go (build tag verif): VerifNewSelector, VerifSelectorOrder"],
        "level_text": "Theorems for all n, all non-negative weight vectors with positive sum, all cursor positions and all "
                      "update/selection histories (ring count = weight by invariant induction; windows of a cyclic cursor "
                      "are rotations) about the Gallina model of roundRobinSelector / weightedRoundRobinSelector; the model "
                      "is run against the real selectors on exhaustive small scopes and random histories on every check.",
        "level_note": "Trusted: Coq kernel; extraction (ExtrOcamlBasic only); the hand-written model's fidelity is checked by "
                      "differential execution, not proved; map iteration order and url/strconv parsing are inputs.",
    },
}

NOT_APPLICABLE = {}
