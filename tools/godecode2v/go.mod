module godecode2v

go 1.23.0
