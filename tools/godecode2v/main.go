// godecode2v translates the two bounds-checked readers of the frame decoder in protocol/message.go -
// decodeMetadata and the `section` closure of Message.Decode - into Gallina definitions over the Go-slice
// model of Wire/Codec.v (Wire/DecodeGen.v).  It understands exactly the statement language those two pieces of
// code use:
//
//	if <cond> { return <zero>, ErrX }            x := binary.BigEndian.Uint32(data[lo : hi])
//	n = n + e                                    k := string(data[lo : hi])      sec := data[lo : hi]
//	m[k] = v                                     return sec, nil
//
// with conditions built from < > || over uint32 / int expressions (+, -, len(data), conversions, literals), and
// refuses (exit 2) anything else - a call to another function, another statement form, another loop shape - so
// that a rewrite it cannot translate is reported instead of being silently mistranslated.  uint32 / int
// subtraction is emitted as subtraction on N: the guards that precede every subtraction are part of what is
// translated, and Wire/CodecProofs.v proves that no slice expression of the translated code can fail.
//
//	godecode2v /repo/protocol/message.go > DecodeGen.v
package main

import (
	"fmt"
	"go/ast"
	"go/parser"
	"go/token"
	"os"
	"strings"
)

var fset = token.NewFileSet()

func fail(p token.Pos, format string, a ...interface{}) {
	fmt.Fprintf(os.Stderr, "godecode2v: %s: cannot translate: %s\n", fset.Position(p), fmt.Sprintf(format, a...))
	os.Exit(2)
}

type tr struct {
	data string            // name of the byte slice being read
	lenv string            // Gallina term for len(data) (s_len data), or the name of the l parameter
	errs map[string]string // Go error identifier -> derr constructor
}

// integer expression
func (t *tr) expr(e ast.Expr) string {
	switch v := e.(type) {
	case *ast.ParenExpr:
		return t.expr(v.X)
	case *ast.BasicLit:
		if v.Kind != token.INT {
			fail(v.Pos(), "literal %s", v.Value)
		}
		return v.Value
	case *ast.Ident:
		return v.Name
	case *ast.CallExpr:
		if id, ok := v.Fun.(*ast.Ident); ok && len(v.Args) == 1 {
			switch id.Name {
			case "int", "uint32", "uint64": // widening / same-width conversions of values below 2^32
				return t.expr(v.Args[0])
			case "len":
				if a, ok := v.Args[0].(*ast.Ident); ok && a.Name == t.data {
					return "(s_len " + t.data + ")"
				}
			}
		}
		fail(v.Pos(), "call in an integer expression")
	case *ast.BinaryExpr:
		x, y := t.expr(v.X), t.expr(v.Y)
		switch v.Op {
		case token.ADD:
			return fmt.Sprintf("(%s + %s)", x, y)
		case token.SUB:
			return fmt.Sprintf("(%s - %s)", x, y)
		}
		fail(v.Pos(), "operator %s", v.Op)
	}
	fail(e.Pos(), "integer expression %T", e)
	return ""
}

// boolean condition
func (t *tr) cond(e ast.Expr) string {
	switch v := e.(type) {
	case *ast.ParenExpr:
		return t.cond(v.X)
	case *ast.BinaryExpr:
		switch v.Op {
		case token.LOR:
			return fmt.Sprintf("(%s || %s)", t.cond(v.X), t.cond(v.Y))
		case token.LSS:
			return fmt.Sprintf("(%s <? %s)", t.expr(v.X), t.expr(v.Y))
		case token.GTR:
			return fmt.Sprintf("(%s <? %s)", t.expr(v.Y), t.expr(v.X))
		}
		fail(v.Pos(), "comparison %s", v.Op)
	}
	fail(e.Pos(), "condition %T", e)
	return ""
}

// data[lo : hi]
func (t *tr) slice(e ast.Expr) (string, string) {
	s, ok := e.(*ast.SliceExpr)
	if !ok || s.Slice3 || s.Low == nil || s.High == nil {
		fail(e.Pos(), "expected %s[lo : hi]", t.data)
	}
	if id, ok := s.X.(*ast.Ident); !ok || id.Name != t.data {
		fail(e.Pos(), "slice of something other than %s", t.data)
	}
	return t.expr(s.Low), t.expr(s.High)
}

func isSel(e ast.Expr, path ...string) bool {
	for i := len(path) - 1; i > 0; i-- {
		s, ok := e.(*ast.SelectorExpr)
		if !ok || s.Sel.Name != path[i] {
			return false
		}
		e = s.X
	}
	id, ok := e.(*ast.Ident)
	return ok && id.Name == path[0]
}

// the statements of a loop body / closure body, translated right to left; `last` renders the tail
func (t *tr) stmts(list []ast.Stmt, ind string, last func(tail ast.Stmt, ind string) string) string {
	if len(list) == 0 {
		return last(nil, ind)
	}
	st := list[0]
	rest := func() string { return t.stmts(list[1:], ind, last) }
	switch v := st.(type) {
	case *ast.IfStmt:
		if v.Init != nil || v.Else != nil || len(v.Body.List) != 1 {
			fail(v.Pos(), "if statement with init / else / several statements")
		}
		ret, ok := v.Body.List[0].(*ast.ReturnStmt)
		if !ok || len(ret.Results) != 2 {
			fail(v.Pos(), "the body of a guard must be `return <value>, <error>`")
		}
		id, ok := ret.Results[1].(*ast.Ident)
		if !ok || t.errs[id.Name] == "" {
			fail(ret.Pos(), "unknown error value in a guard")
		}
		return fmt.Sprintf("%sif %s then Err %s else\n%s", ind, t.cond(v.Cond), t.errs[id.Name], rest())
	case *ast.AssignStmt:
		if len(v.Lhs) != 1 || len(v.Rhs) != 1 {
			fail(v.Pos(), "multiple assignment")
		}
		// m[k] = v
		if ix, ok := v.Lhs[0].(*ast.IndexExpr); ok {
			k, ok1 := ix.Index.(*ast.Ident)
			val, ok2 := v.Rhs[0].(*ast.Ident)
			if !ok1 || !ok2 || v.Tok != token.ASSIGN || len(list) != 1 {
				fail(v.Pos(), "map store must be the last statement, of the form m[k] = v")
			}
			return last(st, ind) + "(* " + k.Name + " " + val.Name + " *)"
		}
		lhs, ok := v.Lhs[0].(*ast.Ident)
		if !ok {
			fail(v.Pos(), "assignment target")
		}
		switch r := v.Rhs[0].(type) {
		case *ast.CallExpr:
			// x := binary.BigEndian.Uint32(data[lo:hi])
			if isSel(r.Fun, "binary", "BigEndian", "Uint32") && len(r.Args) == 1 {
				lo, hi := t.slice(r.Args[0])
				return fmt.Sprintf("%ss4 <- of_opt (reslice %s %s %s) ;;\n%s%s <- of_opt (be32 s4) ;;\n%s", ind, t.data, lo, hi, ind, lhs.Name, rest())
			}
			// k := string(data[lo:hi])
			if id, ok := r.Fun.(*ast.Ident); ok && id.Name == "string" && len(r.Args) == 1 {
				lo, hi := t.slice(r.Args[0])
				return fmt.Sprintf("%s%s <- of_opt (reslice %s %s %s) ;;\n%s", ind, lhs.Name, t.data, lo, hi, rest())
			}
			fail(r.Pos(), "call on the right-hand side of an assignment")
		case *ast.SliceExpr:
			lo, hi := t.slice(r)
			return fmt.Sprintf("%s%s <- of_opt (reslice %s %s %s) ;;\n%s", ind, lhs.Name, t.data, lo, hi, rest())
		default:
			if v.Tok != token.ASSIGN {
				fail(v.Pos(), "declaration of %s by an integer expression inside the translated block", lhs.Name)
			}
			return fmt.Sprintf("%slet %s := %s in\n%s", ind, lhs.Name, t.expr(v.Rhs[0]), rest())
		}
	case *ast.ReturnStmt:
		if len(list) != 1 {
			fail(v.Pos(), "return in the middle of the block")
		}
		return last(st, ind)
	}
	fail(st.Pos(), "statement %T", st)
	return ""
}

func main() {
	if len(os.Args) != 2 {
		fmt.Fprintln(os.Stderr, "usage: godecode2v <protocol/message.go>")
		os.Exit(2)
	}
	f, err := parser.ParseFile(fset, os.Args[1], nil, 0)
	if err != nil {
		fmt.Fprintln(os.Stderr, "godecode2v:", err)
		os.Exit(2)
	}
	var out strings.Builder
	out.WriteString("(* GENERATED by tools/godecode2v from protocol/message.go on every run - do not edit.\n")
	out.WriteString("   decodeMetadata and the `section` closure of Message.Decode, statement by statement. *)\n")
	out.WriteString("From Coq Require Import List NArith Bool.\nFrom RPCX Require Import Wire.Bytes Wire.Codec.\nImport ListNotations.\nOpen Scope N_scope.\n\n")
	errs := map[string]string{"ErrMetaKVMissing": "MetaKVMissing", "ErrInvalidFrame": "InvalidFrame"}
	var haveMeta, haveSection bool
	for _, d := range f.Decls {
		fd, ok := d.(*ast.FuncDecl)
		if !ok || fd.Body == nil {
			continue
		}
		switch {
		case fd.Recv == nil && fd.Name.Name == "decodeMetadata":
			haveMeta = true
			ps := fd.Type.Params.List
			if len(ps) != 2 || len(ps[0].Names) != 1 || len(ps[1].Names) != 1 {
				fail(fd.Pos(), "decodeMetadata: parameter list")
			}
			l, data := ps[0].Names[0].Name, ps[1].Names[0].Name
			t := &tr{data: data, errs: errs}
			b := fd.Body.List
			// m := make(map[string]string, _); n := uint32(0); for n < l {...}; return m, nil
			if len(b) != 4 {
				fail(fd.Pos(), "decodeMetadata: expected `m := make(...); n := uint32(0); for n < l {...}; return m, nil`")
			}
			mk, ok1 := b[0].(*ast.AssignStmt)
			ni, ok2 := b[1].(*ast.AssignStmt)
			loop, ok3 := b[2].(*ast.ForStmt)
			ret, ok4 := b[3].(*ast.ReturnStmt)
			if !ok1 || !ok2 || !ok3 || !ok4 || loop.Init != nil || loop.Post != nil || len(ret.Results) != 2 {
				fail(fd.Pos(), "decodeMetadata: shape of the body")
			}
			if c, ok := mk.Rhs[0].(*ast.CallExpr); !ok || !func() bool { id, ok := c.Fun.(*ast.Ident); return ok && id.Name == "make" }() {
				fail(mk.Pos(), "decodeMetadata: the map must be a fresh make(...)")
			}
			m := mk.Lhs[0].(*ast.Ident).Name
			n := ni.Lhs[0].(*ast.Ident).Name
			if t.expr(ni.Rhs[0]) != "0" {
				fail(ni.Pos(), "decodeMetadata: the offset must start at 0")
			}
			if r0, ok := ret.Results[0].(*ast.Ident); !ok || r0.Name != m {
				fail(ret.Pos(), "decodeMetadata: must return the map it filled")
			}
			if r1, ok := ret.Results[1].(*ast.Ident); !ok || r1.Name != "nil" {
				fail(ret.Pos(), "decodeMetadata: must end with a nil error")
			}
			body := t.stmts(loop.Body.List, "      ", func(tail ast.Stmt, ind string) string {
				as, ok := tail.(*ast.AssignStmt)
				if !ok {
					fail(loop.Body.End(), "decodeMetadata: the loop body must end with the map store")
				}
				ix := as.Lhs[0].(*ast.IndexExpr)
				if id, ok := ix.X.(*ast.Ident); !ok || id.Name != m {
					fail(as.Pos(), "decodeMetadata: store into something other than the result map")
				}
				k, v := ix.Index.(*ast.Ident).Name, as.Rhs[0].(*ast.Ident).Name
				return fmt.Sprintf("%sgen_dec_meta fuel' %s %s %s (acc ++ [(contents %s, contents %s)]) ", ind, l, data, n, k, v)
			})
			fmt.Fprintf(&out, "(* func decodeMetadata(%s uint32, %s []byte): the map is the list of pairs in order of appearance *)\n", l, data)
			fmt.Fprintf(&out, "Fixpoint gen_dec_meta (fuel : nat) (%s : N) (%s : slice) (%s : N) (acc : list (bytes * bytes))\n  : outcome (list (bytes * bytes)) :=\n", l, data, n)
			fmt.Fprintf(&out, "  if %s then\n    match fuel with\n    | O => Panic\n    | S fuel' =>\n%s\n    end\n  else Ok acc.\n\n", t.cond(loop.Cond), body)
		case fd.Recv != nil && fd.Name.Name == "Decode":
			// find: section := func() ([]byte, error) { ... }
			ast.Inspect(fd.Body, func(nd ast.Node) bool {
				as, ok := nd.(*ast.AssignStmt)
				if !ok || len(as.Lhs) != 1 || len(as.Rhs) != 1 {
					return true
				}
				id, ok := as.Lhs[0].(*ast.Ident)
				fl, ok2 := as.Rhs[0].(*ast.FuncLit)
				if !ok || !ok2 || id.Name != "section" {
					return true
				}
				haveSection = true
				t := &tr{data: "data", errs: errs}
				body := t.stmts(fl.Body.List, "  ", func(tail ast.Stmt, ind string) string {
					ret, ok := tail.(*ast.ReturnStmt)
					if !ok || len(ret.Results) != 2 {
						fail(fl.End(), "section: must end with `return sec, nil`")
					}
					s, ok1 := ret.Results[0].(*ast.Ident)
					e, ok2 := ret.Results[1].(*ast.Ident)
					if !ok1 || !ok2 || e.Name != "nil" {
						fail(ret.Pos(), "section: must end with `return sec, nil`")
					}
					return fmt.Sprintf("%sOk (%s, n)", ind, s.Name)
				})
				fmt.Fprintf(&out, "(* the closure `section` of Message.Decode: the next length-prefixed section of data, from offset n *)\n")
				fmt.Fprintf(&out, "Definition gen_section (data : slice) (n : N) : outcome (slice * N) :=\n%s.\n\n", body)
				return false
			})
		}
	}
	if !haveMeta {
		fmt.Fprintln(os.Stderr, "godecode2v: cannot translate: func decodeMetadata not found")
		os.Exit(2)
	}
	if !haveSection {
		fmt.Fprintln(os.Stderr, "godecode2v: cannot translate: the closure `section` of Message.Decode not found")
		os.Exit(2)
	}
	fmt.Print(out.String())
}
