// gopools2v: for the two request handlers of server/server.go that take their argument and reply objects from
// reflectTypePools (handleRequest, handleRequestForFunction) it enumerates every syntactic control-flow path and
// emits, per path, what happens to the two pooled objects (Pool/PoolSitesGen.v):
//
//	v := reflectTypePools.Get(x.ArgType / x.ReplyType)   =>  GGetArg / GGetReply
//	reflectTypePools.Put(x.ArgType / x.ReplyType, v)     =>  GPutArg / GPutReply
//	any other mention of v (a call argument, an assignment source) other than a comparison with nil
//	                                                      =>  GUseArg / GUseReply
//
// if / else branch both ways (conditions are not interpreted: every syntactic path is emitted), return ends a path,
// deferred calls and deferred function literals run at the return, in reverse order.  Loops, switches, selects, go
// statements and function literals that mention a pooled object are refused (exit status 2).
//
//	gopools2v /repo/server/server.go > PoolSitesGen.v
package main

import (
	"fmt"
	"go/ast"
	"go/parser"
	"go/token"
	"os"
	"strings"
)

var fset = token.NewFileSet()

func fail(p token.Pos, format string, a ...interface{}) {
	fmt.Fprintf(os.Stderr, "gopools2v: %s: cannot translate: %s\n", fset.Position(p), fmt.Sprintf(format, a...))
	os.Exit(2)
}

type path struct {
	ops    []string
	defers [][]string // each deferred call's ops, in order of the defer statements
	done   bool
}

type tr struct {
	kind map[string]string // variable -> "Arg" | "Reply"
}

// poolCall recognises reflectTypePools.Get(x.T) / reflectTypePools.Put(x.T, v)
func poolCall(e ast.Expr) (fn, typ string, v ast.Expr, ok bool) {
	c, isCall := e.(*ast.CallExpr)
	if !isCall {
		return
	}
	s, isSel := c.Fun.(*ast.SelectorExpr)
	if !isSel {
		return
	}
	id, isId := s.X.(*ast.Ident)
	if !isId || id.Name != "reflectTypePools" || (s.Sel.Name != "Get" && s.Sel.Name != "Put") {
		return
	}
	if len(c.Args) < 1 {
		fail(c.Pos(), "pool call without a type")
	}
	ts, isSel2 := c.Args[0].(*ast.SelectorExpr)
	if !isSel2 || (ts.Sel.Name != "ArgType" && ts.Sel.Name != "ReplyType") {
		fail(c.Pos(), "pool call whose type is not x.ArgType / x.ReplyType")
	}
	typ = strings.TrimSuffix(ts.Sel.Name, "Type")
	if s.Sel.Name == "Put" {
		if len(c.Args) != 2 {
			fail(c.Pos(), "Put with %d arguments", len(c.Args))
		}
		v = c.Args[1]
	}
	return s.Sel.Name, typ, v, true
}

// ops of an expression, in evaluation order (approximated by source order)
func (t *tr) exprOps(e ast.Node) []string {
	var ops []string
	if e == nil {
		return nil
	}
	ast.Inspect(e, func(n ast.Node) bool {
		switch v := n.(type) {
		case *ast.FuncLit:
			if t.mentions(v) {
				fail(v.Pos(), "a function literal mentions a pooled object")
			}
			return false
		case *ast.BinaryExpr:
			// v == nil / v != nil is not a use
			if v.Op == token.EQL || v.Op == token.NEQ {
				if isNil(v.X) || isNil(v.Y) {
					other := v.X
					if isNil(v.X) {
						other = v.Y
					}
					if id, ok := other.(*ast.Ident); ok && t.kind[id.Name] != "" {
						return false
					}
				}
			}
		case *ast.CallExpr:
			if fn, typ, arg, ok := poolCall(v); ok {
				if fn == "Get" {
					fail(v.Pos(), "reflectTypePools.Get outside `v := reflectTypePools.Get(...)`")
				}
				id, isId := arg.(*ast.Ident)
				if !isId || t.kind[id.Name] == "" {
					fail(v.Pos(), "Put of something that was not taken from the pool in this function")
				}
				if t.kind[id.Name] != typ {
					fail(v.Pos(), "Put of %s under the other type's pool", id.Name)
				}
				ops = append(ops, "GPut"+typ)
				return false
			}
		case *ast.Ident:
			if k := t.kind[v.Name]; k != "" {
				ops = append(ops, "GUse"+k)
			}
		}
		return true
	})
	return ops
}

func isNil(e ast.Expr) bool { id, ok := e.(*ast.Ident); return ok && id.Name == "nil" }

func (t *tr) mentions(n ast.Node) bool {
	found := false
	ast.Inspect(n, func(x ast.Node) bool {
		if id, ok := x.(*ast.Ident); ok && (t.kind[id.Name] != "" || id.Name == "reflectTypePools") {
			found = true
		}
		return !found
	})
	return found
}

func extend(ps []path, ops []string) []path {
	if len(ops) == 0 {
		return ps
	}
	out := make([]path, len(ps))
	for i, p := range ps {
		if p.done {
			out[i] = p
			continue
		}
		q := path{ops: append(append([]string{}, p.ops...), ops...), defers: p.defers}
		out[i] = q
	}
	return out
}

func finish(p path) path {
	ops := append([]string{}, p.ops...)
	for i := len(p.defers) - 1; i >= 0; i-- {
		ops = append(ops, p.defers[i]...)
	}
	return path{ops: ops, done: true}
}

func (t *tr) block(list []ast.Stmt, ps []path) []path {
	for _, s := range list {
		ps = t.stmt(s, ps)
	}
	return ps
}

func (t *tr) stmt(s ast.Stmt, ps []path) []path {
	switch v := s.(type) {
	case *ast.AssignStmt:
		// v := reflectTypePools.Get(x.T)
		if len(v.Rhs) == 1 {
			if fn, typ, _, ok := poolCall(v.Rhs[0]); ok && fn == "Get" {
				id, isId := v.Lhs[0].(*ast.Ident)
				if len(v.Lhs) != 1 || !isId {
					fail(v.Pos(), "the result of reflectTypePools.Get must go into one variable")
				}
				if old, had := t.kind[id.Name]; had && old != typ {
					fail(v.Pos(), "variable %s holds objects of both pools", id.Name)
				}
				t.kind[id.Name] = typ
				return extend(ps, []string{"GGet" + typ})
			}
		}
		var ops []string
		for _, r := range v.Rhs {
			ops = append(ops, t.exprOps(r)...)
		}
		// the left-hand side: re-assigning a pooled variable (argv, err = plugins.DoPreCall(..., argv)) keeps its name
		return extend(ps, ops)
	case *ast.ExprStmt:
		return extend(ps, t.exprOps(v.X))
	case *ast.DeclStmt, *ast.IncDecStmt, *ast.EmptyStmt:
		if t.mentions(v) {
			fail(v.Pos(), "declaration mentions a pooled object")
		}
		return ps
	case *ast.ReturnStmt:
		var ops []string
		for _, r := range v.Results {
			ops = append(ops, t.exprOps(r)...)
		}
		ps = extend(ps, ops)
		out := make([]path, len(ps))
		for i, p := range ps {
			if p.done {
				out[i] = p
			} else {
				out[i] = finish(p)
			}
		}
		return out
	case *ast.DeferStmt:
		var dops []string
		if fl, ok := v.Call.Fun.(*ast.FuncLit); ok {
			sub := &tr{kind: t.kind}
			dps := sub.block(fl.Body.List, []path{{}})
			if len(dps) != 1 {
				fail(v.Pos(), "a deferred function literal that branches on a pooled object")
			}
			dops = dps[0].ops
		} else {
			dops = t.exprOps(v.Call)
		}
		if len(dops) == 0 {
			return ps
		}
		out := make([]path, len(ps))
		for i, p := range ps {
			if p.done {
				out[i] = p
				continue
			}
			out[i] = path{ops: p.ops, defers: append(append([][]string{}, p.defers...), dops)}
		}
		return out
	case *ast.BlockStmt:
		return t.block(v.List, ps)
	case *ast.IfStmt:
		if v.Init != nil {
			ps = t.stmt(v.Init, ps)
		}
		ps = extend(ps, t.exprOps(v.Cond))
		var live, dead []path
		for _, p := range ps {
			if p.done {
				dead = append(dead, p)
			} else {
				live = append(live, p)
			}
		}
		thenPs := t.block(v.Body.List, append([]path{}, live...))
		var elsePs []path
		if v.Else != nil {
			elsePs = t.stmt(v.Else, append([]path{}, live...))
		} else {
			elsePs = live
		}
		return append(append(dead, thenPs...), elsePs...)
	default:
		if t.mentions(s) {
			fail(s.Pos(), "statement %T mentions a pooled object", s)
		}
		return ps
	}
}

func main() {
	if len(os.Args) != 2 {
		fmt.Fprintln(os.Stderr, "usage: gopools2v <server/server.go>")
		os.Exit(2)
	}
	f, err := parser.ParseFile(fset, os.Args[1], nil, 0)
	if err != nil {
		fmt.Fprintln(os.Stderr, "gopools2v:", err)
		os.Exit(2)
	}
	want := map[string]bool{"handleRequest": false, "handleRequestForFunction": false}
	var out strings.Builder
	out.WriteString("(* GENERATED by tools/gopools2v from server/server.go on every run - do not edit.\n")
	out.WriteString("   One entry per syntactic control-flow path of the request handlers that use reflectTypePools. *)\n")
	out.WriteString("From Coq Require Import List String.\nFrom RPCX Require Import Pool.PoolSites.\nImport ListNotations.\nOpen Scope string_scope.\n\n")
	out.WriteString("Definition handler_paths : list (string * list gop) := [\n")
	first := true
	total := 0
	for _, d := range f.Decls {
		fd, ok := d.(*ast.FuncDecl)
		if !ok || fd.Body == nil || fd.Recv == nil {
			continue
		}
		if _, w := want[fd.Name.Name]; !w {
			// no other function of the file may touch the pools
			t := &tr{kind: map[string]string{}}
			if t.mentions(fd.Body) {
				fail(fd.Pos(), "function %s uses reflectTypePools but is not one of the known request handlers", fd.Name.Name)
			}
			continue
		}
		want[fd.Name.Name] = true
		t := &tr{kind: map[string]string{}}
		ps := t.block(fd.Body.List, []path{{}})
		n := 0
		seen := map[string]bool{}
		for _, p := range ps {
			if !p.done {
				p = finish(p)
			}
			key := strings.Join(p.ops, "; ")
			if seen[key] {
				continue
			}
			seen[key] = true
			n++
			total++
			if !first {
				out.WriteString(";\n")
			}
			first = false
			fmt.Fprintf(&out, "  (\"%s#%d\", [%s])", fd.Name.Name, n, key)
		}
	}
	out.WriteString("\n].\n")
	for k, ok := range want {
		if !ok {
			fmt.Fprintf(os.Stderr, "gopools2v: cannot translate: method %s not found\n", k)
			os.Exit(2)
		}
	}
	if total == 0 {
		fmt.Fprintln(os.Stderr, "gopools2v: cannot translate: no path found")
		os.Exit(2)
	}
	fmt.Print(out.String())
}
