#!/usr/bin/env python3
"""Regression seeds: every `fix:` commit of /repo, reverted on the working tree (git apply -R), must be reported by
the check of its property.  usage: regress.py [commit ...]   (default: all fixed entries of known_findings.json)
Results are stored in seeded/regress.json.  /repo is restored after each run."""
import json, os, subprocess, sys, time
ROOT = os.path.dirname(os.path.dirname(os.path.abspath(__file__)))
REPO = os.environ.get("VERIF_REPO", "/repo")
def sh(cmd, **kw):
    p = subprocess.run(cmd, shell=True, stdout=subprocess.PIPE, stderr=subprocess.STDOUT, text=True, **kw)
    return p.returncode, p.stdout
STACK = {"dfa6d80": ["4424d78"], "b04e8c4": ["af547e6"], "3f484dc": ["83c10af"]}
kf = json.load(open(os.path.join(ROOT, "known_findings.json")))["findings"]
want = sys.argv[1:]
out_path = os.path.join(ROOT, "seeded", "regress.json")
res = json.load(open(out_path)) if os.path.exists(out_path) else {}
SRC = "/repo"   # the fix commits are read from here; they are reverted in REPO (which may be a copy)
if os.path.exists(os.path.join(REPO, ".git")):
    rc, st = sh("git -C %s status --porcelain" % REPO)
    if st.strip():
        print(REPO + " is not clean"); sys.exit(2)
for f in kf:
    c = f["commit"]
    if want and c not in want:
        continue
    pid = f["property"]
    # later fixes that touch the same lines are reverted first
    stack = STACK.get(c, []) + [c]
    ok = True
    applied = []
    def restore():
        for d in reversed(applied):
            sh("cd %s && git apply %s" % (REPO, d))
    for k in stack:
        d = "/tmp/_rev_%s_%d.diff" % (k, os.getpid())
        rc, o = sh("git -C %s show %s -- . ':(exclude)*_test.go' > %s && cd %s && git apply -R %s" % (SRC, k, d, REPO, d))
        if rc != 0:
            ok = False
            break
        applied.append(d)
    if not ok:
        restore()
        res[c] = {"property": pid, "applies": False, "note": "the reverse patch no longer applies (later changes touch the same lines)"}
        print(c, pid, "reverse patch does not apply"); continue
    t0 = time.time()
    try:
        rc, out = sh("cd %s && go build ./... 2>&1 | tail -3" % REPO, env=dict(os.environ, GOFLAGS="-mod=mod", GOPROXY="off", GOSUMDB="off", GOTOOLCHAIN="local"))
        rc, out = sh("%s/check %s quick" % (ROOT, pid))
    finally:
        restore()
    line = [l for l in out.splitlines() if l.startswith("VIOLATION")]
    res[c] = {"property": pid, "applies": True, "rc": rc, "violation_line": line[0] if line else None,
              "summary": [l for l in out.splitlines() if " quick:" in l][-1:] , "wall_s": round(time.time() - t0, 1), "also_reverted": STACK.get(c, []),
              "what": f["what"]}
    print(c, pid, "rc=%d" % rc, line[0] if line else "NOT DETECTED")
    json.dump(res, open(out_path, "w"), indent=1)
for f in os.listdir("/tmp"):
    if f.startswith("_rev_") and f.endswith("_%d.diff" % os.getpid()):
        os.remove(os.path.join("/tmp", f))
