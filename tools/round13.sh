#!/bin/sh
# round3.sh <Cxx>: confirm a round-13 sub-agent change (worktree /tmp/mut13/Cxx) and store it as seeded/Cxx-r13
set -e
p=$1; wt=/tmp/mut13/$p
mkdir -p $wt/_out
cp $wt/patch.diff $wt/_out/patch.diff
demo=$(cd $wt && git ls-files --others --exclude-standard | grep "zz_demo_.*_test.go" | head -1)
cp $wt/$demo $wt/_out/
[ -f $wt/NOTES.md ] && cp $wt/NOTES.md $wt/_out/notes.md
python3 /verif/tools/mutants.py confirm $p $wt $p-r13
