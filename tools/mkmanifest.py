#!/usr/bin/env python3
"""Regenerates /verif/MANIFEST.json from tools/props.py (single source of truth)."""
import json, os, sys
ROOT = os.path.dirname(os.path.dirname(os.path.abspath(__file__)))
sys.path.insert(0, os.path.join(ROOT, "tools"))
import subprocess
from props import PROPS, NOT_APPLICABLE
HOOK_COMMITS = subprocess.run(['git','-C','/repo','log','--grep=^verif hooks','--format=%h %s'],capture_output=True,text=True).stdout.strip().splitlines()

ALL = ["C%02d" % i for i in range(1, 21)]
checks = []
for pid in ALL:
    if pid not in PROPS:
        continue
    c = PROPS[pid]
    checks.append({
        "property_id": pid,
        "quick_cmd": "./check %s quick" % pid,
        "thorough_cmd": "./check %s thorough" % pid,
        "evidence_file": "/verif/evidence/%s.json" % pid,
        "replay_cmd_template": "./check %s --replay {path}" % pid,
        "engine": "coq-model+correspondence",
        "level_claimed": {"category": "proof", "text": c["level_text"], "design_ref": c.get("design_ref", "DESIGN.md §5 " + pid)},
        "level_note": c["level_note"],
        "technique": c.get("technique", "machine-checked proof in Coq 8.16 about an executable Gallina model, tied to the Go "
                                        "code by differential correspondence (extracted model vs. implementation) and a property oracle"),
    })
na = [{"property_id": p, "reason": NOT_APPLICABLE.get(p, "not yet built: no theorem + correspondence pair exists for it in this tree")}
      for p in ALL if p not in PROPS]
m = {
    "version": 1,
    "setup_cmd": "./check setup",
    "hooks": {
        "guard": "verif",
        "enable": "go build -tags verif (harness module /verif/harness with replace github.com/smallnest/rpcx => /repo)",
        "baseline_off_cmd": "cd /repo && GOFLAGS=-mod=mod GOPROXY=off GOSUMDB=off go test -vet=off -count=1 -timeout 25m ./...",
        "source_commits": HOOK_COMMITS,
        "add_only": True,
    },
    "engines": [{"name": "coq-model+correspondence", "path": "/verif/check",
                 "serves_properties": [c["property_id"] for c in checks],
                 "kind_free_text": "Coq 8.16.1 theorems over executable Gallina models (coq/), extracted to OCaml (ocaml/), "
                                   "driven against the Go implementation by harness/ (build tag verif)"}],
    "checks": checks,
    "notes": "See DESIGN.md. ./check <id> quick|thorough; evidence in evidence/<id>.json; known findings in known_findings.json.",
    "not_applicable": na,
}
json.dump(m, open(os.path.join(ROOT, "MANIFEST.json"), "w"), indent=1)
print("MANIFEST.json: %d checks, %d not claimed" % (len(checks), len(na)))
