module gowrites2v

go 1.21
