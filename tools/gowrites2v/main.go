// gowrites2v: translates every site of /repo that materialises a frame in a pooled buffer
// (X := m.EncodeSlicePointer()) into the sequence(s) of pool / transport operations it performs on
// that buffer - one sequence per control-flow path - as a Coq list (Wire/SharedGen.v):
//
//	X := e.EncodeSlicePointer()   =>  OGet; OFill
//	c.Write(*X)                   =>  OWrite
//	protocol.PutData(X)           =>  OPut
//
// Function literals (go func(){...}(), pool.Submit(func(){...})) are executed once, where they appear.
// Loops / switches / selects that do not mention the buffer are skipped (every real path is then a
// prefix of an emitted one, and the discipline checked in Coq is prefix-closed).  Anything else that
// touches the buffer variable is refused: exit status 2, nothing is printed.
//
// usage: gowrites2v <repo root>
package main

import (
	"fmt"
	"go/ast"
	"go/parser"
	"go/token"
	"os"
	"path/filepath"
	"sort"
	"strings"
)

type pth struct {
	ops  []string
	done bool
}

type tr struct {
	fset  *token.FileSet
	v     string // the buffer variable being tracked ("" = none yet)
	errs  []string
	funcs map[string][]*ast.FuncDecl // the functions of the package, by name (for helpers the buffer is passed to)
	depth int
}

func (t *tr) fail(n ast.Node, msg string) {
	t.errs = append(t.errs, fmt.Sprintf("%s: %s", t.fset.Position(n.Pos()), msg))
}

func isEncodeCall(e ast.Expr) bool {
	c, ok := e.(*ast.CallExpr)
	if !ok {
		return false
	}
	s, ok := c.Fun.(*ast.SelectorExpr)
	return ok && s.Sel.Name == "EncodeSlicePointer" && len(c.Args) == 0
}

func mentions(n ast.Node, v string) bool {
	found := false
	ast.Inspect(n, func(x ast.Node) bool {
		switch y := x.(type) {
		case *ast.Ident:
			if v != "" && y.Name == v {
				found = true
			}
		case *ast.CallExpr:
			if isEncodeCall(y) {
				found = true
			}
			if s, ok := y.Fun.(*ast.SelectorExpr); ok && s.Sel.Name == "PutData" {
				found = true
			}
			if id, ok := y.Fun.(*ast.Ident); ok && id.Name == "PutData" {
				found = true
			}
		}
		return true
	})
	return found
}

func extend(ps []pth, op ...string) []pth {
	out := make([]pth, len(ps))
	for i, p := range ps {
		if p.done {
			out[i] = p
			continue
		}
		out[i] = pth{ops: append(append([]string(nil), p.ops...), op...)}
	}
	return out
}

// ops performed by evaluating an expression (calls in source order, function literals inlined)
func (t *tr) expr(e ast.Node, ps []pth) []pth {
	if e == nil {
		return ps
	}
	var visit func(n ast.Node) bool
	visit = func(n ast.Node) bool {
		switch x := n.(type) {
		case *ast.FuncLit:
			ps = t.block(x.Body.List, ps)
			// a return inside the literal ends the literal, not the enclosing path
			for i := range ps {
				ps[i].done = false
			}
			return false
		case *ast.CallExpr:
			if isEncodeCall(x) {
				t.fail(x, "EncodeSlicePointer() used outside `X := e.EncodeSlicePointer()`")
				return false
			}
			name := ""
			switch f := x.Fun.(type) {
			case *ast.SelectorExpr:
				name = f.Sel.Name
				ast.Inspect(f.X, visit)
			case *ast.Ident:
				name = f.Name
			default:
				ast.Inspect(x.Fun, visit)
			}
			if name == "Write" && len(x.Args) == 1 {
				if st, ok := x.Args[0].(*ast.StarExpr); ok {
					if id, ok := st.X.(*ast.Ident); ok && t.v != "" && id.Name == t.v {
						ps = extend(ps, "OWrite")
						return false
					}
				}
			}
			if name == "PutData" && len(x.Args) == 1 {
				if id, ok := x.Args[0].(*ast.Ident); ok && t.v != "" && id.Name == t.v {
					ps = extend(ps, "OPut")
					return false
				}
				t.fail(x, "PutData of something that is not the tracked buffer")
				return false
			}
			// the buffer handed to a helper of the same package: the helper's body is executed here
			for i, a := range x.Args {
				if id, ok := a.(*ast.Ident); ok && t.v != "" && id.Name == t.v {
					cands := t.funcs[name]
					if len(cands) != 1 || t.depth >= 3 {
						t.fail(x, "the frame buffer is passed to `"+name+"`, which is not a unique function of this package")
						return false
					}
					callee := cands[0]
					var params []string
					for _, f := range callee.Type.Params.List {
						if len(f.Names) == 0 {
							params = append(params, "_")
						}
						for _, n := range f.Names {
							params = append(params, n.Name)
						}
					}
					if i >= len(params) || callee.Body == nil {
						t.fail(x, "cannot bind the frame buffer to a parameter of `"+name+"`")
						return false
					}
					for j, b := range x.Args {
						if j != i {
							ast.Inspect(b, visit)
						}
					}
					sub := &tr{fset: t.fset, v: params[i], funcs: t.funcs, depth: t.depth + 1}
					ps = sub.block(callee.Body.List, ps)
					for k := range ps {
						ps[k].done = false
					}
					t.errs = append(t.errs, sub.errs...)
					return false
				}
			}
			for _, a := range x.Args {
				ast.Inspect(a, visit)
			}
			return false
		case *ast.Ident:
			if t.v != "" && x.Name == t.v {
				t.fail(x, "use of the frame buffer `"+t.v+"` that is neither Write(*"+t.v+") nor PutData("+t.v+")")
			}
		}
		return true
	}
	ast.Inspect(e, visit)
	return ps
}

func (t *tr) block(list []ast.Stmt, ps []pth) []pth {
	for _, s := range list {
		ps = t.stmt(s, ps)
	}
	return ps
}

func (t *tr) stmt(s ast.Stmt, ps []pth) []pth {
	switch x := s.(type) {
	case *ast.AssignStmt:
		if len(x.Lhs) == 1 && len(x.Rhs) == 1 && isEncodeCall(x.Rhs[0]) {
			id, ok := x.Lhs[0].(*ast.Ident)
			if !ok {
				t.fail(x, "EncodeSlicePointer() assigned to something that is not a variable")
				return ps
			}
			t.v = id.Name
			return extend(ps, "OGet", "OFill")
		}
		for _, r := range x.Rhs {
			ps = t.expr(r, ps)
		}
		for _, l := range x.Lhs {
			if id, ok := l.(*ast.Ident); ok && t.v != "" && id.Name == t.v {
				t.fail(l, "the frame buffer variable is reassigned")
			} else if _, ok := l.(*ast.Ident); !ok {
				ps = t.expr(l, ps)
			}
		}
		return ps
	case *ast.ExprStmt:
		return t.expr(x.X, ps)
	case *ast.GoStmt:
		return t.expr(x.Call, ps)
	case *ast.DeferStmt:
		if mentions(x.Call, t.v) {
			t.fail(x, "deferred call touches the frame buffer")
		}
		return ps
	case *ast.ReturnStmt:
		// `return *X`: the buffer escapes to the caller and is never pooled again
		if len(x.Results) == 1 {
			if st, ok := x.Results[0].(*ast.StarExpr); ok {
				if id, ok := st.X.(*ast.Ident); ok && t.v != "" && id.Name == t.v {
					out := make([]pth, len(ps))
					for i, p := range ps {
						out[i] = pth{ops: p.ops, done: true}
					}
					return out
				}
			}
		}
		for _, r := range x.Results {
			ps = t.expr(r, ps)
		}
		out := make([]pth, len(ps))
		for i, p := range ps {
			out[i] = pth{ops: p.ops, done: true}
		}
		return out
	case *ast.BlockStmt:
		return t.block(x.List, ps)
	case *ast.IfStmt:
		if !mentions(x, t.v) {
			return ps
		}
		if x.Init != nil {
			ps = t.stmt(x.Init, ps)
		}
		ps = t.expr(x.Cond, ps)
		saved := t.v
		a := t.block(x.Body.List, ps)
		va := t.v
		t.v = saved
		var b []pth
		if x.Else != nil {
			b = t.stmt(x.Else, ps)
		} else {
			b = ps
		}
		if t.v == "" {
			t.v = va
		}
		return append(append([]pth(nil), a...), b...)
	case *ast.LabeledStmt:
		return t.stmt(x.Stmt, ps)
	case *ast.DeclStmt, *ast.IncDecStmt, *ast.SendStmt, *ast.EmptyStmt, *ast.BranchStmt:
		if mentions(s, t.v) {
			t.fail(s, "statement touches the frame buffer")
		}
		return ps
	default: // for, range, switch, type switch, select
		if mentions(s, t.v) {
			t.fail(s, "loop / switch / select touches the frame buffer")
		}
		return ps
	}
}

func containsEncode(n ast.Node) bool {
	found := false
	ast.Inspect(n, func(x ast.Node) bool {
		if c, ok := x.(*ast.CallExpr); ok && isEncodeCall(c) {
			found = true
		}
		return true
	})
	return found
}

// does the function take a *[]byte parameter?
func hasBufferParam(fd *ast.FuncDecl) bool {
	for _, f := range fd.Type.Params.List {
		if st, ok := f.Type.(*ast.StarExpr); ok {
			if at, ok := st.X.(*ast.ArrayType); ok && at.Len == nil {
				if id, ok := at.Elt.(*ast.Ident); ok && id.Name == "byte" {
					return true
				}
			}
		}
	}
	return false
}

func main() {
	if len(os.Args) != 2 {
		fmt.Fprintln(os.Stderr, "usage: gowrites2v <repo root>")
		os.Exit(2)
	}
	root := os.Args[1]
	var files []string
	filepath.Walk(root, func(p string, info os.FileInfo, err error) error {
		if err != nil {
			return nil
		}
		if info.IsDir() {
			n := info.Name()
			if p != root && (strings.HasPrefix(n, ".") || n == "vendor" || n == "testdata" || n == "_testutils") {
				return filepath.SkipDir
			}
			return nil
		}
		if strings.HasSuffix(p, ".go") && !strings.HasSuffix(p, "_test.go") {
			files = append(files, p)
		}
		return nil
	})
	sort.Strings(files)
	fset := token.NewFileSet()
	// every function of every package, by directory and name
	pkgFuncs := map[string]map[string][]*ast.FuncDecl{}
	parsed := map[string]*ast.File{}
	for _, f := range files {
		file, err := parser.ParseFile(fset, f, nil, parser.ParseComments)
		if err != nil {
			continue
		}
		parsed[f] = file
		dir := filepath.Dir(f)
		if pkgFuncs[dir] == nil {
			pkgFuncs[dir] = map[string][]*ast.FuncDecl{}
		}
		for _, d := range file.Decls {
			if fd, ok := d.(*ast.FuncDecl); ok {
				pkgFuncs[dir][fd.Name.Name] = append(pkgFuncs[dir][fd.Name.Name], fd)
			}
		}
	}
	type site struct {
		name  string
		paths [][]string
	}
	var sites []site
	var errs []string
	for _, f := range files {
		src, err := os.ReadFile(f)
		if err != nil {
			continue
		}
		if !strings.Contains(string(src), "EncodeSlicePointer") && !strings.Contains(string(src), "PutData") {
			continue
		}
		file := parsed[f]
		if file == nil {
			errs = append(errs, "cannot parse "+f)
			continue
		}
		// files guarded by the verification build tag are not part of the library
		tagged := false
		for _, cg := range file.Comments {
			for _, c := range cg.List {
				if strings.HasPrefix(c.Text, "//go:build") && strings.Contains(c.Text, "verif") && !strings.Contains(c.Text, "!verif") {
					tagged = true
				}
			}
		}
		if tagged {
			continue
		}
		rel, _ := filepath.Rel(root, f)
		for _, d := range file.Decls {
			fd, ok := d.(*ast.FuncDecl)
			if !ok || fd.Body == nil {
				continue
			}
			if fd.Name.Name == "EncodeSlicePointer" || fd.Name.Name == "PutData" {
				continue // the primitives themselves
			}
			if !mentions(fd.Body, "") {
				continue
			}
			// a helper that receives the buffer as a parameter is translated where it is called
			if !containsEncode(fd.Body) && hasBufferParam(fd) {
				continue
			}
			t := &tr{fset: fset, funcs: pkgFuncs[filepath.Dir(f)]}
			ps := t.block(fd.Body.List, []pth{{}})
			errs = append(errs, t.errs...)
			name := fd.Name.Name
			if fd.Recv != nil && len(fd.Recv.List) == 1 {
				switch r := fd.Recv.List[0].Type.(type) {
				case *ast.StarExpr:
					if id, ok := r.X.(*ast.Ident); ok {
						name = id.Name + "." + name
					}
				case *ast.Ident:
					name = r.Name + "." + name
				}
			}
			seen := map[string]bool{}
			var paths [][]string
			for _, p := range ps {
				if len(p.ops) == 0 {
					continue
				}
				k := strings.Join(p.ops, ";")
				if !seen[k] {
					seen[k] = true
					paths = append(paths, p.ops)
				}
			}
			sort.Slice(paths, func(i, j int) bool { return strings.Join(paths[i], ";") < strings.Join(paths[j], ";") })
			if len(paths) > 0 {
				sites = append(sites, site{name: filepath.ToSlash(rel) + ":" + name, paths: paths})
			}
		}
	}
	if len(errs) > 0 {
		for _, e := range errs {
			fmt.Fprintln(os.Stderr, "gowrites2v: cannot translate:", e)
		}
		os.Exit(2)
	}
	if len(sites) == 0 {
		fmt.Fprintln(os.Stderr, "gowrites2v: no frame-writing site found")
		os.Exit(2)
	}
	var b strings.Builder
	b.WriteString("(* GENERATED by tools/gowrites2v from the Go sources of /repo on every run - do not edit.\n")
	b.WriteString("   One entry per control-flow path of every function that materialises a frame in a pooled buffer. *)\n")
	b.WriteString("From Coq Require Import List String.\nFrom RPCX Require Import Wire.Shared.\nImport ListNotations.\nOpen Scope string_scope.\n\n")
	b.WriteString("Definition site_paths : list (string * list op) := [\n")
	first := true
	for _, s := range sites {
		for i, p := range s.paths {
			if !first {
				b.WriteString(";\n")
			}
			first = false
			fmt.Fprintf(&b, "  (\"%s#%d\", [%s])", s.name, i+1, strings.Join(p, "; "))
		}
	}
	b.WriteString("\n].\n")
	fmt.Print(b.String())
}
