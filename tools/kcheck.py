#!/usr/bin/env python3
"""Kernel cross-check of the extraction (thorough tier): a sample of the cases a check has just run is turned into
Coq terms and evaluated by the kernel's vm_compute on the model's own definitions; the result must equal what the
extracted OCaml model printed.   usage: kcheck.py <Cxx> [sample]   -> prints 'kcheck Cxx: N cases, M mismatches'
Supported: C12 (round-robin / weighted round-robin runs), C16 (shutdown schedules), C19 (what the HTTP front ends build from
header sets), C18 (breaker traces), C10 (fail-mode scripts), C03 / C05 / C06 (client state-machine schedules), C04 / C07 / C20 (server dispatch behind the connection loop's gate)."""
import os, random, re, subprocess, sys
ROOT = os.path.dirname(os.path.dirname(os.path.abspath(__file__)))
pid = sys.argv[1]
sample = int(sys.argv[2]) if len(sys.argv) > 2 else 200
wdir = os.path.join(ROOT, "work", pid)
cases = dict(l.rstrip("\n").split("\t", 1) for l in open(os.path.join(wdir, "cases.txt")) if "\t" in l)
model = dict(l.rstrip("\n").split("\t", 1) for l in open(os.path.join(wdir, "model.txt")) if "\t" in l)
ids = sorted(cases)
random.Random(1).shuffle(ids)
ids = ids[:sample]

def coq_list(xs):
    return "[" + "; ".join(xs) + "]"

out = []
rows = []
if pid == "C12":
    out.append("From Coq Require Import List ZArith Arith Bool.\nFrom RPCX Require Import Select.RoundRobin Select.SWRR.\nImport ListNotations.\nClose Scope Z_scope.\nOpen Scope nat_scope.\n")
    out.append("Definition onat_eqb (a b : option nat) : bool := match a, b with Some x, Some y => Nat.eqb x y | None, None => true | _, _ => false end.")
    out.append("Fixpoint outs_eqb (a b : list (option nat)) : bool := match a, b with [] , [] => true | x :: a', y :: b' => onat_eqb x y && outs_eqb a' b' | _, _ => false end.")
    rr, wrr = [], []
    for i in ids:
        toks = cases[i].split(" ")
        kind, toks = toks[0], toks[1:]
        if kind not in ("rr", "wrr"):
            continue  # raw-metadata cases (wraw) are not selector runs
        want = model[i].split(" ") if model[i] else []
        cur, ops, exp, k = [], [], [], 0
        ok = True
        for t in toks:
            if t == "S":
                w = want[k] if k < len(want) else "?"
                k += 1
                if w == "-":
                    exp.append("None")
                elif w in cur:
                    exp.append("Some %d%%nat" % cur.index(w))
                else:
                    ok = False
                ops.append("RRSelect" if kind == "rr" else "WSelect")
            else:
                body = t[2:]
                ents = [e for e in body.split(",") if e != ""]
                if kind == "rr":
                    cur = ents
                    ops.append("RRUpdate " + coq_list(["%d%%nat" % j for j in range(len(ents))]))
                else:
                    cur = [e.split("=")[0] for e in ents]
                    ws = []
                    for e in ents:
                        w = e.split("=")[1]
                        ws.append("None" if w == "x" else "Some (%s)%%Z" % w)
                    ops.append("WUpdate " + coq_list(ws))
        if not ok or len(set(cur)) != len(cur):
            continue  # duplicate ids cannot be mapped back to indices
        (rr if kind == "rr" else wrr).append("(%s, %s)" % (coq_list(ops), coq_list(exp)))
    out.append("Definition rr_cases : list (list rr_op * list (option nat)) := %s." % coq_list(rr))
    out.append("Definition wrr_cases : list (list wrr_op * list (option nat)) := %s." % coq_list(wrr))
    out.append("Definition rr_bad := filter (fun c => negb (outs_eqb (snd (rr_run (rr_new []) (fst c))) (snd c))) rr_cases.")
    out.append("Definition wrr_bad := filter (fun c => negb (outs_eqb (snd (wrr_run (wrr_new []) (fst c))) (snd c))) wrr_cases.")
    out.append("Definition KCHECK := Eval vm_compute in (length rr_cases + length wrr_cases, length rr_bad + length wrr_bad).\nPrint KCHECK.")
elif pid == "C16":
    EV = {"ac": "EAccept", "sv": "EServe", "tp": "ETop", "ar": "EArrive", "rd": "ERead", "re": "EReadErr", "pc": "EPeerClose",
          "di": "EDispatch", "en": "EEnter", "st": "EStart", "fi": "EFinish", "wr": "EWrite", "ex": "EExit", "wd": "EWaitDone",
          "sb": "EShutBegin", "po": "EPoll", "dl": "EDeadline", "cc": "ECloseConns"}
    KIND = {"n": "KNormal", "h": "KHeartbeat", "l": "KLimit", "a": "KAuthFail", "j": "KReject"}
    out.append("From Coq Require Import List ZArith Arith Bool.\nFrom RPCX Require Import Server.Shutdown.\nImport ListNotations.\n")
    out.append("Definition mkinfo (l : list (nat * rinfo)) (r : nat) : rinfo := match find (fun p => Nat.eqb (fst p) r) l with Some p => snd p | None => mkInfo 0 KNormal false end.")
    rows = []
    for i in ids:
        reqs, evs = [], []
        for t in cases[i].split(" "):
            f = t.split(":")
            if f[0] == "R":
                reqs.append("(%s, mkInfo %s %s %s)" % (f[1], f[2], KIND[f[3]], "true" if f[4] == "1" else "false"))
            elif f[0] == "A":
                for e in f[2].split(","):
                    if e in ("cl", "ae", "sr"):
                        evs.append({"cl": "EClose", "ae": "EAcceptErr", "sr": "EServeRet"}[e])
                    else:
                        evs.append("%s %s" % (EV[e[:2]], e[2:]))
        # expected final count and closes, from the last snapshot / final part of the model line
        parts = model[i].split(" | ")
        m = re.search(r":n=(-?\d+):", parts[-2]) if len(parts) >= 2 else None
        c = re.search(r"closes=(\d+)", parts[-1])
        if not m or not c:
            continue
        rows.append("(%s, %s, (%s)%%Z, %s)" % (coq_list(reqs), coq_list(evs), m.group(1), c.group(1)))
    out.append("Definition cases : list (list (nat * rinfo) * list event * Z * nat) := %s." % coq_list(rows))
    out.append("Definition bad := filter (fun c => match c with (rs, evs, n, cl) => let s := run (mkinfo rs) init evs in negb (Z.eqb (count s) n && Nat.eqb (closes s) cl) end) cases.")
    out.append("Definition KCHECK := Eval vm_compute in (length cases, length bad).\nPrint KCHECK.")
elif pid == "C19":
    ids = [i for i in sorted(cases) if cases[i].split(" ")[0] in ("conv", "gw", "jr")]
    random.Random(1).shuffle(ids)
    ids = ids[:sample]
    def B(h):
        if h in ("-", ""): return "[]"
        return coq_list(str(int(h[i:i+2], 16)) for i in range(0, len(h), 2))
    def expected(s):
        if s in ("err", "malformed"): return "None"
        m = re.match(r"seq=(\d+) hb=(\d) ow=(\d) ser=(\d+) comp=(\d+) meta=(\S*) path=(\S+) meth=(\S+) body=(\S+)$", s)
        if not m: return None
        meta = []
        if m.group(6):
            for e in m.group(6).split(","):
                k, v = e.split(":")
                meta.append("(%s, %s)" % (B(k), B(v)))
        bl = lambda x: "true" if x == "1" else "false"
        return "Some (mkGReq %s %s %s %s %s %s %s %s %s)" % (m.group(1), bl(m.group(2)), bl(m.group(3)), m.group(4), m.group(5),
                coq_list(meta), B(m.group(7)), B(m.group(8)), B(m.group(9)))
    rows = []
    for i in ids:
        f = [t for t in cases[i].split(" ") if not t.startswith("+")]
        exp = expected(model.get(i, ""))
        if exp is None: continue
        if f[0] in ("conv", "gw"):
            h = "(mkGHdr %s)" % " ".join(B(x) for x in f[1:10])
            call = "http_to_req %s %s" % (h, B(f[10])) if f[0] == "conv" else "gateway_front %s %s %s" % (h, B(f[11]), B(f[10]))
        else:
            call = "jsonrpc_front %s %s %s %s %s" % (B(f[1]), B(f[2]), B(f[3]), B(f[4]), "true" if f[5] == "1" else "false")
        rows.append("(%s, %s)" % (call, exp))
    src = """From Coq Require Import List NArith ZArith Bool.
    From RPCX Require Import Wire.Bytes Server.Gateway.
    Import ListNotations. Open Scope N_scope.
    Definition meta_sub (a b : list (bytes * bytes)) : bool :=
      forallb (fun kv => match mlookup (fst kv) b with Some v => beq v (snd kv) | None => false end) a.
    Definition greq_eqb (a b : greq) : bool :=
      (g_seq a =? g_seq b) && Bool.eqb (g_hb a) (g_hb b) && Bool.eqb (g_oneway a) (g_oneway b) && (g_ser a =? g_ser b) &&
      (g_comp a =? g_comp b) && meta_sub (g_meta a) (g_meta b) && meta_sub (g_meta b) (g_meta a) &&
      beq (g_path a) (g_path b) && beq (g_meth a) (g_meth b) && beq (g_payload a) (g_payload b).
    Definition oeqb (a b : option greq) : bool :=
      match a, b with Some x, Some y => greq_eqb x y | None, None => true | _, _ => false end.
    Definition cases : list (option greq * option greq) := %s.
    Definition bad := filter (fun c => negb (oeqb (fst c) (snd c))) cases.
    Definition KCHECK := Eval vm_compute in (length cases, length bad).
    Print KCHECK.
    """ % coq_list(rows)
    out.append(src)
elif pid == "C18":
    OUT = {"r1": "OReady true", "r0": "OReady false", "inv-ok": "OInvoked true", "inv-fail": "OInvoked false", "refused": "ORefused", "-": "ONone"}
    for i in [x for x in sorted(cases) if cases[x].startswith("br ")][:sample]:
        f = cases[i].split(" ")
        evs = []
        for e in f[3:]:
            k, rest = e.split("@")
            if k == "C":
                t, ok, t2 = rest.split(":")
                evs.append("ECall %s %s %s" % (t, "true" if ok == "ok" else "false", t2))
            else:
                evs.append("%s %s" % ({"R": "EReady", "F": "EFail", "S": "ESuccess"}[k], rest))
        outs = [OUT[o] for o in model[i].split(" ")] if model[i] else []
        rows.append("(mkCfg %s %s, %s, %s)" % (f[1], f[2], coq_list(evs), coq_list(outs)))
    src = """From Coq Require Import List ZArith Bool.
From RPCX Require Import XClient.Breaker.
Import ListNotations. Open Scope Z_scope.
Definition bout_eqb (a b : bout) : bool := match a, b with
  | OReady x, OReady y | OInvoked x, OInvoked y => Bool.eqb x y | ORefused, ORefused | ONone, ONone => true | _, _ => false end.
Fixpoint outs_eqb (a b : list bout) : bool := match a, b with [], [] => true | x :: a', y :: b' => bout_eqb x y && outs_eqb a' b' | _, _ => false end.
Definition cases : list (bcfg * list bevent * list bout) := %s.
Definition bad := filter (fun c => match c with (cfg, tr, outs) => negb (outs_eqb (snd (b_run cfg b_init tr)) outs) end) cases.
Definition KCHECK := Eval vm_compute in (length cases, length bad).
Print KCHECK.
""" % coq_list(rows)
    out.append(src)
elif pid == "C10":
    O = {"svc": "OSvc", "svc0": "OSvc", "lost": "OLost", "ctx": "OCtx", "dl": "ODeadline"}
    E = {"svc": "XSvc", "lost": "XLost", "ctx": "XCtx", "dl": "XDeadline", "dial": "XDial", "noserver": "XNoServer", "unavailable": "XUnavailable"}
    def outc(o): return "OOk %s" % o[2:] if o.startswith("ok") else O[o]
    for i in ids:
        m, r, rr, srvs = cases[i].split(" ")
        ss = []
        if srvs != "-":
            for t in srvs.split(";"):
                d, c = t.split("/")
                dials = [] if d == "-" else ["true" if ch == "1" else "false" for ch in d]
                calls = [] if c == "-" else [outc(o) for o in c.split(",")]
                ss.append("mkSrv false %s %s" % (coq_list(dials), coq_list(calls)))
        en = "mkEnv %s %s []" % (coq_list(ss), rr)
        if m.startswith("backup"):
            call = "xcall_backup (mkB %s %s) (%s)" % ("true" if m[6] == "1" else "false", "true" if m[7] == "1" else "false", en)
        else:
            call = "xcall %s %s (%s)" % ({"fast": "Failfast", "try": "Failtry", "over": "Failover"}[m], r, en)
        mm = re.match(r"\[(.*)\] (\S+)$", model[i])
        log = []
        if mm.group(1):
            for a in mm.group(1).split(","):
                s, o = a.split(":")
                log.append("(%s, %s)" % (s[1:], outc(o)))
        res = mm.group(2)
        if res.startswith("ok:"):
            exp = "(None, Some %s)" % res[3:] if res[3:] != "?" else "(None, None)"
        else:
            exp = "(Some %s, None)" % E[res]
        rows.append("(%s, %s, %s)" % (call, coq_list(log), exp))
    src = """From Coq Require Import List Arith Bool.
From RPCX Require Import XClient.FailMode XClient.Backup.
Import ListNotations.
Definition o_eqb (a b : outcome) : bool := match a, b with
  | OOk x, OOk y => Nat.eqb x y | OSvc, OSvc | OLost, OLost | OCtx, OCtx | ODeadline, ODeadline => true | _, _ => false end.
Definition x_eqb (a b : errk) : bool := match a, b with
  | XSvc, XSvc | XLost, XLost | XCtx, XCtx | XDeadline, XDeadline | XDial, XDial | XNoServer, XNoServer | XUnavailable, XUnavailable => true | _, _ => false end.
Fixpoint log_eqb (a b : list (nat * outcome)) : bool := match a, b with [], [] => true
  | (s, o) :: a', (s', o') :: b' => Nat.eqb s s' && o_eqb o o' && log_eqb a' b' | _, _ => false end.
Definition res_ok (r : xres) (log : list (nat * outcome)) (e : option errk * option nat) : bool :=
  log_eqb (attempts (x_env r)) log &&
  match x_err r, fst e with Some a, Some b => x_eqb a b | None, None =>
    (match x_reply r, snd e with Some a, Some b => Nat.eqb a b | None, None => true | _, _ => false end) | _, _ => false end.
Definition cases : list (xres * list (nat * outcome) * (option errk * option nat)) := %s.
Definition bad := filter (fun c => match c with (r, log, e) => negb (res_ok r log e) end) cases.
Definition KCHECK := Eval vm_compute in (length cases, length bad).
Print KCHECK.
""" % coq_list(rows)
    out.append(src)
elif pid in ("C03", "C05", "C06"):
    # the client state machine: calls;events -> per call (number of signals, last / returned result), pushes, table size, flags
    ids = [i for i in sorted(cases) if ";" in cases[i] and " | " in model.get(i, "")]
    random.Random(1).shuffle(ids)
    ids = ids[:sample]
    bl = lambda x: "true" if x == "1" else "false"
    KIND = {"G": "KGo", "C": "KCall", "R": "KRaw"}
    def res(t):
        if t.startswith("ok:"): return ("ROk %s" % t[3:], True)   # ROneway also prints ok:0
        if t.startswith("svc:"): return ("RSvcErr %s" % t[4:], False)
        return ({"decode": "RDecodeErr", "codec": "RCodecErr", "ctx": "RCtx", "conn": "RConnErr", "shutdown": "RShutdown",
                 "write": "RWriteErr", "enc": "REncErr"}[t], False)
    for i in ids:
        cspec, evs = cases[i].split(";", 1)
        calls = []
        for t in cspec.split():
            k, o, rs = t.split(":")
            calls.append("new_call %s %s %s%%N" % (KIND[k], bl(o), rs))
        sched = []
        okc = True
        for t in evs.split():
            f = t.split(":")
            if f[0] == "recv":
                sched.append("ERecv (mkFrame %s %s%%N %s %s %s %s %s %s %s)" % (f[1], f[2], bl(f[3]), bl(f[4]), bl(f[5]), f[6], f[7], bl(f[8]), bl(f[9])))
            elif f[0] == "rderr":
                sched.append("EReadErr %s" % bl(f[1]))
            elif f[0] == "close":
                sched.append("EClose")
            else:
                op = {"reg": "EReg", "rawreg": "ERawReg", "encfail": "EEncFail", "wok": "EWriteOk", "wfail": "EWriteFail",
                      "ow": "EOneway", "ctx": "ECtx", "take": "ETake"}.get(f[0])
                if op is None:
                    okc = False
                    break
                sched.append("%s %s" % (op, f[1]))
        if not okc:
            continue
        left, right = model[i].split(" | ")
        exp = []
        for t in left.split():
            f = t.split(":", 2)
            if f[0] == "G":
                n = f[1]
                last = f[2]
                exp.append("(%s, %s)" % (n, "None" if last == "-" else "Some (%s)" % res(last)[0]))
            else:
                r = t.split("=", 1)[1]
                exp.append("(0, %s)" % ("None" if r == "-" else "Some (%s)" % res(r)[0]))
        m = re.match(r"pushes=(\S*) pending=(\d+) shutdown=(\d) closing=(\d)", right)
        pushes = [x for x in m.group(1).split(",") if x]
        rows.append("(%s, %s, %s, %s, %s, (%s, %s))" % (coq_list(calls), coq_list(sched), coq_list(exp), coq_list(pushes), m.group(2), bl(m.group(3)), bl(m.group(4))))
    src = """From Coq Require Import List NArith Arith Bool.
From RPCX Require Import Client.ClientSM.
Import ListNotations.
Definition r_eqb (a b : result) : bool := match a, b with
  | ROk x, ROk y | RSvcErr x, RSvcErr y => Nat.eqb x y
  | ROneway, ROk 0 | ROk 0, ROneway | ROneway, ROneway => true
  | RDecodeErr, RDecodeErr | RCodecErr, RCodecErr | RCtx, RCtx | RConnErr, RConnErr | RShutdown, RShutdown
  | RWriteErr, RWriteErr | REncErr, REncErr => true | _, _ => false end.
Definition or_eqb (a b : option result) : bool := match a, b with Some x, Some y => r_eqb x y | None, None => true | _, _ => false end.
Definition view (x : call) : nat * option result :=
  match c_kind x with
  | KGo => (length (c_signals x), match rev (c_signals x) with (_, r) :: _ => Some r | [] => None end)
  | _ => (0, c_ret x)
  end.
Fixpoint views_eqb (a b : list (nat * option result)) : bool := match a, b with [], [] => true
  | (n, r) :: a', (n', r') :: b' => Nat.eqb n n' && or_eqb r r' && views_eqb a' b' | _, _ => false end.
Fixpoint nats_eqb (a b : list nat) : bool := match a, b with [], [] => true | x :: a', y :: b' => Nat.eqb x y && nats_eqb a' b' | _, _ => false end.
Definition cases : list (list call * list event * list (nat * option result) * list nat * nat * (bool * bool)) := %s.
Definition bad := filter (fun c => match c with (cs, evs, exp, pu, pe, (sh, cl)) =>
  let st := run (init cs true) evs in
  negb (views_eqb (map view (calls st)) exp && nats_eqb (pushes st) pu && Nat.eqb (length (pending st)) pe
        && Bool.eqb (shutdown st) sh && Bool.eqb (closing st) cl) end) cases.
Definition KCHECK := Eval vm_compute in (length cases, length bad).
Print KCHECK.
""" % coq_list(rows)
    out.append(src)
elif pid in ("C04", "C07", "C20"):
    # server dispatch behind the connection loop's gate: R / G / D tokens -> frames written per connection, handlers run
    ids = [i for i in sorted(cases) if cases[i].startswith(("R:", "G:")) and " inv=[" in model.get(i, "")]
    random.Random(1).shuffle(ids)
    ids = ids[:sample]
    bl = lambda x: "true" if x == "1" else "false"
    TGT = {"router": "TRouter", "nosvc": "TNoService", "nometh": "TNoMethod", "func": "TFunction", "method": "TMethod"}
    for i in ids:
        names = {}
        def intern(x):
            if x not in names:
                names[x] = len(names) + 1
            return names[x]
        evs, finds, decs, hands, metas, gates = [], [], [], [], [], []
        for t in cases[i].split(" "):
            f = t.split(":")
            if f[0] == "R":
                _, conn, rid, seq, path, meth, ser, hb, ow, target, codec, dec, h, c, rm = f
                pi, mi = intern(path), intern(meth)
                finds.append("((%d, %d), %s)" % (pi, mi, TGT[target]))
                decs.append("(%s, %s)" % (rid, bl(dec)))
                hid = h[1:]
                hands.append("(%s, %s)" % (rid, {"r": "HReply %s" % rid, "f": "HFail %s" % hid, "v": "HVeto %s" % hid}.get(h[0], "HPanic %s" % hid)))
                if rm == "1":
                    metas.append(rid)
                evs.append("CRead %s %s (mkReq %s%%N %d %d %s%%N %s %s %s)" % (conn, rid, seq, pi, mi, ser, bl(hb), bl(ow), rid))
            elif f[0] == "G":
                _, conn, rid, seq, path, meth, ser, hb, ow, kind, text = f
                pi, mi = intern(path), intern(meth)
                decs.append("(%s, true)" % rid)
                hands.append("(%s, HReply %s)" % (rid, rid))
                gates.append("(%s, (%s, %s))" % (rid, "true" if kind == "l" else "false", text))
                evs.append("CRead %s %s (mkReq %s%%N %d %d %s%%N %s %s %s)" % (conn, rid, seq, pi, mi, ser, bl(hb), bl(ow), rid))
            elif f[0] == "D":
                evs.append("CDone %s" % f[1])
        left, inv = model[i].rsplit(" inv=[", 1)
        inv = [x for x in inv.rstrip("]").split(",") if x]
        exp = []
        okc = True
        for part in re.findall(r"c(\d+)=\[([^\]]*)\]", left):
            frames = []
            for fr in [x for x in part[1].split(";") if x]:
                g = fr.split("/")
                if len(g) != 7 or "." not in g[1]:
                    okc = False
                    break
                seq, pm, ser, status, ek, pl, rm = g
                pth, mth = pm.split(".", 1)
                if pth not in names or mth not in names:
                    okc = False
                    break
                code = {"-": "(0, 0)", "nosvc": "(3, 0)", "nometh": "(4, 0)", "decode": "(5, 0)", "nocodec": "(6, 0)"}.get(ek)
                if code is None:
                    k, n = ek.split(":")
                    code = "(%d, %s)" % (1 if k == "text" else 2, n)
                plv = "None"
                if pl.startswith("id"):
                    plv = "Some %s" % pl[2:].split("=")[0]
                rmv = "None" if rm == "rm=-" else "Some %s" % rm[4:]
                frames.append("(%s%%N, (%d, %d), %s%%N, %s, %s, (%s, %s, %s))" % (seq, names[pth], names[mth], ser,
                              "true" if status == "error" else "false", code, bl("1" if pl == "echo" else "0"), plv, rmv))
            if not okc:
                break
            exp.append("(%s, %s)" % (part[0], coq_list(frames)))
        if not okc:
            continue
        rows.append("(%s, (%s, %s, %s, %s, %s), %s, %s)" % (coq_list(evs), coq_list(finds), coq_list(decs), coq_list(hands),
                    coq_list(metas), coq_list(gates), coq_list(exp), coq_list(inv)))
    src = """From Coq Require Import List NArith Arith Bool.
From RPCX Require Import Server.Dispatch Server.Gate.
Import ListNotations.
Definition fr := (N * (nat * nat) * N * bool * (nat * nat) * (bool * option nat * option nat))%%type.
Definition tables := (list ((nat * nat) * target) * list (nat * bool) * list (nat * hres) * list nat * list (nat * (bool * nat)))%%type.
Fixpoint assoc {A} (l : list (nat * A)) (k : nat) : option A :=
  match l with [] => None | (k', v) :: r => if Nat.eqb k' k then Some v else assoc r k end.
Fixpoint assoc2 {A} (l : list ((nat * nat) * A)) (a b : nat) : option A :=
  match l with [] => None | ((a', b'), v) :: r => if Nat.eqb a' a && Nat.eqb b' b then Some v else assoc2 r a b end.
Definition ecode (e : option etext) : nat * nat := match e with
  | None => (0, 0) | Some (XExact t) => (1, t) | Some (XPanicExact v) => (1, v) | Some (XPanic v) => (2, v)
  | Some (XNoService _) => (3, 0) | Some (XNoMethod _) => (4, 0) | Some (XDecode _ _) => (5, 0) | Some (XNoCodec _) => (6, 0) end.
Definition onat_eqb (a b : option nat) : bool := match a, b with Some x, Some y => Nat.eqb x y | None, None => true | _, _ => false end.
Definition fr_ok (f : sresp) (e : fr) : bool :=
  match e with (seq, (p, m), ser, err, code, (echo, pl, rm)) =>
    N.eqb (r_seq f) seq && Nat.eqb (r_path f) p && Nat.eqb (r_meth f) m && N.eqb (r_ser f) ser
    && Bool.eqb (match r_status f with SError => true | SNormal => false end) err
    && (let c := ecode (r_err f) in Nat.eqb (fst c) (fst code) && Nat.eqb (snd c) (snd code))
    && Bool.eqb (r_hb f) echo
    && (match pl with Some x => Nat.eqb (r_payload f) x | None => true end)
    && onat_eqb (match r_meta f with (_, v) :: _ => Some v | [] => None end) rm
  end.
Fixpoint frs_ok (a : list sresp) (b : list fr) : bool := match a, b with [], [] => true
  | x :: a', y :: b' => fr_ok x y && frs_ok a' b' | _, _ => false end.
Definition case_ok (evs : list cevent) (tb : tables) (exp : list (nat * list fr)) (inv : list nat) : bool :=
  match tb with (finds, decs, hands, metas, gates) =>
    let find p m := match assoc2 (rev finds) p m with Some t => t | None => TMethod end in
    let codec_ok (s : N) := negb (N.eqb s 9) in
    let decodable (_ : N) a := match assoc decs a with Some b => b | None => true end in
    let handler (_ _ : nat) a := match assoc hands a with Some h => h | None => HReply a end in
    let hmeta (_ _ : nat) a := if existsb (Nat.eqb a) metas then [(1, a)] else [] in
    let refuses (k : bool) (_ _ : nat) a := match assoc gates a with Some (k', t) => if Bool.eqb k k' then Some t else None | None => None end in
    let st := gbase (grun find codec_ok decodable handler hmeta (refuses true) (refuses false) ginit evs) in
    forallb (fun ce => frs_ok (map snd (filter (fun cf => Nat.eqb (fst cf) (fst ce)) (written st))) (snd ce)) exp
    && Nat.eqb (length (written st)) (fold_right (fun ce n => length (snd ce) + n) 0 exp)
    && Nat.eqb (length (invoked st)) (length inv)
    && forallb (fun i => existsb (Nat.eqb (snd i)) inv) (invoked st)
  end.
Definition cases : list (list cevent * tables * list (nat * list fr) * list nat) := %s.
Definition bad := filter (fun c => match c with (evs, tb, exp, inv) => negb (case_ok evs tb exp inv) end) cases.
Definition KCHECK := Eval vm_compute in (length cases, length bad).
Print KCHECK.
""" % coq_list(rows)
    out.append(src)
else:
    print("kcheck %s: not supported" % pid)
    sys.exit(0)
vf = os.path.join(wdir, "KCheck.v")
open(vf, "w").write("\n".join(out) + "\n")
p = subprocess.run("cd %s && timeout 1200 coqc -Q %s/coq RPCX KCheck.v" % (wdir, ROOT), shell=True, stdout=subprocess.PIPE, stderr=subprocess.STDOUT, text=True)
m = re.search(r"KCHECK = \((\d+)(?:%nat)?, (\d+)(?:%nat)?\)", p.stdout.replace("\n", " "))
for ext in ("vo", "vok", "vos", "glob"):
    try:
        os.remove(os.path.join(wdir, "KCheck." + ext))
    except OSError:
        pass
if not m:
    print("kcheck %s: coqc failed\n%s" % (pid, p.stdout[-1500:]))
    sys.exit(2)
print("kcheck %s: %s cases, %s mismatches" % (pid, m.group(1), m.group(2)))
sys.exit(0 if m.group(2) == "0" else 1)
