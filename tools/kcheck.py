#!/usr/bin/env python3
"""Kernel cross-check of the extraction (thorough tier): a sample of the cases a check has just run is turned into
Coq terms and evaluated by the kernel's vm_compute on the model's own definitions; the result must equal what the
extracted OCaml model printed.   usage: kcheck.py <Cxx> [sample]   -> prints 'kcheck Cxx: N cases, M mismatches'
Supported: C12 (round-robin / weighted round-robin runs), C16 (shutdown schedules)."""
import os, random, re, subprocess, sys
ROOT = os.path.dirname(os.path.dirname(os.path.abspath(__file__)))
pid = sys.argv[1]
sample = int(sys.argv[2]) if len(sys.argv) > 2 else 200
wdir = os.path.join(ROOT, "work", pid)
cases = dict(l.rstrip("\n").split("\t", 1) for l in open(os.path.join(wdir, "cases.txt")) if "\t" in l)
model = dict(l.rstrip("\n").split("\t", 1) for l in open(os.path.join(wdir, "model.txt")) if "\t" in l)
ids = sorted(cases)
random.Random(1).shuffle(ids)
ids = ids[:sample]

def coq_list(xs):
    return "[" + "; ".join(xs) + "]"

out = []
if pid == "C12":
    out.append("From Coq Require Import List ZArith Arith Bool.\nFrom RPCX Require Import Select.RoundRobin Select.SWRR.\nImport ListNotations.\nClose Scope Z_scope.\nOpen Scope nat_scope.\n")
    out.append("Definition onat_eqb (a b : option nat) : bool := match a, b with Some x, Some y => Nat.eqb x y | None, None => true | _, _ => false end.")
    out.append("Fixpoint outs_eqb (a b : list (option nat)) : bool := match a, b with [] , [] => true | x :: a', y :: b' => onat_eqb x y && outs_eqb a' b' | _, _ => false end.")
    rr, wrr = [], []
    for i in ids:
        toks = cases[i].split(" ")
        kind, toks = toks[0], toks[1:]
        want = model[i].split(" ") if model[i] else []
        cur, ops, exp, k = [], [], [], 0
        ok = True
        for t in toks:
            if t == "S":
                w = want[k] if k < len(want) else "?"
                k += 1
                if w == "-":
                    exp.append("None")
                elif w in cur:
                    exp.append("Some %d%%nat" % cur.index(w))
                else:
                    ok = False
                ops.append("RRSelect" if kind == "rr" else "WSelect")
            else:
                body = t[2:]
                ents = [e for e in body.split(",") if e != ""]
                if kind == "rr":
                    cur = ents
                    ops.append("RRUpdate " + coq_list(["%d%%nat" % j for j in range(len(ents))]))
                else:
                    cur = [e.split("=")[0] for e in ents]
                    ws = []
                    for e in ents:
                        w = e.split("=")[1]
                        ws.append("None" if w == "x" else "Some (%s)%%Z" % w)
                    ops.append("WUpdate " + coq_list(ws))
        if not ok or len(set(cur)) != len(cur):
            continue  # duplicate ids cannot be mapped back to indices
        (rr if kind == "rr" else wrr).append("(%s, %s)" % (coq_list(ops), coq_list(exp)))
    out.append("Definition rr_cases : list (list rr_op * list (option nat)) := %s." % coq_list(rr))
    out.append("Definition wrr_cases : list (list wrr_op * list (option nat)) := %s." % coq_list(wrr))
    out.append("Definition rr_bad := filter (fun c => negb (outs_eqb (snd (rr_run (rr_new []) (fst c))) (snd c))) rr_cases.")
    out.append("Definition wrr_bad := filter (fun c => negb (outs_eqb (snd (wrr_run (wrr_new []) (fst c))) (snd c))) wrr_cases.")
    out.append("Definition KCHECK := Eval vm_compute in (length rr_cases + length wrr_cases, length rr_bad + length wrr_bad).\nPrint KCHECK.")
elif pid == "C16":
    EV = {"ac": "EAccept", "sv": "EServe", "tp": "ETop", "ar": "EArrive", "rd": "ERead", "re": "EReadErr", "pc": "EPeerClose",
          "di": "EDispatch", "en": "EEnter", "st": "EStart", "fi": "EFinish", "wr": "EWrite", "ex": "EExit", "wd": "EWaitDone",
          "sb": "EShutBegin", "po": "EPoll", "dl": "EDeadline", "cc": "ECloseConns"}
    KIND = {"n": "KNormal", "h": "KHeartbeat", "l": "KLimit", "a": "KAuthFail", "j": "KReject"}
    out.append("From Coq Require Import List ZArith Arith Bool.\nFrom RPCX Require Import Server.Shutdown.\nImport ListNotations.\n")
    out.append("Definition mkinfo (l : list (nat * rinfo)) (r : nat) : rinfo := match find (fun p => Nat.eqb (fst p) r) l with Some p => snd p | None => mkInfo 0 KNormal false end.")
    rows = []
    for i in ids:
        reqs, evs = [], []
        for t in cases[i].split(" "):
            f = t.split(":")
            if f[0] == "R":
                reqs.append("(%s, mkInfo %s %s %s)" % (f[1], f[2], KIND[f[3]], "true" if f[4] == "1" else "false"))
            elif f[0] == "A":
                for e in f[2].split(","):
                    if e in ("cl", "ae", "sr"):
                        evs.append({"cl": "EClose", "ae": "EAcceptErr", "sr": "EServeRet"}[e])
                    else:
                        evs.append("%s %s" % (EV[e[:2]], e[2:]))
        # expected final count and closes, from the last snapshot / final part of the model line
        parts = model[i].split(" | ")
        m = re.search(r":n=(-?\d+):", parts[-2]) if len(parts) >= 2 else None
        c = re.search(r"closes=(\d+)", parts[-1])
        if not m or not c:
            continue
        rows.append("(%s, %s, (%s)%%Z, %s)" % (coq_list(reqs), coq_list(evs), m.group(1), c.group(1)))
    out.append("Definition cases : list (list (nat * rinfo) * list event * Z * nat) := %s." % coq_list(rows))
    out.append("Definition bad := filter (fun c => match c with (rs, evs, n, cl) => let s := run (mkinfo rs) init evs in negb (Z.eqb (count s) n && Nat.eqb (closes s) cl) end) cases.")
    out.append("Definition KCHECK := Eval vm_compute in (length cases, length bad).\nPrint KCHECK.")
else:
    print("kcheck %s: not supported" % pid)
    sys.exit(0)
vf = os.path.join(wdir, "KCheck.v")
open(vf, "w").write("\n".join(out) + "\n")
p = subprocess.run("cd %s && timeout 1200 coqc -Q %s/coq RPCX KCheck.v" % (wdir, ROOT), shell=True, stdout=subprocess.PIPE, stderr=subprocess.STDOUT, text=True)
m = re.search(r"KCHECK = \((\d+), (\d+)\)", p.stdout.replace("\n", " "))
for ext in ("vo", "vok", "vos", "glob"):
    try:
        os.remove(os.path.join(wdir, "KCheck." + ext))
    except OSError:
        pass
if not m:
    print("kcheck %s: coqc failed\n%s" % (pid, p.stdout[-1500:]))
    sys.exit(2)
print("kcheck %s: %s cases, %s mismatches" % (pid, m.group(1), m.group(2)))
sys.exit(0 if m.group(2) == "0" else 1)
