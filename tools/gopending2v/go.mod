module gopending2v

go 1.23.0
