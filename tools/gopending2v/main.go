// gopending2v: for the functions of client/client.go that touch the table of pending calls (send, SendRaw, call, input,
// Close) it enumerates every syntactic control-flow path and emits, per path, what happens to client.mutex,
// client.pending, the *Call variables of the function and the shutdown / closing flags (Client/PendingGen.v):
//
//	client.mutex.Lock() / Unlock()                 => PLock / PUnlock
//	v := new(Call); a *Call parameter              => PNew v
//	v := client.Go(...)                            => PMine v
//	case v := <-ch (a chan *Call)                  => PRecv v
//	client.pending[k] = v                          => PReg k v
//	v = client.pending[k]                          => PPeek v k
//	delete(client.pending, k)                      => PDel k
//	v = nil; var v *Call                           => PNil v
//	v.Field = ...                                  => PWrite v
//	v.done()                                       => PDone v
//	v as a call argument, assigned, returned, sent => PEscape v
//	client.shutdown = true / client.closing = true => PSetShutdown / PSetClosing
//	k := client.seq / client.seq++                 => PSeqRead k / PSeqInc   (any other write to client.seq is refused)
//	for k, v := range client.pending { ... }       => SLoop v k [body paths]
//
// A branch adds what its condition says about a *Call variable or the flags (v != nil, v == w, client.shutdown ||
// client.closing, conjuncts on the true side, disjuncts on the false side); other conditions are not interpreted:
// both branches are emitted.  A tagless switch is the chain of ifs it stands for, a select branches into its clauses.
// The read loop of input (the one `for` whose body touches the table) is emitted as: one path per way through an
// iteration that goes on to the next, and one path per way out of the loop followed by the rest of the function.
// Deferred calls run at the return.  go statements, function literals, labelled jumps and fallthrough that mention
// any of the above, other loops that do, and any other function of the package that touches client.pending or
// calls done(), are refused (exit status 2).
//
//	gopending2v /repo/client > PendingGen.v
package main

import (
	"bytes"
	"fmt"
	"go/ast"
	"go/parser"
	"go/printer"
	"go/token"
	"os"
	"path/filepath"
	"sort"
	"strings"
)

var fset = token.NewFileSet()

func fail(p token.Pos, format string, a ...interface{}) {
	fmt.Fprintf(os.Stderr, "gopending2v: %s: cannot translate: %s\n", fset.Position(p), fmt.Sprintf(format, a...))
	os.Exit(2)
}

func text(e ast.Node) string {
	var b bytes.Buffer
	printer.Fprint(&b, fset, e)
	return b.String()
}

type path struct {
	ops    []string
	defers [][]string
	state  int // 0 running, 1 returned, 2 continue, 3 break
}

type tr struct {
	recv    string
	vars    map[*ast.Object]int // *Call variables
	chans   map[*ast.Object]bool
	keys    map[string]int
	keyText []string
	varName []string
	inLoop  bool
}

func (t *tr) isRecvField(e ast.Expr, field string) bool {
	s, ok := e.(*ast.SelectorExpr)
	if !ok || s.Sel.Name != field {
		return false
	}
	id, ok := s.X.(*ast.Ident)
	return ok && id.Name == t.recv
}

func (t *tr) pendingIndex(e ast.Expr) (ast.Expr, bool) {
	ix, ok := e.(*ast.IndexExpr)
	if !ok || !t.isRecvField(ix.X, "pending") {
		return nil, false
	}
	return ix.Index, true
}

func (t *tr) callVar(e ast.Expr) (int, bool) {
	id, ok := e.(*ast.Ident)
	if !ok || id.Obj == nil {
		return 0, false
	}
	n, ok := t.vars[id.Obj]
	return n, ok
}

func (t *tr) declare(id *ast.Ident) int {
	if id.Obj == nil {
		fail(id.Pos(), "identifier %s does not resolve", id.Name)
	}
	if n, ok := t.vars[id.Obj]; ok {
		return n
	}
	n := len(t.varName)
	t.vars[id.Obj] = n
	t.varName = append(t.varName, id.Name)
	return n
}

func (t *tr) key(e ast.Expr) int {
	base := ""
	ast.Inspect(e, func(n ast.Node) bool {
		if id, ok := n.(*ast.Ident); ok && base == "" {
			base = fmt.Sprintf("%p", id.Obj)
		}
		return base == ""
	})
	k := text(e) + "@" + base
	if n, ok := t.keys[k]; ok {
		return n
	}
	n := len(t.keyText)
	t.keys[k] = n
	t.keyText = append(t.keyText, text(e))
	return n
}

func isNil(e ast.Expr) bool { id, ok := e.(*ast.Ident); return ok && id.Name == "nil" }
func isTrue(e ast.Expr) bool { id, ok := e.(*ast.Ident); return ok && id.Name == "true" }

// does the node mention anything this translator tracks?
func (t *tr) mentions(n ast.Node) bool {
	found := false
	ast.Inspect(n, func(x ast.Node) bool {
		switch v := x.(type) {
		case *ast.Ident:
			if v.Obj != nil {
				if _, ok := t.vars[v.Obj]; ok {
					found = true
				}
			}
		case *ast.SelectorExpr:
			if t.isRecvField(v, "pending") || t.isRecvField(v, "mutex") || t.isRecvField(v, "shutdown") || t.isRecvField(v, "closing") || t.isRecvField(v, "seq") {
				found = true
			}
			if v.Sel.Name == "done" {
				found = true
			}
		}
		return !found
	})
	return found
}

// the escapes in an expression that is only read: a *Call variable as a call argument, composite element, operand of
// anything but a comparison or a field selection
func (t *tr) escapes(e ast.Node) []string {
	var ops []string
	if e == nil {
		return nil
	}
	var walk func(n ast.Node, safe bool)
	walk = func(n ast.Node, safe bool) {
		switch v := n.(type) {
		case nil:
		case *ast.Ident:
			if x, ok := t.callVar(v); ok && !safe {
				ops = append(ops, fmt.Sprintf("PEscape %d", x))
			}
		case *ast.SelectorExpr:
			if v.Sel.Name == "done" {
				fail(v.Pos(), "done() outside a statement of its own")
			}
			if t.isRecvField(v, "seq") {
				fail(v.Pos(), "client.seq read outside `k := client.seq`")
			}
			if _, ok := v.X.(*ast.Ident); ok {
				walk(v.X, true) // a field read
			} else {
				walk(v.X, false)
			}
		case *ast.BinaryExpr:
			cmp := v.Op == token.EQL || v.Op == token.NEQ
			walk(v.X, cmp)
			walk(v.Y, cmp)
		case *ast.ParenExpr:
			walk(v.X, safe)
		case *ast.UnaryExpr:
			walk(v.X, false)
		case *ast.StarExpr:
			walk(v.X, false)
		case *ast.IndexExpr:
			if _, ok := t.pendingIndex(v); ok {
				fail(v.Pos(), "client.pending read outside `v = client.pending[k]`")
			}
			walk(v.X, false)
			walk(v.Index, false)
		case *ast.TypeAssertExpr:
			walk(v.X, false)
		case *ast.CallExpr:
			if s, ok := v.Fun.(*ast.SelectorExpr); ok {
				if id, ok := s.X.(*ast.Ident); ok && (id.Name == "log" || id.Name == "verifhook") {
					return // logging and the verification hooks only look
				}
				walk(s.X, true)
			} else if id, ok := v.Fun.(*ast.Ident); ok && id.Name == "len" {
				for _, a := range v.Args {
					walk(a, true)
				}
				return
			} else {
				walk(v.Fun, false)
			}
			for _, a := range v.Args {
				walk(a, false)
			}
		case *ast.FuncLit:
			if t.mentions(v) {
				fail(v.Pos(), "a function literal mentions the pending table, the mutex, the flags or a *Call variable")
			}
		case *ast.CompositeLit:
			for _, el := range v.Elts {
				walk(el, false)
			}
		case *ast.KeyValueExpr:
			walk(v.Key, false)
			walk(v.Value, false)
		case *ast.SliceExpr:
			walk(v.X, false)
		case *ast.BasicLit, *ast.ArrayType, *ast.MapType, *ast.ChanType, *ast.StructType, *ast.InterfaceType, *ast.FuncType:
		default:
			if nn, ok := n.(ast.Node); ok && t.mentions(nn) {
				fail(n.Pos(), "expression %T mentions something tracked", n)
			}
		}
	}
	walk(e, false)
	return ops
}

// what a condition says on its true side and on its false side
func (t *tr) cond(e ast.Expr) (yes, no []string) {
	switch v := e.(type) {
	case *ast.ParenExpr:
		return t.cond(v.X)
	case *ast.UnaryExpr:
		if v.Op == token.NOT {
			n, y := t.cond(v.X)
			return y, n
		}
	case *ast.BinaryExpr:
		switch v.Op {
		case token.LAND:
			y1, _ := t.cond(v.X)
			y2, _ := t.cond(v.Y)
			return append(y1, y2...), nil
		case token.LOR:
			if (t.isRecvField(v.X, "shutdown") && t.isRecvField(v.Y, "closing")) || (t.isRecvField(v.X, "closing") && t.isRecvField(v.Y, "shutdown")) {
				return []string{"PShut"}, []string{"POpen"}
			}
			_, n1 := t.cond(v.X)
			_, n2 := t.cond(v.Y)
			return nil, append(n1, n2...)
		case token.EQL, token.NEQ:
			var y, n []string
			a, aok := t.callVar(v.X)
			b, bok := t.callVar(v.Y)
			switch {
			case aok && isNil(v.Y):
				y, n = []string{fmt.Sprintf("PIsNil %d", a)}, []string{fmt.Sprintf("PNonNil %d", a)}
			case bok && isNil(v.X):
				y, n = []string{fmt.Sprintf("PIsNil %d", b)}, []string{fmt.Sprintf("PNonNil %d", b)}
			case aok && bok:
				y, n = []string{fmt.Sprintf("PSame %d %d", a, b)}, []string{fmt.Sprintf("PDiff %d %d", a, b)}
			default:
				return nil, nil
			}
			if v.Op == token.NEQ {
				return n, y
			}
			return y, n
		}
	case *ast.SelectorExpr:
		if t.isRecvField(v, "shutdown") || t.isRecvField(v, "closing") {
			return []string{"PShut"}, nil
		}
	}
	return nil, nil
}

func extend(ps []path, ops []string) []path {
	if len(ops) == 0 {
		return ps
	}
	out := make([]path, len(ps))
	for i, p := range ps {
		if p.state != 0 {
			out[i] = p
			continue
		}
		out[i] = path{ops: append(append([]string{}, p.ops...), ops...), defers: p.defers}
	}
	return out
}

func split(ps []path) (live, dead []path) {
	for _, p := range ps {
		if p.state != 0 {
			dead = append(dead, p)
		} else {
			live = append(live, p)
		}
	}
	return
}

func finish(p path) path {
	ops := append([]string{}, p.ops...)
	for i := len(p.defers) - 1; i >= 0; i-- {
		ops = append(ops, p.defers[i]...)
	}
	return path{ops: ops, state: 1}
}

func (t *tr) block(list []ast.Stmt, ps []path) []path {
	for _, s := range list {
		ps = t.stmt(s, ps)
	}
	return ps
}

func (t *tr) chanOf(e ast.Expr) bool {
	if u, ok := e.(*ast.UnaryExpr); ok && u.Op == token.ARROW {
		if id, ok := u.X.(*ast.Ident); ok && id.Obj != nil && t.chans[id.Obj] {
			return true
		}
	}
	return false
}

func isCallPtr(e ast.Expr) bool {
	s, ok := e.(*ast.StarExpr)
	if !ok {
		return false
	}
	id, ok := s.X.(*ast.Ident)
	return ok && id.Name == "Call"
}

func (t *tr) assign(v *ast.AssignStmt) []string {
	var ops []string
	// single assignments with a meaning of their own
	if len(v.Lhs) == 1 && len(v.Rhs) == 1 {
		l, r := v.Lhs[0], v.Rhs[0]
		if k, ok := t.pendingIndex(l); ok { // client.pending[k] = v
			x, isVar := t.callVar(r)
			if !isVar {
				fail(v.Pos(), "client.pending[...] = something that is not a *Call variable of this function")
			}
			return append(t.escapes(k), fmt.Sprintf("PReg %d %d", t.key(k), x))
		}
		if k, ok := t.pendingIndex(r); ok { // v = client.pending[k]
			id, isId := l.(*ast.Ident)
			if !isId {
				fail(v.Pos(), "client.pending[...] read into something that is not a variable")
			}
			x := t.declare(id)
			return append(t.escapes(k), fmt.Sprintf("PPeek %d %d", x, t.key(k)))
		}
		if t.isRecvField(l, "pending") {
			if c, ok := r.(*ast.CallExpr); ok {
				if id, ok := c.Fun.(*ast.Ident); ok && id.Name == "make" {
					return nil // the table is created on first use
				}
			}
			fail(v.Pos(), "client.pending replaced")
		}
		if t.isRecvField(l, "seq") {
			fail(v.Pos(), "client.seq assigned (only client.seq++ is known)")
		}
		if t.isRecvField(r, "seq") {
			if _, isId := l.(*ast.Ident); !isId {
				fail(v.Pos(), "client.seq read into something that is not a variable")
			}
			return []string{fmt.Sprintf("PSeqRead %d", t.key(l))}
		}
		if t.isRecvField(l, "shutdown") || t.isRecvField(l, "closing") {
			if !isTrue(r) {
				fail(v.Pos(), "a flag set to something other than true")
			}
			if t.isRecvField(l, "shutdown") {
				return []string{"PSetShutdown"}
			}
			return []string{"PSetClosing"}
		}
		if id, ok := l.(*ast.Ident); ok {
			if c, ok := r.(*ast.CallExpr); ok {
				if f, ok := c.Fun.(*ast.Ident); ok && f.Name == "new" && len(c.Args) == 1 {
					if a, ok := c.Args[0].(*ast.Ident); ok && a.Name == "Call" {
						return []string{fmt.Sprintf("PNew %d", t.declare(id))}
					}
				}
				if s, ok := c.Fun.(*ast.SelectorExpr); ok && s.Sel.Name == "Go" {
					if x, ok := s.X.(*ast.Ident); ok && x.Name == t.recv {
						ops = append(ops, t.escapes(r)...)
						return append(ops, fmt.Sprintf("PMine %d", t.declare(id)))
					}
				}
				if f, ok := c.Fun.(*ast.Ident); ok && f.Name == "make" && len(c.Args) >= 1 {
					if ch, ok := c.Args[0].(*ast.ChanType); ok && isCallPtr(ch.Value) && id.Obj != nil {
						t.chans[id.Obj] = true
						return nil
					}
				}
			}
			if s, ok := r.(*ast.SelectorExpr); ok && s.Sel.Name == "Done" && id.Obj != nil {
				if _, isVar := t.callVar(s.X); isVar {
					t.chans[id.Obj] = true
					return nil
				}
			}
			if x, isVar := t.callVar(id); isVar {
				if isNil(r) {
					return []string{fmt.Sprintf("PNil %d", x)}
				}
				fail(v.Pos(), "*Call variable %s assigned something this translator does not know", id.Name)
			}
		}
	}
	for _, r := range v.Rhs {
		ops = append(ops, t.escapes(r)...)
	}
	for _, l := range v.Lhs {
		switch lv := l.(type) {
		case *ast.SelectorExpr:
			if x, ok := t.callVar(lv.X); ok {
				ops = append(ops, fmt.Sprintf("PWrite %d", x))
				continue
			}
			if t.isRecvField(lv, "pending") || t.isRecvField(lv, "shutdown") || t.isRecvField(lv, "closing") || t.isRecvField(lv, "mutex") || t.isRecvField(lv, "seq") {
				fail(v.Pos(), "a tracked field assigned in a multiple assignment")
			}
			ops = append(ops, t.escapes(lv.X)...)
		case *ast.Ident:
			if _, ok := t.callVar(lv); ok {
				fail(v.Pos(), "*Call variable %s assigned something this translator does not know", lv.Name)
			}
		default:
			ops = append(ops, t.escapes(l)...)
		}
	}
	return ops
}

func (t *tr) exprStmt(e ast.Expr) []string {
	c, ok := e.(*ast.CallExpr)
	if !ok {
		return t.escapes(e)
	}
	if s, ok := c.Fun.(*ast.SelectorExpr); ok {
		if s.Sel.Name == "done" && len(c.Args) == 0 {
			x, isVar := t.callVar(s.X)
			if !isVar {
				fail(c.Pos(), "done() on something that is not a *Call variable of this function")
			}
			return []string{fmt.Sprintf("PDone %d", x)}
		}
		if t.isRecvField(s.X, "mutex") {
			switch s.Sel.Name {
			case "Lock":
				return []string{"PLock"}
			case "Unlock":
				return []string{"PUnlock"}
			}
			fail(c.Pos(), "client.mutex.%s", s.Sel.Name)
		}
	}
	if id, ok := c.Fun.(*ast.Ident); ok && id.Name == "delete" && len(c.Args) == 2 && t.isRecvField(c.Args[0], "pending") {
		return append(t.escapes(c.Args[1]), fmt.Sprintf("PDel %d", t.key(c.Args[1])))
	}
	return t.escapes(e)
}

func (t *tr) branch(ps []path, yes, no []string, thenB func([]path) []path, elseB func([]path) []path) []path {
	live, dead := split(ps)
	th := thenB(extend(append([]path{}, live...), yes))
	el := extend(append([]path{}, live...), no)
	if elseB != nil {
		el = elseB(el)
	}
	return append(append(dead, th...), el...)
}

func (t *tr) stmt(s ast.Stmt, ps []path) []path {
	switch v := s.(type) {
	case *ast.AssignStmt:
		return extend(ps, t.assign(v))
	case *ast.ExprStmt:
		return extend(ps, t.exprStmt(v.X))
	case *ast.DeclStmt:
		var ops []string
		if gd, ok := v.Decl.(*ast.GenDecl); ok {
			for _, sp := range gd.Specs {
				vs, ok := sp.(*ast.ValueSpec)
				if !ok {
					continue
				}
				if isCallPtr(vs.Type) {
					if len(vs.Values) != 0 {
						fail(v.Pos(), "a *Call variable declared with a value")
					}
					for _, n := range vs.Names {
						ops = append(ops, fmt.Sprintf("PNil %d", t.declare(n)))
					}
					continue
				}
				for _, e := range vs.Values {
					ops = append(ops, t.escapes(e)...)
				}
			}
		}
		return extend(ps, ops)
	case *ast.IncDecStmt:
		if t.isRecvField(v.X, "seq") && v.Tok == token.INC {
			return extend(ps, []string{"PSeqInc"})
		}
		if t.mentions(v) {
			fail(v.Pos(), "statement mentions something tracked")
		}
		return ps
	case *ast.EmptyStmt:
		return ps
	case *ast.SendStmt:
		return extend(ps, append(t.escapes(v.Chan), t.escapes(v.Value)...))
	case *ast.ReturnStmt:
		var ops []string
		for _, r := range v.Results {
			ops = append(ops, t.escapes(r)...)
		}
		ps = extend(ps, ops)
		out := make([]path, len(ps))
		for i, p := range ps {
			if p.state != 0 {
				out[i] = p
			} else {
				out[i] = finish(p)
			}
		}
		return out
	case *ast.BranchStmt:
		if v.Label != nil || (v.Tok != token.CONTINUE && v.Tok != token.BREAK) {
			fail(v.Pos(), "%s", v.Tok)
		}
		if !t.inLoop {
			fail(v.Pos(), "%s outside the read loop", v.Tok)
		}
		out := make([]path, len(ps))
		for i, p := range ps {
			if p.state == 0 {
				p.state = 2
				if v.Tok == token.BREAK {
					p.state = 3
				}
			}
			out[i] = p
		}
		return out
	case *ast.DeferStmt:
		var dops []string
		if fl, ok := v.Call.Fun.(*ast.FuncLit); ok {
			if t.mentions(fl) {
				fail(v.Pos(), "a deferred function literal mentions something tracked")
			}
		} else {
			dops = t.exprStmt(v.Call)
		}
		if len(dops) == 0 {
			return ps
		}
		out := make([]path, len(ps))
		for i, p := range ps {
			if p.state != 0 {
				out[i] = p
				continue
			}
			out[i] = path{ops: p.ops, defers: append(append([][]string{}, p.defers...), dops)}
		}
		return out
	case *ast.BlockStmt:
		return t.block(v.List, ps)
	case *ast.IfStmt:
		if v.Init != nil {
			ps = t.stmt(v.Init, ps)
		}
		ps = extend(ps, t.escapes(v.Cond))
		yes, no := t.cond(v.Cond)
		var elseB func([]path) []path
		if v.Else != nil {
			elseB = func(q []path) []path { return t.stmt(v.Else, q) }
		}
		return t.branch(ps, yes, no, func(q []path) []path { return t.block(v.Body.List, q) }, elseB)
	case *ast.SwitchStmt:
		if v.Init != nil {
			ps = t.stmt(v.Init, ps)
		}
		if v.Tag != nil {
			if t.mentions(v) {
				fail(v.Pos(), "a switch on a value mentions something tracked")
			}
			return ps
		}
		var clauses []*ast.CaseClause
		var def *ast.CaseClause
		for _, c := range v.Body.List {
			cc := c.(*ast.CaseClause)
			for _, st := range cc.Body {
				if b, ok := st.(*ast.BranchStmt); ok && b.Tok == token.FALLTHROUGH {
					fail(b.Pos(), "fallthrough")
				}
			}
			if cc.List == nil {
				def = cc
			} else {
				clauses = append(clauses, cc)
			}
		}
		var rec func(i int, q []path) []path
		rec = func(i int, q []path) []path {
			if i == len(clauses) {
				if def != nil {
					return t.block(def.Body, q)
				}
				return q
			}
			cc := clauses[i]
			if len(cc.List) != 1 {
				fail(cc.Pos(), "a case with several conditions")
			}
			q = extend(q, t.escapes(cc.List[0]))
			yes, no := t.cond(cc.List[0])
			return t.branch(q, yes, no, func(r []path) []path { return t.block(cc.Body, r) },
				func(r []path) []path { return rec(i+1, r) })
		}
		return rec(0, ps)
	case *ast.TypeSwitchStmt:
		if t.mentions(v) {
			fail(v.Pos(), "a type switch mentions something tracked")
		}
		return ps
	case *ast.SelectStmt:
		live, dead := split(ps)
		out := dead
		for _, c := range v.Body.List {
			cc := c.(*ast.CommClause)
			q := append([]path{}, live...)
			switch cm := cc.Comm.(type) {
			case nil:
			case *ast.AssignStmt:
				if len(cm.Lhs) == 1 && len(cm.Rhs) == 1 && t.chanOf(cm.Rhs[0]) {
					id, ok := cm.Lhs[0].(*ast.Ident)
					if !ok {
						fail(cm.Pos(), "a *Call received into something that is not a variable")
					}
					q = extend(q, []string{fmt.Sprintf("PRecv %d", t.declare(id))})
				} else {
					q = extend(q, t.assign(cm))
				}
			case *ast.ExprStmt:
				q = extend(q, t.escapes(cm.X))
			case *ast.SendStmt:
				q = extend(q, append(t.escapes(cm.Chan), t.escapes(cm.Value)...))
			}
			out = append(out, t.block(cc.Body, q)...)
		}
		return out
	case *ast.RangeStmt:
		if t.isRecvField(v.X, "pending") {
			kid, kok := v.Key.(*ast.Ident)
			vid, vok := v.Value.(*ast.Ident)
			if !kok || !vok || v.Tok != token.DEFINE {
				fail(v.Pos(), "a range over client.pending that does not declare its key and value")
			}
			x := t.declare(vid)
			k := t.key(kid)
			sub := *t
			sub.inLoop = false
			bodies := sub.block(v.Body.List, []path{{}})
			t.varName, t.keyText = sub.varName, sub.keyText
			var bs []string
			for _, b := range bodies {
				if b.state != 0 || len(b.defers) != 0 {
					fail(v.Pos(), "a range over client.pending whose body returns, jumps or defers")
				}
				for _, o := range b.ops {
					if strings.HasPrefix(o, "(SLoop") {
						fail(v.Pos(), "nested ranges over client.pending")
					}
				}
				bs = append(bs, "["+strings.Join(b.ops, "; ")+"]")
			}
			return extend(ps, []string{fmt.Sprintf("(SLoop %d %d [%s])", x, k, strings.Join(bs, "; "))})
		}
		if t.mentions(v) {
			t.inert(v.Pos(), v.Body, v.X)
		}
		return ps
	case *ast.ForStmt:
		if t.mentions(v) {
			if v.Init != nil || v.Post != nil {
				fail(v.Pos(), "a for loop other than the read loop mentions something tracked")
			}
			t.inert(v.Pos(), v.Body, v.Cond)
		}
		return ps
	case *ast.GoStmt:
		if t.mentions(v) {
			fail(v.Pos(), "a go statement mentions something tracked")
		}
		return ps
	case *ast.LabeledStmt:
		fail(v.Pos(), "a label")
	}
	if t.mentions(s) {
		fail(s.Pos(), "statement %T mentions something tracked", s)
	}
	return ps
}

// a loop that only reads *Call fields: its body does nothing this translator tracks
func (t *tr) inert(pos token.Pos, body *ast.BlockStmt, head ast.Expr) {
	if head != nil && len(t.escapes(head)) != 0 {
		fail(pos, "a loop over something tracked")
	}
	sub := *t
	sub.inLoop = false
	for _, b := range sub.block(body.List, []path{{}}) {
		if b.state != 0 || len(b.ops) != 0 || len(b.defers) != 0 {
			fail(pos, "a loop other than the read loop and the ranges over client.pending does something tracked")
		}
	}
	t.varName, t.keyText = sub.varName, sub.keyText
}

func render(ops []string) string {
	var out []string
	for _, o := range ops {
		if strings.HasPrefix(o, "(SLoop") {
			out = append(out, o[1:len(o)-1])
		} else if strings.Contains(o, " ") {
			out = append(out, "S ("+o+")")
		} else {
			out = append(out, "S "+o)
		}
	}
	return "[" + strings.Join(out, "; ") + "]"
}

func uniq(ps []path) []string {
	seen := map[string]bool{}
	var out []string
	for _, p := range ps {
		if p.state == 0 {
			p = finish(p)
		}
		r := render(p.ops)
		if !seen[r] {
			seen[r] = true
			out = append(out, r)
		}
	}
	return out
}

// the function whose top-level `for` is the read loop: iteration paths and exit paths
func (t *tr) withLoop(fd *ast.FuncDecl) (iter, exit []string) {
	var loop *ast.ForStmt
	idx := -1
	for i, s := range fd.Body.List {
		if f, ok := s.(*ast.ForStmt); ok && t.mentions(f) {
			if loop != nil {
				fail(f.Pos(), "two loops that touch the table")
			}
			loop, idx = f, i
		}
	}
	if loop == nil {
		fail(fd.Pos(), "%s has no read loop", fd.Name.Name)
	}
	pre := t.block(fd.Body.List[:idx], []path{{}})
	if len(pre) != 1 || len(pre[0].ops) != 0 || len(pre[0].defers) != 0 || pre[0].state != 0 {
		fail(fd.Pos(), "something tracked happens before the read loop")
	}
	if loop.Init != nil || loop.Post != nil {
		fail(loop.Pos(), "the read loop has an init or post statement")
	}
	if loop.Cond != nil && t.mentions(loop.Cond) {
		fail(loop.Pos(), "the condition of the read loop mentions something tracked")
	}
	t.inLoop = true
	body := t.block(loop.Body.List, []path{{}})
	t.inLoop = false
	var again, out []path
	for _, p := range body {
		if len(p.defers) != 0 {
			fail(loop.Pos(), "defer inside the read loop")
		}
		switch p.state {
		case 0, 2:
			again = append(again, path{ops: p.ops})
		case 3:
			out = append(out, path{ops: p.ops})
		case 1:
			exit = append(exit, render(p.ops))
		}
	}
	if loop.Cond != nil {
		out = append(out, path{}) // the condition fails at the head of the loop
	}
	tail := t.block(fd.Body.List[idx+1:], out)
	return uniq(again), append(exit, uniq(tail)...)
}

func main() {
	if len(os.Args) != 2 {
		fmt.Fprintln(os.Stderr, "usage: gopending2v <client directory>")
		os.Exit(2)
	}
	files, err := filepath.Glob(filepath.Join(os.Args[1], "*.go"))
	if err != nil || len(files) == 0 {
		fmt.Fprintln(os.Stderr, "gopending2v: no source files")
		os.Exit(2)
	}
	sort.Strings(files)
	want := map[string]bool{"send": false, "SendRaw": false, "call": false, "input": false, "Close": false}
	defs := map[string][]string{}
	var tables []string
	for _, fn := range files {
		if strings.HasSuffix(fn, "_test.go") {
			continue
		}
		src, err := os.ReadFile(fn)
		if err != nil {
			fmt.Fprintln(os.Stderr, "gopending2v:", err)
			os.Exit(2)
		}
		if bytes.Contains(src, []byte("//go:build verif")) {
			continue // the verification exports only read
		}
		f, err := parser.ParseFile(fset, fn, src, 0)
		if err != nil {
			fmt.Fprintln(os.Stderr, "gopending2v:", err)
			os.Exit(2)
		}
		for _, d := range f.Decls {
			fd, ok := d.(*ast.FuncDecl)
			if !ok || fd.Body == nil {
				continue
			}
			recvName, recvType := "", ""
			if fd.Recv != nil && len(fd.Recv.List) == 1 {
				if len(fd.Recv.List[0].Names) == 1 {
					recvName = fd.Recv.List[0].Names[0].Name
				}
				if st, ok := fd.Recv.List[0].Type.(*ast.StarExpr); ok {
					if id, ok := st.X.(*ast.Ident); ok {
						recvType = id.Name
					}
				}
			}
			_, known := want[fd.Name.Name]
			if !known || recvType != "Client" || filepath.Base(fn) != "client.go" {
				if recvType == "Call" && fd.Name.Name == "done" {
					continue
				}
				touches := false
				ast.Inspect(fd.Body, func(n ast.Node) bool {
					// the sequence counter is written only where this translator sees it
					var lhs []ast.Expr
					switch st := n.(type) {
					case *ast.AssignStmt:
						lhs = st.Lhs
					case *ast.IncDecStmt:
						lhs = []ast.Expr{st.X}
					}
					for _, l := range lhs {
						if sel, ok := l.(*ast.SelectorExpr); ok && sel.Sel.Name == "seq" && recvType == "Client" {
							if id, ok := sel.X.(*ast.Ident); ok && id.Name == recvName {
								touches = true
							}
						}
					}
					if s, ok := n.(*ast.SelectorExpr); ok && (s.Sel.Name == "pending" || s.Sel.Name == "done") {
						if s.Sel.Name == "done" {
							touches = true
						} else if id, ok := s.X.(*ast.Ident); ok && recvType == "Client" && id.Name == recvName {
							touches = true
						}
					}
					return !touches
				})
				if touches {
					fail(fd.Pos(), "function %s touches the pending table or the sequence counter, or completes a call, but is not one of send, SendRaw, call, input, Close", fd.Name.Name)
				}
				continue
			}
			want[fd.Name.Name] = true
			t := &tr{recv: recvName, vars: map[*ast.Object]int{}, chans: map[*ast.Object]bool{}, keys: map[string]int{}}
			var pre []string
			for _, p := range fd.Type.Params.List {
				if isCallPtr(p.Type) {
					for _, n := range p.Names {
						pre = append(pre, fmt.Sprintf("PNew %d", t.declare(n)))
					}
				}
			}
			name := strings.ToLower(fd.Name.Name)
			if fd.Name.Name == "input" {
				iter, exit := t.withLoop(fd)
				defs[name+"_iter"], defs[name+"_exit"] = iter, exit
			} else {
				ps := t.block(fd.Body.List, extend([]path{{}}, pre))
				defs[name] = uniq(ps)
			}
			tables = append(tables, fmt.Sprintf("   %s: variables %s; keys %s", fd.Name.Name,
				numbered(t.varName), numbered(t.keyText)))
		}
	}
	for k, ok := range want {
		if !ok {
			fmt.Fprintf(os.Stderr, "gopending2v: cannot translate: method %s not found\n", k)
			os.Exit(2)
		}
	}
	var out strings.Builder
	out.WriteString("(* GENERATED by tools/gopending2v from client/client.go on every run - do not edit.\n")
	out.WriteString("   One entry per syntactic control-flow path of the functions that touch client.pending.\n")
	sort.Strings(tables)
	out.WriteString(strings.ReplaceAll(strings.ReplaceAll(strings.Join(tables, "\n"), "*)", "* )"), "(*", "( *") + " *)\n")
	out.WriteString("From Coq Require Import List.\nFrom RPCX Require Import Client.Pending.\nImport ListNotations.\n\n")
	names := make([]string, 0, len(defs))
	for n := range defs {
		names = append(names, n)
	}
	sort.Strings(names)
	for _, n := range names {
		if len(defs[n]) == 0 {
			fmt.Fprintf(os.Stderr, "gopending2v: cannot translate: no path through %s\n", n)
			os.Exit(2)
		}
		fmt.Fprintf(&out, "Definition %s_paths : list (list sop) := [\n  %s\n].\n\n", n, strings.Join(defs[n], ";\n  "))
	}
	fmt.Print(out.String())
}

func numbered(l []string) string {
	var out []string
	for i, s := range l {
		out = append(out, fmt.Sprintf("%d=%s", i, s))
	}
	if len(out) == 0 {
		return "-"
	}
	return strings.Join(out, ", ")
}
