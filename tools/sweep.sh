#!/bin/sh
# sweep.sh: every seeded change and every reverted fix against the check of its property (run it with vp run --with-repo,
# VERIF_REPO pointing at the copy).  Prints one line per change.
cd "$(dirname "$0")/.."
./check setup > setup.log 2>&1; tail -1 setup.log
for d in seeded/C*; do
  python3 tools/mutants.py detect $(basename $d) 2>&1 | tail -1
done
python3 tools/regress.py 2>&1 | tail -30
