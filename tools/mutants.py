#!/usr/bin/env python3
"""Seeded-defect bookkeeping.
  mutants.py confirm <Cxx> [dir]   confirm a sub-agent's change in its scratch worktree (/tmp/mut/Cxx):
                                   builds, existing tests pass with it, demo fails with it and passes without;
                                   stores patch.diff, the demo and meta.json under /verif/seeded/<Cxx>[-n]/
  mutants.py detect <seeded-id> [check ids...]
                                   apply the stored patch to /repo, run the named checks (default: its property),
                                   undo the patch, record which checks reported a violation in meta.json
"""
import glob, json, os, re, shutil, subprocess, sys, time

ENV = dict(os.environ, GOFLAGS="-mod=mod", GOPROXY="off", GOSUMDB="off", GOTOOLCHAIN="local")
REPO = os.environ.get("VERIF_REPO", "/repo")
ROOT = os.path.dirname(os.path.dirname(os.path.abspath(__file__)))
PKGS = "./client/ ./server/ ./protocol/ ./util/ ./share/ ./errors/ ./codec/ ./reflection/ ./serverplugin/"


def sh(cmd, cwd=None, timeout=1800):
    p = subprocess.run(cmd, cwd=cwd, shell=True, env=ENV, stdout=subprocess.PIPE, stderr=subprocess.STDOUT, text=True,
                       timeout=timeout, errors="replace")
    return p.returncode, p.stdout


def confirm(pid, wt=None, sid=None):
    wt = wt or "/tmp/mut/" + pid
    sid = sid or pid
    out = os.path.join(wt, "_out")
    patch = os.path.join(out, "patch.diff")
    demos = [f for f in glob.glob(os.path.join(out, "*_test.go"))]
    assert os.path.exists(patch) and demos, "missing _out/patch.diff or demo"
    demo = demos[0]
    # locate the demo inside the worktree (same basename)
    inplace = [f for f in glob.glob(os.path.join(wt, "**", os.path.basename(demo)), recursive=True) if "/_out/" not in f]
    assert inplace, "demo not found in worktree"
    pkg = "./" + os.path.relpath(os.path.dirname(inplace[0]), wt) + "/"
    src = open(demo).read()
    tests = re.findall(r"^func (Test\w+)\(", src, flags=re.M)
    runpat = "^(" + "|".join(tests) + ")$"
    res = {"property": pid, "demo_pkg": pkg, "demo_tests": tests}
    # state: patch applied?  normalise: checkout, then apply
    sh("git checkout -- .", cwd=wt)
    rc, o = sh("git apply --check %s" % patch, cwd=wt)
    assert rc == 0, "patch does not apply to a clean worktree: " + o
    # clean tree: demo passes
    rc, o = sh("go test -vet=off -count=1 -run '%s' %s" % (runpat, pkg), cwd=wt)
    res["demo_clean_rc"] = rc
    res["demo_clean_tail"] = o[-600:]
    # patched tree
    sh("git apply %s" % patch, cwd=wt)
    rc, o = sh("go build ./... && go build -tags verif ./...", cwd=wt)
    res["build_rc"] = rc
    rc, o = sh("go test -vet=off -count=1 -run '%s' %s" % (runpat, pkg), cwd=wt)
    res["demo_patched_rc"] = rc
    res["demo_patched_tail"] = o[-1200:]
    skip = "|".join(tests)
    rc, o = sh("go test -vet=off -count=1 -skip '^(%s)$' %s" % (skip, PKGS), cwd=wt, timeout=3000)
    res["suite_patched_rc"] = rc
    res["suite_patched_tail"] = o[-800:]
    ok = res["demo_clean_rc"] == 0 and res["build_rc"] == 0 and res["demo_patched_rc"] != 0 and res["suite_patched_rc"] == 0
    res["confirmed"] = ok
    res["ran"] = ["go test -run '<demo tests>' %s on the clean worktree (pass expected)" % pkg,
                  "git apply patch.diff; go build ./... && go build -tags verif ./...",
                  "go test -run '<demo tests>' %s with the patch (fail expected)" % pkg,
                  "go test -skip '<demo tests>' %s with the patch (pass expected)" % PKGS]
    notes = ""
    if os.path.exists(os.path.join(out, "notes.md")):
        notes = open(os.path.join(out, "notes.md")).read()
    res["needs_to_manifest"] = notes[:3000]
    dst = os.path.join("/verif/seeded", sid)
    if ok:
        os.makedirs(dst, exist_ok=True)
        shutil.copy(patch, os.path.join(dst, "patch.diff"))
        shutil.copy(demo, os.path.join(dst, os.path.basename(demo) + ".txt"))  # .txt: not compiled by accident
        json.dump(res, open(os.path.join(dst, "meta.json"), "w"), indent=1)
    print(json.dumps({k: res[k] for k in ("property", "confirmed", "demo_clean_rc", "build_rc", "demo_patched_rc", "suite_patched_rc")}))
    if not ok:
        print(res["demo_clean_tail"][-300:], res["demo_patched_tail"][-300:], res["suite_patched_tail"][-400:])
    return ok


def detect(sid, checks=None):
    dst = os.path.join(ROOT, "seeded", sid)
    meta = json.load(open(os.path.join(dst, "meta.json")))
    checks = checks or [meta["property"]]
    if os.path.exists(os.path.join(REPO, ".git")):
        rc, o = sh("git status --porcelain", cwd=REPO)
        assert o.strip() == "", REPO + " is not clean: " + o
    rc, o = sh("git apply %s" % os.path.join(dst, "patch.diff"), cwd=REPO)
    assert rc == 0, "patch does not apply to /repo: " + o
    results = meta.get("detection", {})
    try:
        for c in checks:
            t0 = time.time()
            rc, o = sh("./check %s quick" % c, cwd=ROOT, timeout=3600)
            viol = [l for l in o.splitlines() if l.startswith("VIOLATION")]
            results[c] = {"rc": rc, "violation_line": viol[0] if viol else None, "wall_s": round(time.time() - t0, 1),
                          "summary": o.strip().splitlines()[0][:300] if o.strip() else ""}
            if viol:
                m = re.search(r"replay=(\S+)", viol[0])
                if m and os.path.exists(m.group(1)):
                    rp = json.load(open(m.group(1)))
                    results[c]["signature"] = rp.get("signature") or ("broken:" + ",".join(x["kind"] for x in rp.get("no_longer_checks", [])))
                    results[c]["observed"] = (rp.get("observed") or "")[:400]
            print(sid, c, "rc=%d" % rc, viol[0] if viol else "(no violation)")
    finally:
        sh("git apply -R %s" % os.path.join(dst, "patch.diff"), cwd=REPO)
    meta["detection"] = results
    json.dump(meta, open(os.path.join(dst, "meta.json"), "w"), indent=1)


if __name__ == "__main__":
    if sys.argv[1] == "confirm":
        ok = confirm(*sys.argv[2:])
        sys.exit(0 if ok else 1)
    elif sys.argv[1] == "detect":
        detect(sys.argv[2], sys.argv[3:] or None)
