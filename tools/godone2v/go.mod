module godone2v

go 1.23.0
