// godone2v: who closes Server.doneChan, and under which lock (server/*.go -> Server/DoneChanGen.v).
//
// close(s.doneChan) may appear in exactly one place: the default branch of
//
//	select { case <-s.doneChan: default: close(s.doneChan) }
//
// which must be the whole body of a method of *Server (closeDoneChanLocked).  Every call of that method is emitted with
// whether it stands, in its function, under s.mu: after `s.mu.Lock()` with no `s.mu.Unlock()` in between at the same
// block level (statements of enclosing blocks before the block count), or after `defer s.mu.Unlock()` following a Lock.
// Anything else that closes, replaces or sends on doneChan is refused (exit status 2).
//
//	godone2v /repo/server > DoneChanGen.v
package main

import (
	"bytes"
	"fmt"
	"go/ast"
	"go/parser"
	"go/token"
	"os"
	"path/filepath"
	"sort"
	"strings"
)

var fset = token.NewFileSet()

func fail(p token.Pos, format string, a ...interface{}) {
	fmt.Fprintf(os.Stderr, "godone2v: %s: cannot translate: %s\n", fset.Position(p), fmt.Sprintf(format, a...))
	os.Exit(2)
}

func isField(e ast.Expr, recv, field string) bool {
	s, ok := e.(*ast.SelectorExpr)
	if !ok || s.Sel.Name != field {
		return false
	}
	id, ok := s.X.(*ast.Ident)
	return ok && id.Name == recv
}

func isMuCall(s ast.Stmt, recv, name string) bool {
	es, ok := s.(*ast.ExprStmt)
	if !ok {
		return false
	}
	return isMuCallExpr(es.X, recv, name)
}

func isMuCallExpr(e ast.Expr, recv, name string) bool {
	c, ok := e.(*ast.CallExpr)
	if !ok {
		return false
	}
	sel, ok := c.Fun.(*ast.SelectorExpr)
	return ok && sel.Sel.Name == name && isField(sel.X, recv, "mu")
}

// the closer: select { case <-s.doneChan: default: close(s.doneChan) }
func isCloserBody(b *ast.BlockStmt, recv string) bool {
	if len(b.List) != 1 {
		return false
	}
	sel, ok := b.List[0].(*ast.SelectStmt)
	if !ok || len(sel.Body.List) != 2 {
		return false
	}
	var sawRecv, sawClose bool
	for _, c := range sel.Body.List {
		cc := c.(*ast.CommClause)
		if cc.Comm == nil {
			if len(cc.Body) != 1 {
				return false
			}
			es, ok := cc.Body[0].(*ast.ExprStmt)
			if !ok {
				return false
			}
			call, ok := es.X.(*ast.CallExpr)
			if !ok || len(call.Args) != 1 {
				return false
			}
			f, ok := call.Fun.(*ast.Ident)
			if !ok || f.Name != "close" || !isField(call.Args[0], recv, "doneChan") {
				return false
			}
			sawClose = true
			continue
		}
		es, ok := cc.Comm.(*ast.ExprStmt)
		if !ok || len(cc.Body) != 0 {
			return false
		}
		u, ok := es.X.(*ast.UnaryExpr)
		if !ok || u.Op != token.ARROW || !isField(u.X, recv, "doneChan") {
			return false
		}
		sawRecv = true
	}
	return sawRecv && sawClose
}

type site struct {
	fn   string
	held bool
	pos  token.Pos
}

func main() {
	if len(os.Args) != 2 {
		fmt.Fprintln(os.Stderr, "usage: godone2v <server directory>")
		os.Exit(2)
	}
	files, _ := filepath.Glob(filepath.Join(os.Args[1], "*.go"))
	sort.Strings(files)
	closer := ""
	var sites []site
	type fnInfo struct {
		fd   *ast.FuncDecl
		recv string
	}
	var fns []fnInfo
	for _, fn := range files {
		if strings.HasSuffix(fn, "_test.go") {
			continue
		}
		src, err := os.ReadFile(fn)
		if err != nil {
			fmt.Fprintln(os.Stderr, "godone2v:", err)
			os.Exit(2)
		}
		if bytes.Contains(src, []byte("//go:build verif")) {
			continue
		}
		f, err := parser.ParseFile(fset, fn, src, 0)
		if err != nil {
			fmt.Fprintln(os.Stderr, "godone2v:", err)
			os.Exit(2)
		}
		for _, d := range f.Decls {
			fd, ok := d.(*ast.FuncDecl)
			if !ok || fd.Body == nil {
				continue
			}
			recv := ""
			if fd.Recv != nil && len(fd.Recv.List) == 1 && len(fd.Recv.List[0].Names) == 1 {
				if st, ok := fd.Recv.List[0].Type.(*ast.StarExpr); ok {
					if id, ok := st.X.(*ast.Ident); ok && id.Name == "Server" {
						recv = fd.Recv.List[0].Names[0].Name
					}
				}
			}
			fns = append(fns, fnInfo{fd, recv})
		}
	}
	// 1. find the closer; refuse every other close / send / assignment of doneChan
	for _, fi := range fns {
		fd, recv := fi.fd, fi.recv
		if recv != "" && isCloserBody(fd.Body, recv) {
			if closer != "" {
				fail(fd.Pos(), "two functions close doneChan")
			}
			closer = fd.Name.Name
			continue
		}
		ast.Inspect(fd.Body, func(n ast.Node) bool {
			switch v := n.(type) {
			case *ast.CallExpr:
				if f, ok := v.Fun.(*ast.Ident); ok && f.Name == "close" && len(v.Args) == 1 {
					if s, ok := v.Args[0].(*ast.SelectorExpr); ok && s.Sel.Name == "doneChan" {
						fail(v.Pos(), "doneChan closed outside `select { case <-s.doneChan: default: close(s.doneChan) }`")
					}
				}
			case *ast.SendStmt:
				if s, ok := v.Chan.(*ast.SelectorExpr); ok && s.Sel.Name == "doneChan" {
					fail(v.Pos(), "something is sent on doneChan")
				}
			case *ast.AssignStmt:
				for _, l := range v.Lhs {
					if s, ok := l.(*ast.SelectorExpr); ok && s.Sel.Name == "doneChan" {
						fail(v.Pos(), "doneChan is replaced")
					}
				}
			}
			return true
		})
	}
	if closer == "" {
		fmt.Fprintln(os.Stderr, "godone2v: cannot translate: no function of the form select { case <-s.doneChan: default: close(s.doneChan) } found")
		os.Exit(2)
	}
	// 2. the call sites of the closer, with the lock state at the site
	for _, fi := range fns {
		fd, recv := fi.fd, fi.recv
		if fd.Name.Name == closer {
			continue
		}
		var walk func(list []ast.Stmt, held bool)
		walk = func(list []ast.Stmt, held bool) {
			for _, st := range list {
				switch {
				case recv != "" && isMuCall(st, recv, "Lock"):
					held = true
					continue
				case recv != "" && isMuCall(st, recv, "Unlock"):
					held = false
					continue
				}
				if d, ok := st.(*ast.DeferStmt); ok && recv != "" && isMuCallExpr(d.Call, recv, "Unlock") {
					continue // released at the return: held for the rest of the function
				}
				// the closer called in this statement (not inside nested blocks, which are walked below)?
				found := false
				shallow := func(n ast.Node) {
					ast.Inspect(n, func(x ast.Node) bool {
						switch v := x.(type) {
						case *ast.BlockStmt, *ast.FuncLit:
							return false
						case *ast.CallExpr:
							if s, ok := v.Fun.(*ast.SelectorExpr); ok && s.Sel.Name == closer {
								found = true
								sites = append(sites, site{fd.Name.Name, held, v.Pos()})
							}
						}
						return true
					})
				}
				switch v := st.(type) {
				case *ast.BlockStmt:
					walk(v.List, held)
				case *ast.IfStmt:
					if v.Init != nil {
						shallow(v.Init)
					}
					shallow(v.Cond)
					walk(v.Body.List, held)
					if v.Else != nil {
						walk([]ast.Stmt{v.Else}, held)
					}
				case *ast.ForStmt:
					walk(v.Body.List, held)
				case *ast.RangeStmt:
					walk(v.Body.List, held)
				case *ast.LabeledStmt:
					walk([]ast.Stmt{v.Stmt}, held)
				case *ast.SwitchStmt:
					for _, c := range v.Body.List {
						walk(c.(*ast.CaseClause).Body, held)
					}
				case *ast.SelectStmt:
					for _, c := range v.Body.List {
						walk(c.(*ast.CommClause).Body, held)
					}
				case *ast.GoStmt:
					ast.Inspect(v, func(x ast.Node) bool {
						if c, ok := x.(*ast.CallExpr); ok {
							if s, ok := c.Fun.(*ast.SelectorExpr); ok && s.Sel.Name == closer {
								fail(c.Pos(), "%s called from a go statement", closer)
							}
						}
						return true
					})
				default:
					shallow(st)
				}
				_ = found
			}
		}
		walk(fd.Body.List, false)
		// function literals: a call of the closer inside one is refused
		ast.Inspect(fd.Body, func(x ast.Node) bool {
			if fl, ok := x.(*ast.FuncLit); ok {
				ast.Inspect(fl.Body, func(y ast.Node) bool {
					if c, ok := y.(*ast.CallExpr); ok {
						if s, ok := c.Fun.(*ast.SelectorExpr); ok && s.Sel.Name == closer {
							fail(c.Pos(), "%s called inside a function literal", closer)
						}
					}
					return true
				})
				return false
			}
			return true
		})
	}
	if len(sites) == 0 {
		fmt.Fprintln(os.Stderr, "godone2v: cannot translate: nobody calls", closer)
		os.Exit(2)
	}
	var out strings.Builder
	out.WriteString("(* GENERATED by tools/godone2v from server/*.go on every run - do not edit.\n")
	fmt.Fprintf(&out, "   The one place that closes Server.doneChan is %s (check, then close); its call sites, with whether s.mu is\n   held there. *)\n", closer)
	out.WriteString("From Coq Require Import List String.\nImport ListNotations.\nOpen Scope string_scope.\n\n")
	out.WriteString("Definition done_sites : list (string * bool) := [\n")
	for i, s := range sites {
		sep := ";"
		if i == len(sites)-1 {
			sep = ""
		}
		fmt.Fprintf(&out, "  (\"%s\", %v)%s   (* %s *)\n", s.fn, s.held, sep, filepath.Base(fset.Position(s.pos).String()))
	}
	out.WriteString("].\n")
	fmt.Print(out.String())
}
