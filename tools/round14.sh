#!/bin/sh
# round3.sh <Cxx>: confirm a round-14 sub-agent change (worktree /tmp/mut14/Cxx) and store it as seeded/Cxx-r14
set -e
p=$1; wt=/tmp/mut14/$p
mkdir -p $wt/_out
cp $wt/patch.diff $wt/_out/patch.diff
demo=$(cd $wt && git ls-files --others --exclude-standard | grep "zz_demo_.*_test.go" | head -1)
cp $wt/$demo $wt/_out/
[ -f $wt/NOTES.md ] && cp $wt/NOTES.md $wt/_out/notes.md
python3 /verif/tools/mutants.py confirm $p $wt $p-r14
