#!/bin/sh
# usage: goal_at.sh <file.v relative to coq/> <line>   -- prints the goal just before that line
cd /verif/coq
f=$1; n=$2
head -n $((n-1)) $f > /tmp/_goal.v
echo "Show. Abort." >> /tmp/_goal.v
cp /tmp/_goal.v ./_Goal.v
coqc -Q . RPCX _Goal.v 2>&1 | tail -${3:-60}
rm -f _Goal.v _Goal.vo _Goal.glob _Goal.vok _Goal.vos ._Goal.aux
