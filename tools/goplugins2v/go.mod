module goplugins2v

go 1.21
