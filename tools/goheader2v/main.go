// goheader2v translates the accessor methods of protocol.Header (protocol/message.go) into
// Gallina definitions over bytes-as-N (Wire/HeaderGen.v).  It understands exactly the expression
// language those one-liners use and refuses (exit 2) anything else, so that a rewrite it cannot
// translate is reported instead of being silently mistranslated.
//
//	goheader2v /repo/protocol/message.go > HeaderGen.v
package main

import (
	"fmt"
	"go/ast"
	"go/parser"
	"go/token"
	"os"
	"sort"
	"strconv"
	"strings"
)

var wanted = map[string]bool{
	"CheckMagicNumber": true, "Version": true, "SetVersion": true, "MessageType": true, "SetMessageType": true,
	"IsHeartbeat": true, "SetHeartbeat": true, "IsOneway": true, "SetOneway": true,
	"CompressType": true, "SetCompressType": true, "MessageStatusType": true, "SetMessageStatusType": true,
	"SerializeType": true, "SetSerializeType": true, "Seq": true, "SetSeq": true,
}

// named byte types of the package: a conversion T(x) truncates to a byte
var byteTypes = map[string]bool{"byte": true, "uint8": true, "MessageType": true, "MessageStatusType": true,
	"CompressType": true, "SerializeType": true}

type tr struct {
	recv   string
	consts map[string]string
}

func fail(pos token.Position, format string, a ...interface{}) {
	fmt.Fprintf(os.Stderr, "goheader2v: %s: cannot translate: %s\n", pos, fmt.Sprintf(format, a...))
	os.Exit(2)
}

var fset = token.NewFileSet()

func (t *tr) expr(e ast.Expr) string {
	switch v := e.(type) {
	case *ast.ParenExpr:
		return t.expr(v.X)
	case *ast.BasicLit:
		if v.Kind != token.INT {
			fail(fset.Position(v.Pos()), "literal %s", v.Value)
		}
		n, err := strconv.ParseUint(v.Value, 0, 64)
		if err != nil {
			fail(fset.Position(v.Pos()), "literal %s", v.Value)
		}
		return fmt.Sprintf("%d", n)
	case *ast.Ident:
		if c, ok := t.consts[v.Name]; ok {
			return c
		}
		return v.Name
	case *ast.IndexExpr:
		if id, ok := v.X.(*ast.Ident); ok && id.Name == t.recv {
			if lit, ok := v.Index.(*ast.BasicLit); ok && lit.Kind == token.INT {
				return fmt.Sprintf("(byte_at %s %s)", t.recv, lit.Value)
			}
		}
		fail(fset.Position(v.Pos()), "index expression")
	case *ast.BinaryExpr:
		x, y := t.expr(v.X), t.expr(v.Y)
		switch v.Op {
		case token.AND:
			return fmt.Sprintf("(N.land %s %s)", x, y)
		case token.OR:
			return fmt.Sprintf("(N.lor %s %s)", x, y)
		case token.XOR:
			return fmt.Sprintf("(N.lxor %s %s)", x, y)
		case token.AND_NOT:
			return fmt.Sprintf("(N.ldiff %s %s)", x, y)
		case token.SHL:
			return fmt.Sprintf("(shl8 %s %s)", x, y) // all operands here are byte-typed: uint8 << k truncates
		case token.SHR:
			return fmt.Sprintf("(N.shiftr %s %s)", x, y)
		case token.EQL:
			return fmt.Sprintf("(N.eqb %s %s)", x, y)
		case token.NEQ:
			return fmt.Sprintf("(negb (N.eqb %s %s))", x, y)
		}
		fail(fset.Position(v.Pos()), "operator %s", v.Op)
	case *ast.CallExpr:
		// conversions T(x)
		if id, ok := v.Fun.(*ast.Ident); ok && len(v.Args) == 1 {
			if byteTypes[id.Name] {
				return fmt.Sprintf("(b8 %s)", t.expr(v.Args[0]))
			}
		}
		// binary.BigEndian.Uint64(h[4:])
		if sel, ok := v.Fun.(*ast.SelectorExpr); ok && sel.Sel.Name == "Uint64" && len(v.Args) == 1 {
			if off, ok := t.tailSlice(v.Args[0]); ok {
				return fmt.Sprintf("(get64 (skipn %s %s))", off, t.recv)
			}
		}
		fail(fset.Position(v.Pos()), "call")
	}
	fail(fset.Position(e.Pos()), "expression %T", e)
	return ""
}

// h[k:]  ->  k
func (t *tr) tailSlice(e ast.Expr) (string, bool) {
	s, ok := e.(*ast.SliceExpr)
	if !ok || s.High != nil || s.Max != nil || s.Low == nil {
		return "", false
	}
	id, ok := s.X.(*ast.Ident)
	if !ok || id.Name != t.recv {
		return "", false
	}
	lit, ok := s.Low.(*ast.BasicLit)
	if !ok || lit.Kind != token.INT {
		return "", false
	}
	return lit.Value, true
}

// a statement that updates the header; returns the Gallina term of the new header
func (t *tr) stmt(s ast.Stmt) string {
	switch v := s.(type) {
	case *ast.AssignStmt:
		if len(v.Lhs) == 1 && len(v.Rhs) == 1 && v.Tok == token.ASSIGN {
			if ix, ok := v.Lhs[0].(*ast.IndexExpr); ok {
				if id, ok := ix.X.(*ast.Ident); ok && id.Name == t.recv {
					if lit, ok := ix.Index.(*ast.BasicLit); ok && lit.Kind == token.INT {
						// the assigned value is converted to the element type byte
						return fmt.Sprintf("(upd %s (b8 %s) %s)", lit.Value, t.expr(v.Rhs[0]), t.recv)
					}
				}
			}
		}
	case *ast.IfStmt:
		if v.Init == nil && v.Else != nil {
			thn, ok1 := single(v.Body)
			els, ok2 := v.Else.(*ast.BlockStmt)
			if ok1 && ok2 {
				if e2, ok := single(els); ok {
					return fmt.Sprintf("(if %s then %s else %s)", t.expr(v.Cond), t.stmt(thn), t.stmt(e2))
				}
			}
		}
	case *ast.ExprStmt:
		// binary.BigEndian.PutUint64(h[4:], seq)
		if c, ok := v.X.(*ast.CallExpr); ok {
			if sel, ok := c.Fun.(*ast.SelectorExpr); ok && sel.Sel.Name == "PutUint64" && len(c.Args) == 2 {
				if off, ok := t.tailSlice(c.Args[0]); ok {
					return fmt.Sprintf("(firstn %s %s ++ put64 %s)", off, t.recv, t.expr(c.Args[1]))
				}
			}
		}
	}
	fail(fset.Position(s.Pos()), "statement %T", s)
	return ""
}

func single(b *ast.BlockStmt) (ast.Stmt, bool) {
	if b == nil || len(b.List) != 1 {
		return nil, false
	}
	return b.List[0], true
}

func main() {
	if len(os.Args) != 2 {
		fmt.Fprintln(os.Stderr, "usage: goheader2v message.go")
		os.Exit(2)
	}
	f, err := parser.ParseFile(fset, os.Args[1], nil, 0)
	if err != nil {
		fmt.Fprintln(os.Stderr, err)
		os.Exit(2)
	}
	consts := map[string]string{}
	for _, d := range f.Decls {
		if g, ok := d.(*ast.GenDecl); ok && g.Tok == token.CONST {
			for _, sp := range g.Specs {
				vs := sp.(*ast.ValueSpec)
				for i, n := range vs.Names {
					if n.Name == "magicNumber" && i < len(vs.Values) {
						if lit, ok := vs.Values[i].(*ast.BasicLit); ok {
							v, _ := strconv.ParseUint(lit.Value, 0, 64)
							consts["magicNumber"] = fmt.Sprintf("%d", v)
						}
					}
				}
			}
		}
	}
	defs := map[string]string{}
	for _, d := range f.Decls {
		fd, ok := d.(*ast.FuncDecl)
		if !ok || fd.Recv == nil || len(fd.Recv.List) != 1 || !wanted[fd.Name.Name] {
			continue
		}
		rt := fd.Recv.List[0].Type
		if st, ok := rt.(*ast.StarExpr); ok {
			rt = st.X
		}
		if id, ok := rt.(*ast.Ident); !ok || id.Name != "Header" {
			continue
		}
		if len(fd.Recv.List[0].Names) != 1 {
			fail(fset.Position(fd.Pos()), "receiver")
		}
		t := &tr{recv: fd.Recv.List[0].Names[0].Name, consts: consts}
		var params []string
		for _, p := range fd.Type.Params.List {
			ty := "N"
			if id, ok := p.Type.(*ast.Ident); ok && id.Name == "bool" {
				ty = "bool"
			}
			for _, n := range p.Names {
				params = append(params, fmt.Sprintf("(%s : %s)", n.Name, ty))
			}
		}
		st, ok := single(fd.Body)
		if !ok {
			fail(fset.Position(fd.Pos()), "%s: body is not a single statement", fd.Name.Name)
		}
		var body, rty string
		if ret, ok := st.(*ast.ReturnStmt); ok {
			if len(ret.Results) != 1 {
				fail(fset.Position(ret.Pos()), "return")
			}
			body = t.expr(ret.Results[0])
			rty = "N"
			if r := fd.Type.Results; r != nil && len(r.List) == 1 {
				if id, ok := r.List[0].Type.(*ast.Ident); ok && id.Name == "bool" {
					rty = "bool"
				}
			}
		} else {
			body = t.stmt(st)
			rty = "bytes"
		}
		defs[fd.Name.Name] = fmt.Sprintf("Definition %s (%s : bytes) %s : %s :=\n  %s.\n", fd.Name.Name, t.recv,
			strings.Join(params, " "), rty, body)
	}
	var missing []string
	for n := range wanted {
		if _, ok := defs[n]; !ok {
			missing = append(missing, n)
		}
	}
	if len(missing) > 0 {
		sort.Strings(missing)
		fmt.Fprintf(os.Stderr, "goheader2v: accessor(s) not found: %v\n", missing)
		os.Exit(2)
	}
	fmt.Println("(* GENERATED by tools/goheader2v from protocol/message.go on every run.  Do not edit. *)")
	fmt.Println("From Coq Require Import List NArith Bool.")
	fmt.Println("From RPCX Require Import Wire.Bytes.")
	fmt.Println("Import ListNotations.")
	fmt.Println("Open Scope N_scope.")
	fmt.Println()
	names := make([]string, 0, len(defs))
	for n := range defs {
		names = append(names, n)
	}
	sort.Strings(names)
	for _, n := range names {
		fmt.Println(defs[n])
	}
}
