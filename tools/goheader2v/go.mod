module goheader2v

go 1.23.0
